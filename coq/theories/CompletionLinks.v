(* CompletionLinks.v — the links an editor is handed (LSP stage of Check_C15.v): sub-properties 5 and 6 of
   the per-run check are theorems about the model's answers on the executable domain of the check
   (canonical keys, titles without `]`): every link of the completion list the model writes for a note,
   read back as `[text](url)` and resolved from the directory of the ASKING note, is the note it was
   written for, and every note of the library is offered; the reference an extraction leaves behind
   resolves to the created note.  The list written for a note in ANOTHER directory does not have the
   property (the witness of the seeded change r3-C15: a completion list kept across requests). *)
From Coq Require Import String List Ascii Bool NArith Lia.
From IweV Require Import Str Harness RelPath RelPathFacts RelPathLaws Check_C15 RelPathLawsB.
Import ListNotations.
Local Open Scope string_scope.
Local Open Scope list_scope.

Definition RB : ascii := "]"%char.

(* ---------- `[text](url)` is read back as it was written ------------------------------------------------ *)

Lemma split_once_aux_nochar t u acc :
  contains_char RB t = false ->
  split_once_aux "](" (t +++ String "]" (String "(" u)) acc = Some (srev acc +++ t, u).
Proof.
  revert acc; induction t as [|c t IH]; intros acc H.
  - cbn [String.append]. unfold split_once_aux.
    change (strip_prefix "](" (String "]" (String "(" u))) with (Some u).
    now rewrite append_nil_r.
  - cbn [contains_char] in H. destruct (Ascii.eqb c RB) eqn:E; [discriminate|].
    cbn [String.append split_once_aux].
    assert (Hn : strip_prefix "](" (String c (t +++ String "]" (String "(" u))) = None).
    { cbn [strip_prefix]. rewrite Ascii.eqb_sym. unfold RB in E. now rewrite E. }
    rewrite Hn. rewrite IH by exact H. rewrite srev_cons, sapp_assoc. reflexivity.
Qed.

Lemma strip_suffix_app p s : strip_suffix p (s +++ p) = Some s.
Proof. unfold strip_suffix. now rewrite srev_append, strip_prefix_app, srev_involutive. Qed.

Theorem parse_link_write t u :
  contains_char RB t = false -> parse_link (write_link t u) = Some (t, u).
Proof.
  intros H. unfold parse_link, write_link.
  change (strip_prefix "[" ("[" +++ t +++ "](" +++ u +++ ")")) with (Some (t +++ "](" +++ u +++ ")")).
  unfold split_once. change ("](" +++ u +++ ")") with (String "]" (String "(" (u +++ ")"))).
  rewrite split_once_aux_nochar by exact H.
  cbn [srev srev_app String.append]. now rewrite strip_suffix_app.
Qed.

(* the hypothesis is needed: a `]` followed by `(` in the text ends the text early *)
Theorem parse_link_bracket_refuted :
  exists t u, parse_link (write_link t u) <> Some (t, u).
Proof. exists "a](b", "k". vm_compute. discriminate. Qed.

(* ---------- one link --------------------------------------------------------------------------------- *)

Theorem item_target_written A K t ext :
  canonicalb A = true -> canonicalb K = true -> ext = MD \/ ext = "" ->
  contains_char RB t = false ->
  item_target A (write_link t (ref_url (to_rel_link_url K (key_parent A)) ext)) = Some (t, K).
Proof.
  intros HA HK Hext Ht. unfold item_target. rewrite parse_link_write by exact Ht.
  rewrite C15_roundtrip_written_b; auto using C15_parent_b.
Qed.

(* ---------- the library ------------------------------------------------------------------------------ *)

Lemma lib_title_in (l : lib) k t :
  NoDup (map fst l) -> In (k, t) l -> lib_title l k = Some t.
Proof.
  induction l as [|[k' t'] l IH]; intros Hnd Hin; [contradiction|].
  cbn [map fst] in Hnd. inversion Hnd as [|? ? Hni Hnd']; subst.
  cbn [lib_title]. destruct Hin as [[= -> ->]|Hin].
  - now rewrite String.eqb_refl.
  - destruct (String.eqb_spec k' k) as [->|_].
    + exfalso. apply Hni. apply (in_map fst) in Hin. exact Hin.
    + now apply IH.
Qed.

Definition lib_okb (l : lib) : bool :=
  forallb (fun kt => canonicalb (fst kt) && negb (contains_char RB (title_text (snd kt)))) l.

(* ---------- sub-property 5 on the model's answer ------------------------------------------------------- *)

Theorem C15_completion_links_resolve (l : lib) (A : string) :
  canonicalb A = true -> lib_okb l = true -> NoDup (map fst l) ->
  completion_ok l A (completion_items l A) = true.
Proof.
  intros HA Hl Hnd. unfold completion_ok, completion_items, lib_okb in *.
  rewrite forallb_forall in Hl.
  assert (Htarget : forall kt, In kt l ->
            item_target A (snd (completion_item A kt)) = Some (title_text (snd kt), fst kt)).
  { intros kt Hin. specialize (Hl kt Hin). apply andb_prop in Hl as [Hk Ht].
    apply negb_true_iff in Ht. unfold completion_item. cbn [snd].
    apply item_target_written; auto. }
  apply andb_true_intro; split.
  - apply forallb_forall. intros it Hin. apply in_map_iff in Hin as (kt & <- & Hin).
    rewrite (Htarget kt Hin). destruct kt as [k t]. cbn [fst snd].
    rewrite (lib_title_in l k t Hnd Hin). apply String.eqb_refl.
  - apply forallb_forall. intros kt Hin. apply existsb_exists.
    exists (completion_item A kt). split; [now apply in_map|].
    rewrite (Htarget kt Hin). apply String.eqb_refl.
Qed.

(* the list written for a note in another directory does not have the property: what a completion list
   kept from an earlier request (seeded change r3-C15) hands to the second note *)
Theorem C15_completion_other_directory_refuted :
  exists (l : lib) (A B : string),
    canonicalb A = true /\ canonicalb B = true /\ lib_okb l = true /\ NoDup (map fst l) /\
    completion_ok l A (completion_items l A) = true /\
    completion_ok l B (completion_items l B) = true /\
    completion_ok l B (completion_items l A) = false.
Proof.
  exists [("top", Some "top-level"); ("dir/sub", Some "sub-document")], "top", "dir/sub".
  repeat split; try (vm_compute; reflexivity).
  repeat constructor; cbn; intuition discriminate.
Qed.

(* two notes of one directory get the same list: the directory of the asking note is all that counts *)
Theorem C15_completion_same_directory (l : lib) (A B : string) :
  key_parent A = key_parent B -> completion_items l A = completion_items l B.
Proof.
  intros H. unfold completion_items. apply map_ext. intros kt. unfold completion_item. now rewrite H.
Qed.

(* the correspondence of one answer accepts the model's own answer *)
Lemma item_eqb_refl x : item_eqb x x = true.
Proof. unfold item_eqb, seqb. now rewrite !String.eqb_refl. Qed.

Theorem same_items_refl l : same_items l l = true.
Proof.
  unfold same_items. rewrite Nat.eqb_refl. cbn [andb].
  assert (H : forallb (fun x => item_in x l) l = true).
  { apply forallb_forall. intros x Hin. unfold item_in. apply existsb_exists. exists x. split; [exact Hin | apply item_eqb_refl]. }
  now rewrite H.
Qed.

(* an answer that passes the correspondence stage (the model's items, in any order) has the property *)
Lemma item_eqb_eq x y : item_eqb x y = true -> x = y.
Proof.
  destruct x, y. unfold item_eqb, seqb. cbn [fst snd]. intros H. apply andb_prop in H as [H1 H2].
  apply String.eqb_eq in H1, H2. now subst.
Qed.

Lemma same_items_in a b : same_items a b = true -> forall x, In x a <-> In x b.
Proof.
  unfold same_items. intros H. apply andb_prop in H as [H Hb]. apply andb_prop in H as [_ Ha].
  rewrite forallb_forall in Ha, Hb. intros x. split; intros Hin.
  - specialize (Ha x Hin). unfold item_in in Ha. apply existsb_exists in Ha as (y & Hy & E).
    apply item_eqb_eq in E. now subst.
  - specialize (Hb x Hin). unfold item_in in Hb. apply existsb_exists in Hb as (y & Hy & E).
    apply item_eqb_eq in E. now subst.
Qed.

Theorem C15_completion_observed_ok (l : lib) (A : string) items :
  canonicalb A = true -> lib_okb l = true -> NoDup (map fst l) ->
  same_items (completion_items l A) items = true ->
  completion_ok l A items = true.
Proof.
  intros HA Hl Hnd Hsame. pose proof (C15_completion_links_resolve l A HA Hl Hnd) as Hm.
  pose proof (same_items_in _ _ Hsame) as Hin.
  unfold completion_ok in *. apply andb_prop in Hm as [Hm1 Hm2].
  rewrite forallb_forall in Hm1, Hm2. apply andb_true_intro; split.
  - apply forallb_forall. intros it Hit. apply Hm1. now apply Hin.
  - apply forallb_forall. intros kt Hkt. specialize (Hm2 kt Hkt).
    apply existsb_exists in Hm2 as (it & Hit & E). apply existsb_exists. exists it. split; [now apply Hin | exact E].
Qed.

(* ---------- sub-property 6 on the model's answer ------------------------------------------------------- *)

Theorem C15_extract_reference_resolves ext src id title :
  canonicalb src = true -> canonicalb (extract_new_key src id) = true -> ext = MD \/ ext = "" ->
  contains_char RB title = false ->
  extract_ok src title (extract_new_key src id) [extract_link ext src id title] = true.
Proof.
  intros Hs Hn Hext Ht. unfold extract_ok, extract_link. cbn [length Nat.eqb negb andb forallb].
  rewrite item_target_written by assumption. unfold seqb. now rewrite !String.eqb_refl.
Qed.

(* ---------- a whole session: the model's answers never flag a sub-property ------------------------------- *)

(* the answers of the model to the steps of a session (what `run_steps` compares the observations with) *)
Definition model_step (ext : string) (l : lib) (s : step) : step :=
  match s with
  | SComplete a _ => SComplete a (Some (completion_items l a))
  | SChange k t _ => SChange k t true
  | SExtract src title id _ =>
      SExtract src title id (Some (Some (extract_new_key src id, [extract_link ext src id title])))
  end.
Fixpoint model_steps (ext : string) (l : lib) (steps : list step) : list step :=
  match steps with
  | [] => []
  | s :: r => model_step ext l s ::
              model_steps ext (match s with SChange k t _ => lib_update l k t | _ => l end) r
  end.

(* the steps stay on the domain: canonical asking / changed / created keys, titles without `]` *)
Definition step_okb (s : step) : bool :=
  match s with
  | SComplete a _ => canonicalb a
  | SChange k t _ => canonicalb k && negb (contains_char RB (title_text t))
  | SExtract src title id _ =>
      canonicalb src && canonicalb (extract_new_key src id) && negb (contains_char RB title)
  end.

Lemma lib_update_keys l k t :
  NoDup (map fst l) -> NoDup (map fst (lib_update l k t)) /\
  (forall x, In x (map fst (lib_update l k t)) -> x = k \/ In x (map fst l)).
Proof.
  induction l as [|[k' t'] l IH]; intros Hnd.
  - cbn. split; [repeat constructor; intros [] | intros x [<-|[]]; now left].
  - cbn [lib_update]. inversion Hnd as [|? ? Hni Hnd']; subst.
    destruct (String.eqb_spec k' k) as [->|Hne].
    + cbn [map fst]. split; [now constructor|]. intros x [<-|Hx]; [now left | right; now right].
    + destruct (IH Hnd') as [IH1 IH2]. cbn [map fst]. split.
      * constructor; [|exact IH1]. intros Hin. apply IH2 in Hin as [->|Hin]; [now apply Hne | now apply Hni].
      * intros x [<-|Hx]; [right; now left|]. apply IH2 in Hx as [->|Hx]; [now left | right; now right].
Qed.

Lemma lib_update_okb l k t :
  lib_okb l = true -> canonicalb k = true -> contains_char RB (title_text t) = false ->
  lib_okb (lib_update l k t) = true.
Proof.
  unfold lib_okb. induction l as [|[k' t'] l IH]; intros Hl Hk Ht.
  - cbn. now rewrite Hk, Ht.
  - cbn [lib_update]. cbn [forallb] in Hl. apply andb_prop in Hl as [H1 H2].
    destruct (String.eqb k' k).
    + cbn [forallb fst snd]. now rewrite Hk, Ht, H2.
    + cbn [forallb]. now rewrite H1, IH.
Qed.

Theorem C15_session_model_ok ext (steps : list step) : forall (l : lib),
  ext = MD \/ ext = "" ->
  lib_okb l = true -> NoDup (map fst l) -> forallb step_okb steps = true ->
  run_steps ext l (model_steps ext l steps) = ([], []).
Proof.
  intros l Hext. revert l. induction steps as [|s r IH]; intros l Hl Hnd Hs; [reflexivity|].
  cbn [forallb] in Hs. apply andb_prop in Hs as [Hs Hr].
  destruct s as [a obs | k t ok | src title id obs]; cbn [model_steps model_step run_steps step_okb] in *.
  - rewrite (IH l Hl Hnd Hr). rewrite same_items_refl, C15_completion_links_resolve by assumption. reflexivity.
  - apply andb_prop in Hs as [Hk Ht]. apply negb_true_iff in Ht.
    rewrite (IH (lib_update l k t)); [reflexivity | now apply lib_update_okb | now apply lib_update_keys | exact Hr].
  - apply andb_prop in Hs as [Hs Ht]. apply andb_prop in Hs as [Hsrc Hnew]. apply negb_true_iff in Ht.
    rewrite (IH l Hl Hnd Hr). unfold seqb at 1. rewrite String.eqb_refl.
    rewrite (list_eqb_refl seqb String.eqb_refl). cbn [andb flag].
    rewrite C15_extract_reference_resolves by assumption. reflexivity.
Qed.

(* non-vacuity: a session on the domain, with notes in three directories, a key ending in `.md`, a note
   without a title, a change in between and an extraction in a sub-directory *)
Example C15_session_model_nonvacuous :
  let l : lib := [("top", Some "top-level"); ("d/a.md", Some "dotted"); ("d/e/a", None); ("other/a", Some "top-level")] in
  let steps := [SComplete "top" None; SComplete "d/e/a" None; SChange "d/e/a" (Some "now") true;
                SComplete "other/a" None; SExtract "d/e/a" "Part" "5" None; SComplete "d/a.md" None] in
  lib_okb l = true /\ NoDup (map fst l) /\ forallb step_okb steps = true /\
  completion_items l "d/e/a" =
    [(LINK_LABEL +++ "top-level", "[top-level](../../top)"); (LINK_LABEL +++ "dotted", "[dotted](../a.md.md)");
     (LINK_LABEL, "[](a)"); (LINK_LABEL +++ "top-level", "[top-level](../../other/a)")] /\
  extract_new_key "d/e/a" "5" = "d/e/5" /\ extract_link MD "d/e/a" "5" "Part" = "[Part](5.md)".
Proof.
  repeat split; try (vm_compute; reflexivity).
  repeat constructor; cbn; intuition discriminate.
Qed.
