(* RenameFacts.v — proofs about Rename.v (C08): what change_key rewrites and what it leaves
   alone (by induction over inlines and trees of any size), the taken-name guard, totality of
   rename_core, and the end-to-end statement for a rename issued from a note in any directory
   (rename_anywhere; rename_root is its instance for a note in the library root). *)
From IweV Require Import Str Text Ast RelPath RelPathFacts Arena Project Library Rename.
Local Open Scope string_scope.
Local Open Scope list_scope.

(* ---------- lists ------------------------------------------------------------------------------- *)

Lemma flat_map_map {A B C} (f : A -> B) (g : B -> list C) l :
  flat_map g (map f l) = flat_map (fun x => g (f x)) l.
Proof. induction l as [|x l IH]; cbn; [reflexivity | now rewrite IH]. Qed.

Lemma map_flat_map {A B C} (f : A -> list B) (g : B -> C) l :
  map g (flat_map f l) = flat_map (fun x => map g (f x)) l.
Proof. induction l as [|x l IH]; cbn; [reflexivity | now rewrite map_app, IH]. Qed.

Lemma flat_map_ext_Forall {A B} (f g : A -> list B) l :
  Forall (fun x => f x = g x) l -> flat_map f l = flat_map g l.
Proof. induction 1 as [|x l H _ IH]; cbn; [reflexivity | now rewrite H, IH]. Qed.

Lemma map_ext_Forall {A B} (f g : A -> B) l :
  Forall (fun x => f x = g x) l -> map f l = map g l.
Proof. induction 1 as [|x l H _ IH]; cbn; [reflexivity | now rewrite H, IH]. Qed.

Lemma map_id_Forall {A} (f : A -> A) l : Forall (fun x => f x = x) l -> map f l = l.
Proof. induction 1 as [|x l H _ IH]; cbn; [reflexivity | now rewrite H, IH]. Qed.

Lemma Forall_flat_map_in {A B} (P : B -> Prop) (f : A -> list B) l :
  (forall o, In o (flat_map f l) -> P o) -> Forall (fun x => forall o, In o (f x) -> P o) l.
Proof.
  intros H. apply Forall_forall. intros x Hx o Ho. apply H. apply in_flat_map. now exists x.
Qed.

(* ---------- change_key and the occurrences it looks at ------------------------------------------ *)

Lemma link_hits_occ old url title lt l :
  link_hits old url = occ_hits old (OInline url title lt l).
Proof.
  unfold link_hits, occ_hits, occ_key. destruct (is_ref_url url); reflexivity.
Qed.

Lemma change_key_inline_occs fx old new i :
  inline_occs (change_key_inline fx old new i) = map (retarget fx old new) (inline_occs i).
Proof.
  induction i as [s|s|s|l IH|l IH|l IH|u t lt l _|u t l _] using inline_ind'; try reflexivity.
  1-3: cbn [change_key_inline inline_occs]; rewrite flat_map_map, map_flat_map;
       apply flat_map_ext_Forall; exact IH.
  cbn [change_key_inline inline_occs map]. unfold retarget.
  rewrite <- (link_hits_occ old u t lt l). destruct (link_hits old u); reflexivity.
Qed.

Lemma change_key_inlines_occs fx old new l :
  flat_map inline_occs (change_key_inlines fx old new l) = map (retarget fx old new) (flat_map inline_occs l).
Proof.
  unfold change_key_inlines. rewrite flat_map_map, map_flat_map.
  apply flat_map_ext_Forall, Forall_forall. intros x _. apply change_key_inline_occs.
Qed.

Lemma change_key_node_occs fx old new n :
  node_occs (change_key_node fx old new n) = map (retarget fx old new) (node_occs n).
Proof.
  destruct n; try reflexivity; cbn [change_key_node node_occs].
  - apply change_key_inlines_occs.
  - apply change_key_inlines_occs.
  - cbn [map]. unfold retarget, occ_hits, occ_key. destruct (String.eqb key old); reflexivity.
Qed.

(* every occurrence, in order: those that name [old] are retargeted, the others are returned
   as they were *)
Theorem change_key_tree_occs fx old new t :
  tree_occs (change_key_tree fx old new t) = map (retarget fx old new) (tree_occs t).
Proof.
  induction t as [i n c IH] using tree_ind'.
  cbn [change_key_tree tree_occs]. rewrite map_app, change_key_node_occs. f_equal.
  rewrite flat_map_map, map_flat_map. apply flat_map_ext_Forall. exact IH.
Qed.

(* a key as iwe writes it into a link: a note url (the url of a link in the graph is its key as it
   is, `Key::name`: also a key ending in `.md` - the pinned tree stripped it again - is kept) *)
Definition link_key (new : string) : Prop := is_ref_url new = true.

Lemma link_key_from_file_name new : ends_with MD new = false -> key_from_file_name new = new.
Proof. intros H. unfold key_from_file_name. now apply strip_md_none. Qed.

Definition occ_text_kept (fx : fixes) (o o' : occ) : Prop :=
  match o, o' with
  | OBlock _ text rt, OBlock _ text' rt' => text' = text /\ rt' = rt
  | OInline _ title lt l, OInline _ title' lt' l' =>
      title' = title /\ lt' = lt /\ l' = (if fx_label fx then l else [])
  | _, _ => False
  end.

Lemma retarget_spec fx old new o :
  link_key new ->
  (occ_hits old o = true ->
     occ_key (retarget fx old new o) = Some new /\ occ_text_kept fx o (retarget fx old new o)) /\
  (occ_hits old o = false -> retarget fx old new o = o).
Proof.
  intros Href. unfold link_key in Href. unfold retarget. split; intros H; rewrite H; [|reflexivity].
  destruct o as [k text rt|u title lt l]; cbn [occ_key occ_text_kept].
  - repeat split.
  - rewrite Href. unfold key_name. repeat split.
Qed.

Theorem change_key_targets fx old new t :
  link_key new ->
  Forall2 (fun o o' =>
             (occ_hits old o = true -> occ_key o' = Some new /\ occ_text_kept fx o o') /\
             (occ_hits old o = false -> o' = o))
          (tree_occs t) (tree_occs (change_key_tree fx old new t)).
Proof.
  intros Hk. rewrite change_key_tree_occs.
  induction (tree_occs t) as [|o l IH]; cbn [map]; constructor; [|exact IH].
  apply retarget_spec, Hk.
Qed.

(* ---------- no occurrence names [old]: nothing changes ------------------------------------------- *)

Lemma change_key_inline_noop fx old new i :
  (forall o, In o (inline_occs i) -> occ_hits old o = false) -> change_key_inline fx old new i = i.
Proof.
  induction i as [s|s|s|l IH|l IH|l IH|u t lt l _|u t l _] using inline_ind'; try reflexivity.
  1-3: cbn [inline_occs change_key_inline]; intros H; f_equal; apply map_id_Forall;
       rewrite Forall_forall in *; intros x Hx; apply IH; [exact Hx|];
       intros o Ho; apply H, in_flat_map; exists x; split; assumption.
  cbn [inline_occs change_key_inline]. intros H.
  rewrite (link_hits_occ old u t lt l), (H _ (or_introl eq_refl)). reflexivity.
Qed.

Lemma change_key_inlines_noop fx old new l :
  (forall o, In o (flat_map inline_occs l) -> occ_hits old o = false) -> change_key_inlines fx old new l = l.
Proof.
  intros H. apply map_id_Forall, Forall_forall. intros x Hx. apply change_key_inline_noop.
  intros o Ho. apply H, in_flat_map. exists x; split; assumption.
Qed.

Theorem change_key_noop fx old new t :
  (forall o, In o (tree_occs t) -> occ_hits old o = false) -> change_key_tree fx old new t = t.
Proof.
  induction t as [i n c IH] using tree_ind'. cbn [tree_occs change_key_tree]. intros H. f_equal.
  - assert (Hn : forall o, In o (node_occs n) -> occ_hits old o = false)
      by (intros o Ho; apply H, in_or_app; now left).
    destruct n; try reflexivity; cbn [change_key_node node_occs] in *.
    + f_equal. now apply change_key_inlines_noop.
    + f_equal. now apply change_key_inlines_noop.
    + specialize (Hn _ (or_introl eq_refl)). unfold occ_hits, occ_key in Hn. now rewrite Hn.
  - apply map_id_Forall. rewrite Forall_forall in *. intros x Hx. apply IH; [exact Hx|].
    intros o Ho. apply H, in_or_app. right. apply in_flat_map. exists x; split; assumption.
Qed.

(* ---------- everything that is not a note-link destination (or, as found, text) stays ------------ *)

Lemma erase_change_key_inline fx old new i :
  is_ref_url new = true -> erase_inline (change_key_inline fx old new i) = erase_inline i.
Proof.
  intros Hn.
  induction i as [s|s|s|l IH|l IH|l IH|u t lt l _|u t l _] using inline_ind'; try reflexivity.
  1-3: cbn [change_key_inline erase_inline]; f_equal; rewrite map_map; apply map_ext_Forall; exact IH.
  cbn [change_key_inline]. unfold link_hits.
  destruct (is_ref_url u) eqn:Hu; cbn [andb]; [|reflexivity].
  destruct (String.eqb (key_name u) old); [|reflexivity].
  cbn [erase_inline]. now rewrite Hn, Hu.
Qed.

Theorem change_key_frame fx old new t :
  is_ref_url new = true -> erase_tree (change_key_tree fx old new t) = erase_tree t.
Proof.
  intros Hn. induction t as [i n c IH] using tree_ind'. cbn [change_key_tree erase_tree]. f_equal.
  - destruct n; try reflexivity; cbn [change_key_node erase_node]; f_equal;
      unfold change_key_inlines; rewrite map_map; apply map_ext_Forall, Forall_forall;
      intros x _; now apply erase_change_key_inline.
  - rewrite map_map. apply map_ext_Forall. exact IH.
Qed.

(* ---------- block reference text: preserved, or refreshed to the title -------------------------- *)

(* through the whole pipeline of one block reference: `collect` in the library (title table
   [ctx]), change_key, `collect` in the patch graph (no titles) *)
Theorem block_text_rule (ctx : titles) fx old new key text rt :
  exists text',
    pointer_node ctx (KRef key text rt) = Some (NRef key text' rt) /\
    renorm_node (change_key_node fx old new (NRef key text' rt))
      = NRef (if String.eqb key old then new else key) text' rt /\
    (text' = text \/ (rt = Regular /\ ctx key = Some text') \/ (rt = WikiLink /\ text' = "")).
Proof.
  destruct rt; cbn [pointer_node change_key_node renorm_node].
  - destruct (ctx key) as [t|] eqn:Ht.
    + exists t. repeat split. right. left. now split.
    + exists text. repeat split. now left.
  - exists "". repeat split. right. right. now split.
  - exists text. repeat split. now left.
Qed.

(* ---------- the library ---------------------------------------------------------------------------- *)

Lemma tl_find_in L k n : tl_find L k = Some n -> In n L /\ tn_key n = k.
Proof.
  unfold tl_find. intros H. apply find_some in H. destruct H as [Hin He].
  split; [exact Hin|]. now apply String.eqb_eq.
Qed.

Lemma tl_find_none L k : ~ In k (tl_keys L) -> tl_find L k = None.
Proof.
  intros H. destruct (tl_find L k) as [n|] eqn:E; [|reflexivity].
  apply tl_find_in in E. destruct E as [Hin <-]. exfalso. apply H. unfold tl_keys. now apply in_map.
Qed.

Lemma tl_find_nodup L n : NoDup (tl_keys L) -> In n L -> tl_find L (tn_key n) = Some n.
Proof.
  unfold tl_find, tl_keys. induction L as [|m L IH]; intros Hnd Hin; [destruct Hin|].
  cbn [find map] in *. inversion Hnd as [|? ? Hnot Hnd']; subst.
  destruct Hin as [->|Hin]; [now rewrite String.eqb_refl|].
  destruct (String.eqb_spec (tn_key m) (tn_key n)) as [E|_].
  - exfalso. apply Hnot. rewrite E. now apply in_map.
  - now apply IH.
Qed.

Lemma tl_find_some L k : In k (tl_keys L) -> exists n, tl_find L k = Some n.
Proof.
  unfold tl_find, tl_keys. induction L as [|m L IH]; intros H; [destruct H|].
  cbn [find map] in *. destruct (String.eqb_spec (tn_key m) k) as [E|NE]; [now exists m|].
  destruct H as [H|H]; [contradiction|]. now apply IH.
Qed.

(* ---------- the taken-name guard ------------------------------------------------------------------ *)

Theorem taken_refused fx o scan L doc site new_name :
  In (new_key_of fx doc new_name) (tl_keys L) ->
  rename_core fx o scan L doc site new_name = Ok (RErr (taken_msg new_name)).
Proof.
  intros H. apply tl_find_some in H. destruct H as [n Hn]. unfold rename_core. now rewrite Hn.
Qed.

Lemma tlib_of_graph_keys g tables L :
  tlib_of_graph g tables = Ok L -> tl_keys L = map fst (gr_keys g).
Proof.
  unfold tlib_of_graph. generalize (gr_keys g) as ks. intros ks. revert L.
  induction ks as [|kv ks IH]; intros L; cbn [fold_right map].
  - intros H. now inversion H.
  - destruct (fold_right _ _ ks) as [r|s]; cbn [bind]; [|discriminate].
    destruct (collect_key g (fst kv)) as [t|s]; cbn [bind]; [|discriminate].
    intros H. inversion H; subst. cbn [tl_keys map tn_key]. f_equal. now apply IH.
Qed.

Theorem taken_refused_graph fx o g tables L doc site new_name :
  tlib_of_graph g tables = Ok L ->
  In (new_key_of fx doc new_name) (map fst (gr_keys g)) ->
  handle_rename fx o g tables doc site new_name = Ok (RErr (taken_msg new_name)).
Proof.
  intros HL Hin. unfold handle_rename. rewrite HL. cbn [bind].
  apply taken_refused. now rewrite (tlib_of_graph_keys _ _ _ HL).
Qed.

(* ---------- sorting, membership, association lists -------------------------------------------- *)

Definition memb (k : string) (l : list string) : bool := existsb (String.eqb k) l.

Lemma memb_In k l : memb k l = true <-> In k l.
Proof.
  unfold memb. rewrite existsb_exists. split.
  - intros [x [Hx He]]. apply String.eqb_eq in He. now subst.
  - intros H. exists k. split; [exact H | apply String.eqb_refl].
Qed.

Lemma memb_false k l : ~ In k l -> memb k l = false.
Proof. intros H. destruct (memb k l) eqn:E; [|reflexivity]. apply memb_In in E. contradiction. Qed.

Lemma insert_sorted_In x k l : In x (insert_sorted k l) <-> x = k \/ In x l.
Proof.
  induction l as [|y l IH]; cbn [insert_sorted].
  - cbn. intuition.
  - destruct (String.leb k y); cbn [In]; [intuition|]. rewrite IH. intuition.
Qed.

Lemma sort_keys_In x l : In x (sort_keys l) <-> In x l.
Proof.
  unfold sort_keys. induction l as [|y l IH]; cbn [fold_right]; [tauto|].
  rewrite insert_sorted_In, IH. cbn. intuition.
Qed.

Lemma NoDup_keys_filter (P : tnote -> bool) L : NoDup (map tn_key L) -> NoDup (map tn_key (filter P L)).
Proof.
  induction L as [|n L IH]; cbn [filter map]; intros H; [constructor|].
  inversion H as [|? ? Hnot Hnd]; subst. destruct (P n); cbn [map]; [|now apply IH].
  constructor; [|now apply IH]. intros Hin. apply Hnot.
  apply in_map_iff in Hin. destruct Hin as [m [Hk Hm]]. apply filter_In in Hm.
  rewrite <- Hk. apply in_map. tauto.
Qed.

Lemma alookup_map_nodup {A} (g : tnote -> A) aff n :
  NoDup (map tn_key aff) -> In n aff ->
  alookup (tn_key n) (map (fun a => (tn_key a, g a)) aff) = Some (g n).
Proof.
  induction aff as [|m aff IH]; intros Hnd Hin; [destruct Hin|].
  cbn [map alookup] in *. inversion Hnd as [|? ? Hnot Hnd']; subst.
  destruct Hin as [->|Hin]; [now rewrite String.eqb_refl|].
  destruct (String.eqb_spec (tn_key n) (tn_key m)) as [E|_].
  - exfalso. apply Hnot. rewrite <- E. now apply in_map.
  - now apply IH.
Qed.

(* ---------- the editor's side ---------------------------------------------------------------------- *)

Lemma apply_edits_app a b st :
  apply_edits (a ++ b) st = match apply_edits a st with Some s1 => apply_edits b s1 | None => None end.
Proof.
  revert st. induction a as [|o a IH]; intros st; cbn [app apply_edits]; [reflexivity|].
  destruct (apply_op st o); [apply IH | reflexivity].
Qed.

Lemma overrides_spec (f : string -> string) keys st :
  (forall a, In a keys -> st a <> None) ->
  exists st1, apply_edits (map (fun a => OpOverride a (f a)) keys) st = Some st1 /\
              forall s, st1 s = if memb s keys then Some (f s) else st s.
Proof.
  revert st. induction keys as [|a keys IH]; intros st H; cbn [map apply_edits].
  - exists st. split; reflexivity.
  - cbn [apply_op]. destruct (st a) as [old|] eqn:Ea; [|exfalso; now apply (H a (or_introl eq_refl))].
    destruct (IH (upd st a (Some (f a)))) as [st1 [Hap Hst1]].
    { intros b Hb. unfold upd. destruct (String.eqb b a); [discriminate|]. apply H. now right. }
    exists st1. split; [exact Hap|]. intros s. rewrite Hst1. unfold memb. cbn [existsb].
    fold (memb s keys). unfold upd.
    destruct (String.eqb_spec s a) as [->|NE]; cbn [orb]; [|reflexivity].
    now destruct (memb a keys).
Qed.

Lemma fold_overrides (export : string -> res string) (f : string -> string) keys :
  (forall a, In a keys -> export a = Ok (f a)) ->
  fold_right (fun k acc => do r <- acc; do t <- export k; Ok (OpOverride k t :: r)) (Ok []) keys
  = Ok (map (fun a => OpOverride a (f a)) keys).
Proof.
  induction keys as [|a keys IH]; intros H; cbn [fold_right map]; [reflexivity|].
  rewrite IH by (intros b Hb; apply H; now right). cbn [bind].
  rewrite (H a (or_introl eq_refl)). reflexivity.
Qed.

(* the files of the library, one per note, named by the key *)
Definition files_of (L : tlib) (st : store) : Prop := forall s, st s <> None <-> In s (tl_keys L).

(* ---------- rename_core answers ------------------------------------------------------------------------ *)

Lemma alookup_map_in_some {A} (g : tnote -> A) aff k :
  In k (map tn_key aff) -> exists v, alookup k (map (fun a => (tn_key a, g a)) aff) = Some v.
Proof.
  induction aff as [|m aff IH]; intros H; [destruct H|].
  cbn [map alookup] in *. destruct (String.eqb_spec k (tn_key m)) as [E|NE]; [eauto|].
  destruct H as [H|H]; [now subst|]. now apply IH.
Qed.

Lemma fold_right_res_ok {X Y} (F : X -> res Y -> res Y) (b : Y) ks :
  (forall k r, In k ks -> exists r', F k (Ok r) = Ok r') -> exists ov, fold_right F (Ok b) ks = Ok ov.
Proof.
  induction ks as [|k ks IH]; intros H; [eexists; reflexivity|]. cbn [fold_right].
  destruct IH as (ov & ->); [intros k' r Hk; apply H; now right|]. apply H. now left.
Qed.

(* With the two repairs of the call in (a link to no note is refused; the new name is read once),
   handle_rename's core never panics: whatever the library (keys need not even differ), the
   directory of the note that holds the cursor, the link under it and the new name - as long as
   the reader found the site and the index answers.  As found it panicked from every note of a
   sub-directory (subdir_panics_as_found) and on every new name not spelled like its key. *)
Theorem rename_core_total fx o (scan : scan_t) L doc s new_name :
  fx_dangling fx = true -> fx_subdir fx = true ->
  (forall key, exists r, scan key = Ok r) ->
  exists r, rename_core fx o scan L doc (Ok s) new_name = Ok r.
Proof.
  intros Hd Hs Hscan. unfold rename_core, new_key_of. rewrite Hs.
  destruct (tl_find L (from_rel_link_url new_name (key_parent doc))); [eauto|].
  cbn [bind]. destruct s as [url|]; [|eauto].
  destruct (tl_find L (from_rel_link_url url (key_parent doc))) as [nk|]; [|rewrite Hd; eauto].
  destruct (Hscan (from_rel_link_url url (key_parent doc))) as (refers & ->). cbn [bind]. cbv zeta.
  match goal with |- context [fold_right ?F (Ok []) ?ks] => destruct (fold_right_res_ok F [] ks) as (ov & ->) end.
  { intros k r Hk. cbn [bind]. apply (proj1 (sort_keys_In _ _)) in Hk. cbn [alookup].
    destruct (String.eqb k (from_rel_link_url new_name (key_parent doc))); [cbn [bind]; eauto|].
    match goal with |- context [alookup k (map (fun x => (tn_key x, @?f x)) ?aff)] =>
      destruct (alookup_map_in_some f aff k Hk) as ([t tb] & ->) end.
    cbn [bind]. eauto. }
  cbn [bind alookup]. rewrite String.eqb_refl. cbn [bind]. eauto.
Qed.

(* the same through the graph: only the library and the index can still fail *)
Theorem handle_rename_total fx o g tables L doc s new_name :
  fx_dangling fx = true -> fx_subdir fx = true ->
  tlib_of_graph g tables = Ok L ->
  (forall key, exists r, index_scan (gr_arena g) key = Ok r) ->
  exists r, handle_rename fx o g tables doc (Ok s) new_name = Ok r.
Proof.
  intros Hd Hs HL Hi. unfold handle_rename. rewrite HL. cbn [bind]. now apply rename_core_total.
Qed.

(* ---------- rename from a note in any directory --------------------------------------------------- *)

(* the text handle_rename writes for a note [n] of the library when [k] becomes [new] *)
Definition text_of (fx : fixes) (o : opts) (k new : string) (n : tnote) (key : string) (meta : option string) : string :=
  export_tree o meta (tn_tables n) key (change_key_tree fx k new (tn_tree n)).

Section Anywhere.
  Variables (fx : fixes) (o : opts) (L : tlib).
  Variables (doc url new_name : string).

  (* both read from the directory of the note that holds the cursor *)
  Let k := from_rel_link_url url (key_parent doc).
  Let new := from_rel_link_url new_name (key_parent doc).

  Hypothesis Hnodup : NoDup (tl_keys L).
  Hypothesis Hk : In k (tl_keys L).
  Hypothesis Hfree : ~ In new (tl_keys L).
  (* the tree reads the new name once (the repair), or the name is one that both readings of
     the unrepaired tree agree on *)
  Hypothesis Hone : fx_subdir fx = true \/ (key_from_file_name new_name = new /\ strip_md new_name = new).

  Theorem rename_anywhere :
    exists nk ops,
      tl_find L k = Some nk /\
      rename_core fx o tree_scan L doc (Ok (Some url)) new_name = Ok (REdits ops) /\
      (* the operations: overrides of notes of the library, then delete k, create and fill [new] -
         the file of the new KEY (root-relative), whatever the spelling of the name *)
      (exists ov, ops = ov ++ [OpDelete k; OpCreate new;
                               OpInsert new (text_of fx o k new nk new (if fx_meta fx then tn_meta nk else None))] /\
                  Forall (fun x => exists a t, x = OpOverride a t /\ In a (tl_keys L) /\ a <> k) ov) /\
      forall st, files_of L st ->
        exists st', apply_edits ops st = Some st' /\
          st' new = Some (text_of fx o k new nk new (if fx_meta fx then tn_meta nk else None)) /\
          st' k = None /\
          (forall n, In n L -> tn_key n <> k ->
             st' (tn_key n) = if tree_refers k (tn_tree n)
                              then Some (text_of fx o k new n (tn_key n) (tn_meta n))
                              else st (tn_key n)) /\
          (forall s, ~ In s (tl_keys L) -> s <> new -> st' s = None).
  Proof.
    destruct (tl_find_some L k Hk) as [nk Hnk].
    destruct (tl_find_in _ _ _ Hnk) as [Hnk_in Hnk_key].
    assert (Hnew : new_key_of fx doc new_name = new).
    { unfold new_key_of. destruct Hone as [->|[E _]]; [reflexivity|]. now destruct (fx_subdir fx). }
    assert (Hstem : (if fx_subdir fx then new else strip_md new_name) = new).
    { destruct Hone as [->|[_ E]]; [reflexivity|]. now destruct (fx_subdir fx). }
    assert (Hknew : k <> new) by (intros E; apply Hfree; now rewrite <- E).
    set (aff := affected_notes (fun n => tree_refers k (tn_tree n)) L k).
    set (aff_keys := sort_keys (map tn_key aff)).
    (* the text of an overridden note, as a function of its key *)
    set (otext := fun a => match tl_find L a with
                           | Some n => text_of fx o k new n a (tn_meta n)
                           | None => "" end).
    assert (Haff_in : forall a, In a aff_keys -> exists n, In n aff /\ tn_key n = a).
    { intros a Ha. apply sort_keys_In, in_map_iff in Ha. destruct Ha as [n [E Hn]]. now exists n. }
    assert (Haff_L : forall n, In n aff -> In n L /\ tn_key n <> k /\ tree_refers k (tn_tree n) = true).
    { intros n Hn. apply filter_In in Hn. destruct Hn as [HL Hp]. apply andb_prop in Hp.
      destruct Hp as [Hne Hr]. repeat split; try assumption.
      intros E. rewrite E, String.eqb_refl in Hne. discriminate. }
    assert (Haff_nodup : NoDup (map tn_key aff)) by (apply NoDup_keys_filter, Hnodup).
    exists nk.
    eexists. split; [exact Hnk|]. split; [|split].
    - unfold rename_core. rewrite Hnew. fold new. rewrite (tl_find_none L new Hfree). cbn [bind]. rewrite Hstem.
      fold k. rewrite Hnk. cbn [tree_scan bind]. fold aff. fold aff_keys.
      rewrite (fold_overrides _ otext).
      + cbn [bind alookup]. rewrite String.eqb_refl. cbn [bind]. reflexivity.
      + intros a Ha. destruct (Haff_in a Ha) as [n [Hn <-]].
        destruct (Haff_L n Hn) as [HnL [Hnk' _]].
        assert (Hne : tn_key n <> new) by (intros E; apply Hfree; rewrite <- E; now apply in_map).
        cbn [alookup]. destruct (String.eqb_spec (tn_key n) new) as [E|_]; [contradiction|].
        rewrite (alookup_map_nodup (fun a0 => (change_key_tree fx k new (tn_tree a0), tn_tables a0)) aff n Haff_nodup Hn).
        unfold otext. rewrite (tl_find_nodup L n Hnodup HnL).
        rewrite Bool.andb_false_r. reflexivity.
    - eexists. split.
      + unfold text_of. now rewrite Bool.andb_true_r.
      + apply Forall_forall. intros x Hx. apply in_map_iff in Hx. destruct Hx as [a [<- Ha]].
        exists a, (otext a). split; [reflexivity|]. destruct (Haff_in a Ha) as [n [Hn <-]].
        destruct (Haff_L n Hn) as [HnL [Hnk' _]]. split; [now apply in_map | exact Hnk'].
    - intros st Hfiles.
      destruct (overrides_spec otext aff_keys st) as [st1 [Hap1 Hst1]].
      { intros a Ha. destruct (Haff_in a Ha) as [n [Hn <-]]. apply Hfiles.
        apply in_map. now apply Haff_L. }
      assert (Hk_notaff : memb k aff_keys = false).
      { apply memb_false. intros Hin. destruct (Haff_in k Hin) as [n [Hn E]].
        now apply (proj1 (proj2 (Haff_L n Hn))). }
      assert (Hnew_notaff : memb new aff_keys = false).
      { apply memb_false. intros Hin. destruct (Haff_in new Hin) as [n [Hn E]].
        apply Hfree. rewrite <- E. apply in_map. now apply Haff_L. }
      assert (Hstk : exists t, st k = Some t).
      { destruct (st k) eqn:E; [now eexists|]. exfalso. now apply (proj2 (Hfiles k) Hk). }
      destruct Hstk as [tk Hstk].
      assert (Hstnew : st new = None).
      { destruct (st new) eqn:E; [|reflexivity]. exfalso. apply Hfree, Hfiles. rewrite E. discriminate. }
      eexists. split.
      + rewrite apply_edits_app, Hap1. cbn [apply_edits apply_op].
        rewrite Hst1, Hk_notaff, Hstk.
        unfold upd at 1. destruct (String.eqb_spec new k) as [E|_]; [exfalso; apply Hknew; now rewrite E|].
        rewrite Hst1, Hnew_notaff, Hstnew.
        unfold upd at 1. rewrite String.eqb_refl. reflexivity.
      + unfold upd. repeat split.
        * rewrite String.eqb_refl. unfold text_of. rewrite append_nil_r. now rewrite Bool.andb_true_r.
        * destruct (String.eqb_spec k new) as [E|_]; [contradiction|]. now rewrite String.eqb_refl.
        * intros n HnL Hnk'.
          assert (Hne : tn_key n <> new) by (intros E; apply Hfree; rewrite <- E; now apply in_map).
          destruct (String.eqb_spec (tn_key n) new) as [E|_]; [contradiction|].
          destruct (String.eqb_spec (tn_key n) k) as [E|_]; [contradiction|].
          rewrite Hst1.
          destruct (tree_refers k (tn_tree n)) eqn:Hr.
          -- assert (Hin : In (tn_key n) aff_keys).
             { apply sort_keys_In, in_map. apply filter_In. split; [exact HnL|].
               rewrite Hr, Bool.andb_true_r. apply Bool.negb_true_iff.
               now apply String.eqb_neq. }
             rewrite (proj2 (memb_In _ _) Hin). unfold otext.
             now rewrite (tl_find_nodup L n Hnodup HnL).
          -- rewrite memb_false; [reflexivity|]. intros Hin.
             destruct (Haff_in _ Hin) as [m [Hm E]]. destruct (Haff_L m Hm) as [HmL [_ Hmr]].
             assert (m = n).
             { pose proof (tl_find_nodup L m Hnodup HmL) as F1.
               pose proof (tl_find_nodup L n Hnodup HnL) as F2. rewrite E in F1. congruence. }
             subst m. congruence.
        * intros s Hs Hsnew.
          destruct (String.eqb_spec s new) as [E|_]; [contradiction|].
          destruct (String.eqb_spec s k) as [E|_]; [reflexivity|].
          rewrite Hst1. rewrite memb_false.
          -- destruct (st s) eqn:E; [|reflexivity]. exfalso. apply Hs, Hfiles. rewrite E. discriminate.
          -- intros Hin. destruct (Haff_in s Hin) as [m [Hm E]]. apply Hs. rewrite <- E.
             apply in_map. now apply Haff_L.
  Qed.
End Anywhere.

(* The repaired tree, from a note in any directory, any spelling of the new name (with or
   without `.md`, `./x`, `../x`, `x/`): no hypothesis on the cursor's note or on the name is left. *)
Theorem rename_subdir (fx : fixes) (o : opts) (L : tlib) (doc url new_name : string) :
  fx_subdir fx = true ->
  NoDup (tl_keys L) ->
  In (from_rel_link_url url (key_parent doc)) (tl_keys L) ->
  ~ In (from_rel_link_url new_name (key_parent doc)) (tl_keys L) ->
  let k := from_rel_link_url url (key_parent doc) in
  let new := from_rel_link_url new_name (key_parent doc) in
  exists nk ops,
    tl_find L k = Some nk /\
    rename_core fx o tree_scan L doc (Ok (Some url)) new_name = Ok (REdits ops) /\
    (exists ov, ops = ov ++ [OpDelete k; OpCreate new;
                             OpInsert new (text_of fx o k new nk new (if fx_meta fx then tn_meta nk else None))] /\
                Forall (fun x => exists a t, x = OpOverride a t /\ In a (tl_keys L) /\ a <> k) ov) /\
    forall st, files_of L st ->
      exists st', apply_edits ops st = Some st' /\
        st' new = Some (text_of fx o k new nk new (if fx_meta fx then tn_meta nk else None)) /\
        st' k = None /\
        (forall n, In n L -> tn_key n <> k ->
           st' (tn_key n) = if tree_refers k (tn_tree n)
                            then Some (text_of fx o k new n (tn_key n) (tn_meta n))
                            else st (tn_key n)) /\
        (forall s, ~ In s (tl_keys L) -> s <> new -> st' s = None).
Proof.
  intros Hs Hnd Hk Hfree. cbv zeta. apply rename_anywhere; auto.
Qed.

(* ---------- rename from a note in the library root -------------------------------------------------- *)

Section Root.
  Variables (fx : fixes) (o : opts) (L : tlib).
  Variables (doc url new : string).

  Let k := from_rel_link_url url "".

  (* the text handle_rename writes for a note of the library *)
  Definition new_text_of (n : tnote) (key : string) (meta : option string) : string :=
    export_tree o meta (tn_tables n) key (change_key_tree fx k new (tn_tree n)).

  Hypothesis Hnodup : NoDup (tl_keys L).
  Hypothesis Hdoc : key_parent doc = "".
  Hypothesis Hk : In k (tl_keys L).
  Hypothesis Hmd : ends_with MD new = false.          (* the new name is typed without `.md` *)
  Hypothesis Hcanon : from_rel_link_url new "" = new. (* and the way its key is written *)
  Hypothesis Hfree : ~ In new (tl_keys L).

  (* every variant of the tree, the unrepaired ones included: from a root note, with a name
     spelled like its key, the two readings of the name coincide *)
  Theorem rename_root :
    exists nk ops,
      tl_find L k = Some nk /\
      rename_core fx o tree_scan L doc (Ok (Some url)) new = Ok (REdits ops) /\
      forall st, files_of L st ->
        exists st', apply_edits ops st = Some st' /\
          st' new = Some (new_text_of nk new (if fx_meta fx then tn_meta nk else None)) /\
          st' k = None /\
          (forall n, In n L -> tn_key n <> k ->
             st' (tn_key n) = if tree_refers k (tn_tree n)
                              then Some (new_text_of n (tn_key n) (tn_meta n))
                              else st (tn_key n)) /\
          (forall s, ~ In s (tl_keys L) -> s <> new -> st' s = None).
  Proof.
    assert (Hnew : key_from_file_name new = new) by now apply link_key_from_file_name.
    pose proof (rename_anywhere fx o L doc url new) as H. rewrite Hdoc, Hcanon in H.
    destruct H as (nk & ops & H1 & H2 & _ & H3);
      [exact Hnodup | exact Hk | exact Hfree | right; split; [exact Hnew | now apply strip_md_none] |].
    exists nk, ops. split; [exact H1|]. split; [exact H2|]. exact H3.
  Qed.
End Root.

(* ---------- concrete witnesses of the defects of the unchanged tree ------------------------------- *)

Definition doc_of (key : string) (kids : list tree) : tree := T None (NDocument key) kids.
Definition leaf (l : list inline) : tree := T None (NLeaf l) [].
Definition sect (l : list inline) (kids : list tree) : tree := T None (NSection l) kids.
Definition o0 : opts := Opts "".

(* W1: note `a` = "[label](k) x", note `k` = "# K": the label is lost *)
Definition W1 : tlib :=
  [TN "a" None (doc_of "a" [leaf [Link "k" "" Regular [Str "label"]; Str " x"]]) [];
   TN "k" None (doc_of "k" [sect [Str "K"] []]) []].

Lemma label_lost_as_found :
  rename_core as_found o0 tree_scan W1 "a" (Ok (Some "k")) "new"
  = Ok (REdits [OpOverride "a" ("[](new) x" +++ LFS); OpDelete "k"; OpCreate "new"; OpInsert "new" ("# K" +++ LFS)]).
Proof. vm_compute. reflexivity. Qed.

Lemma label_kept_repaired :
  rename_core repaired o0 tree_scan W1 "a" (Ok (Some "k")) "new"
  = Ok (REdits [OpOverride "a" ("[label](new) x" +++ LFS); OpDelete "k"; OpCreate "new"; OpInsert "new" ("# K" +++ LFS)]).
Proof. vm_compute. reflexivity. Qed.

(* W2: the cursor is in `d/b` (block reference `[K](../k)`).  As found: build_key("new") but
   export_key("d/new").  Repaired: the name typed over the placeholder `../k` is read from d/ like
   the placeholder: `new` files the note under d/new (and `[K](../k)` in d/b becomes `[K](new)`),
   `../new` keeps it in the root *)
Definition W2 : tlib :=
  [TN "d/b" None (doc_of "d/b" [T None (NRef "k" "K" Regular) []]) [];
   TN "k" None (doc_of "k" [sect [Str "K"] []]) []].

Lemma subdir_panics_as_found l m d :
  rename_core (FX l m d false) o0 tree_scan W2 "d/b" (Ok (Some "../k")) "new" = Panic "to have key".
Proof. destruct l, m, d; vm_compute; reflexivity. Qed.

Lemma subdir_renames_repaired l m d :
  rename_core (FX l m d true) o0 tree_scan W2 "d/b" (Ok (Some "../k")) "new"
  = Ok (REdits [OpOverride "d/b" ("[K](new)" +++ LFS); OpDelete "k"; OpCreate "d/new"; OpInsert "d/new" ("# K" +++ LFS)]) /\
  rename_core (FX l m d true) o0 tree_scan W2 "d/b" (Ok (Some "../k")) "../new"
  = Ok (REdits [OpOverride "d/b" ("[K](../new)" +++ LFS); OpDelete "k"; OpCreate "new"; OpInsert "new" ("# K" +++ LFS)]) /\
  rename_core (FX l m d true) o0 tree_scan W2 "d/b" (Ok (Some "../k")) "b"
  = Ok (RErr (taken_msg "b")).
Proof. destruct l, m, d; repeat split; vm_compute; reflexivity. Qed.

(* a new name not spelled like its key, from a root note: as found the same panic, repaired the
   note is filed under the key `new` *)
Lemma unspelled_name_as_found_and_repaired l m d :
  rename_core (FX l m d false) o0 tree_scan W2 "k" (Ok (Some "k")) "./new" = Panic "to have key" /\
  rename_core (FX l m d true) o0 tree_scan W2 "k" (Ok (Some "k")) "./new"
  = Ok (REdits [OpOverride "d/b" ("[K](../new)" +++ LFS); OpDelete "k"; OpCreate "new"; OpInsert "new" ("# K" +++ LFS)]).
Proof. destruct l, m, d; split; vm_compute; reflexivity. Qed.

(* W3: the link under the cursor names no note *)
Lemma dangling_panics_as_found :
  rename_core as_found o0 tree_scan W1 "a" (Ok (Some "missing")) "new" = Panic "to have key".
Proof. vm_compute. reflexivity. Qed.

Lemma dangling_refused_repaired :
  rename_core repaired o0 tree_scan W1 "a" (Ok (Some "missing")) "new" = Ok RNone.
Proof. vm_compute. reflexivity. Qed.

(* W4: the renamed note has front matter *)
Definition W4 : tlib :=
  [TN "a" None (doc_of "a" [T None (NRef "k" "K" Regular) []]) [];
   TN "k" (Some ("title: t" +++ LFS)) (doc_of "k" [sect [Str "K"] []]) []].

Lemma front_matter_lost_as_found :
  rename_core as_found o0 tree_scan W4 "a" (Ok (Some "k")) "new"
  = Ok (REdits [OpOverride "a" ("[K](new)" +++ LFS); OpDelete "k"; OpCreate "new"; OpInsert "new" ("# K" +++ LFS)]).
Proof. vm_compute. reflexivity. Qed.

Lemma front_matter_kept_repaired :
  rename_core repaired o0 tree_scan W4 "a" (Ok (Some "k")) "new"
  = Ok (REdits [OpOverride "a" ("[K](new)" +++ LFS); OpDelete "k"; OpCreate "new";
                OpInsert "new" ("---" +++ LFS +++ "title: t" +++ LFS +++ "---" +++ LFS +++ LFS +++ "# K" +++ LFS)]).
Proof. vm_compute. reflexivity. Qed.

(* W5: a link in a table cell is not rewritten, and the note is not even found *)
Definition W5_tree : tree := doc_of "a" [T None (NTable [[Link "k" "" Regular [Str "c"]]] [ANone] []) []].
Lemma table_link_untouched fx :
  change_key_tree fx "k" "new" W5_tree = W5_tree /\ tree_refers "k" W5_tree = false.
Proof. split; reflexivity. Qed.

(* W6 (F-C08-rawurl, repaired): `[x](./k)` in a root note, and `[x](../k)` in a note of d/, resolve to `k`; the
   reader keeps them by that key (Arena.to_ginline: `Key::from_rel_link_url`), so change_key retargets them; `[x](k)`
   typed in d/ names d/k and is left alone.  In the pinned tree the graph held the url as typed: `./k` and `../k`
   were not retargeted, `k` typed in d/ was *)
Lemma raw_url_retargeted fx :
  from_rel_link_url "./k" "" = "k" /\ from_rel_link_url "../k" "d" = "k" /\ from_rel_link_url "k" "d" = "d/k" /\
  change_key_inline fx "k" "new" (to_ginline "" (Link "./k" "" Regular [Str "x"]))
  = Link "new" "" Regular (if fx_label fx then [Str "x"] else []) /\
  change_key_inline fx "k" "new" (to_ginline "d" (Link "../k" "" Regular [Str "x"]))
  = Link "new" "" Regular (if fx_label fx then [Str "x"] else []) /\
  change_key_inline fx "k" "new" (to_ginline "d" (Link "k" "" Regular [Str "x"])) = Link "d/k" "" Regular [Str "x"].
Proof. destruct fx as [[] ? ?]; repeat split; vm_compute; reflexivity. Qed.

(* every inline note link the reader builds is kept by the key it resolves to from the note's directory, so
   change_key hits it exactly when it resolves to the renamed note *)
Lemma link_hits_resolved old url dir :
  is_ref_url url = true ->
  change_key_inline as_found old "n" (to_ginline dir (Link url "" Regular [])) =
  if is_ref_url (from_rel_link_url url dir) && String.eqb (from_rel_link_url url dir) old
  then Link "n" "" Regular [] else Link (from_rel_link_url url dir) "" Regular [].
Proof.
  intros E. cbn [to_ginline map]. rewrite E. cbn [change_key_inline]. unfold link_hits, key_name.
  destruct (is_ref_url (from_rel_link_url url dir) && String.eqb (from_rel_link_url url dir) old); reflexivity.
Qed.

(* W7 (the inline part of F-C08-newname, repaired): the note moves into a directory: its inline link `[A](a)` is
   kept by the key `a` and written relative to the new place, `../a`, like the block reference next to it (in the
   pinned tree it was copied as typed and resolved to `d/a` from there) *)
Definition W7 : tlib :=
  [TN "a" None (doc_of "a" [sect [Str "A"] []]) [];
   TN "k" None (doc_of "k" [leaf [Str "see "; Link "a" "" Regular [Str "A"]]; T None (NRef "a" "A" Regular) []]) []].
Lemma move_dir_inline_rebased fx :
  rename_core fx o0 tree_scan W7 "k" (Ok (Some "k")) "d/new"
  = Ok (REdits [OpDelete "k"; OpCreate "d/new"; OpInsert "d/new" ("see [A](../a)" +++ LFS +++ LFS +++ "[A](../a)" +++ LFS)]) /\
  from_rel_link_url "../a" (key_parent "d/new") = "a".
Proof. destruct fx as [[] [] [] []]; split; vm_compute; reflexivity. Qed.

(* the hypotheses of rename_root are satisfiable *)
Lemma rename_root_nonvacuous :
  NoDup (tl_keys W1) /\ key_parent "a" = "" /\ In (from_rel_link_url "k" "") (tl_keys W1) /\
  ends_with MD "new" = false /\ from_rel_link_url "new" "" = "new" /\ ~ In "new" (tl_keys W1).
Proof.
  repeat split; try (vm_compute; reflexivity).
  - repeat constructor; cbn; intuition discriminate.
  - cbn. right. left. vm_compute. reflexivity.
  - cbn. intuition discriminate.
Qed.

(* ---------- index and trees ------------------------------------------------------------------------- *)

(* when the index answers, for the notes of the library, what a scan of their collected trees
   answers (no arena node outside the trees), handle_rename is rename_core over the trees, which
   is what rename_root speaks about *)
Lemma rename_core_scan_ext fx o (scan : scan_t) L doc site new_name :
  (forall key, exists r, scan key = Ok r /\ forall n, In n L -> r n = tree_refers key (tn_tree n)) ->
  rename_core fx o scan L doc site new_name = rename_core fx o tree_scan L doc site new_name.
Proof.
  intros H. unfold rename_core.
  destruct (tl_find L (new_key_of fx doc new_name)); [reflexivity|].
  destruct site as [[url|]|s]; cbn [bind]; try reflexivity.
  destruct (tl_find L (from_rel_link_url url (key_parent doc))); [|reflexivity].
  destruct (H (from_rel_link_url url (key_parent doc))) as [r [Hs Hr]].
  rewrite Hs. cbn [tree_scan bind].
  replace (affected_notes r L (from_rel_link_url url (key_parent doc)))
    with (affected_notes (fun n => tree_refers (from_rel_link_url url (key_parent doc)) (tn_tree n)) L
                         (from_rel_link_url url (key_parent doc))); [reflexivity|].
  unfold affected_notes. apply filter_ext_in. intros n Hn. now rewrite (Hr n Hn).
Qed.

Theorem handle_rename_trees fx o g tables L doc site new_name :
  tlib_of_graph g tables = Ok L ->
  (forall key, exists r, index_scan (gr_arena g) key = Ok r /\
                         forall n, In n L -> r n = tree_refers key (tn_tree n)) ->
  handle_rename fx o g tables doc site new_name = rename_core fx o tree_scan L doc site new_name.
Proof.
  intros HL H. unfold handle_rename. rewrite HL. cbn [bind]. now apply rename_core_scan_ext.
Qed.
