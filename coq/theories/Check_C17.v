(* Check_C17.v — executable side of C17: the case type (a library case as in Check_Lib.v plus
   what `Graph::squash` and the CLI path returned for some (key, depth) pairs), the
   correspondence model = observed, and the property predicates evaluated on the
   implementation's own observations.

   Stages 5-8 tie TreeBuild.v (the transliteration of `GraphBuilder::insert_from_iter` over a
   `TreeIter`, about which TreeBuildFacts.v proves C20_collect_build / C17_squash_cli_graph /
   C08_patch_export_is_export_tree) to the code SLOT BY SLOT: the harness dumps the arena of the
   fresh graph after `build_key_from_iter` and the tree `collect`ed back from it, for every
   squashed tree of the CLI path and for a stream of hand-made trees (valid ones, leaves with
   children, inner Document nodes, roots that are not documents). *)
From IweV Require Export Str Text Ast RelPath Arena Project Library Harness Check_Lib Squash.
From IweV Require Import ArenaWF SectionsRefine HistoryText Rename TreeBuild.
Local Open Scope string_scope.
Local Open Scope list_scope.

(* outcome of a call run in its own thread with a time limit *)
Definition RETURNED := 0.
Definition PANICKED := 1.
Definition TIMEDOUT := 2.
Definition ABORTED := 3.    (* the process running the case died (stack overflow, abort) *)

Record sq_obs := SO {
  so_key : string;
  so_depth : nat;             (* the u8 passed to Graph::squash *)
  so_outcome : nat;           (* of Graph::squash *)
  so_tree : res tree;         (* Graph::squash(key, depth) *)
  so_cli_outcome : nat;       (* of build_key_from_iter + export_key on a fresh graph *)
  so_text : res string;       (* what `iwe squash` prints *)
  so_arena : res arena;       (* every slot of the fresh graph after build_key_from_iter(key, squashed tree) *)
  so_back : res tree          (* Graph::collect(key) on that graph *)
}.

(* a tree handed to `Graph::new().build_key_from_iter(key, TreeIter::new(&tree))` and what the
   implementation made of it (Panic: the call panicked, with the message) *)
Record tb_obs := TB {
  tb_key : string;
  tb_tree : tree;
  tb_arena : res arena;       (* every slot: kind (with its lines), prev, next, child *)
  tb_back : res tree          (* Graph::collect(key) on that graph *)
}.

Record case := Case { c_lib : libcase; c_obs : list sq_obs; c_tb : list tb_obs }.

(* ---------- helpers ---------------------------------------------------------------------- *)

Definition item_eqb (a b : item) : bool := onat_eqb (fst a) (fst b) && node_eqb (snd a) (snd b).

Fixpoint is_subseq {A} (eq : A -> A -> bool) (a b : list A) : bool :=
  match b with
  | [] => match a with [] => true | _ => false end
  | y :: b' =>
      match a with
      | [] => true
      | x :: a' => if eq x y then is_subseq eq a' b' else is_subseq eq a b'
      end
  end.

(* the notes' collected trees as the implementation returned them *)
Definition nodupN (l : list N) : list N := nodup N.eq_dec l.

Definition lk_obs (c : libcase) : lookup :=
  fun k => match find (fun o => String.eqb (no_key o) k) (lo_notes c) with
           | Some o => match no_tree o with Ok t => Some t | Panic _ => None end
           | None => None
           end.

Definition nonref_items (t : tree) : list item :=
  filter (fun it => negb (is_ref_node (snd it))) (items t).

Definition ids_of (t : tree) : list nat :=
  flat_map (fun it => match fst it with Some i => [i] | None => [] end) (items t).

(* keys of the references of [t] whose target exists *)
Definition targets (lk : lookup) (t : tree) : list string :=
  flat_map (fun it => match snd it with
                      | NRef k _ _ => match lk k with Some _ => [k] | None => [] end
                      | _ => []
                      end) (items t).

(* is the root note expanded again somewhere within depth d? *)
Fixpoint reenters (lk : lookup) (root : string) (d : nat) (level : list string) : bool :=
  match d with
  | O => false
  | S d' =>
      let nxt := nodup string_dec
                   (flat_map (fun k => match lk k with Some t => targets lk t | None => [] end) level) in
      match nxt with
      | [] => false
      | _ => existsb (String.eqb root) nxt || reenters lk root d' nxt
      end
  end.

Definition ref_keys (t : tree) : list string :=
  flat_map (fun it => match snd it with NRef k _ _ => [k] | _ => [] end) (items t).

(* ---------- sub-properties on one observation ------------------------------------------- *)

(* 1: the observed tree is the independent expansion of the observed collected trees *)
Definition p_equation (lk : lookup) (R : tree) (o : sq_obs) : bool :=
  match so_tree o with
  | Ok ot => tree_eqb ot (expand lk (so_depth o) R)
  | Panic _ => false
  end.

(* 2: every non-reference node of the root note occurs in the result, in order; exactly
   once (by arena id) unless the root note itself is expanded again below *)
Definition p_content_once (lk : lookup) (R : tree) (o : sq_obs) : bool :=
  match so_tree o with
  | Ok ot =>
      is_subseq item_eqb (nonref_items R) (items ot) &&
      (reenters lk (so_key o) (so_depth o) [so_key o] ||
       list_eqb item_eqb
         (filter (fun it => negb (is_ref_node (snd it)) &&
                            match fst it with Some i => existsb (Nat.eqb i) (ids_of R) | None => false end)
                 (items ot))
         (nonref_items R))
  | Panic _ => false
  end.

(* 3: the references left in the result are exactly those to missing notes and those met at
   depth 0 (computed over the references only, without building the tree) *)
Definition p_refs (lk : lookup) (R : tree) (o : sq_obs) : bool :=
  match so_tree o with
  | Ok ot => list_eqb String.eqb (ref_keys ot) (remaining lk (so_depth o) R)
  | Panic _ => false
  end.

(* 4: the call returned: no panic, no hang *)
Definition p_returns (o : sq_obs) : bool := Nat.eqb (so_outcome o) RETURNED.

(* 5: the CLI path returned, and printed the rendering of the squashed tree *)
Definition p_cli (o : sq_obs) : bool :=
  match so_tree o with
  | Ok ot =>
      Nat.eqb (so_cli_outcome o) RETURNED &&
      res_eqb String.eqb (so_text o) (Ok (tree_to_markdown (Opts "") [] (key_parent (so_key o)) ot))
  | Panic _ => false
  end.

Definition obs_fail (lk : lookup) (o : sq_obs) : list N :=
  match lk (so_key o) with
  | None => [0%N]          (* the harness only squashes notes it could collect *)
  | Some R =>
      flag 1 (p_equation lk R o) ++ flag 2 (p_content_once lk R o) ++ flag 3 (p_refs lk R o) ++
      flag 4 (p_returns o) ++ flag 5 (p_cli o)
  end.

(* No known-finding class is left: the former class 1 (a squashed tree nesting sections deeper
   than 255 made the projector's `header_level as u8 + 1` overflow in the CLI path, F-C17-1) is
   repaired - the level is a usize - so a CLI failure on such a tree is a violation like any
   other. *)

(* ---------- tree -> arena: TreeBuild.v against the code, slot by slot ------------------------ *)

(* the observations of the CLI path whose squashed tree was printed, and the hand-made trees *)
Definition so_tb (o : sq_obs) : list tb_obs :=
  match so_tree o with
  | Ok t => [TB (so_key o) t (so_arena o) (so_back o)]
  | Panic _ => []
  end.
Definition all_tb (c : case) : list tb_obs := flat_map so_tb (c_obs c) ++ c_tb c.

(* the model: `build_key_from_iter` on the arena of `Graph::new()` *)
Definition tb_model_arena (o : tb_obs) : res arena :=
  do st <- build_key_from_iter [] (tb_key o) (tb_tree o); Ok (b_arena st).

(* 5: the model's arena = the observed arena, slot by slot (kind, lines, prev, next, child; the
   equality of Check_Lib stage 1); a panic of the one is a panic of the other *)
Definition tb_arena_ok (o : tb_obs) : bool :=
  res_eqb arena_eqb (tb_model_arena o) (tb_arena o).

(* 6: the statement of C20_collect_build / build_returns_iff evaluated on the IMPLEMENTATION's
   arena: the call returned iff the tree is [buildable], and then the model's `collect_raw` of the
   observed arena at the new root 0 is [label (built_tree key t) 0], the arena has exactly that
   many slots and satisfies the executable forest invariant *)
Definition tb_collect_ok (o : tb_obs) : bool :=
  match tb_arena o with
  | Ok a =>
      buildable (tb_tree o) &&
      res_eqb (option_eqb tree_eqb) (collect_raw a 0) (Ok (Some (label (built_tree (tb_key o) (tb_tree o)) 0))) &&
      Nat.eqb (length a) (tsz (built_tree (tb_key o) (tb_tree o))) &&
      arena_ok a
  | Panic _ => negb (buildable (tb_tree o))
  end.

(* 7: what the implementation's own `Graph::collect` read back from its arena is the built tree
   renumbered from 0, link texts refreshed from the (empty) title table of the fresh graph: the
   statement of TreeBuildFacts.collect_built *)
Definition tb_back_ok (o : tb_obs) : bool :=
  match tb_arena o with
  | Ok _ => res_eqb tree_eqb (tb_back o)
              (Ok (label (tmap (norm_node no_titles) (built_tree (tb_key o) (tb_tree o))) 0))
  | Panic _ => negb (is_ok (tb_back o))
  end.

(* 8: where both panic, the model's site ("cant set child", TreeBuildFacts.build_panics) is how
   the implementation's message starts ("cant set child for leaf" ...) *)
Definition tb_site_ok (o : tb_obs) : bool :=
  match tb_model_arena o, tb_arena o with
  | Panic m, Panic m' => String.prefix m m'
  | _, _ => true
  end.

(* stages 5-8 over a list of observations (each predicate once per tree) *)
Definition tb_corr (l : list tb_obs) : list N :=
  flag 5 (forallb tb_arena_ok l) ++ flag 6 (forallb tb_collect_ok l) ++
  flag 7 (forallb tb_back_ok l) ++ flag 8 (forallb tb_site_ok l).

(* ---------- correspondence ---------------------------------------------------------------- *)

Definition c17_corr (c : case) : list N :=
  match model_graph (c_lib c) with
  | Panic _ => [3%N]
  | Ok g =>
      flag 1 (forallb (fun o => res_eqb tree_eqb (squash g (so_key o) (so_depth o)) (so_tree o)) (c_obs c)) ++
      flag 2 (forallb (fun o => res_eqb String.eqb
                                  (do t <- squash g (so_key o) (so_depth o); squash_cli_text (so_key o) t)
                                  (so_text o)) (c_obs c)) ++
      flag 3 (match lib_corr (c_lib c) with [] => true | _ => false end) ++
      (* the two models agree on this library (theorem C17_equation, re-evaluated) *)
      flag 4 (forallb (fun o => res_eqb tree_eqb (squash g (so_key o) (so_depth o))
                                  (squash_spec g (so_key o) (so_depth o))) (c_obs c))
  end ++ tb_corr (all_tb c).

Definition run_C17 (c : case) : verdict :=
  let lk := lk_obs (c_lib c) in
  let fails := map (fun o => (o, obs_fail lk o)) (c_obs c) in
  let prop := nodupN (flat_map snd fails) in
  let cls : list N := [] in
  let nontriv :=
    existsb (fun o => match lk (so_key o) with
                      | Some R => Nat.ltb 0 (so_depth o) && negb (match targets lk R with [] => true | _ => false end)
                      | None => false
                      end) (c_obs c) ||
    (* or: a hand-made tree with something below its root went through the builder *)
    existsb (fun o => Nat.ltb 1 (tree_nodes (tb_tree o))) (c_tb c) in
  V (c17_corr c) prop cls nontriv.

(* diagnosis *)
Definition dbg_model (c : case) : list (string * nat * res tree * res tree) :=
  match model_graph (c_lib c) with
  | Panic s => []
  | Ok g => map (fun o => (so_key o, so_depth o, squash g (so_key o) (so_depth o), so_tree o)) (c_obs c)
  end.
Definition dbg_fail (c : case) : list (string * nat * list N) :=
  map (fun o => (so_key o, so_depth o, obs_fail (lk_obs (c_lib c)) o)) (c_obs c).
(* per tree of stages 5-8: which of them fail, the model's arena, the observed one *)
Definition dbg_tb (c : case) : list (string * list N * res arena * res arena) :=
  map (fun o => (tb_key o,
                 flag 5 (tb_arena_ok o) ++ flag 6 (tb_collect_ok o) ++ flag 7 (tb_back_ok o) ++ flag 8 (tb_site_ok o),
                 tb_model_arena o, tb_arena o)) (all_tb c).
