(* NormFacts.v — theorems about the normalization model (Project.v, Arena.v):
   outline well-nestedness of everything the projector writes (C07), link destinations and
   kinds under title refresh (C06), idempotence of the inline rewrites (C02). *)
From IweV Require Import Check_Norm.
From Coq Require Import Lia.
Local Open Scope string_scope.
Local Open Scope list_scope.

(* ---------- C07: whatever tree is projected, its heading levels are well nested ------- *)

Definition glevels (bs : list gblock) : list nat :=
  flat_map (fun b => match b with GHeader n _ => [n] | _ => [] end) bs.

(* every nesting context inside a block (quote bodies, list items) is well nested *)
Fixpoint gwn (b : gblock) {struct b} : bool :=
  let fix go (l : list gblock) {struct l} : bool :=
    match l with [] => true | x :: r => gwn x && go r end in
  let fix goi (l : list (list gblock)) {struct l} : bool :=
    match l with [] => true | it :: r => well_nested (glevels it) && go it && goi r end in
  match b with
  | GQuote bs => well_nested (glevels bs) && go bs
  | GOList its | GBList its => goi its
  | _ => true
  end.

Definition gwn_all (bs : list gblock) : bool := well_nested (glevels bs) && forallb gwn bs.

Lemma gwn_go_forallb l :
  (fix go (l : list gblock) : bool := match l with [] => true | x :: r => gwn x && go r end) l = forallb gwn l.
Proof. induction l as [|x l IH]; cbn; [reflexivity | now rewrite IH]. Qed.

Definition Chain (hl : nat) (l : list nat) : Prop :=
  Forall (fun n => hl < n) l /\ forall prev, hl <= prev -> well_nested_from prev l = true.

Lemma chain_nil hl : Chain hl [].
Proof. split; [constructor | reflexivity]. Qed.

Lemma wn_app hl p l1 l2 :
  well_nested_from p l1 = true -> Forall (fun n => hl < n) l1 ->
  (forall prev, hl <= prev -> well_nested_from prev l2 = true) -> hl <= p ->
  well_nested_from p (l1 ++ l2) = true.
Proof.
  revert p; induction l1 as [|n l1 IH]; intros p H1 HF H2 Hp; cbn [app].
  - now apply H2.
  - cbn [well_nested_from] in H1 |- *. apply andb_prop in H1 as [H1 H1c]. rewrite H1. cbn [andb].
    inversion HF as [|? ? Hn HF']; subst. apply IH; auto. lia.
Qed.

Lemma chain_app hl l1 l2 : Chain hl l1 -> Chain hl l2 -> Chain hl (l1 ++ l2).
Proof.
  intros [F1 W1] [F2 W2]. split; [apply Forall_app; now split|].
  intros prev Hp. eapply wn_app; eauto.
Qed.

Lemma chain_flat {A} hl (f : A -> list nat) l :
  Forall (fun x => Chain hl (f x)) l -> Chain hl (flat_map f l).
Proof.
  induction 1 as [|x l Hx _ IH]; cbn [flat_map]; [apply chain_nil | now apply chain_app].
Qed.

Lemma glevels_app a b : glevels (a ++ b) = glevels a ++ glevels b.
Proof. unfold glevels. now rewrite flat_map_app. Qed.

Lemma glevels_flat {A} (f : A -> list gblock) l :
  glevels (flat_map f l) = flat_map (fun x => glevels (f x)) l.
Proof.
  induction l as [|x l IH]; cbn [flat_map]; [reflexivity|]. now rewrite glevels_app, IH.
Qed.

Lemma chain_section hl k : Chain (S hl) k -> Chain hl (S hl :: k).
Proof.
  intros [F W]. split.
  - constructor; [lia|]. eapply Forall_impl; [|exact F]. cbn; intros; lia.
  - intros prev Hp. cbn [well_nested_from].
    replace (Nat.leb 1 (S hl)) with true by (symmetry; apply Nat.leb_le; lia).
    replace (Nat.leb (S hl) (S prev)) with true by (symmetry; apply Nat.leb_le; lia).
    cbn [andb]. apply W. lia.
Qed.

Lemma chain_wn l : Chain 0 l -> well_nested l = true.
Proof. intros [_ W]. apply W. lia. Qed.

Section C07.
  Variable parent : string.

  (* what holds of the projection of one tree, at every heading depth *)
  Definition S1 (t : tree) : Prop :=
    forall hl, Chain hl (glevels (project_node parent hl t)) /\
               forallb gwn (project_node parent hl t) = true.
  (* and of the projection of its children *)
  Definition K (c : list tree) : Prop :=
    forall hl, Chain hl (glevels (flat_map (project_node parent hl) c)) /\
               forallb gwn (flat_map (project_node parent hl) c) = true.

  Lemma forallb_flat {A B} (p : B -> bool) (f : A -> list B) l :
    Forall (fun x => forallb p (f x) = true) l -> forallb p (flat_map f l) = true.
  Proof.
    induction 1 as [|x l Hx _ IH]; cbn [flat_map]; [reflexivity|].
    rewrite forallb_app, Hx, IH. reflexivity.
  Qed.

  Lemma K_of_S1 c : Forall S1 c -> K c.
  Proof.
    intros H hl. split.
    - rewrite glevels_flat. apply chain_flat. eapply Forall_impl; [|exact H]. intros t Ht. apply Ht.
    - apply forallb_flat. eapply Forall_impl; [|exact H]. intros t Ht. apply Ht.
  Qed.

  Definition item_of (c : tree) : list gblock :=
    match c with T _ cn ck =>
      (if first_is_leaf ck then GPara (out_inlines parent cn) else GPlain (out_inlines parent cn))
        :: flat_map (project_node parent 0) ck end.

  Lemma items_ok c :
    Forall (fun t => K (t_children t)) c ->
    (fix goi (l : list (list gblock)) : bool :=
       match l with
       | [] => true
       | it :: r => well_nested (glevels it) &&
                    (fix go (l : list gblock) : bool := match l with [] => true | x :: r => gwn x && go r end) it && goi r
       end) (map item_of c) = true.
  Proof.
    induction 1 as [|t c Ht _ IH]; cbn [map]; [reflexivity|].
    rewrite IH, andb_true_r. destruct t as [i cn ck]. cbn [item_of t_children] in *.
    destruct (Ht 0) as [Hc Hg]. rewrite gwn_go_forallb.
    apply andb_true_intro; split.
    - destruct (first_is_leaf ck); cbn; apply (chain_wn _ Hc).
    - destruct (first_is_leaf ck); cbn [forallb gwn]; exact Hg.
  Qed.

  Lemma project_S1 : forall t, S1 t /\ K (t_children t).
  Proof.
    apply (tree_ind' (fun t => S1 t /\ K (t_children t))).
    intros i n c Hc.
    assert (HS : Forall S1 c) by (eapply Forall_impl; [|exact Hc]; now intros t [? _]).
    assert (HK : Forall (fun t => K (t_children t)) c) by (eapply Forall_impl; [|exact Hc]; now intros t [_ ?]).
    pose proof (K_of_S1 c HS) as Kc.
    split; [|exact Kc].
    intros hl. destruct n; cbn [project_node].
    - (* document *) apply Kc.
    - (* section *)
      destruct (Kc (hl + 1)) as [Hch Hg]. split.
      + cbn [glevels flat_map app]. fold (glevels (flat_map (project_node parent (hl + 1)) c)).
        replace (hl + 1) with (S hl) in * by lia. now apply chain_section.
      + cbn [forallb gwn]. exact Hg.
    - (* quote *)
      destruct (Kc 0) as [Hch Hg].
      destruct (flat_map (project_node parent 0) c) as [|g q] eqn:E; [split; [apply chain_nil | reflexivity]|].
      split; [apply chain_nil|].
      cbn [forallb]. rewrite andb_true_r. cbn [gwn]. rewrite gwn_go_forallb, (chain_wn _ Hch).
      cbn [andb]. exact Hg.
    - (* bullet list *)
      destruct c as [|c0 c]; [split; [apply chain_nil | reflexivity]|].
      split; [apply chain_nil|]. cbn [forallb gwn]. rewrite andb_true_r. apply (items_ok (c0 :: c) HK).
    - (* ordered list *)
      destruct c as [|c0 c]; [split; [apply chain_nil | reflexivity]|].
      split; [apply chain_nil|]. cbn [forallb gwn]. rewrite andb_true_r. apply (items_ok (c0 :: c) HK).
    - split; [apply chain_nil | reflexivity].
    - split; [apply chain_nil | reflexivity].
    - split; [apply chain_nil | reflexivity].
    - split; [apply chain_nil | reflexivity].
    - split; [apply chain_nil | reflexivity].
  Qed.

  Theorem project_well_nested (t : tree) : gwn_all (project parent t) = true.
  Proof.
    destruct (project_S1 t) as [H _]. destruct (H 0) as [Hc Hg].
    unfold gwn_all, project. now rewrite (chain_wn _ Hc), Hg.
  Qed.
End C07.

(* ---------- C06: title refresh never touches a destination or a link kind ---------------- *)

(* (destination, kind) of every link and image, in document order *)
Fixpoint link_sites (i : inline) : list (string * option link_type) :=
  let fix go (l : list inline) : list (string * option link_type) :=
    match l with [] => [] | x :: r => link_sites x ++ go r end in
  match i with
  | Emph l | Strong l | Strike l => go l
  | Link url _ lt l => (url, Some lt) :: go l
  | Image url _ l => (url, None) :: go l
  | _ => []
  end.

Lemma link_sites_go l :
  (fix go (l : list inline) : list (string * option link_type) :=
     match l with [] => [] | x :: r => link_sites x ++ go r end) l = flat_map link_sites l.
Proof. induction l as [|x l IH]; cbn; [reflexivity | now rewrite IH]. Qed.

(* outside link texts: refresh keeps every site; inside a refreshed link text the old
   text (and links nested in it) is replaced, which is the refresh itself *)
Fixpoint top_sites (i : inline) : list (string * option link_type) :=
  let fix go (l : list inline) : list (string * option link_type) :=
    match l with [] => [] | x :: r => top_sites x ++ go r end in
  match i with
  | Emph l | Strong l | Strike l => go l
  | Link url _ lt _ => [(url, Some lt)]
  | Image url _ _ => [(url, None)]
  | _ => []
  end.

Lemma top_sites_go l :
  (fix go (l : list inline) : list (string * option link_type) :=
     match l with [] => [] | x :: r => top_sites x ++ go r end) l = flat_map top_sites l.
Proof. induction l as [|x l IH]; cbn; [reflexivity | now rewrite IH]. Qed.

Theorem refresh_keeps_sites ctx : forall i, top_sites (normalize_inline ctx i) = top_sites i.
Proof.
  apply (inline_ind' (fun i => top_sites (normalize_inline ctx i) = top_sites i)); intros; try reflexivity.
  - cbn [normalize_inline top_sites]. rewrite !top_sites_go.
    induction H as [|x l Hx _ IH]; cbn [map flat_map]; [reflexivity | now rewrite Hx, IH].
  - cbn [normalize_inline top_sites]. rewrite !top_sites_go.
    induction H as [|x l Hx _ IH]; cbn [map flat_map]; [reflexivity | now rewrite Hx, IH].
  - cbn [normalize_inline top_sites]. rewrite !top_sites_go.
    induction H as [|x l Hx _ IH]; cbn [map flat_map]; [reflexivity | now rewrite Hx, IH].
  - cbn [normalize_inline]. destruct (is_ref_url u); reflexivity.
Qed.

(* the text rule: a regular link to a note with a title gets exactly that title; every other
   link keeps its text (bare wiki links have none) *)
Theorem refresh_text_rule ctx url title lt l :
  normalize_inline ctx (Link url title lt l) =
  if is_ref_url url then
    match lt with
    | Regular => match ctx (key_name url) with
                 | Some t => Link url title Regular [Str t]
                 | None => Link url title Regular l
                 end
    | WikiLink => Link url title WikiLink []
    | WikiLinkPiped => Link url title WikiLinkPiped l
    end
  else Link url title lt l.
Proof.
  cbn [normalize_inline]. destruct (is_ref_url url); [|reflexivity].
  destruct lt; [destruct (ctx (key_name url))|..]; reflexivity.
Qed.

(* ---------- C02: the inline rewrites are idempotent ------------------------------------------ *)

Theorem refresh_idempotent ctx :
  forall i, normalize_inline ctx (normalize_inline ctx i) = normalize_inline ctx i.
Proof.
  apply (inline_ind' (fun i => normalize_inline ctx (normalize_inline ctx i) = normalize_inline ctx i));
    intros; try reflexivity.
  - cbn [normalize_inline]. f_equal. rewrite map_map.
    induction H as [|x l Hx _ IH]; cbn [map]; [reflexivity | now rewrite Hx, IH].
  - cbn [normalize_inline]. f_equal. rewrite map_map.
    induction H as [|x l Hx _ IH]; cbn [map]; [reflexivity | now rewrite Hx, IH].
  - cbn [normalize_inline]. f_equal. rewrite map_map.
    induction H as [|x l Hx _ IH]; cbn [map]; [reflexivity | now rewrite Hx, IH].
  - cbn [normalize_inline]. destruct (is_ref_url u) eqn:E.
    + cbn [normalize_inline]. rewrite E.
      destruct lt; [destruct (ctx (key_name u)) eqn:Ec|..]; try rewrite Ec; reflexivity.
    + cbn [normalize_inline]. now rewrite E.
Qed.

(* ---------- C01: the projector neither loses nor duplicates content ------------------------- *)

Inductive citem :=
| CI (l : list inline)                   (* one line of inline content: heading, paragraph, item text, cell *)
| CC (lang : option string) (text : string)
| CR.                                    (* rule *)

Section C01.
  Variable parent : string.

  Definition ref_inlines (key text : string) (rt : link_type) : list inline :=
    [Link (to_rel_link_url key parent) "" rt
       match rt with Regular => [Str text] | WikiLink => [] | WikiLinkPiped => [Str text] end].

  (* content of a tree, in document order, as it is written in a note of the directory [parent]:
     the tree holds note links by key, block references and inline links alike, and both are
     written relative to the note ([ref_inlines], [rel_inlines]) *)
  Fixpoint tcontent (t : tree) {struct t} : list citem :=
    match t with
    | T _ n kids =>
        match n with
        | NDocument _ | NQuote => flat_map tcontent kids
        | NSection l => CI (rel_inlines parent l) :: flat_map tcontent kids
        | NBList | NOList =>
            flat_map (fun c => match c with T _ cn ck => CI (out_inlines parent cn) :: flat_map tcontent ck end) kids
        | NLeaf l => [CI (rel_inlines parent l)]
        | NRaw lang text => [CC lang text]
        | NRule => [CR]
        | NRef key text rt => [CI (ref_inlines key text rt)]
        | NTable h _ rows =>
            map CI (map (rel_inlines parent) h) ++ flat_map (map CI) (map (map (rel_inlines parent)) rows)
        end
    end.

  (* content of projected blocks, in document order *)
  Fixpoint gcontent (b : gblock) {struct b} : list citem :=
    let fix go (l : list gblock) : list citem := match l with [] => [] | x :: r => gcontent x ++ go r end in
    let fix goi (l : list (list gblock)) : list citem := match l with [] => [] | x :: r => go x ++ goi r end in
    match b with
    | GPlain l | GPara l | GHeader _ l => [CI l]
    | GCode lang text => [CC lang text]
    | GQuote bs => go bs
    | GOList its | GBList its => goi its
    | GRule => [CR]
    | GTable h _ rows => map CI h ++ flat_map (map CI) rows
    end.

  Lemma gcontent_go l :
    (fix go (l : list gblock) : list citem := match l with [] => [] | x :: r => gcontent x ++ go r end) l
    = flat_map gcontent l.
  Proof. induction l as [|x l IH]; cbn; [reflexivity | now rewrite IH]. Qed.

  Lemma flat_flat {A B C} (f : A -> list B) (g : B -> list C) l :
    flat_map g (flat_map f l) = flat_map (fun x => flat_map g (f x)) l.
  Proof. induction l as [|x l IH]; cbn [flat_map]; [reflexivity | now rewrite flat_map_app, IH]. Qed.

  Lemma flat_ext_forall {A B} (f g : A -> list B) l :
    Forall (fun x => f x = g x) l -> flat_map f l = flat_map g l.
  Proof. induction 1 as [|x l Hx _ IH]; cbn [flat_map]; [reflexivity | now rewrite Hx, IH]. Qed.

  Definition C1 (t : tree) : Prop := forall hl, flat_map gcontent (project_node parent hl t) = tcontent t.
  Definition CK (c : list tree) : Prop :=
    forall hl, flat_map gcontent (flat_map (project_node parent hl) c) = flat_map tcontent c.

  Lemma CK_of_C1 c : Forall C1 c -> CK c.
  Proof.
    intros H hl. rewrite flat_flat. apply flat_ext_forall.
    eapply Forall_impl; [|exact H]. intros t Ht. apply Ht.
  Qed.

  Lemma items_content c :
    Forall (fun t => CK (t_children t)) c ->
    (fix goi (l : list (list gblock)) : list citem :=
       match l with
       | [] => []
       | x :: r => (fix go (l : list gblock) : list citem := match l with [] => [] | x :: r => gcontent x ++ go r end) x ++ goi r
       end) (map (item_of parent) c)
    = flat_map (fun c => match c with T _ cn ck => CI (out_inlines parent cn) :: flat_map tcontent ck end) c.
  Proof.
    induction 1 as [|t c Ht _ IH]; cbn [map flat_map]; [reflexivity|].
    rewrite IH. f_equal. destruct t as [i cn ck]. cbn [item_of t_children] in *.
    rewrite gcontent_go. cbn [flat_map]. rewrite (Ht 0).
    destruct (first_is_leaf ck); reflexivity.
  Qed.

  Lemma project_content : forall t, C1 t /\ CK (t_children t).
  Proof.
    apply (tree_ind' (fun t => C1 t /\ CK (t_children t))).
    intros i n c Hc.
    assert (HS : Forall C1 c) by (eapply Forall_impl; [|exact Hc]; now intros t [? _]).
    assert (HK : Forall (fun t => CK (t_children t)) c) by (eapply Forall_impl; [|exact Hc]; now intros t [_ ?]).
    pose proof (CK_of_C1 c HS) as Kc.
    split; [|exact Kc].
    intros hl. destruct n; cbn [project_node tcontent].
    - apply Kc.
    - cbn [flat_map gcontent app]. f_equal. apply Kc.
    - destruct (flat_map (project_node parent 0) c) as [|g q] eqn:E.
      + rewrite <- (Kc 0), E. reflexivity.
      + cbn [flat_map]. rewrite app_nil_r. cbn [gcontent]. rewrite gcontent_go.
        pose proof (Kc 0) as K0. rewrite E in K0. exact K0.
    - destruct c as [|c0 c]; [reflexivity|].
      cbn [flat_map gcontent]. rewrite app_nil_r. apply (items_content (c0 :: c) HK).
    - destruct c as [|c0 c]; [reflexivity|].
      cbn [flat_map gcontent]. rewrite app_nil_r. apply (items_content (c0 :: c) HK).
    - reflexivity.
    - reflexivity.
    - reflexivity.
    - reflexivity.
    - cbn [flat_map gcontent]. now rewrite app_nil_r.
  Qed.

  Theorem project_conserves (t : tree) : flat_map gcontent (project parent t) = tcontent t.
  Proof. destruct (project_content t) as [H _]. apply H. Qed.
End C01.
