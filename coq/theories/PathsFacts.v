(* PathsFacts.v — theorems about Paths.v: the cycle guard of paths_for_node terminates
   (fuel lemma), every listed path is a chain of headings (soundness), global_search is the
   100-prefix of a sorted permutation, and the refutations of completeness (cycles, stale
   index entries as found). *)
From Coq Require Import Lia ZArith Permutation.
From IweV Require Import Str Text Ast RelPath Arena Project Library Index IndexFacts Paths.
Local Open Scope string_scope.
Local Open Scope list_scope.

(* ---------- small tools --------------------------------------------------------------------- *)

Lemma bind_ok {A B} (r : res A) (f : A -> res B) y :
  bind r f = Ok y -> exists x, r = Ok x /\ f x = Ok y.
Proof. destruct r; cbn; [eauto | discriminate]. Qed.

Lemma concat_res_In {A} (l : list (res (list A))) ys y :
  concat_res l = Ok ys -> In y ys -> exists xs, In (Ok xs) l /\ In y xs.
Proof.
  revert ys. induction l as [|r l IH]; intros ys H Hy; cbn in H.
  - injection H as <-. destruct Hy.
  - apply bind_ok in H as [x [-> H]]. apply bind_ok in H as [z [Hz H]]. injection H as <-.
    apply in_app_iff in Hy as [Hy | Hy].
    + exists x. split; [now left | exact Hy].
    + destruct (IH z Hz Hy) as [xs [A1 A2]]. exists xs. split; [now right | exact A2].
Qed.

Lemma concat_res_ok {A} (l : list (res (list A))) :
  (forall r, In r l -> exists x, r = Ok x) -> exists ys, concat_res l = Ok ys.
Proof.
  induction l as [|r l IH]; intros H.
  - cbn. eauto.
  - destruct (H r (or_introl eq_refl)) as [x ->]. destruct IH as [ys E]; [intros; apply H; now right|].
    change (concat_res (Ok x :: l)) with (do x0 <- Ok x; do y <- concat_res l; Ok (x0 ++ y)).
    rewrite E. cbn. eauto.
Qed.

Lemma filter_res_In {A} (f : A -> res bool) l ys y :
  filter_res f l = Ok ys -> In y ys -> In y l /\ f y = Ok true.
Proof.
  revert ys. induction l as [|x l IH]; intros ys H Hy; cbn in H.
  - injection H as <-. destruct Hy.
  - apply bind_ok in H as [r [Hr H]]. apply bind_ok in H as [b [Hb H]]. injection H as <-.
    destruct b.
    + destruct Hy as [<- | Hy]; [split; [now left | exact Hb]|].
      destruct (IH r Hr Hy). split; [now right | assumption].
    + destruct (IH r Hr Hy). split; [now right | assumption].
Qed.

Lemma insert_path_In p q l : In p (insert_path q l) -> p = q \/ In p l.
Proof.
  induction l as [|x l IH]; cbn.
  - intros [<- | []]. now left.
  - destruct (path_cmp q x); cbn; intuition.
Qed.

Lemma sort_paths_In p l : In p (sort_paths l) -> In p l.
Proof.
  unfold sort_paths. induction l as [|x l IH]; cbn; [tauto|].
  intros H. apply insert_path_In in H as [-> | H]; auto.
Qed.

(* ---------- navigation is total on backward-linked arenas -------------------------------------- *)

(* prev links point backward: the builder's cursor is always an older slot *)
Definition bwd (a : arena) : Prop :=
  forall i n p, get a i = Some n -> prev_of n = Some p -> p < i.

Definition bwdb (a : arena) : bool :=
  forallb (fun i => match get a i with
                    | Some n => match prev_of n with Some p => Nat.ltb p i | None => true end
                    | None => true
                    end) (seq 0 (length a)).

Lemma bwdb_sound a : bwdb a = true -> bwd a.
Proof.
  unfold bwdb, bwd. rewrite forallb_forall. intros H i n p Hn Hp.
  assert (Hi : i < length a) by (apply nth_error_Some; unfold get in Hn; congruence).
  specialize (H i). rewrite Hn, Hp in H. apply Nat.ltb_lt. apply H. apply in_seq. lia.
Qed.

Lemma to_parent_ok a : bwd a -> forall fuel id, id < length a -> id < fuel ->
  exists r, to_parent fuel a id = Ok r /\ forall p, r = Some p -> p < id.
Proof.
  intros B. induction fuel as [|f IH]; intros id Hid Hf; [lia|].
  destruct (get_lt a id Hid) as [n Hn]. cbn [to_parent]. rewrite Hn.
  destruct (prev_of n) as [p|] eqn:Hp.
  - assert (Hlt : p < id) by (eapply B; eauto).
    destruct (get_lt a p) as [pn Hpn]; [lia|]. rewrite Hpn.
    match goal with |- context [if ?c then _ else _] => destruct c end.
    + eexists. split; [reflexivity|]. intros q E. injection E as <-. exact Hlt.
    + destruct (IH p) as [r [E R]]; [lia | lia |]. exists r. split; [exact E|].
      intros q Hq. specialize (R q Hq). lia.
  - eexists. split; [reflexivity|]. discriminate.
Qed.

Lemma parent_of_ok a id : bwd a -> id < length a ->
  exists r, parent_of a id = Ok r /\ forall p, r = Some p -> p < id.
Proof. intros B H. apply to_parent_ok; auto. unfold nav_fuel. lia. Qed.

(* ---------- C18_finite: the cycle guard ------------------------------------------------------------ *)

Definition idx_in_range (s : gstate) : Prop :=
  forall k x, In x (raw_block_refs (gs_index s) k) -> x < length (gr_arena (gs_graph s)).

Lemma path_refs_ok filt s k : idx_in_range s ->
  exists l, path_refs filt s k = Ok l /\ forall x, In x l -> x < length (gr_arena (gs_graph s)).
Proof.
  intros R. unfold path_refs. destruct filt.
  - destruct (get_block_references_to_spec (gr_arena (gs_graph s)) (gs_index s) k (R k)) as [l [E S]].
    exists l. split; [exact E|]. intros x Hx. apply S in Hx as [Hx _]. eapply R; eauto.
  - exists (sort_ids (raw_block_refs (gs_index s) k)). split; [reflexivity|].
    intros x Hx. rewrite sort_ids_In in Hx. exact (R k x Hx).
Qed.

(* the guard: the ids on the recursion stack are distinct nodes of the arena, so the stack is
   never deeper than the arena is long; with the fuel the model gives, the walk returns *)
Lemma paths_for_node_total filt s : bwd (gr_arena (gs_graph s)) -> idx_in_range s ->
  forall fuel id visited,
    id < length (gr_arena (gs_graph s)) -> NoDup visited ->
    (forall v, In v visited -> v < length (gr_arena (gs_graph s))) ->
    length (gr_arena (gs_graph s)) - length visited < fuel ->
    exists ps, paths_for_node filt fuel s id visited = Ok ps.
Proof.
  intros B R. set (a := gr_arena (gs_graph s)) in *.
  induction fuel as [|f IH]; intros id visited Hid ND Hv Hf; [lia|].
  cbn [paths_for_node]. destruct (mem id visited) eqn:M; [eauto|].
  assert (Hnin : ~ In id visited) by (intros H; apply mem_In in H; congruence).
  assert (ND' : NoDup (id :: visited)) by (constructor; assumption).
  assert (Hv' : forall v, In v (id :: visited) -> v < length a) by (intros v [<- | H]; auto).
  assert (Hlen : length (id :: visited) <= length a).
  { rewrite <- (seq_length (length a) 0). apply NoDup_incl_length; [exact ND'|].
    intros v H. apply in_seq. specialize (Hv' v H). lia. }
  cbn [length] in Hlen.
  assert (Hf' : length a - length (id :: visited) < f) by (cbn [length]; lia).
  fold a. unfold kind_at. destruct (get_lt a id Hid) as [n Hn]. rewrite Hn. cbn [bind].
  destruct (g_kind n); eauto.
  - (* Document *)
    destruct (path_refs_ok filt s key R) as [refs [E Hr]]. rewrite E. cbn [bind].
    apply concat_res_ok. intros r Hin. apply in_map_iff in Hin as [x [<- Hx]].
    destruct (parent_of_ok a x B (Hr x Hx)) as [po [Ep Hp]]. rewrite Ep. cbn [bind].
    destruct po as [p|]; [|eauto]. apply IH; auto. specialize (Hp p eq_refl). specialize (Hr x Hx). fold a in Hr. lia.
  - (* Section *)
    destruct (parent_of_ok a id B Hid) as [po [Ep Hp]]. rewrite Ep. cbn [bind].
    destruct po as [p|].
    + destruct (IH p (id :: visited)) as [ps E]; auto; [specialize (Hp p eq_refl); lia|].
      rewrite E. cbn [bind]. eauto.
    + cbn [bind]. eauto.
Qed.

Theorem paths_for_node_terminates filt s id :
  bwd (gr_arena (gs_graph s)) -> idx_in_range s -> id < length (gr_arena (gs_graph s)) ->
  exists ps, paths_for_node filt (paths_fuel (gr_arena (gs_graph s))) s id [] = Ok ps.
Proof.
  intros B R H. apply paths_for_node_total; auto; [constructor | intros v [] | unfold paths_fuel; cbn; lia].
Qed.

(* ---------- C18_sound ------------------------------------------------------------------------------- *)

Section Sound.
  Variable filt : bool.
  Variable s : gstate.
  Let a := gr_arena (gs_graph s).

  Definition sec (x : nat) : Prop := exists l, kind_at a x = Ok (KSection l).
  Definition doc (d : nat) (k : string) : Prop := kind_at a d = Ok (KDocument k).

  (* document [d] is included, by a block reference, directly below section [x] — possibly
     handed on by notes whose reference sits directly below their document node *)
  Inductive incl_chain : nat -> nat -> Prop :=
  | ic_direct d k refs r x :
      doc d k -> path_refs filt s k = Ok refs -> In r refs -> parent_of a r = Ok (Some x) -> sec x ->
      incl_chain d x
  | ic_through d k refs r d' x :
      doc d k -> path_refs filt s k = Ok refs -> In r refs -> parent_of a r = Ok (Some d') ->
      incl_chain d' x -> incl_chain d x.

  (* one step of a path: from heading [x] to its sub-heading [y], or to a top-level heading [y]
     of a note included below [x] *)
  Definition hstep (x y : nat) : Prop :=
    sec y /\ exists p, parent_of a y = Ok (Some p) /\ ((p = x /\ sec x) \/ incl_chain p x).

  Inductive chain : list nat -> Prop :=
  | chain_one x : sec x -> chain [x]
  | chain_cons x y r : hstep x y -> chain (y :: r) -> chain (x :: y :: r).

  Fixpoint lastn (p : list nat) : option nat :=
    match p with
    | [] => None
    | [x] => Some x
    | _ :: r => lastn r
    end.

  Lemma lastn_snoc q x : lastn (q ++ [x]) = Some x.
  Proof.
    induction q as [|y q IH]; [reflexivity|]. cbn [app lastn].
    destruct (q ++ [x]) eqn:E; [destruct q; discriminate | exact IH].
  Qed.

  Lemma chain_snoc q x y : chain q -> lastn q = Some x -> hstep x y -> chain (q ++ [y]).
  Proof.
    induction 1 as [z Hz | z w r Hs Hc IH]; intros L S.
    - cbn in L. injection L as ->. cbn. constructor; [exact S|]. constructor. exact (proj1 S).
    - cbn [app]. constructor; [exact Hs|]. apply IH; [|exact S]. exact L.
  Qed.

  Lemma incl_chain_sec d x : incl_chain d x -> sec x.
  Proof. induction 1; auto. Qed.
  Lemma incl_chain_doc d x : incl_chain d x -> exists k, doc d k.
  Proof. destruct 1; eauto. Qed.

  Lemma chain_first_sec x r : chain (x :: r) -> sec x.
  Proof.
    inversion 1 as [? Hx | ? y r' [_ [p [_ [[_ Hx] | Hi]]]] _]; subst; auto. eapply incl_chain_sec; eauto.
  Qed.

  (* what paths_for_node returns for a node *)
  Definition ends_at (id : nat) (p : list nat) : Prop :=
    (sec id /\ lastn p = Some id) \/ (exists k x, doc id k /\ lastn p = Some x /\ incl_chain id x).

  Lemma paths_for_node_sound : forall fuel id visited ps,
    paths_for_node filt fuel s id visited = Ok ps -> forall p, In p ps -> chain p /\ ends_at id p.
  Proof.
    induction fuel as [|f IH]; intros id visited ps H p Hp; [discriminate|].
    cbn [paths_for_node] in H. destruct (mem id visited); [injection H as <-; destruct Hp|].
    fold a in H. apply bind_ok in H as [k [Hk H]]. destruct k; try (injection H as <-; destruct Hp).
    - (* Document *)
      apply bind_ok in H as [refs [Hrefs H]].
      destruct (concat_res_In _ _ _ H Hp) as [xs [Hin Hpx]].
      apply in_map_iff in Hin as [r [Hr Hrin]].
      apply bind_ok in Hr as [po [Hpo Hr]]. destruct po as [par|]; [|injection Hr as <-; destruct Hpx].
      destruct (IH _ _ _ Hr p Hpx) as [C [[Hs L] | [k' [x [Hd [L I]]]]]]; (split; [exact C|]); right.
      + exists key, par. split; [exact Hk|]. split; [exact L|]. eapply ic_direct; eauto.
      + exists key, x. split; [exact Hk|]. split; [exact L|]. eapply ic_through; eauto.
    - (* Section *)
      assert (Hsec : sec id) by (eexists; exact Hk).
      apply bind_ok in H as [po [Hpo H]]. apply bind_ok in H as [ps0 [Hps0 H]]. injection H as <-.
      apply in_app_iff in Hp as [Hp | [<- | []]].
      + apply in_map_iff in Hp as [q [<- Hq]]. destruct po as [par|]; [|injection Hps0 as <-; destruct Hq].
        destruct (IH _ _ _ Hps0 q Hq) as [C [[Hs L] | [k' [x [Hd [L I]]]]]].
        * split; [|left; split; [exact Hsec | apply lastn_snoc]].
          eapply chain_snoc; [exact C | exact L |]. split; [exact Hsec|]. exists par. split; [exact Hpo | left; auto].
        * split; [|left; split; [exact Hsec | apply lastn_snoc]].
          eapply chain_snoc; [exact C | exact L |]. split; [exact Hsec|]. exists par. split; [exact Hpo | right; exact I].
      + split; [constructor; exact Hsec | left; split; [exact Hsec | reflexivity]].
  Qed.

  (* headings: sections whose ancestors are sections up to the document — outside lists and
     quotes, and live *)
  Inductive heading : nat -> Prop :=
  | h_top x d k : sec x -> parent_of a x = Ok (Some d) -> doc d k -> heading x
  | h_sub x p : sec x -> parent_of a x = Ok (Some p) -> heading p -> heading x.

  Lemma hstep_heading x y : hstep x y -> heading x -> heading y.
  Proof.
    intros [Hy [p [Hp [[-> Hx] | I]]]] Hh.
    - eapply h_sub; eauto.
    - destruct (incl_chain_doc _ _ I) as [k Hd]. eapply h_top; eauto.
  Qed.

  Lemma chain_headings p : chain p -> (forall x r, p = x :: r -> heading x) -> Forall heading p.
  Proof.
    induction 1 as [x Hx | x y r Hs Hc IH]; intros H.
    - constructor; [eapply H; reflexivity | constructor].
    - assert (Hh : heading x) by (eapply H; reflexivity). constructor; [exact Hh|].
      apply IH. intros z r' E. injection E as <- <-. eapply hstep_heading; eauto.
  Qed.

  (* C18_sound *)
  Theorem graph_to_paths_sound ps p :
    graph_to_paths filt s = Ok ps -> In p ps ->
    chain p /\ Forall heading p /\
    exists first rest key d k,
      p = first :: rest /\ graph_node_key (nav_fuel a) a first = Ok key /\ path_refs filt s key = Ok [] /\
      parent_of a first = Ok (Some d) /\ doc d k.
  Proof.
    unfold graph_to_paths. fold a. intros H Hp.
    apply bind_ok in H as [starts [_ H]]. apply bind_ok in H as [all [Hall H]].
    apply bind_ok in H as [kept [Hkept H]]. injection H as <-.
    apply sort_paths_In in Hp. destruct (filter_res_In _ _ _ _ Hkept Hp) as [Hin Hroot].
    destruct (concat_res_In _ _ _ Hall Hin) as [xs [Hxs Hpx]].
    apply in_map_iff in Hxs as [st [Hst _]].
    destruct (paths_for_node_sound _ _ _ _ Hst p Hpx) as [C _].
    unfold root_ok in Hroot. destruct p as [|first rest]; [discriminate|]. fold a in Hroot.
    apply bind_ok in Hroot as [key [Hkey Hroot]]. apply bind_ok in Hroot as [refs [Hrefs Hroot]].
    destruct refs; [|discriminate].
    apply bind_ok in Hroot as [par [Hpar Hroot]]. destruct par as [d|]; [|discriminate].
    apply bind_ok in Hroot as [k [Hk Hroot]]. injection Hroot as Hd. destruct k; try discriminate.
    assert (Hh : heading first) by (eapply h_top; [eapply chain_first_sec; eauto | exact Hpar | exact Hk]).
    split; [exact C|]. split.
    - apply chain_headings; [exact C|]. intros x r E. injection E as <- <-. exact Hh.
    - exists first, rest, key, d, key0. auto.
  Qed.
End Sound.

(* ---------- completeness for notes nobody references ------------------------------------------- *)

Lemma filter_res_mem {A} (f : A -> res bool) l ys y :
  filter_res f l = Ok ys -> In y l -> f y = Ok true -> In y ys.
Proof.
  revert ys. induction l as [|x l IH]; intros ys H Hy Hf; [destruct Hy|].
  cbn in H. apply bind_ok in H as [r [Hr H]]. apply bind_ok in H as [b [Hb H]]. injection H as <-.
  destruct Hy as [-> | Hy].
  - rewrite Hf in Hb. injection Hb as <-. now left.
  - specialize (IH r Hr Hy Hf). destruct b; [now right | exact IH].
Qed.

Lemma concat_res_mem {A} (l : list (res (list A))) ys r :
  concat_res l = Ok ys -> In r l -> exists xs, r = Ok xs /\ incl xs ys.
Proof.
  revert ys. induction l as [|r0 l IH]; intros ys H Hr; [destruct Hr|].
  cbn in H. apply bind_ok in H as [x [-> H]]. apply bind_ok in H as [z [Hz H]]. injection H as <-.
  destruct Hr as [<- | Hr].
  - exists x. split; [reflexivity|]. intros y Hy. apply in_app_iff. now left.
  - destruct (IH z Hz Hr) as [xs [-> I]]. exists xs. split; [reflexivity|].
    intros y Hy. apply in_app_iff. right. now apply I.
Qed.

Lemma path_cmp_eq p : forall q, path_cmp p q = Eq -> p = q.
Proof.
  induction p as [|x p IH]; intros [|y q]; cbn; try discriminate; [reflexivity|].
  destruct (Nat.compare x y) eqn:E; try discriminate. apply Nat.compare_eq in E. subst.
  intros H. f_equal. now apply IH.
Qed.

Lemma insert_path_mem p q l : p = q \/ In p l -> In p (insert_path q l).
Proof.
  induction l as [|x l IH]; cbn.
  - intros [-> | []]. now left.
  - destruct (path_cmp q x) eqn:E.
    + apply path_cmp_eq in E. subst x. cbn. intuition.
    + cbn. intuition.
    + cbn. intuition.
Qed.

Lemma sort_paths_mem p l : In p l -> In p (sort_paths l).
Proof.
  unfold sort_paths. induction l as [|x l IH]; cbn; [tauto|].
  intros [-> | H]; apply insert_path_mem; auto.
Qed.

Lemma to_parent_mono a : forall fuel id r, to_parent fuel a id = Ok r -> to_parent (S fuel) a id = Ok r.
Proof.
  induction fuel as [|f IH]; intros id r H; [discriminate|].
  cbn [to_parent] in H. change (to_parent (S (S f)) a id) with
    (match get a id with
     | None => Panic "arena index out of bounds"
     | Some n =>
         match prev_of n with
         | None => Ok None
         | Some p =>
             match get a p with
             | None => Panic "arena index out of bounds"
             | Some pn =>
                 let child := match g_kind pn with
                              | KDocument _ | KSection _ | KQuote | KBList | KOList => g_child pn
                              | _ => None
                              end in
                 if onat_eqb child (Some id) then Ok (Some p) else to_parent (S f) a p
             end
         end
     end).
  destruct (get a id) as [n|]; [|exact H]. destruct (prev_of n) as [p|]; [|exact H].
  destruct (get a p) as [pn|]; [|exact H]. cbv zeta in *.
  match goal with |- context [if ?c then _ else _] => destruct c end; [exact H | now apply IH].
Qed.

(* the note key found along the prev links is the key of the document to_parent stops at *)
Lemma node_key_of_parent a k : forall fuel x d,
  to_parent fuel a x = Ok (Some d) -> kind_at a d = Ok (KDocument k) ->
  graph_node_key (S fuel) a x = Ok k.
Proof.
  induction fuel as [|f IH]; intros x d H Hd; [discriminate|].
  cbn [to_parent] in H. destruct (get a x) as [n|] eqn:Hn; [|discriminate].
  destruct (prev_of n) as [p|] eqn:Hp; [|discriminate].
  destruct (get a p) as [pn|] eqn:Hpn; [|discriminate]. cbv zeta in H.
  assert (Hnd : forall key, g_kind n <> KDocument key).
  { intros key E. unfold prev_of in Hp. rewrite E in Hp. discriminate. }
  change (graph_node_key (S (S f)) a x) with
    (match get a x with
     | None => Panic "arena index out of bounds"
     | Some n => match g_kind n with
                 | KDocument k => Ok k
                 | _ => match prev_of n with Some p => graph_node_key (S f) a p | None => Panic "to have a prev_id" end
                 end
     end).
  rewrite Hn.
  assert (G : graph_node_key (S f) a p = Ok k).
  { match type of H with context [if ?c then _ else _] => destruct c end.
    - injection H as ->. unfold kind_at in Hd. rewrite Hpn in Hd. injection Hd as Hd.
      cbn [graph_node_key]. rewrite Hpn, Hd. reflexivity.
    - now apply (IH p d). }
  destruct (g_kind n); try (rewrite Hp; exact G). exfalso. eapply Hnd; reflexivity.
Qed.

Section Complete.
  Variable filt : bool.
  Variable s : gstate.
  Let a := gr_arena (gs_graph s).
  Hypothesis B : bwd a.

  (* the chain of headings from the top-level heading below document [d] down to [h] *)
  Inductive hchain : nat -> list nat -> nat -> Prop :=
  | hc_top x d k : sec s x -> parent_of a x = Ok (Some d) -> doc s d k -> hchain x [x] d
  | hc_sub x p q d : sec s x -> parent_of a x = Ok (Some p) -> hchain p q d -> hchain x (q ++ [x]) d.

  Lemma heading_hchain h : heading s h -> exists q d, hchain h q d.
  Proof.
    induction 1 as [x d k Hx Hp Hd | x p Hx Hp _ [q [d IH]]].
    - exists [x], d. econstructor; eauto.
    - exists (q ++ [x]), d. econstructor; eauto.
  Qed.

  Lemma hchain_last h q d : hchain h q d -> lastn q = Some h.
  Proof. destruct 1; [reflexivity | apply lastn_snoc]. Qed.

  Lemma hchain_lt h : h < length a -> forall p, parent_of a h = Ok (Some p) -> p < h.
  Proof.
    intros Hh p Hp. destruct (parent_of_ok a h B Hh) as [r [E R]]. fold a in Hp. rewrite Hp in E.
    injection E as <-. now apply R.
  Qed.

  Lemma sec_lt x : sec s x -> x < length a.
  Proof.
    intros [l H]. unfold kind_at in H. fold a in H. destruct (get a x) eqn:E; [|discriminate].
    apply nth_error_Some. unfold get in E. congruence.
  Qed.

  Lemma hchain_in_paths h q d : hchain h q d -> forall fuel visited ps,
    (forall v, In v visited -> h < v) ->
    paths_for_node filt fuel s h visited = Ok ps -> In q ps.
  Proof.
    induction 1 as [x d k [l Hx] Hp Hd | x p q d [l Hx] Hp Hc IH]; intros fuel visited ps Hv H;
      (destruct fuel as [|f]; [discriminate|]); cbn [paths_for_node] in H;
      (destruct (mem x visited) eqn:M; [apply mem_In in M; specialize (Hv x M); lia|]);
      unfold a in *; cbv zeta in H; rewrite Hx in H; cbn [bind] in H; rewrite Hp in H; cbn [bind] in H;
      apply bind_ok in H as [ps0 [H0 H]]; injection H as <-.
    - apply in_app_iff. right. now left.
    - apply in_app_iff. left. apply in_map_iff. exists q. split; [reflexivity|].
      eapply IH; [|exact H0]. intros v [<- | Hin].
      + apply hchain_lt; [apply sec_lt; eexists; exact Hx | exact Hp].
      + specialize (Hv v Hin). assert (p < x) by (apply hchain_lt; [apply sec_lt; eexists; exact Hx | exact Hp]). lia.
  Qed.

  Lemma hchain_not_in_list h q d : hchain h q d -> forall fuel, S h < fuel -> is_in_list fuel a h = Ok false.
  Proof.
    induction 1 as [x d k [l Hx] Hp Hd | x p q d [l Hx] Hp Hc IH]; intros fuel Hf;
      (destruct fuel as [|f]; [lia|]); cbn [is_in_list]; unfold a in *; rewrite Hx; cbn [bind is_listk is_documentk];
      rewrite Hp; cbn [bind].
    - destruct f as [|f']; [lia|]. cbn [is_in_list]. unfold doc in Hd. rewrite Hd. reflexivity.
    - apply IH. assert (p < x) by (apply hchain_lt; [apply sec_lt; eexists; exact Hx | exact Hp]). lia.
  Qed.

  Lemma hchain_first h q d : hchain h q d ->
    exists top rest k, q = top :: rest /\ sec s top /\ parent_of a top = Ok (Some d) /\ doc s d k.
  Proof.
    induction 1 as [x d k Hx Hp Hd | x p q d Hx Hp Hc [top [rest [k [-> R]]]]].
    - exists x, [], k. auto.
    - exists top, (rest ++ [x]), k. auto.
  Qed.

  (* C18_complete_unreferenced *)
  Theorem complete_unreferenced ps h q d k :
    graph_to_paths filt s = Ok ps -> hchain h q d -> doc s d k -> path_refs filt s k = Ok [] ->
    In q ps /\ lastn q = Some h.
  Proof.
    intros H Hc Hd Hrefs. split; [|eapply hchain_last; eauto].
    unfold graph_to_paths in H. fold a in H.
    apply bind_ok in H as [starts [Hstarts H]]. apply bind_ok in H as [all [Hall H]].
    apply bind_ok in H as [kept [Hkept H]]. injection H as <-.
    assert (Hsec : sec s h) by (destruct Hc; assumption).
    assert (Hlt : h < length a) by (apply sec_lt; exact Hsec).
    (* h is a start node *)
    assert (Hst : In h starts).
    { eapply filter_res_mem; [exact Hstarts | apply in_seq; lia |].
      destruct Hsec as [l Hl]. fold a in Hl. rewrite Hl. cbn [bind is_emptyk].
      rewrite (hchain_not_in_list _ _ _ Hc); [reflexivity | unfold nav_fuel; unfold a in *; lia]. }
    (* its walk returns q *)
    destruct (concat_res_mem _ _ (paths_for_node filt (paths_fuel a) s h []) Hall) as [xs [Hxs Hincl]].
    { apply in_map_iff. exists h. auto. }
    assert (Hq : In q all).
    { apply Hincl. apply (hchain_in_paths _ _ _ Hc (paths_fuel a) [] xs); [intros v Hv; destruct Hv | exact Hxs]. }
    (* q passes the root filter *)
    apply sort_paths_mem. eapply filter_res_mem; [exact Hkept | exact Hq |].
    destruct (hchain_first _ _ _ Hc) as [top [rest [k' [-> [Htop [Hpar Hd']]]]]].
    unfold doc in Hd, Hd'. rewrite Hd in Hd'. injection Hd' as <-.
    unfold root_ok. fold a.
    assert (Hkey : graph_node_key (nav_fuel a) a top = Ok k).
    { assert (Htl : top < length a) by (apply sec_lt; exact Htop).
      destruct (to_parent_ok a B (length a) top Htl Htl) as [r [E _]].
      pose proof (to_parent_mono a _ _ _ E) as E'. unfold parent_of, nav_fuel in Hpar. rewrite Hpar in E'.
      injection E' as <-. unfold nav_fuel. eapply node_key_of_parent; eauto. }
    rewrite Hkey. cbn [bind]. rewrite Hrefs. cbn [bind]. rewrite Hpar. cbn [bind].
    fold a in Hd. rewrite Hd. reflexivity.
  Qed.
End Complete.

(* ---------- C18_search_bound ------------------------------------------------------------------------- *)

Section Sorting.
  Context {A : Type} (le : A -> A -> bool).
  Hypothesis le_total : forall x y, le x y = false -> le y x = true.

  Fixpoint sorted (l : list A) : Prop :=
    match l with
    | x :: ((y :: _) as r) => le x y = true /\ sorted r
    | _ => True
    end.

  Lemma insert_stable_perm x l : Permutation (x :: l) (insert_stable le x l).
  Proof.
    induction l as [|y r IH]; cbn; [reflexivity|]. destruct (le x y); [reflexivity|].
    rewrite perm_swap. now apply perm_skip.
  Qed.

  Lemma stable_sort_perm l : Permutation l (stable_sort le l).
  Proof.
    induction l as [|x l IH]; cbn; [constructor|].
    rewrite <- insert_stable_perm. now apply perm_skip.
  Qed.

  Lemma insert_stable_sorted x l : sorted l -> sorted (insert_stable le x l).
  Proof.
    induction l as [|y r IH]; intros S; cbn [insert_stable]; [exact I|].
    destruct (le x y) eqn:E; [cbn; auto|].
    destruct r as [|z r']; cbn [insert_stable] in *.
    - cbn. split; [apply le_total; exact E | exact I].
    - destruct S as [Syz S]. specialize (IH S). destruct (le x z) eqn:E2.
      + split; [apply le_total; exact E|]. exact IH.
      + split; [exact Syz | exact IH].
  Qed.

  Lemma stable_sort_sorted l : sorted (stable_sort le l).
  Proof. induction l as [|x l IH]; cbn; [exact I | now apply insert_stable_sorted]. Qed.
End Sorting.

Lemma gs_le_total qe x y : gs_le qe x y = false -> gs_le qe y x = true.
Proof.
  destruct x as [px sx], y as [py sy]. unfold gs_le. destruct qe.
  - destruct (Nat.ltb (sp_rank py) (sp_rank px)) eqn:E1; [discriminate|].
    destruct (Nat.ltb (sp_rank px) (sp_rank py)) eqn:E2; [reflexivity|].
    intros H. apply Nat.leb_gt in H. apply Nat.leb_le. lia.
  - destruct (Z.ltb sy sx) eqn:E1; [discriminate|].
    destruct (Z.ltb sx sy) eqn:E2; [reflexivity|].
    destruct (Nat.ltb (String.length (sp_text px)) (String.length (sp_text py))) eqn:E3; [discriminate|].
    destruct (Nat.ltb (String.length (sp_text py)) (String.length (sp_text px))) eqn:E4; [reflexivity|].
    intros H. apply Nat.leb_gt in H. apply Nat.leb_le. lia.
Qed.

Fixpoint ranks_noninc (l : list spath) : Prop :=
  match l with
  | x :: ((y :: _) as r) => sp_rank y <= sp_rank x /\ ranks_noninc r
  | _ => True
  end.

Lemma sorted_ranks (l : list (spath * Z)) : sorted (gs_le true) l -> ranks_noninc (map fst l).
Proof.
  induction l as [|[px sx] [|[py sy] r] IH]; cbn [map fst ranks_noninc]; auto.
  intros [H S]. split; [|apply IH; exact S].
  unfold gs_le in H. destruct (Nat.ltb (sp_rank py) (sp_rank px)) eqn:E1; [apply Nat.ltb_lt in E1; lia|].
  destruct (Nat.ltb (sp_rank px) (sp_rank py)) eqn:E2; [discriminate|].
  apply Nat.ltb_ge in E1. apply Nat.ltb_ge in E2. lia.
Qed.

Lemma ranks_noninc_firstn n : forall l, ranks_noninc l -> ranks_noninc (firstn n l).
Proof.
  induction n as [|n IH]; intros l H; [exact I|]. destruct l as [|x [|y r]]; cbn [firstn]; auto.
  - destruct n; exact I.
  - destruct H as [H1 H2]. specialize (IH (y :: r) H2). destruct n; [exact I|]. cbn [firstn] in *. split; auto.
Qed.

(* at most 100 entries; they are the first 100 of a list that is a permutation of all search
   paths and is sorted by the comparator of global_search (insertion keeps equal elements in
   their original order); for the empty query the reference counts do not increase *)
Theorem global_search_spec qe scored :
  length (global_search qe scored) <= 100 /\
  exists all, global_search qe scored = firstn 100 (map fst all) /\
              Permutation scored all /\ sorted (gs_le qe) all /\
              (qe = true -> ranks_noninc (global_search qe scored)).
Proof.
  split; [unfold global_search; apply firstn_le_length|].
  exists (stable_sort (gs_le qe) scored). split; [reflexivity|]. split; [apply stable_sort_perm|].
  assert (S : sorted (gs_le qe) (stable_sort (gs_le qe) scored)) by (apply stable_sort_sorted, gs_le_total).
  split; [exact S|]. intros ->. apply ranks_noninc_firstn, sorted_ranks, S.
Qed.

(* ---------- refutations ------------------------------------------------------------------------------ *)

Definition ref_to (k : string) (lr : lrange) : dblock := DPara lr [Link k "" Regular [Str k]].

(* F12: a and b include each other, c includes itself, d stands alone *)
Definition cycle_witness : list (string * option string * list dblock) :=
  [("a", None, [DHeader (0, 1) 1 [Str "a"]; ref_to "b" (2, 3)]);
   ("b", None, [DHeader (0, 1) 1 [Str "b"]; DHeader (2, 3) 2 [Str "sub"]; ref_to "a" (4, 5)]);
   ("c", None, [DHeader (0, 1) 1 [Str "c"]; ref_to "c" (2, 3)]);
   ("d", None, [DHeader (0, 1) 1 [Str "d"]])].

(* only d's heading (node 11) is listed, in both variants: the six headings of the notes on
   cycles are the last element of no path *)
Theorem cycle_refuted :
  (do s <- import_state_v true cycle_witness; graph_to_paths true s) = Ok [[11]] /\
  (do s <- import_state_v false cycle_witness; graph_to_paths false s) = Ok [[11]] /\
  (do s <- import_state_v true cycle_witness; Ok (map (fun i => kind_at (gr_arena (gs_graph s)) i) [1; 4; 5; 8]))
    = Ok [Ok (KSection [Str "a"]); Ok (KSection [Str "b"]); Ok (KSection [Str "sub"]); Ok (KSection [Str "c"])].
Proof. repeat split; vm_compute; reflexivity. Qed.

(* R3 as found: a includes b; a is edited and no longer includes b; the raw index still holds
   the tombstoned reference, so b's headings stay hidden; with the filtered reads they return *)
Definition stale_history (tbl filt : bool) : res (list (list nat)) :=
  do s <- import_state_v tbl [("a", None, [DHeader (0, 1) 1 [Str "a"]; ref_to "b" (2, 3)]);
                              ("b", None, [DHeader (0, 1) 1 [Str "b"]; DHeader (2, 3) 2 [Str "inner"]])];
  do s' <- update_state_v tbl s "a" None [DHeader (0, 1) 1 [Str "a"]; DPara (2, 3) [Str "no link any more"]];
  graph_to_paths filt s'.

Theorem stale_refuted :
  stale_history true false = Ok [[7]] /\ stale_history true true = Ok [[4]; [4; 5]; [7]].
Proof. split; vm_compute; reflexivity. Qed.
