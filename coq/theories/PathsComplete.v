(* PathsComplete.v — C18_complete_rooted: completeness of graph_to_paths (graph/path.rs:80-137)
   across block references.

   paths_for_node walks UPWARD: from a heading through its parent sections to the Document
   node of its note, from there to the parent of every block reference that names the note;
   a parent that is a Section continues the walk in the including note, a parent that is a
   Document hands the walk on to the referrers of THAT note, any other parent (list item
   container, quote) ends it.  The root filter keeps a path only when its first element is
   a top-level heading of a note nobody references.  Hence the notes whose headings are
   listed are the least set [listed_note] below; the paths are described by [rooted].
   The cycle guard (ids on the recursion stack) cuts a walk only when a Document node
   repeats on the stack, so along chains of pairwise distinct notes nothing is cut, and every
   chain can be shortened to such a chain. *)
From Coq Require Import Lia ZArith.
From IweV Require Import Str Text Ast RelPath Arena Project Library Index IndexFacts Paths PathsFacts.
Local Open Scope string_scope.
Local Open Scope list_scope.

Section Rooted.
  Variable filt : bool.
  Variable s : gstate.
  Local Notation a := (gr_arena (gs_graph s)).

  (* nobody references the note of document [d] (as the variant reads the index) *)
  Definition unref (d : nat) : Prop := exists k, doc s d k /\ path_refs filt s k = Ok [].

  (* node [r] is a block reference to the note of document [d] *)
  Definition ref_to_doc (d r : nat) : Prop :=
    exists k refs, doc s d k /\ path_refs filt s k = Ok refs /\ In r refs.

  (* [rooted d pre ds]: the note of document [d] is included, through a chain of inclusion
     steps, by a note nobody references.  [pre] is the path the headings of [d] inherit: the
     ancestor chain of the including section, preceded by what that section's note inherits.
     [ds] lists the Document nodes of the chain above [d], nearest first, the unreferenced
     root last. *)
  Inductive rooted : nat -> list nat -> list nat -> Prop :=
  | rt_top d r x q d0 :      (* the reference sits directly below section x of an unreferenced note *)
      ref_to_doc d r -> parent_of a r = Ok (Some x) -> hchain s x q d0 -> unref d0 ->
      rooted d q [d0]
  | rt_sec d r x q d0 pre ds : (* ... directly below section x of a rooted note *)
      ref_to_doc d r -> parent_of a r = Ok (Some x) -> hchain s x q d0 -> rooted d0 pre ds ->
      rooted d (pre ++ q) (d0 :: ds)
  | rt_doc d r d0 pre ds :   (* ... directly below the Document node of a rooted note *)
      ref_to_doc d r -> parent_of a r = Ok (Some d0) -> rooted d0 pre ds ->
      rooted d pre (d0 :: ds).

  (* the index-free form: the least set of notes closed under the three rules (this is the
     least fixpoint `rooted` of Check_C18.v, evaluated per run) *)
  Inductive listed_note : nat -> Prop :=
  | ln_unref d : unref d -> listed_note d
  | ln_sec d r x q d0 :
      ref_to_doc d r -> parent_of a r = Ok (Some x) -> hchain s x q d0 -> listed_note d0 -> listed_note d
  | ln_doc d r d0 :
      ref_to_doc d r -> parent_of a r = Ok (Some d0) -> listed_note d0 -> ~ unref d0 -> listed_note d.

  (* ---------- who owns a node ---------------------------------------------------------------- *)

  (* [under x d]: section x has only sections between it and document d *)
  Inductive under : nat -> nat -> Prop :=
  | u_top x d k : sec s x -> parent_of a x = Ok (Some d) -> doc s d k -> under x d
  | u_sub x p d : sec s x -> parent_of a x = Ok (Some p) -> under p d -> under x d.

  Lemma sec_not_doc x k : sec s x -> doc s x k -> False.
  Proof. intros [l H] D. unfold doc in D. rewrite H in D. discriminate. Qed.

  Lemma under_sec x d : under x d -> sec s x.
  Proof. destruct 1; assumption. Qed.

  Lemma under_doc x d : under x d -> exists k, doc s d k.
  Proof. induction 1; eauto. Qed.

  Lemma under_fun x d : under x d -> forall d', under x d' -> d = d'.
  Proof.
    induction 1 as [x d k Hx Hp Hd | x p d Hx Hp Hu IH]; intros d' U';
      inversion U' as [x' d'' k' Hx' Hp' Hd' | x' p' d'' Hx' Hp' Hu']; subst;
      rewrite Hp in Hp'; injection Hp' as E; subst.
    - reflexivity.
    - exfalso. eapply sec_not_doc; [eapply under_sec; exact Hu' | exact Hd].
    - exfalso. eapply sec_not_doc; [eapply under_sec; exact Hu | exact Hd'].
    - apply IH. exact Hu'.
  Qed.

  Definition own (v d : nat) : Prop := (v = d /\ exists k, doc s d k) \/ under v d.

  Lemma own_fun v d d' : own v d -> own v d' -> d = d'.
  Proof.
    intros [[-> [k Hk]] | U] [[E [k' Hk']] | U'].
    - exact E.
    - exfalso. eapply sec_not_doc; [eapply under_sec; exact U' | exact Hk].
    - subst. exfalso. eapply sec_not_doc; [eapply under_sec; exact U | exact Hk'].
    - eapply under_fun; eauto.
  Qed.

  Lemma hchain_under h q d : hchain s h q d -> under h d /\ forall v, In v q -> under v d.
  Proof.
    induction 1 as [x d k Hx Hp Hd | x p q d Hx Hp Hc [IH1 IH2]].
    - assert (U : under x d) by (eapply u_top; eauto). split; [exact U|]. intros v [<- | []]. exact U.
    - assert (U : under x d) by (eapply u_sub; eauto). split; [exact U|].
      intros v Hv. apply in_app_iff in Hv as [Hv | [<- | []]]; auto.
  Qed.

  Lemma ref_to_doc_doc d r : ref_to_doc d r -> exists k, doc s d k.
  Proof. intros [k [refs [H _]]]. eauto. Qed.

  Lemma ref_not_unref d r : ref_to_doc d r -> unref d -> False.
  Proof.
    intros [k [refs [Hk [Hr Hin]]]] [k' [Hk' Hr']]. unfold doc in Hk, Hk'. rewrite Hk in Hk'.
    injection Hk' as <-. rewrite Hr in Hr'. injection Hr' as ->. destruct Hin.
  Qed.

  Lemma rooted_ref d pre ds : rooted d pre ds -> exists r, ref_to_doc d r.
  Proof. destruct 1; eauto. Qed.

  Lemma rooted_doc d pre ds : rooted d pre ds -> exists k, doc s d k.
  Proof. intros H. destruct (rooted_ref _ _ _ H) as [r Hr]. eapply ref_to_doc_doc; eauto. Qed.

  (* the inherited path starts with a top-level heading of a note nobody references *)
  Lemma rooted_first d pre ds : rooted d pre ds ->
    exists top rest d0 k0, pre = top :: rest /\ sec s top /\ parent_of a top = Ok (Some d0) /\
                           doc s d0 k0 /\ path_refs filt s k0 = Ok [].
  Proof.
    induction 1 as [d r x q d0 Hr Hp Hc [k0 [Hk0 Hu]] | d r x q d0 pre ds Hr Hp Hc _ IH | d r d0 pre ds Hr Hp _ IH].
    - destruct (hchain_first _ _ _ _ Hc) as [top [rest [k [-> [Ht [Hpt Hd]]]]]].
      exists top, rest, d0, k0. auto.
    - destruct IH as [top [rest [d1 [k1 [-> R]]]]]. exists top, (rest ++ q), d1, k1. auto.
    - exact IH.
  Qed.

  (* ---------- the walk ---------------------------------------------------------------------------- *)

  Hypothesis B : bwd a.

  Lemma hchain_le h q d : hchain s h q d -> forall v, In v q -> v <= h.
  Proof.
    induction 1 as [x d k Hx Hp Hd | x p q d Hx Hp Hc IH]; intros v Hv.
    - destruct Hv as [<- | []]. lia.
    - assert (p < x) by (apply (hchain_lt s B x); [apply sec_lt; exact Hx | exact Hp]).
      apply in_app_iff in Hv as [Hv | [<- | []]]; [specialize (IH v Hv)|]; lia.
  Qed.

  (* from heading h up to the Document of its note: h's chain is returned, and every path
     the Document's walk returns (with the chain on the stack) is returned extended by it *)
  Lemma hchain_walk h q d : hchain s h q d -> forall fuel visited ps,
    (forall v, In v q -> ~ In v visited) ->
    paths_for_node filt fuel s h visited = Ok ps ->
    In q ps /\
    exists fuel' ps0, paths_for_node filt fuel' s d (q ++ visited) = Ok ps0 /\
                      forall pre, In pre ps0 -> In (pre ++ q) ps.
  Proof.
    induction 1 as [x d k [l Hx] Hp Hd | x p q d [l Hx] Hp Hc IH]; intros fuel visited ps Hv H;
      (destruct fuel as [|f]; [discriminate|]); cbn [paths_for_node] in H.
    - destruct (mem x visited) eqn:M; [apply mem_In in M; exfalso; apply (Hv x); [now left | exact M]|].
      cbv zeta in H. rewrite Hx in H. cbn [bind] in H. rewrite Hp in H. cbn [bind] in H.
      apply bind_ok in H as [ps0 [H0 H]]. injection H as <-.
      split; [apply in_app_iff; right; now left|].
      exists f, ps0. split; [exact H0|]. intros pre Hpre. apply in_app_iff. left.
      apply in_map_iff. exists pre. auto.
    - destruct (mem x visited) eqn:M;
        [apply mem_In in M; exfalso; apply (Hv x); [apply in_app_iff; right; now left | exact M]|].
      cbv zeta in H. rewrite Hx in H. cbn [bind] in H. rewrite Hp in H. cbn [bind] in H.
      apply bind_ok in H as [ps0 [H0 H]]. injection H as <-.
      assert (Hpx : p < x) by (apply (hchain_lt s B x); [apply sec_lt; eexists; exact Hx | exact Hp]).
      destruct (IH f (x :: visited) ps0) as [Hq [f' [ps1 [W Hpre]]]]; [|exact H0|].
      { intros v Hin [<- | Hin']; [pose proof (hchain_le _ _ _ Hc _ Hin); lia|].
        apply (Hv v); [apply in_app_iff; now left | exact Hin']. }
      split; [apply in_app_iff; left; apply in_map_iff; exists q; auto|].
      exists f', ps1. split; [rewrite <- app_assoc; exact W|].
      intros pre Hin. rewrite app_assoc. apply in_app_iff. left. apply in_map_iff. exists (pre ++ q). auto.
  Qed.

  (* from the Document of a referenced note to the parent of one of its referrers *)
  Lemma doc_walk d r y : ref_to_doc d r -> parent_of a r = Ok (Some y) -> forall fuel visited ps,
    ~ In d visited -> paths_for_node filt fuel s d visited = Ok ps ->
    exists f xs, paths_for_node filt f s y (d :: visited) = Ok xs /\ incl xs ps.
  Proof.
    intros [k [refs [Hk [Hrefs Hin]]]] Hp fuel visited ps Hv H.
    destruct fuel as [|f]; [discriminate|]. cbn [paths_for_node] in H.
    destruct (mem d visited) eqn:M; [apply mem_In in M; contradiction|].
    cbv zeta in H. unfold doc in Hk. rewrite Hk in H. cbn [bind] in H. rewrite Hrefs in H. cbn [bind] in H.
    destruct (concat_res_mem _ _ (do p <- parent_of a r;
                                  match p with
                                  | Some p0 => paths_for_node filt f s p0 (d :: visited)
                                  | None => Ok []
                                  end) H) as [xs [E I]].
    { apply in_map_iff. exists r. split; [reflexivity | exact Hin]. }
    rewrite Hp in E. cbn [bind] in E. exists f, xs. auto.
  Qed.

  (* the stack holds nothing of the notes in [ds] *)
  Definition fresh (ds visited : list nat) : Prop := forall v d, In v visited -> own v d -> ~ In d ds.

  Lemma fresh_tail d0 ds visited : fresh (d0 :: ds) visited -> fresh ds visited.
  Proof. intros F v d Hv Ho Hd. apply (F v d Hv Ho). now right. Qed.

  Lemma fresh_head d0 k ds visited : doc s d0 k -> fresh (d0 :: ds) visited -> ~ In d0 visited.
  Proof. intros Hk F Hin. apply (F d0 d0 Hin); [left; eauto | now left]. Qed.

  Lemma fresh_push_doc d k ds visited : doc s d k -> ~ In d ds -> fresh ds visited -> fresh ds (d :: visited).
  Proof.
    intros Hk Hn F v d' [<- | Hv] Ho; [|eapply F; eauto].
    assert (d' = d) as -> by (eapply own_fun; [exact Ho | left; eauto]). exact Hn.
  Qed.

  Lemma fresh_push_chain x q d0 ds visited :
    hchain s x q d0 -> ~ In d0 ds -> fresh ds visited -> fresh ds (q ++ visited).
  Proof.
    intros Hc Hn F v d' Hv Ho. apply in_app_iff in Hv as [Hv | Hv]; [|eapply F; eauto].
    assert (d' = d0) as -> by (eapply own_fun; [exact Ho | right; apply (proj2 (hchain_under _ _ _ Hc)); exact Hv]).
    exact Hn.
  Qed.

  Lemma chain_off_stack x q d0 d k ds visited :
    hchain s x q d0 -> doc s d k -> fresh (d0 :: ds) visited -> forall v, In v q -> ~ In v (d :: visited).
  Proof.
    intros Hc Hk F v Hv. pose proof (proj2 (hchain_under _ _ _ Hc) v Hv) as U. intros [<- | Hin].
    - eapply sec_not_doc; [eapply under_sec; exact U | exact Hk].
    - apply (F v d0 Hin); [right; exact U | now left].
  Qed.

  Lemma rooted_walk d pre ds : rooted d pre ds -> NoDup (d :: ds) -> forall fuel visited ps,
    ~ In d visited -> fresh ds visited -> paths_for_node filt fuel s d visited = Ok ps -> In pre ps.
  Proof.
    induction 1 as [d r x q d0 Hr Hp Hc Hu | d r x q d0 pre ds Hr Hp Hc Hroot IH | d r d0 pre ds Hr Hp Hroot IH];
      intros ND fuel visited ps Hv F H;
      destruct (ref_to_doc_doc _ _ Hr) as [k Hk];
      destruct (doc_walk _ _ _ Hr Hp _ _ _ Hv H) as [f [xs [W I]]]; apply I.
    - refine (proj1 (hchain_walk _ _ _ Hc _ _ _ _ W)). eapply chain_off_stack; eauto.
    - destruct (hchain_walk _ _ _ Hc _ _ _ (chain_off_stack _ _ _ _ _ _ _ Hc Hk F) W) as [_ [f' [ps0 [W0 E]]]].
      apply E. destruct (rooted_doc _ _ _ Hroot) as [k0 Hk0].
      inversion ND as [|? ? Hnd ND0]; subst. inversion ND0 as [|? ? Hnd0 ND1]; subst.
      apply (IH ND0 f' (q ++ d :: visited) ps0); [| |exact W0].
      + intros Hin. apply in_app_iff in Hin as [Hin | [-> | Hin]].
        * eapply sec_not_doc; [eapply under_sec; apply (proj2 (hchain_under _ _ _ Hc)); exact Hin | exact Hk0].
        * apply Hnd. now left.
        * exact (fresh_head _ _ _ _ Hk0 F Hin).
      + eapply fresh_push_chain; [exact Hc | exact Hnd0 |].
        eapply fresh_push_doc; [exact Hk | intros Hin; apply Hnd; now right | eapply fresh_tail; exact F].
    - destruct (rooted_doc _ _ _ Hroot) as [k0 Hk0].
      inversion ND as [|? ? Hnd ND0]; subst. inversion ND0 as [|? ? Hnd0 ND1]; subst.
      apply (IH ND0 f (d :: visited) xs); [| |exact W].
      + intros [-> | Hin]; [apply Hnd; now left | exact (fresh_head _ _ _ _ Hk0 F Hin)].
      + eapply fresh_push_doc; [exact Hk | intros Hin; apply Hnd; now right | eapply fresh_tail; exact F].
  Qed.

  (* ---------- the root filter ---------------------------------------------------------------------- *)

  Lemma root_ok_top top rest d0 k0 :
    sec s top -> parent_of a top = Ok (Some d0) -> doc s d0 k0 -> path_refs filt s k0 = Ok [] ->
    root_ok filt s (top :: rest) = Ok true.
  Proof.
    intros Htop Hpar Hd Hrefs. unfold root_ok.
    assert (Hkey : graph_node_key (nav_fuel a) a top = Ok k0).
    { assert (Htl : top < length a) by (apply sec_lt; exact Htop).
      destruct (to_parent_ok a B (length a) top Htl Htl) as [r [E _]].
      pose proof (to_parent_mono a _ _ _ E) as E'. unfold parent_of, nav_fuel in Hpar. rewrite Hpar in E'.
      injection E' as <-. unfold nav_fuel. eapply node_key_of_parent; eauto. }
    rewrite Hkey. cbn [bind]. rewrite Hrefs. cbn [bind]. rewrite Hpar. cbn [bind].
    unfold doc in Hd. rewrite Hd. reflexivity.
  Qed.

  (* ---------- C18_complete_rooted ------------------------------------------------------------------- *)

  Theorem complete_rooted ps d pre ds h q :
    graph_to_paths filt s = Ok ps -> rooted d pre ds -> NoDup (d :: ds) -> hchain s h q d ->
    In (pre ++ q) ps /\ lastn (pre ++ q) = Some h.
  Proof.
    intros H Hroot ND Hc. split.
    2:{ destruct Hc; [apply lastn_snoc | rewrite app_assoc; apply lastn_snoc]. }
    unfold graph_to_paths in H.
    apply bind_ok in H as [starts [Hstarts H]]. apply bind_ok in H as [all [Hall H]].
    apply bind_ok in H as [kept [Hkept H]]. injection H as <-.
    assert (Hsec : sec s h) by (destruct Hc; assumption).
    assert (Hlt : h < length a) by (apply sec_lt; exact Hsec).
    assert (Hst : In h starts).
    { eapply filter_res_mem; [exact Hstarts | apply in_seq; lia |].
      destruct Hsec as [l Hl]. rewrite Hl. cbn [bind is_emptyk].
      rewrite (hchain_not_in_list s B _ _ _ Hc); [reflexivity | unfold nav_fuel; lia]. }
    destruct (concat_res_mem _ _ (paths_for_node filt (paths_fuel a) s h []) Hall) as [xs [Hxs Hincl]].
    { apply in_map_iff. exists h. auto. }
    assert (Hq : In (pre ++ q) all).
    { apply Hincl.
      destruct (hchain_walk _ _ _ Hc _ [] xs (fun v _ (F : In v []) => F) Hxs) as [_ [f' [ps0 [W E]]]].
      apply E. destruct (rooted_doc _ _ _ Hroot) as [k Hk]. inversion ND as [|? ? Hnd ND0]; subst.
      apply (rooted_walk _ _ _ Hroot ND f' (q ++ []) ps0); [| |exact W].
      - intros Hin. apply in_app_iff in Hin as [Hin | []].
        eapply sec_not_doc; [eapply under_sec; apply (proj2 (hchain_under _ _ _ Hc)); exact Hin | exact Hk].
      - eapply fresh_push_chain; [exact Hc | exact Hnd | intros v d' []]. }
    apply sort_paths_mem. eapply filter_res_mem; [exact Hkept | exact Hq |].
    destruct (rooted_first _ _ _ Hroot) as [top [rest [d0 [k0 [-> [Ht [Hp [Hd Hr]]]]]]]].
    cbn [app]. eapply root_ok_top; eauto.
  Qed.

  (* ---------- every chain can be shortened to one without a repeated note ----------------------- *)

  Lemma rooted_sub d0 pre ds : rooted d0 pre ds -> NoDup (d0 :: ds) -> forall d, In d ds ->
    unref d \/ exists pre' ds', rooted d pre' ds' /\ NoDup (d :: ds').
  Proof.
    induction 1 as [d1 r x q d0 Hr Hp Hc Hu | d1 r x q d0 pre ds Hr Hp Hc Hroot IH | d1 r d0 pre ds Hr Hp Hroot IH];
      intros ND d Hin.
    - destruct Hin as [<- | []]. now left.
    - inversion ND as [|? ? _ ND0]; subst. destruct Hin as [<- | Hin]; [right; eauto | apply IH; assumption].
    - inversion ND as [|? ? _ ND0]; subst. destruct Hin as [<- | Hin]; [right; eauto | apply IH; assumption].
  Qed.

  Lemma rooted_simple d pre ds : rooted d pre ds -> exists pre' ds', rooted d pre' ds' /\ NoDup (d :: ds').
  Proof.
    induction 1 as [d r x q d0 Hr Hp Hc Hu | d r x q d0 pre ds Hr Hp Hc Hroot IH | d r d0 pre ds Hr Hp Hroot IH].
    - exists q, [d0]. split; [eapply rt_top; eauto|].
      constructor; [|constructor; [intros [] | constructor]].
      intros [-> | []]. eapply ref_not_unref; eauto.
    - destruct IH as [pre' [ds' [R ND]]].
      destruct (in_dec Nat.eq_dec d (d0 :: ds')) as [Hin | Hnin].
      + destruct Hin as [<- | Hin]; [eauto|].
        destruct (rooted_sub _ _ _ R ND d Hin) as [Hu | S]; [exfalso; eapply ref_not_unref; eauto | exact S].
      + exists (pre' ++ q), (d0 :: ds'). split; [eapply rt_sec; eauto | constructor; assumption].
    - destruct IH as [pre' [ds' [R ND]]].
      destruct (in_dec Nat.eq_dec d (d0 :: ds')) as [Hin | Hnin].
      + destruct Hin as [<- | Hin]; [eauto|].
        destruct (rooted_sub _ _ _ R ND d Hin) as [Hu | S]; [exfalso; eapply ref_not_unref; eauto | exact S].
      + exists pre', (d0 :: ds'). split; [eapply rt_doc; eauto | constructor; assumption].
  Qed.

  Lemma listed_note_rooted d : listed_note d -> unref d \/ exists pre ds, rooted d pre ds.
  Proof.
    induction 1 as [d Hu | d r x q d0 Hr Hp Hc _ IH | d r d0 Hr Hp _ IH Hn].
    - now left.
    - right. destruct IH as [Hu | [pre [ds R]]].
      + exists q, [d0]. eapply rt_top; eauto.
      + exists (pre ++ q), (d0 :: ds). eapply rt_sec; eauto.
    - right. destruct IH as [Hu | [pre [ds R]]]; [contradiction|].
      exists pre, (d0 :: ds). eapply rt_doc; eauto.
  Qed.

  Lemma rooted_listed_note d pre ds : rooted d pre ds -> listed_note d.
  Proof.
    induction 1 as [d r x q d0 Hr Hp Hc Hu | d r x q d0 pre ds Hr Hp Hc Hroot IH | d r d0 pre ds Hr Hp Hroot IH].
    - eapply ln_sec; eauto. now apply ln_unref.
    - eapply ln_sec; eauto.
    - eapply ln_doc; eauto. intros Hu. destruct (rooted_ref _ _ _ Hroot) as [r' Hr']. eapply ref_not_unref; eauto.
  Qed.

  (* every heading (chain q below document d) of a listed note ends a listed path, and that
     path is q preceded by a path inherited from the including sections *)
  Theorem complete_listed ps d h q :
    graph_to_paths filt s = Ok ps -> listed_note d -> hchain s h q d ->
    exists pre, In (pre ++ q) ps /\ lastn (pre ++ q) = Some h.
  Proof.
    intros H L Hc. destruct (listed_note_rooted _ L) as [[k [Hk Hr]] | [pre [ds R]]].
    - exists []. cbn [app]. eapply complete_unreferenced; eauto.
    - destruct (rooted_simple _ _ _ R) as [pre' [ds' [R' ND]]]. exists pre'.
      eapply complete_rooted; eauto.
  Qed.
End Rooted.

(* ---------- headline statements -------------------------------------------------------------------- *)

(* On a backward-linked state on which graph_to_paths returns: if the note of document d is
   rooted through a chain of pairwise distinct notes (d :: ds duplicate-free) that hands the
   path [pre] down, then every heading h of d — with ancestor chain q — is the last element
   of the listed path pre ++ q. *)
Theorem C18_complete_rooted :
  forall filt s, bwd (gr_arena (gs_graph s)) ->
  forall ps d pre ds h q,
    graph_to_paths filt s = Ok ps -> rooted filt s d pre ds -> NoDup (d :: ds) -> hchain s h q d ->
    In (pre ++ q) ps /\ lastn (pre ++ q) = Some h.
Proof. exact complete_rooted. Qed.

Check C18_complete_rooted :
  forall filt s, bwd (gr_arena (gs_graph s)) ->
  forall ps d pre ds h q,
    graph_to_paths filt s = Ok ps -> rooted filt s d pre ds -> NoDup (d :: ds) -> hchain s h q d ->
    In (pre ++ q) ps /\ lastn (pre ++ q) = Some h.
Print Assumptions C18_complete_rooted.

(* any chain can be replaced by one without a repeated note *)
Theorem C18_rooted_simple :
  forall filt s d pre ds, rooted filt s d pre ds ->
  exists pre' ds', rooted filt s d pre' ds' /\ NoDup (d :: ds').
Proof. exact rooted_simple. Qed.

Check C18_rooted_simple :
  forall filt s d pre ds, rooted filt s d pre ds ->
  exists pre' ds', rooted filt s d pre' ds' /\ NoDup (d :: ds').
Print Assumptions C18_rooted_simple.

(* the least set of notes closed under "unreferenced", "referenced from directly below a
   heading (outside lists and quotes) of a note in the set", "referenced from directly below
   the Document node of a referenced note in the set" = unreferenced or rooted *)
Theorem C18_listed_note_iff :
  forall filt s d, listed_note filt s d <-> (unref filt s d \/ exists pre ds, rooted filt s d pre ds).
Proof.
  intros filt s d. split; [apply listed_note_rooted|].
  intros [Hu | [pre [ds R]]]; [now apply ln_unref | eapply rooted_listed_note; eauto].
Qed.
Print Assumptions C18_listed_note_iff.

(* Completeness for every listed note, no condition on the chain: every heading of it ends a
   listed path, which is its ancestor chain preceded by an inherited path. *)
Theorem C18_complete_listed :
  forall filt s, bwd (gr_arena (gs_graph s)) ->
  forall ps d h q,
    graph_to_paths filt s = Ok ps -> listed_note filt s d -> hchain s h q d ->
    exists pre, In (pre ++ q) ps /\ lastn (pre ++ q) = Some h.
Proof. exact complete_listed. Qed.

Check C18_complete_listed :
  forall filt s, bwd (gr_arena (gs_graph s)) ->
  forall ps d h q,
    graph_to_paths filt s = Ok ps -> listed_note filt s d -> hchain s h q d ->
    exists pre, In (pre ++ q) ps /\ lastn (pre ++ q) = Some h.
Print Assumptions C18_complete_listed.

(* ---------- concrete libraries --------------------------------------------------------------------- *)

Definition hd1 (n l : nat) (t : string) : dblock := DHeader (n, S n) l [Str t].

Ltac ev := vm_compute; reflexivity.
Ltac is_sec := eexists; vm_compute; reflexivity.
Ltac is_ref := do 2 eexists; split; [ev | split; [ev | cbn; auto]].

(* a includes b below its sub-heading a2, b includes c below its sub-heading b2:
     0 Document a, 1 "a", 2 "a2", 3 ref b, 4 Document b, 5 "b", 6 "b2", 7 ref c, 8 "b3",
     9 Document c, 10 "c", 11 "c2" *)
Definition chain3 : list (string * option string * list dblock) :=
  [("a", None, [hd1 0 1 "a"; hd1 2 2 "a2"; ref_to "b" (4, 5)]);
   ("b", None, [hd1 0 1 "b"; hd1 2 2 "b2"; ref_to "c" (4, 5); hd1 6 2 "b3"]);
   ("c", None, [hd1 0 1 "c"; hd1 2 2 "c2"])].

Example C18_rooted_example :
  exists s ps,
    import_state_v true chain3 = Ok s /\ bwd (gr_arena (gs_graph s)) /\
    graph_to_paths true s = Ok ps /\
    ps = [[1]; [1; 2]; [1; 2; 5]; [1; 2; 5; 6]; [1; 2; 5; 6; 10]; [1; 2; 5; 6; 10; 11]; [1; 2; 5; 8]] /\
    rooted true s 4 [1; 2] [0] /\
    rooted true s 9 [1; 2; 5; 6] [4; 0] /\ NoDup [9; 4; 0] /\
    hchain s 11 [10; 11] 9 /\
    (In [1; 2; 5; 6; 10; 11] ps /\ lastn [1; 2; 5; 6; 10; 11] = Some 11).
Proof.
  eexists. eexists. split; [ev|]. split; [apply bwdb_sound; ev|]. split; [ev|]. split; [reflexivity|].
  match goal with |- rooted true ?s 4 _ _ /\ _ => set (st := s) end.
  assert (Ha2 : hchain st 2 [1; 2] 0).
  { apply (hc_sub st 2 1 [1] 0); [is_sec | ev | apply (hc_top st 1 0 "a"); [is_sec | ev | ev]]. }
  assert (Rb : rooted true st 4 [1; 2] [0]).
  { apply (rt_top true st 4 3 2 [1; 2] 0); [is_ref | ev | exact Ha2 | exists "a"; split; ev]. }
  assert (Hb2 : hchain st 6 [5; 6] 4).
  { apply (hc_sub st 6 5 [5] 4); [is_sec | ev | apply (hc_top st 5 4 "b"); [is_sec | ev | ev]]. }
  assert (Rc : rooted true st 9 [1; 2; 5; 6] [4; 0]).
  { apply (rt_sec true st 9 7 6 [5; 6] 4 [1; 2] [0]); [is_ref | ev | exact Hb2 | exact Rb]. }
  assert (ND : NoDup [9; 4; 0]).
  { repeat constructor; cbn; intuition discriminate. }
  assert (Hc2 : hchain st 11 [10; 11] 9).
  { apply (hc_sub st 11 10 [10] 9); [is_sec | ev | apply (hc_top st 10 9 "c"); [is_sec | ev | ev]]. }
  split; [exact Rb|]. split; [exact Rc|]. split; [exact ND|]. split; [exact Hc2|].
  assert (Bst : bwd (gr_arena (gs_graph st))) by (apply bwdb_sound; ev).
  apply (C18_complete_rooted true st Bst _ 9 [1; 2; 5; 6] [4; 0] 11 [10; 11]);
    [ev | exact Rc | exact ND | exact Hc2].
Qed.

(* a diamond: a includes b (below "a") and c (below "a2"), both include d; d's headings get
   one path per chain:
     0 Document a, 1 "a", 2 ref b, 3 "a2", 4 ref c, 5 Document b, 6 "b", 7 ref d,
     8 Document c, 9 "c", 10 ref d, 11 Document d, 12 "d", 13 "d2" *)
Definition diamond : list (string * option string * list dblock) :=
  [("a", None, [hd1 0 1 "a"; ref_to "b" (2, 3); hd1 4 2 "a2"; ref_to "c" (6, 7)]);
   ("b", None, [hd1 0 1 "b"; ref_to "d" (2, 3)]);
   ("c", None, [hd1 0 1 "c"; ref_to "d" (2, 3)]);
   ("d", None, [hd1 0 1 "d"; hd1 2 2 "d2"])].

Example C18_rooted_diamond :
  exists s,
    import_state_v true diamond = Ok s /\
    graph_to_paths true s =
      Ok [[1]; [1; 3]; [1; 3; 9]; [1; 3; 9; 12]; [1; 3; 9; 12; 13]; [1; 6]; [1; 6; 12]; [1; 6; 12; 13]] /\
    rooted true s 11 [1; 6] [5; 0] /\ rooted true s 11 [1; 3; 9] [8; 0] /\ hchain s 13 [12; 13] 11.
Proof.
  eexists. split; [ev|]. split; [ev|].
  match goal with |- rooted true ?s 11 _ _ /\ _ => set (st := s) end.
  assert (Ha : hchain st 1 [1] 0) by (apply (hc_top st 1 0 "a"); [is_sec | ev | ev]).
  assert (Ha2 : hchain st 3 [1; 3] 0) by (apply (hc_sub st 3 1 [1] 0); [is_sec | ev | exact Ha]).
  assert (Ua : unref true st 0) by (exists "a"; split; ev).
  split; [|split].
  - apply (rt_sec true st 11 7 6 [6] 5 [1] [0]); [is_ref | ev | apply (hc_top st 6 5 "b"); [is_sec | ev | ev] |].
    apply (rt_top true st 5 2 1 [1] 0); [is_ref | ev | exact Ha | exact Ua].
  - apply (rt_sec true st 11 10 9 [9] 8 [1; 3] [0]); [is_ref | ev | apply (hc_top st 9 8 "c"); [is_sec | ev | ev] |].
    apply (rt_top true st 8 4 3 [1; 3] 0); [is_ref | ev | exact Ha2 | exact Ua].
  - apply (hc_sub st 13 12 [12] 11); [is_sec | ev | apply (hc_top st 12 11 "d"); [is_sec | ev | ev]].
Qed.

(* the hypothesis NoDup of C18_complete_rooted is needed: a includes b, b and c include each
   other, c includes d.  Going round the cycle once more is a chain in the sense of [rooted],
   but the cycle guard cuts it: its path is not listed (the path of the simple chain is).
     0 Document a, 1 "a", 2 ref b, 3 Document b, 4 "b", 5 ref c, 6 Document c, 7 "c",
     8 ref b, 9 ref d, 10 Document d, 11 "d" *)
Definition lasso : list (string * option string * list dblock) :=
  [("a", None, [hd1 0 1 "a"; ref_to "b" (2, 3)]);
   ("b", None, [hd1 0 1 "b"; ref_to "c" (2, 3)]);
   ("c", None, [hd1 0 1 "c"; ref_to "b" (2, 3); ref_to "d" (4, 5)]);
   ("d", None, [hd1 0 1 "d"])].

Theorem C18_rooted_nonsimple_refuted :
  exists s ps,
    import_state_v true lasso = Ok s /\ bwd (gr_arena (gs_graph s)) /\ graph_to_paths true s = Ok ps /\
    ps = [[1]; [1; 4]; [1; 4; 7]; [1; 4; 7; 11]] /\
    rooted true s 10 [1; 4; 7; 4; 7] [6; 3; 6; 3; 0] /\ hchain s 11 [11] 10 /\
    ~ In ([1; 4; 7; 4; 7] ++ [11]) ps /\
    rooted true s 10 [1; 4; 7] [6; 3; 0].
Proof.
  eexists. eexists. split; [ev|]. split; [apply bwdb_sound; ev|]. split; [ev|]. split; [reflexivity|].
  match goal with |- rooted true ?s 10 _ _ /\ _ => set (st := s) end.
  assert (Ha : hchain st 1 [1] 0) by (apply (hc_top st 1 0 "a"); [is_sec | ev | ev]).
  assert (Hb : hchain st 4 [4] 3) by (apply (hc_top st 4 3 "b"); [is_sec | ev | ev]).
  assert (Hc : hchain st 7 [7] 6) by (apply (hc_top st 7 6 "c"); [is_sec | ev | ev]).
  assert (Rb : rooted true st 3 [1] [0]).
  { apply (rt_top true st 3 2 1 [1] 0); [is_ref | ev | exact Ha | exists "a"; split; ev]. }
  assert (Rc : rooted true st 6 [1; 4] [3; 0]).
  { apply (rt_sec true st 6 5 4 [4] 3 [1] [0]); [is_ref | ev | exact Hb | exact Rb]. }
  assert (Rb' : rooted true st 3 [1; 4; 7] [6; 3; 0]).
  { apply (rt_sec true st 3 8 7 [7] 6 [1; 4] [3; 0]); [is_ref | ev | exact Hc | exact Rc]. }
  assert (Rc' : rooted true st 6 [1; 4; 7; 4] [3; 6; 3; 0]).
  { apply (rt_sec true st 6 5 4 [4] 3 [1; 4; 7] [6; 3; 0]); [is_ref | ev | exact Hb | exact Rb']. }
  split; [|split; [|split]].
  - apply (rt_sec true st 10 9 7 [7] 6 [1; 4; 7; 4] [3; 6; 3; 0]); [is_ref | ev | exact Hc | exact Rc'].
  - apply (hc_top st 11 10 "d"); [is_sec | ev | ev].
  - cbn. intuition discriminate.
  - apply (rt_sec true st 10 9 7 [7] 6 [1; 4] [3; 0]); [is_ref | ev | exact Hc | exact Rc].
Qed.

(* what the set [listed_note] leaves out (F-C18-unrooted): a note whose only referrer sits
   directly below the Document node of an unreferenced note — before its first heading — is
   handed the paths of that note's referrers, of which there are none: c's headings 4 and 5
   end no listed path, and the path that would list them is refused by the root filter.
     0 Document a, 1 ref c, 2 "a", 3 Document c, 4 "c", 5 "c2" *)
Definition below_document : list (string * option string * list dblock) :=
  [("a", None, [ref_to "c" (0, 1); hd1 2 1 "a"]);
   ("c", None, [hd1 0 1 "c"; hd1 2 2 "c2"])].

Theorem C18_below_document_refuted :
  exists s ps,
    import_state_v true below_document = Ok s /\ bwd (gr_arena (gs_graph s)) /\
    graph_to_paths true s = Ok ps /\ ps = [[2]] /\
    unref true s 0 /\ ref_to_doc true s 3 1 /\ parent_of (gr_arena (gs_graph s)) 1 = Ok (Some 0) /\
    hchain s 5 [4; 5] 3 /\
    (forall p, In p ps -> lastn p <> Some 4 /\ lastn p <> Some 5).
Proof.
  eexists. eexists. split; [ev|]. split; [apply bwdb_sound; ev|]. split; [ev|]. split; [reflexivity|].
  match goal with |- unref true ?s 0 /\ _ => set (st := s) end.
  split; [exists "a"; split; ev|]. split; [is_ref|]. split; [ev|]. split.
  - apply (hc_sub st 5 4 [4] 3); [is_sec | ev | apply (hc_top st 4 3 "c"); [is_sec | ev | ev]].
  - intros p [<- | []]. split; discriminate.
Qed.

(* the third rule is not vacuous: a includes b below "a"; b includes c before its first
   heading, so c inherits what b's Document inherits:
     0 Document a, 1 "a", 2 ref b, 3 Document b, 4 ref c, 5 "b", 6 Document c, 7 "c", 8 "c2" *)
Definition through : list (string * option string * list dblock) :=
  [("a", None, [hd1 0 1 "a"; ref_to "b" (2, 3)]);
   ("b", None, [ref_to "c" (0, 1); hd1 2 1 "b"]);
   ("c", None, [hd1 0 1 "c"; hd1 2 2 "c2"])].

Example C18_rooted_through :
  exists s,
    import_state_v true through = Ok s /\
    graph_to_paths true s = Ok [[1]; [1; 5]; [1; 7]; [1; 7; 8]] /\
    rooted true s 6 [1] [3; 0] /\ NoDup [6; 3; 0] /\ hchain s 8 [7; 8] 6.
Proof.
  eexists. split; [ev|]. split; [ev|].
  match goal with |- rooted true ?s 6 _ _ /\ _ => set (st := s) end.
  split; [|split].
  - apply (rt_doc true st 6 4 3 [1] [0]); [is_ref | ev |].
    apply (rt_top true st 3 2 1 [1] 0); [is_ref | ev | apply (hc_top st 1 0 "a"); [is_sec | ev | ev] | exists "a"; split; ev].
  - repeat constructor; cbn; intuition discriminate.
  - apply (hc_sub st 8 7 [7] 6); [is_sec | ev | apply (hc_top st 7 6 "c"); [is_sec | ev | ev]].
Qed.

Print Assumptions C18_rooted_example.
Print Assumptions C18_rooted_nonsimple_refuted.
Print Assumptions C18_below_document_refuted.
