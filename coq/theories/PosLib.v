(* PosLib.v — C13, the line -> node lookup of the library (`GraphContext::get_node_id_at`,
   graph.rs:475-483; model in Library.v): it returns the last entry of the note's line map
   whose range contains the line. *)
From IweV Require Import Str Text Ast RelPath Arena Project Library.
Local Open Scope string_scope.
Local Open Scope list_scope.

Lemma find_split {A} (f : A -> bool) l e :
  find f l = Some e -> exists l1 l2, l = l1 ++ e :: l2 /\ f e = true /\ Forall (fun x => f x = false) l1.
Proof.
  induction l as [|x r IH]; cbn; [discriminate|]. destruct (f x) eqn:E.
  - intros [= ->]. exists [], r. repeat split; [exact E | constructor].
  - intros H. destruct (IH H) as (l1 & l2 & -> & He & Hf). exists (x :: l1), l2. repeat split; auto.
Qed.

Lemma find_skip {A} (f : A -> bool) l1 e l2 :
  Forall (fun x => f x = false) l1 -> f e = true -> find f (l1 ++ e :: l2) = Some e.
Proof.
  induction 1 as [|x r Hx _ IH]; intros He; cbn; [now rewrite He|]. rewrite Hx. now apply IH.
Qed.

Theorem node_at_line_some g key m line id :
  alookup key (gr_maps g) = Some m ->
  (get_node_id_at g key line = Ok (Some id) <->
   exists m1 r m2, m = m1 ++ (id, r) :: m2 /\ range_contains r line = true /\
                   Forall (fun e => range_contains (snd e) line = false) m2).
Proof.
  intros Hm. unfold get_node_id_at. rewrite Hm. split.
  - intros H. injection H as H.
    destruct (find (fun e => range_contains (snd e) line) (rev m)) as [[i r]|] eqn:F; [|discriminate].
    injection H as ->. apply find_split in F as (l1 & l2 & Hr & He & Hf).
    exists (rev l2), r, (rev l1). repeat split.
    + rewrite <- (rev_involutive m), Hr, rev_app_distr. cbn. now rewrite <- app_assoc.
    + exact He.
    + apply Forall_rev. exact Hf.
  - intros (m1 & r & m2 & -> & Hr & Hf). rewrite rev_app_distr. cbn [rev]. rewrite <- app_assoc. cbn [app].
    rewrite (find_skip (fun e => range_contains (snd e) line) (rev m2) (id, r) (rev m1)); [reflexivity| |exact Hr].
    apply Forall_rev. exact Hf.
Qed.

Theorem node_at_line_none g key m line :
  alookup key (gr_maps g) = Some m ->
  (get_node_id_at g key line = Ok None <-> Forall (fun e => range_contains (snd e) line = false) m).
Proof.
  intros Hm. unfold get_node_id_at. rewrite Hm. split.
  - intros H. injection H as H.
    destruct (find (fun e => range_contains (snd e) line) (rev m)) as [e|] eqn:F; [discriminate|].
    apply Forall_forall. intros x Hx. apply (find_none _ _ F). now apply in_rev in Hx.
  - intros H. destruct (find (fun e => range_contains (snd e) line) (rev m)) as [e|] eqn:F; [|reflexivity].
    apply find_some in F as [Hi He]. apply in_rev in Hi. rewrite Forall_forall in H. rewrite (H e Hi) in He. discriminate.
Qed.
