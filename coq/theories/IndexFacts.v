(* IndexFacts.v — theorems about Index.v: the walk of index_node terminates on every
   forward-linked arena and records exactly the nodes it reaches; on the repaired walk (and
   on the as-found walk when no table has a successor) that is everything below the start
   node; import indexes every node whatever the variant; merge and the filtered getters;
   external urls, `.md`, resolution of block references, the as-found refutations. *)
From Coq Require Import Lia.
From IweV Require Import Str Text Ast RelPath RelPathFacts Arena Project Library Index.
Local Open Scope string_scope.
Local Open Scope list_scope.

(* ---------- well-formedness of arenas ------------------------------------------------------- *)

(* links point forward and inside the arena: the builder only ever links the cursor to the
   slot it is about to push *)
Definition fwd (a : arena) : Prop :=
  forall i n, get a i = Some n ->
    (forall c, g_child n = Some c -> i < c < length a) /\
    (forall x, g_next n = Some x -> i < x < length a).

(* only containers have a child, a document has no next, a tombstone has neither *)
Definition kind_links_ok (n : gnode) : bool :=
  match g_kind n with
  | KDocument _ => match g_next n with None => true | _ => false end
  | KSection _ | KQuote | KBList | KOList => true
  | KEmpty => match g_child n, g_next n with None, None => true | _, _ => false end
  | _ => match g_child n with None => true | _ => false end
  end.

Definition olt (i : nat) (o : option nat) (len : nat) : bool :=
  match o with None => true | Some j => Nat.ltb i j && Nat.ltb j len end.

Definition wf_nodeb (len i : nat) (n : gnode) : bool :=
  olt i (g_child n) len && olt i (g_next n) len && kind_links_ok n.

Fixpoint wf_fromb (len i : nat) (l : list gnode) : bool :=
  match l with
  | [] => true
  | n :: r => wf_nodeb len i n && wf_fromb len (S i) r
  end.

(* the decidable form evaluated on every observed arena *)
Definition wf_arenab (a : arena) : bool := wf_fromb (length a) 0 a.

Definition wf_arena (a : arena) : Prop :=
  fwd a /\ forall i n, get a i = Some n -> kind_links_ok n = true.

Lemma wf_fromb_nth len l : forall i j n,
  wf_fromb len i l = true -> nth_error l j = Some n -> wf_nodeb len (i + j) n = true.
Proof.
  induction l as [|x r IH]; intros i j n H Hn.
  - destruct j; discriminate.
  - cbn in H. apply andb_prop in H as [H1 H2]. destruct j as [|j]; cbn in Hn.
    + injection Hn as <-. now rewrite Nat.add_0_r.
    + replace (i + S j) with (S i + j) by lia. eapply IH; eauto.
Qed.

Lemma wf_arenab_sound a : wf_arenab a = true -> wf_arena a.
Proof.
  intros H. assert (W : forall i n, get a i = Some n -> wf_nodeb (length a) i n = true).
  { intros i n Hn. apply (wf_fromb_nth _ _ 0 i n H Hn). }
  split.
  - intros i n Hn. specialize (W i n Hn). unfold wf_nodeb in W.
    apply andb_prop in W as [W _]. apply andb_prop in W as [Wc Wn]. split.
    + intros c Hc. rewrite Hc in Wc. cbn in Wc. apply andb_prop in Wc as [A B].
      apply Nat.ltb_lt in A. apply Nat.ltb_lt in B. lia.
    + intros x Hx. rewrite Hx in Wn. cbn in Wn. apply andb_prop in Wn as [A B].
      apply Nat.ltb_lt in A. apply Nat.ltb_lt in B. lia.
  - intros i n Hn. specialize (W i n Hn). unfold wf_nodeb in W. now apply andb_prop in W as [_ W].
Qed.

(* ---------- sets and maps ---------------------------------------------------------------------- *)

Lemma mem_In x l : mem x l = true <-> In x l.
Proof.
  unfold mem. rewrite existsb_exists. split.
  - intros [y [Hy E]]. apply Nat.eqb_eq in E. now subst.
  - intros H. exists x. split; [exact H | apply Nat.eqb_refl].
Qed.

Lemma set_add_In x y l : In x (set_add y l) <-> In x l \/ x = y.
Proof.
  unfold set_add. destruct (mem y l) eqn:E.
  - split; [tauto|]. intros [H | ->]; [exact H | now apply mem_In].
  - rewrite in_app_iff. cbn. intuition.
Qed.

Lemma kget_kadd k k' id m x :
  In x (kget k (kadd k' id m)) <-> In x (kget k m) \/ (k = k' /\ x = id).
Proof.
  unfold kget. induction m as [|[k0 s] r IH]; cbn.
  - destruct (String.eqb k k') eqn:E.
    + apply String.eqb_eq in E. subst. cbn. intuition.
    + apply String.eqb_neq in E. cbn. intuition.
  - destruct (String.eqb k' k0) eqn:E0.
    + apply String.eqb_eq in E0. subst k0. cbn. destruct (String.eqb k k') eqn:E.
      * apply String.eqb_eq in E. subst. rewrite set_add_In. intuition.
      * apply String.eqb_neq in E. intuition.
    + cbn. destruct (String.eqb k k0) eqn:E.
      * apply String.eqb_eq in E. subst k0. apply String.eqb_neq in E0.
        split; [tauto|]. intros [H | [H1 _]]; [exact H | congruence].
      * exact IH.
Qed.

Lemma kget_kadd_fold k id ks : forall m x,
  In x (kget k (fold_left (fun m k' => kadd k' id m) ks m)) <-> In x (kget k m) \/ (In k ks /\ x = id).
Proof.
  induction ks as [|k1 r IH]; intros m x; cbn.
  - intuition.
  - rewrite IH, kget_kadd. intuition; subst; auto.
Qed.

Lemma kget_kadd_ids k k' ids : forall m x,
  In x (kget k (fold_left (fun acc id => kadd k' id acc) ids m)) <-> In x (kget k m) \/ (k = k' /\ In x ids).
Proof.
  induction ids as [|i r IH]; intros m x; cbn.
  - intuition.
  - rewrite IH, kget_kadd. intuition; subst; auto.
Qed.

Lemma kget_kmerge k other : forall m x,
  In x (kget k (kmerge m other)) <-> In x (kget k m) \/ (exists s, In (k, s) other /\ In x s).
Proof.
  unfold kmerge. induction other as [|[k1 s1] r IH]; intros m x; cbn.
  - split; [tauto|]. intros [H | [s [[] _]]]. exact H.
  - rewrite IH. cbn [fst snd]. rewrite kget_kadd_ids. split.
    + intros [[H | [-> H]] | [s [H1 H2]]]; [tauto | right; exists s1; tauto | right; exists s; tauto].
    + intros [H | [s [[E | H1] H2]]]; [tauto | injection E as -> ->; tauto | right; exists s; tauto].
Qed.

(* a map built by kadd has at most one entry per key, so membership of an entry is kget *)
Definition keys_nodup (m : kmap) : Prop := NoDup (map fst m).

Lemma kadd_keys k id m : forall k0, In k0 (map fst (kadd k id m)) <-> In k0 (map fst m) \/ k0 = k.
Proof.
  induction m as [|[k1 s] r IH]; intros k0; cbn.
  - intuition.
  - destruct (String.eqb k k1) eqn:E; cbn.
    + apply String.eqb_eq in E. subst. intuition.
    + rewrite IH. intuition.
Qed.

Lemma kadd_nodup k id m : keys_nodup m -> keys_nodup (kadd k id m).
Proof.
  unfold keys_nodup. induction m as [|[k1 s] r IH]; intros H; cbn.
  - constructor; [intros [] | constructor].
  - inversion H as [|? ? Hn Hr]; subst. destruct (String.eqb k k1) eqn:E; cbn.
    + constructor; assumption.
    + constructor; [| now apply IH]. rewrite kadd_keys. intros [H1 | H1]; [tauto|].
      subst. now rewrite String.eqb_refl in E.
Qed.

Lemma kget_entry m : keys_nodup m -> forall k s, In (k, s) m -> kget k m = s.
Proof.
  unfold keys_nodup, kget. induction m as [|[k1 s1] r IH]; intros H k s Hin; [destruct Hin|].
  cbn in H. inversion H as [|? ? Hn Hr]; subst. cbn. destruct Hin as [E | Hin].
  - injection E as -> ->. now rewrite String.eqb_refl.
  - destruct (String.eqb k k1) eqn:E.
    + apply String.eqb_eq in E. subst. exfalso. apply Hn. apply in_map_iff. now exists (k1, s).
    + now apply IH.
Qed.

Lemma kget_in_entry m k x : In x (kget k m) -> exists s, In (k, s) m /\ In x s.
Proof.
  unfold kget. induction m as [|[k1 s1] r IH]; cbn; [tauto|].
  destruct (String.eqb k k1) eqn:E.
  - apply String.eqb_eq in E. subst. intros H. exists s1. auto.
  - intros H. destruct (IH H) as [s [A B]]. exists s. auto.
Qed.

(* merge is a per-key union (for indexes whose maps have one entry per key, which is what
   index_node builds) *)
Lemma kget_kmerge_nodup k m other x : keys_nodup other ->
  In x (kget k (kmerge m other)) <-> In x (kget k m) \/ In x (kget k other).
Proof.
  intros Hn. rewrite kget_kmerge. split.
  - intros [H | [s [H1 H2]]]; [tauto|]. right. now rewrite (kget_entry _ Hn _ _ H1).
  - intros [H | H]; [tauto|]. right. now apply kget_in_entry.
Qed.

(* ---------- what is recorded where ---------------------------------------------------------------- *)

Definition is_ref (a : arena) (x : nat) (k : string) : Prop :=
  exists n t rt, get a x = Some n /\ g_kind n = KRef k t rt.

Definition is_inl (a : arena) (x : nat) (k : string) : Prop :=
  exists n l, get a x = Some n /\ (g_kind n = KSection l \/ g_kind n = KLeaf l) /\ In k (ref_keys l).

(* [ri'] is [ri] plus the references sitting at the nodes in [R] *)
Definition adds (a : arena) (R : nat -> Prop) (ri ri' : refindex) : Prop :=
  (forall k x, In x (kget k (ri_block ri')) <-> In x (kget k (ri_block ri)) \/ (R x /\ is_ref a x k)) /\
  (forall k x, In x (kget k (ri_inline ri')) <-> In x (kget k (ri_inline ri)) \/ (R x /\ is_inl a x k)).

Lemma adds_ext a R R' ri ri' : (forall x, R x <-> R' x) -> adds a R ri ri' -> adds a R' ri ri'.
Proof.
  intros E [A B]. split; intros k x; [rewrite A | rewrite B]; rewrite E; tauto.
Qed.

Lemma adds_trans a R1 R2 r0 r1 r2 :
  adds a R1 r0 r1 -> adds a R2 r1 r2 -> adds a (fun x => R1 x \/ R2 x) r0 r2.
Proof.
  intros [A1 B1] [A2 B2]. split; intros k x; [rewrite A2, A1 | rewrite B2, B1]; tauto.
Qed.

Lemma adds_none a ri : adds a (fun _ => False) ri ri.
Proof. split; intros; tauto. Qed.

Lemma record_adds a id n ri : get a id = Some n -> adds a (eq id) ri (record id n ri).
Proof.
  intros Hn.
  assert (NR : forall k, (forall t rt, g_kind n <> KRef k t rt) -> ~ is_ref a id k).
  { intros k H (n' & t & rt & G & K'). rewrite Hn in G. injection G as <-. eapply H; eauto. }
  assert (NI : forall k, (forall l, g_kind n <> KSection l) -> (forall l, g_kind n <> KLeaf l) -> ~ is_inl a id k).
  { intros k H1 H2 (n' & l' & G & [K' | K'] & _); rewrite Hn in G; injection G as <-; [eapply H1 | eapply H2]; eauto. }
  assert (same_b : forall k x, ri_block (record id n ri) = ri_block ri -> ~ is_ref a id k ->
            (In x (kget k (ri_block (record id n ri))) <-> In x (kget k (ri_block ri)) \/ (id = x /\ is_ref a x k))).
  { intros k x E N. rewrite E. split; [tauto|]. intros [H | [<- H]]; [exact H | contradiction]. }
  assert (same_i : forall k x, ri_inline (record id n ri) = ri_inline ri -> ~ is_inl a id k ->
            (In x (kget k (ri_inline (record id n ri))) <-> In x (kget k (ri_inline ri)) \/ (id = x /\ is_inl a x k))).
  { intros k x E N. rewrite E. split; [tauto|]. intros [H | [<- H]]; [exact H | contradiction]. }
  assert (inl : forall l, (g_kind n = KSection l \/ g_kind n = KLeaf l) ->
            ri_inline (record id n ri) = fold_left (fun m k => kadd k id m) (ref_keys l) (ri_inline ri) ->
            forall k x, In x (kget k (ri_inline (record id n ri))) <-> In x (kget k (ri_inline ri)) \/ (id = x /\ is_inl a x k)).
  { intros l Kl E k x. rewrite E, kget_kadd_fold. split.
    - intros [H | [H ->]]; [tauto|]. right. split; [reflexivity|]. exists n, l. auto.
    - intros [H | [<- (n' & l' & G & Kl' & Hk)]]; [tauto|]. right. split; [|reflexivity].
      rewrite Hn in G. injection G as <-.
      destruct Kl as [Kl | Kl], Kl' as [Kl' | Kl']; rewrite Kl in Kl'; try discriminate; injection Kl' as <-; exact Hk. }
  split; intros k x.
  - destruct (g_kind n) eqn:K; try (apply same_b; [unfold record; rewrite K; reflexivity | apply NR; intros; congruence]).
    (* Reference *)
    unfold record. rewrite K. cbn [ri_block]. rewrite kget_kadd. split.
    + intros [H | [-> ->]]; [tauto|]. right. split; [reflexivity|]. exists n, text, rt. auto.
    + intros [H | [<- (n' & t & rt' & G & K')]]; [tauto|]. right.
      rewrite Hn in G. injection G as <-. rewrite K in K'. injection K' as -> _ _. auto.
  - destruct (g_kind n) eqn:K;
      try (apply same_i; [unfold record; rewrite K; reflexivity | apply NI; intros; congruence]).
    + apply (inl l); [now left | unfold record; rewrite K; reflexivity].
    + apply (inl l); [now right | unfold record; rewrite K; reflexivity].
Qed.

(* ---------- the walk ----------------------------------------------------------------------------------- *)

(* the nodes the walk of variant [tbl] visits from [i] *)
Inductive wreach (tbl : bool) (a : arena) : nat -> nat -> Prop :=
| wr_here i : wreach tbl a i i
| wr_step i j x n : get a i = Some n -> In j (succs tbl n) -> wreach tbl a j x -> wreach tbl a i x.

Lemma wreach_inv tbl a i x n : get a i = Some n ->
  (wreach tbl a i x <-> x = i \/ exists j, In j (succs tbl n) /\ wreach tbl a j x).
Proof.
  intros Hn. split.
  - intros H. inversion H as [| ? j ? n' G Hj Hr]; subst; [now left|].
    right. rewrite Hn in G. injection G as <-. eauto.
  - intros [-> | [j [Hj Hr]]]; [constructor | econstructor; eauto].
Qed.

Lemma succs_links tbl n j : In j (succs tbl n) -> g_child n = Some j \/ g_next n = Some j.
Proof.
  unfold succs, olist. destruct (g_kind n), tbl, (g_child n), (g_next n); cbn; intuition; subst; auto.
Qed.

Lemma succs_fwd tbl a i n j : fwd a -> get a i = Some n -> In j (succs tbl n) -> i < j < length a.
Proof.
  intros F Hn Hj. destruct (F i n Hn) as [Fc Fn]. destruct (succs_links _ _ _ Hj); auto.
Qed.

Lemma get_lt (a : arena) i : i < length a -> exists n, get a i = Some n.
Proof.
  intros H. unfold get. destruct (nth_error a i) eqn:E; [eauto|]. apply nth_error_None in E. lia.
Qed.

(* termination and exactness of the walk, together: enough fuel is the distance to the end
   of the arena, and the result adds exactly the references at the visited nodes *)
Lemma index_node_spec tbl a : fwd a -> forall fuel id ri,
  id < length a -> length a - id <= fuel ->
  exists ri', index_node tbl fuel a id ri = Ok ri' /\ adds a (wreach tbl a id) ri ri'.
Proof.
  intros F. induction fuel as [|f IH]; intros id ri Hid Hf; [lia|].
  destruct (get_lt a id Hid) as [n Hn]. cbn [index_node]. rewrite Hn.
  assert (L : forall js r0, (forall j, In j js -> id < j < length a) ->
            exists r', fold_left (fun acc j => do r <- acc; index_node tbl f a j r) js (Ok r0) = Ok r' /\
                       adds a (fun x => exists j, In j js /\ wreach tbl a j x) r0 r').
  { induction js as [|j js IHjs]; intros r0 Hjs.
    - exists r0. split; [reflexivity|]. eapply adds_ext; [|apply adds_none]. intros x. split; [tauto | intros [j [[] _]]].
    - cbn [fold_left bind]. destruct (IH j r0) as [r1 [E1 A1]]; [apply Hjs; now left | specialize (Hjs j (or_introl eq_refl)); lia |].
      rewrite E1. destruct (IHjs r1) as [r2 [E2 A2]]; [intros j' Hj'; apply Hjs; now right|].
      exists r2. split; [exact E2|]. eapply adds_ext; [|exact (adds_trans _ _ _ _ _ _ A1 A2)].
      intros x. split.
      + intros [H | [j' [Hj' H]]]; [exists j; split; [now left | exact H] | exists j'; split; [now right | exact H]].
      + intros [j' [[<- | Hj'] H]]; [now left | right; eauto]. }
  destruct (L (succs tbl n) (record id n ri)) as [r' [E A]].
  { intros j Hj. eapply succs_fwd; eauto. }
  exists r'. split; [exact E|].
  eapply adds_ext; [|exact (adds_trans _ _ _ _ _ _ (record_adds a id n ri Hn) A)].
  intros x. rewrite (wreach_inv tbl a id x n Hn). intuition.
Qed.

(* C05 termination: on a forward-linked arena the walk never runs out of the fuel the model
   gives it (the Rust recursion returns) *)
Theorem index_from_terminates tbl a id : fwd a -> id < length a ->
  exists ri, index_from tbl a id = Ok ri.
Proof.
  intros F H. destruct (index_node_spec tbl a F (index_fuel a) id empty_index H) as [ri [E _]].
  - unfold index_fuel. lia.
  - eauto.
Qed.

(* ---------- reachability in the forest -------------------------------------------------------------- *)

(* [x] is [i] or below / after it: the closure of the child and next links *)
Inductive below (a : arena) : nat -> nat -> Prop :=
| b_here i : below a i i
| b_child i c x n : get a i = Some n -> g_child n = Some c -> below a c x -> below a i x
| b_next i j x n : get a i = Some n -> g_next n = Some j -> below a j x -> below a i x.

(* classifier of the as-found defect: a table that has a successor *)
Definition table_with_next (n : gnode) : bool :=
  match g_kind n, g_next n with KTable _ _ _, Some _ => true | _, _ => false end.
Definition no_table_next (a : arena) : Prop :=
  forall i n, get a i = Some n -> table_with_next n = false.
Definition no_table_nextb (a : arena) : bool := forallb (fun n => negb (table_with_next n)) a.

Lemma no_table_nextb_sound a : no_table_nextb a = true -> no_table_next a.
Proof.
  unfold no_table_nextb, no_table_next, get. rewrite forallb_forall. intros H i n Hn.
  apply nth_error_In in Hn. specialize (H n Hn). now destruct (table_with_next n).
Qed.

Lemma links_succs tbl n j : kind_links_ok n = true -> (tbl = true \/ table_with_next n = false) ->
  g_child n = Some j \/ g_next n = Some j -> In j (succs tbl n).
Proof.
  unfold kind_links_ok, succs, table_with_next, olist.
  intros K T L. destruct (g_kind n), (g_child n), (g_next n); cbn in *;
    try discriminate; try (destruct L as [L | L]; try discriminate; injection L as ->);
    try (destruct tbl; cbn; intuition; discriminate); cbn; intuition.
Qed.

Lemma wreach_below tbl a i x : wreach tbl a i x -> below a i x.
Proof.
  induction 1 as [|i j x n Hn Hj _ IH]; [constructor|].
  destruct (succs_links _ _ _ Hj); [eapply b_child | eapply b_next]; eauto.
Qed.

Lemma below_wreach tbl a i x : wf_arena a -> (tbl = true \/ no_table_next a) ->
  below a i x -> wreach tbl a i x.
Proof.
  intros [_ K] T.
  assert (T' : forall i n, get a i = Some n -> tbl = true \/ table_with_next n = false).
  { intros j n Hn. destruct T as [T | T]; [now left | right; eapply T; eauto]. }
  induction 1 as [| i c x n Hn Hc _ IH | i j x n Hn Hj _ IH]; [constructor | |].
  - eapply wr_step; [exact Hn | | exact IH]. apply links_succs; eauto.
  - eapply wr_step; [exact Hn | | exact IH]. apply links_succs; eauto.
Qed.

(* ---------- C05_index_exact -------------------------------------------------------------------------- *)

Definition exact_below (a : arena) (root : nat) (ri : refindex) : Prop :=
  (forall k x, In x (raw_block_refs ri k) <-> below a root x /\ is_ref a x k) /\
  (forall k x, In x (raw_inline_refs ri k) <-> below a root x /\ is_inl a x k).

Lemma index_from_exact_gen tbl a root : wf_arena a -> (tbl = true \/ no_table_next a) -> root < length a ->
  exists ri, index_from tbl a root = Ok ri /\ exact_below a root ri.
Proof.
  intros W T H. destruct W as [F K].
  destruct (index_node_spec tbl a F (index_fuel a) root empty_index H) as [ri [E [A B]]]; [unfold index_fuel; lia|].
  exists ri. split; [exact E|]. unfold exact_below, raw_block_refs, raw_inline_refs.
  split; intros k x; [rewrite A | rewrite B]; cbn; (split;
    [intros [[] | [R I]]; split; [eapply wreach_below; eauto | exact I]
    | intros [R I]; right; split; [apply below_wreach; auto; split; auto | exact I]]).
Qed.

(* the repaired walk (what /repo runs since 7b992d5): from any node of a well-formed arena,
   index_node terminates and records exactly the Reference nodes below it, under their keys,
   and exactly the Section / Leaf nodes below it whose line holds a link, under the link's
   ref_key — wherever they sit (lists, quotes, after tables, after code and rules) *)
Theorem index_from_exact a root : wf_arena a -> root < length a ->
  exists ri, index_from true a root = Ok ri /\ exact_below a root ri.
Proof. intros. apply index_from_exact_gen; auto. Qed.

(* the walk as found: the same under the hypothesis that excludes the defect class *)
Theorem index_from_exact_as_found a root : wf_arena a -> no_table_next a -> root < length a ->
  exists ri, index_from false a root = Ok ri /\ exact_below a root ri.
Proof. intros. apply index_from_exact_gen; auto. Qed.

(* ---------- import: every slot is a start ------------------------------------------------------------- *)

Lemma below_lt a i x : fwd a -> below a i x -> i < length a -> x < length a.
Proof.
  intros F. induction 1 as [| i c x n Hn Hc _ IH | i j x n Hn Hj _ IH]; intros Hi; [exact Hi | |].
  - apply IH. destruct (F i n Hn) as [Fc _]. specialize (Fc c Hc). lia.
  - apply IH. destruct (F i n Hn) as [_ Fn]. specialize (Fn j Hj). lia.
Qed.

Definition all_live (a : arena) : Prop := forall i n, get a i = Some n -> is_emptyk (g_kind n) = false.

Lemma index_all_spec tbl a : fwd a -> all_live a ->
  exists ri, index_all tbl a = Ok ri /\ adds a (fun x => x < length a) empty_index ri.
Proof.
  intros F L. unfold index_all.
  assert (G : forall ids r0, (forall i, In i ids -> i < length a) ->
     exists r', fold_left (fun acc id => do ri <- acc;
               match get a id with
               | Some n => if is_emptyk (g_kind n) then Panic "id of Empty" else index_node tbl (index_fuel a) a id ri
               | None => Panic "arena index out of bounds"
               end) ids (Ok r0) = Ok r' /\
       adds a (fun x => exists i, In i ids /\ wreach tbl a i x) r0 r').
  { induction ids as [|i ids IH]; intros r0 Hids.
    - exists r0. split; [reflexivity|]. eapply adds_ext; [|apply adds_none]. intros x; split; [tauto | intros [i [[] _]]].
    - cbn [fold_left bind]. assert (Hi : i < length a) by (apply Hids; now left).
      destruct (get_lt a i Hi) as [n Hn]. rewrite Hn, (L i n Hn).
      destruct (index_node_spec tbl a F (index_fuel a) i r0 Hi) as [r1 [E1 A1]]; [unfold index_fuel; lia|].
      rewrite E1. destruct (IH r1) as [r2 [E2 A2]]; [intros j Hj; apply Hids; now right|].
      exists r2. split; [exact E2|]. eapply adds_ext; [|exact (adds_trans _ _ _ _ _ _ A1 A2)].
      intros x. split.
      + intros [H | [j [Hj H]]]; [exists i; split; [now left | exact H] | exists j; split; [now right | exact H]].
      + intros [j [[<- | Hj] H]]; [now left | right; eauto]. }
  destruct (G (seq 0 (length a)) empty_index) as [r' [E A]].
  { intros i Hi. apply in_seq in Hi. lia. }
  exists r'. split; [exact E|]. eapply adds_ext; [|exact A].
  intros x. split.
  - intros [i [Hi Hr]]. apply in_seq in Hi. apply wreach_below in Hr.
    eapply below_lt; eauto. lia.
  - intros Hx. exists x. split; [apply in_seq; lia | constructor].
Qed.

(* after an import the index is exact whatever the variant: every Reference node of the
   arena under its key, every Section / Leaf node under the ref_keys of its line *)
Theorem index_all_exact tbl a : fwd a -> all_live a ->
  exists ri, index_all tbl a = Ok ri /\
    (forall k x, In x (raw_block_refs ri k) <-> is_ref a x k) /\
    (forall k x, In x (raw_inline_refs ri k) <-> is_inl a x k).
Proof.
  intros F L. destruct (index_all_spec tbl a F L) as [ri [E [A B]]].
  exists ri. split; [exact E|]. unfold raw_block_refs, raw_inline_refs.
  split; intros k x; [rewrite A | rewrite B]; cbn; (split;
    [intros [[] | [_ I]]; exact I | intros I; right; split; [|exact I]]).
  - destruct I as (n & _ & _ & G & _). apply nth_error_Some. unfold get in G. congruence.
  - destruct I as (n & _ & G & _). apply nth_error_Some. unfold get in G. congruence.
Qed.

(* ---------- merge and the filtered getters -------------------------------------------------------------- *)

Lemma insert_sorted_In x y l : In x (insert_sorted y l) <-> x = y \/ In x l.
Proof.
  induction l as [|z r IH]; cbn [insert_sorted]; [cbn [In]; intuition|].
  destruct (Nat.ltb y z); [cbn [In]; intuition|].
  destruct (Nat.eqb y z) eqn:E; [apply Nat.eqb_eq in E; subst; cbn [In]; intuition|].
  cbn [In]. rewrite IH. intuition.
Qed.

Lemma sort_ids_In x l : In x (sort_ids l) <-> In x l.
Proof.
  unfold sort_ids. induction l as [|y r IH]; cbn; [tauto|]. rewrite insert_sorted_In, IH. intuition.
Qed.

Lemma filter_live_spec a ids : (forall i, In i ids -> i < length a) ->
  exists l, filter_live a ids = Ok l /\
    forall x, In x l <-> In x ids /\ exists n, get a x = Some n /\ is_emptyk (g_kind n) = false.
Proof.
  induction ids as [|i r IH]; intros H.
  - exists []. split; [reflexivity|]. intros x. cbn. tauto.
  - destruct IH as [l [E S]]; [intros j Hj; apply H; now right|].
    destruct (get_lt a i (H i (or_introl eq_refl))) as [n Hn].
    cbn [filter_live fold_right] in *. unfold filter_live in E. rewrite E. cbn [bind]. unfold live. rewrite Hn. cbn [bind].
    destruct (is_emptyk (g_kind n)) eqn:K; cbn [negb].
    + exists l. split; [reflexivity|]. intros x. rewrite S. split; [intuition|].
      intros [[<- | Hx] [n' [G K']]]; [rewrite Hn in G; injection G as <-; congruence | eauto].
    + exists (i :: l). split; [reflexivity|]. intros x. cbn. rewrite S. split.
      * intros [<- | [Hx Hl]]; [split; [now left | eauto] | split; [now right | exact Hl]].
      * intros [[<- | Hx] Hl]; [now left | right; auto].
Qed.

(* Graph::get_block_references_to: the raw entries that are not tombstones *)
Theorem get_block_references_to_spec a ri k :
  (forall i, In i (raw_block_refs ri k) -> i < length a) ->
  exists l, get_block_references_to a ri k = Ok l /\
    forall x, In x l <-> In x (raw_block_refs ri k) /\ exists n, get a x = Some n /\ is_emptyk (g_kind n) = false.
Proof.
  intros H. destruct (filter_live_spec a _ H) as [l [E S]]. unfold get_block_references_to.
  rewrite E. cbn [bind]. eexists. split; [reflexivity|]. intros x. rewrite sort_ids_In. apply S.
Qed.

Theorem get_inline_references_to_spec a ri k :
  (forall i, In i (raw_inline_refs ri k) -> i < length a) ->
  exists l, get_inline_references_to a ri k = Ok l /\
    forall x, In x l <-> In x (raw_inline_refs ri k) /\ exists n, get a x = Some n /\ is_emptyk (g_kind n) = false.
Proof.
  intros H. destruct (filter_live_spec a _ H) as [l [E S]]. unfold get_inline_references_to.
  rewrite E. cbn [bind]. eexists. split; [reflexivity|]. intros x. rewrite sort_ids_In. apply S.
Qed.

(* index_node only ever builds maps with one entry per key *)
Lemma record_nodup id n ri : keys_nodup (ri_block ri) -> keys_nodup (ri_inline ri) ->
  keys_nodup (ri_block (record id n ri)) /\ keys_nodup (ri_inline (record id n ri)).
Proof.
  intros A B. unfold record. destruct (g_kind n); cbn; auto using kadd_nodup.
  - split; [exact A|]. generalize (ri_inline ri) B. induction (ref_keys l); cbn; auto using kadd_nodup.
  - split; [exact A|]. generalize (ri_inline ri) B. induction (ref_keys l); cbn; auto using kadd_nodup.
Qed.

Lemma index_node_nodup tbl a : forall fuel id ri ri',
  keys_nodup (ri_block ri) -> keys_nodup (ri_inline ri) -> index_node tbl fuel a id ri = Ok ri' ->
  keys_nodup (ri_block ri') /\ keys_nodup (ri_inline ri').
Proof.
  induction fuel as [|f IH]; intros id ri ri' A B E; [discriminate|].
  cbn [index_node] in E. destruct (get a id) as [n|]; [|discriminate].
  destruct (record_nodup id n ri A B) as [A0 B0].
  revert E. generalize (record id n ri) A0 B0. clear A B A0 B0.
  induction (succs tbl n) as [|j js IHjs]; intros r0 A0 B0 E; cbn [fold_left bind] in E.
  - injection E as <-. auto.
  - destruct (index_node tbl f a j r0) as [r1|s] eqn:E1.
    + destruct (IH j r0 r1 A0 B0 E1) as [A1 B1]. eapply IHjs; eauto.
    + exfalso. clear - E. induction js as [|j' js' IHp]; cbn in E; [discriminate | auto].
Qed.

(* update_key / from_markdown: old entries stay (merge-only), the entries of the new root's
   tree are added *)
Theorem index_after_update_spec tbl g ri key root fresh :
  alookup key (gr_keys g) = Some root -> index_from tbl (gr_arena g) root = Ok fresh ->
  exists ri', index_after_update_v tbl g ri key = Ok ri' /\
    (forall k x, In x (raw_block_refs ri' k) <-> In x (raw_block_refs ri k) \/ In x (raw_block_refs fresh k)) /\
    (forall k x, In x (raw_inline_refs ri' k) <-> In x (raw_inline_refs ri k) \/ In x (raw_inline_refs fresh k)).
Proof.
  intros Hk Hf. unfold index_after_update_v. rewrite Hk, Hf. cbn [bind]. eexists. split; [reflexivity|].
  assert (N0 : keys_nodup (@nil (string * list nat))) by constructor.
  destruct (index_node_nodup tbl _ _ _ empty_index _ N0 N0 Hf) as [A B].
  unfold raw_block_refs, raw_inline_refs, merge. cbn. split; intros k x; now apply kget_kmerge_nodup.
Qed.

(* ---------- urls and keys ---------------------------------------------------------------------------------- *)

Local Open Scope string_scope.   (* `++` is string append from here ... *)

Lemma lower_app a b : lower_ascii_str (a ++ b) = lower_ascii_str a ++ lower_ascii_str b.
Proof. induction a as [|c a IH]; cbn; [reflexivity | now rewrite IH]. Qed.

Lemma lower_length s : String.length (lower_ascii_str s) = String.length s.
Proof. induction s as [|c s IH]; cbn; auto. Qed.

Lemma starts_with_app p s : starts_with p (p ++ s) = true.
Proof. rewrite starts_with_strip, strip_prefix_app. reflexivity. Qed.

(* a prefix of the lowered text is the lowered form of a prefix of the text *)
Lemma lower_prefix q : forall s r, lower_ascii_str s = q ++ r ->
  exists p t, s = p ++ t /\ lower_ascii_str p = q.
Proof.
  induction q as [|c q IH]; intros s r H.
  - exists "", s. auto.
  - destruct s as [|d s]; [discriminate|]. cbn in H. injection H as Hc Hs.
    destruct (IH s r Hs) as [p [t [-> Hp]]]. exists (String d p), t. cbn. now rewrite Hc, Hp.
Qed.

Definition starts_ci (q u : string) : Prop := exists p t, u = p ++ t /\ lower_ascii_str p = q.

Lemma starts_with_lower q u : starts_with q (lower_ascii_str u) = true <-> starts_ci q u.
Proof.
  split.
  - rewrite starts_with_strip. destruct (strip_prefix q (lower_ascii_str u)) as [r|] eqn:E; [|discriminate].
    intros _. apply strip_prefix_some in E. eapply lower_prefix; eauto.
  - intros [p [t [-> <-]]]. rewrite lower_app. apply starts_with_app.
Qed.

(* C05_external: a url is NOT a note link exactly when it begins, ASCII-case-insensitively,
   with one of the three schemes *)
Theorem is_ref_url_external u :
  is_ref_url u = false <-> starts_ci "http://" u \/ starts_ci "https://" u \/ starts_ci "mailto:" u.
Proof.
  unfold is_ref_url. rewrite Bool.negb_false_iff, !Bool.orb_true_iff, !starts_with_lower. tauto.
Qed.

(* trim_start_matches with any sufficient fuel *)
Lemma tsm_fuel_enough p : sempty p = false -> forall f1 f2 s,
  String.length s < f1 -> String.length s < f2 ->
  trim_start_matches_fuel f1 p s = trim_start_matches_fuel f2 p s.
Proof.
  intros Hp. induction f1 as [|f1 IH]; intros f2 s H1 H2; [lia|].
  destruct f2 as [|f2]; [lia|]. cbn. destruct (strip_prefix p s) as [r|] eqn:E; [|reflexivity].
  rewrite Hp. apply strip_prefix_some in E. subst s.
  assert (0 < String.length p) by (destruct p; [discriminate | cbn; lia]).
  assert (String.length (p ++ r) = String.length p + String.length r).
  { clear. induction p; cbn; auto. }
  apply IH; lia.
Qed.

Lemma trim_start_matches_step p s : sempty p = false ->
  trim_start_matches p (p ++ s) = trim_start_matches p s.
Proof.
  intros Hp. unfold trim_start_matches at 1. cbn [trim_start_matches_fuel].
  rewrite strip_prefix_app, Hp. unfold trim_start_matches.
  assert (String.length (p ++ s) = String.length p + String.length s).
  { clear. induction p; cbn; auto. }
  assert (0 < String.length p) by (destruct p; [discriminate | cbn; lia]).
  apply tsm_fuel_enough; auto; lia.
Qed.

(* C05_md_ignored: ONE `.md` suffix is taken off, whatever is in front of it (`x.md.md` names the note `x.md`) *)
Theorem key_md_ignored x : key_from_file_name (x ++ MD) = x.
Proof. apply strip_md_app. Qed.

Theorem rel_link_md_ignored u d : from_rel_link_url (u ++ MD) d = join_normalized d u.
Proof. unfold from_rel_link_url. f_equal. apply strip_md_app. Qed.

(* ... and a name without the suffix is taken as it is: with or without its extension a url names one note *)
Theorem key_md_absent x d :
  ends_with MD x = false -> key_from_file_name x = x /\ from_rel_link_url x d = join_normalized d x.
Proof. intros H. unfold key_from_file_name, from_rel_link_url. now rewrite strip_md_none. Qed.

Local Open Scope list_scope.     (* ... to here *)

(* C05_resolution: the key of a block reference is the link url resolved against the
   directory of the linking note (sections_builder.rs `block`, Para arm) *)
Theorem block_reference_key dir f lr url title lt ils st :
  is_ref_url url = true ->
  block dir (S f) (DPara lr [Link url title lt ils]) st =
  (do st' <- add_node st (KRef (from_rel_link_url url dir) (inlines_plain_text ils) lt); Ok (set_lines_range st' lr)).
Proof. intros H. cbn. rewrite H. reflexivity. Qed.

(* ... and so is the key of an inline link: the graph holds the url resolved against the directory of the
   linking note (Arena.to_ginline: `Key::from_rel_link_url`), ref_keys reads it as it is (`Key::name`).
   In the pinned tree the graph held the url as typed (finding F-C05-inline-dir / F9, repaired). *)
Theorem inline_key_is_url url title lt ils :
  ref_keys [Link url title lt ils] = [key_name url].
Proof. reflexivity. Qed.

(* the urls ref_keys looks at: every link outside link texts, through emphasis and image descriptions *)
Fixpoint inline_link_urls (i : inline) : list string :=
  match i with
  | Emph l | Strong l | Strike l => flat_map inline_link_urls l
  | Link url _ _ _ => [url]
  | Image _ _ l => flat_map inline_link_urls l
  | _ => []
  end.

Definition resolved_url (dir url : string) : string := if is_ref_url url then from_rel_link_url url dir else url.

Lemma flat_map_map_local {A B C} (f : A -> B) (g : B -> list C) l : flat_map g (map f l) = flat_map (fun x => g (f x)) l.
Proof. induction l as [|x l IH]; cbn [map flat_map]; [reflexivity | now rewrite IH]. Qed.
Lemma map_flat_map_local {A B C} (f : A -> list B) (g : B -> C) l : map g (flat_map f l) = flat_map (fun x => map g (f x)) l.
Proof. induction l as [|x l IH]; cbn [map flat_map]; [reflexivity | now rewrite map_app, IH]. Qed.
Lemma flat_map_ext_local {A B} (f g : A -> list B) l : Forall (fun x => f x = g x) l -> flat_map f l = flat_map g l.
Proof. induction 1 as [|x l H _ IH]; cbn [flat_map]; [reflexivity | now rewrite H, IH]. Qed.

Lemma inline_keys_resolved_one dir : forall i,
  inline_ref_keys (to_ginline dir i) = map (resolved_url dir) (inline_link_urls i).
Proof.
  apply (inline_ind' (fun i => inline_ref_keys (to_ginline dir i) = map (resolved_url dir) (inline_link_urls i)));
    intros; try reflexivity.
  - cbn [to_ginline inline_ref_keys inline_link_urls]. rewrite flat_map_map_local, map_flat_map_local.
    now apply flat_map_ext_local.
  - cbn [to_ginline inline_ref_keys inline_link_urls]. rewrite flat_map_map_local, map_flat_map_local.
    now apply flat_map_ext_local.
  - cbn [to_ginline inline_ref_keys inline_link_urls]. rewrite flat_map_map_local, map_flat_map_local.
    now apply flat_map_ext_local.
  - cbn [to_ginline inline_ref_keys inline_link_urls]. rewrite flat_map_map_local, map_flat_map_local.
    now apply flat_map_ext_local.
Qed.

(* C05_inline_resolution: the keys a line of a note in directory [dir] is indexed under are the urls of its
   links resolved against [dir] - exactly what the property says ("relative to the note's directory, `.md`
   ignored"); an external url is kept as text (it is no key of the library) *)
Theorem inline_keys_resolved dir l :
  ref_keys (to_ginlines dir l) = map (resolved_url dir) (flat_map inline_link_urls l).
Proof.
  unfold ref_keys, to_ginlines. rewrite flat_map_map_local, map_flat_map_local.
  apply flat_map_ext_local, Forall_forall. intros i _. apply inline_keys_resolved_one.
Qed.

(* ---------- refutations of the as-found code ------------------------------------------------------------------ *)

(* the R1 witness: `# a`, a table, then a block reference and a paragraph with a link to b *)
Definition table_witness : list (string * option string * list dblock) :=
  [("a", None, [DHeader (0, 1) 1 [Str "a"];
                DTable (2, 5) [[Str "t"]] [ANone] [[[Str "c"]]];
                DPara (6, 7) [Link "b" "" Regular [Str "b"]];
                DPara (8, 9) [Str "and "; Link "b" "" Regular [Str "again"]]]);
   ("b", None, [DHeader (0, 1) 1 [Str "b"]])].

Definition refs_after_resubmit (tbl : bool) : res (list nat * list nat) :=
  do s <- import_state_v tbl table_witness;
  do s' <- update_state_v tbl s "a" None [DHeader (0, 1) 1 [Str "a"];
                DTable (2, 5) [[Str "t"]] [ANone] [[[Str "c"]]];
                DPara (6, 7) [Link "b" "" Regular [Str "b"]];
                DPara (8, 9) [Str "and "; Link "b" "" Regular [Str "again"]]];
  do b <- block_refs_to s' "b"; do i <- inline_refs_to s' "b"; Ok (b, i).

(* as found: after re-submitting a's unchanged text, b has no backlinks left; repaired: both *)
Theorem table_refuted :
  refs_after_resubmit false = Ok ([], []) /\ refs_after_resubmit true = Ok ([10], [11]).
Proof. split; vm_compute; reflexivity. Qed.

(* the as-found walk from the new root does not reach the reference behind the table although
   it is below the root *)
Theorem table_refuted_walk :
  exists a root x, wf_arenab a = true /\ below a root x /\ is_ref a x "b" /\
    (exists ri, index_from false a root = Ok ri /\ raw_block_refs ri "b" = []) /\
    (exists ri, index_from true a root = Ok ri /\ raw_block_refs ri "b" = [x]).
Proof.
  exists [GN (KDocument "a") None None (Some 1); GN (KSection [Str "a"]) (Some 0) None (Some 2);
          GN (KTable [[Str "t"]] [ANone] [[[Str "c"]]]) (Some 1) (Some 3) None;
          GN (KRef "b" "b" Regular) (Some 2) None None], 0, 3.
  split; [reflexivity|]. split.
  - eapply b_child; [reflexivity | reflexivity |]. eapply b_child; [reflexivity | reflexivity |].
    eapply b_next; [reflexivity | reflexivity |]. constructor.
  - split; [do 3 eexists; split; reflexivity|]. split; eexists; split; vm_compute; reflexivity.
Qed.

(* F9 (repaired): from note d/n the inline link `[x](m)` is recorded under d/m, the note it resolves to; from the
   root under m (in the pinned tree: under m from everywhere) *)
Theorem inline_resolution_repaired :
  ref_keys (to_ginlines (key_parent "d/n") [Str "see "; Link "m" "" Regular [Str "x"]]) = ["d/m"] /\
  ref_keys (to_ginlines (key_parent "n") [Str "see "; Link "m" "" Regular [Str "x"]]) = ["m"] /\
  ref_keys (to_ginlines (key_parent "d/n") [Link "../m.md" "" Regular [Str "x"]; Emph [Link "./m" "" WikiLink []]]) = ["m"; "d/m"].
Proof. repeat split; vm_compute; reflexivity. Qed.
