(* Pos.v — positions (property C13).
   Model of the byte-offset -> (line, character) conversion of the Markdown reader
   (`crates/liwe/src/markdown/reader.rs`: `line_starts`, `to_line_range`, `to_inline_range`),
   of the reader's stack machine as far as positions are concerned (which block / inline gets
   which range: `read`, `start_tag`, `end_tag`, `push/pop_inline`, `push/pop_block`, and
   `DocumentBlock::append_inline/append_block/append_item` of `model/document.rs`), of
   `Document::link_at`, `DocumentBlock::block_at_position`, `DocumentInline::link_at_position`,
   `key_range` (`model/document.rs:49-61,227-293,570-628`), and the specification
   `lsp_pos` of what a position is for an LSP client (line = number of line feeds before the
   offset, character = UTF-16 code units since the last line feed).
   Definitions only; the proofs are in PosFacts.v. *)
From IweV Require Import Str Text Ast Arena.
Local Open Scope string_scope.
Local Open Scope list_scope.

Definition pos := (nat * nat)%type.          (* model::Position: (line, character) *)
Definition irange := (pos * pos)%type.       (* model::InlineRange = Range<Position> *)

Definition is_lf (c : ascii) : bool := Ascii.eqb c LF.
Definition is_cr (c : ascii) : bool := Ascii.eqb c CR.

(* ---------- variants ------------------------------------------------------------------ *)
(* [as_found] is the tree before any repair of this property.  Each flag is one `fix:` commit of
   /repo: [v_crlf] (R5, line table counts the bytes of CRLF), [v_utf16] (R11, columns in UTF-16
   units), [v_empty_item] (`line_range` of a list no longer unwraps the first block of the first
   item), [v_table] (`child_inlines` of a table are its cells), [v_tight] (`append_inline` grows
   the line range of a paragraph with every inline).  The current tree is [repaired]. *)
Record variant := Variant {
  v_crlf : bool; v_utf16 : bool; v_empty_item : bool; v_table : bool; v_tight : bool }.
Definition as_found : variant := Variant false false false false false.
Definition repaired : variant := Variant true true true true true.

(* ---------- line_starts (reader.rs:412-417) ------------------------------------------ *)

(* `.scan(0, ..)` with the running sum as state and as output *)
Fixpoint scan_add (acc : nat) (l : list nat) : list nat :=
  match l with
  | [] => []
  | x :: r => (acc + x) :: scan_add (acc + x) r
  end.

(* as found: once(0).chain(content.lines().map(|line| line.len() + 1).scan(..)) *)
Definition line_starts_as_found (t : string) : list nat :=
  0 :: scan_add 0 (map (fun l => S (String.length l)) (lines t)).

(* repaired (R5): once(0).chain(content.match_indices('\n').map(|(i, _)| i + 1)) *)
Fixpoint lf_starts (t : string) (off : nat) : list nat :=
  match t with
  | EmptyString => []
  | String c r => if is_lf c then S off :: lf_starts r (S off) else lf_starts r (S off)
  end.
Definition line_starts_fixed (t : string) : list nat := 0 :: lf_starts t 0.

Definition line_starts (v : variant) (t : string) : list nat :=
  if v_crlf v then line_starts_fixed t else line_starts_as_found t.

(* the loop of to_line_range / to_inline_range (reader.rs:363-372, 395-402):
     for (line, &line_start) in line_starts.iter().enumerate() {
         if line_start <= x { l = line; ch = x - line_start; } }                         *)
Fixpoint locate_aux (ls : list nat) (i x : nat) (acc : nat * nat) : nat * nat :=
  match ls with
  | [] => acc
  | s :: r => locate_aux r (S i) x (if Nat.leb s x then (i, x - s) else acc)
  end.
Definition locate (ls : list nat) (x : nat) : nat * nat := locate_aux ls 0 x (0, 0).

(* to_line_range (reader.rs:391-409): the end line is the line of `range.end`, excluded unless
   it is the start line — a range that ends inside a line (no line ending behind its last byte)
   loses that line (open finding F-C13-last-line; the repository's own test
   `sections_builder::test::multiline_code` pins 0..3 for a fenced block of four lines) *)
Definition to_line_range (ls : list nat) (s e : nat) : lrange :=
  let a := fst (locate ls s) in
  let b := fst (locate ls e) in
  if Nat.eqb a b then (a, S b) else (a, b).

(* ---------- UTF-8 / UTF-16 ----------------------------------------------------------- *)

(* UTF-16 code units contributed by a UTF-8 byte: a lead byte carries the units of its scalar
   value (1 below U+10000, 2 from U+10000 = lead bytes F0..F7), a continuation byte none. *)
Definition units_of_byte (c : ascii) : nat :=
  let n := nat_of_ascii c in
  if Nat.ltb n 128 then 1 else if Nat.ltb n 192 then 0 else if Nat.ltb n 240 then 1 else 2.
Fixpoint utf16_units (s : string) : nat :=
  match s with
  | EmptyString => 0
  | String c r => units_of_byte c + utf16_units r
  end.

(* decoding to scalar values (well-formed sequences by their lead byte; the harness only
   sends Rust `str`s, which are well-formed) and the UTF-16 length of a scalar sequence *)
Definition is_cont (c : ascii) : bool :=
  let n := nat_of_ascii c in Nat.leb 128 n && Nat.ltb n 192.
Definition byte_N (c : ascii) : N := N_of_ascii c.
Fixpoint decode_utf8 (fuel : nat) (s : string) : option (list N) :=
  match fuel with
  | O => match s with EmptyString => Some [] | _ => None end
  | S f =>
      match s with
      | EmptyString => Some []
      | String a r =>
          let n := byte_N a in
          if N.ltb n 128 then option_map (cons n) (decode_utf8 f r)
          else if N.ltb n 192 then None
          else if N.ltb n 224 then
            match r with
            | String b r1 =>
                if is_cont b then option_map (cons ((n - 192) * 64 + (byte_N b - 128))%N) (decode_utf8 f r1) else None
            | _ => None
            end
          else if N.ltb n 240 then
            match r with
            | String b (String c r2) =>
                if is_cont b && is_cont c then
                  option_map (cons ((n - 224) * 4096 + (byte_N b - 128) * 64 + (byte_N c - 128))%N) (decode_utf8 f r2)
                else None
            | _ => None
            end
          else if N.ltb n 248 then
            match r with
            | String b (String c (String d r3)) =>
                let x := ((n - 240) * 262144 + (byte_N b - 128) * 4096 + (byte_N c - 128) * 64 + (byte_N d - 128))%N in
                if is_cont b && is_cont c && is_cont d && N.leb 65536 x then   (* not over-long *)
                  option_map (cons x) (decode_utf8 f r3)
                else None
            | _ => None
            end
          else None
      end
  end.
Definition decode (s : string) : option (list N) := decode_utf8 (String.length s) s.
(* four-byte sequences (lead F0..F7) are exactly the scalars from U+10000 on *)
Definition utf16_of_scalar (c : N) : nat := if N.ltb c 65536 then 1 else 2.
Fixpoint utf16_len_scalars (l : list N) : nat :=
  match l with [] => 0 | c :: r => utf16_of_scalar c + utf16_len_scalars r end.

(* `str::is_char_boundary` *)
Fixpoint nth_byte (s : string) (n : nat) : option ascii :=
  match s, n with
  | EmptyString, _ => None
  | String c _, O => Some c
  | String _ r, S k => nth_byte r k
  end.
Definition is_char_boundary (t : string) (o : nat) : bool :=
  match nth_byte t o with
  | Some c => negb (is_cont c)
  | None => Nat.eqb o (String.length t)
  end.

Fixpoint sdrop (n : nat) (s : string) : string :=
  match n, s with
  | O, _ => s
  | S k, String _ r => sdrop k r
  | S _, EmptyString => EmptyString
  end.
Fixpoint stake (n : nat) (s : string) : string :=
  match n, s with
  | O, _ => EmptyString
  | S k, String c r => String c (stake k r)
  | S _, EmptyString => EmptyString
  end.
Definition slice (t : string) (from to : nat) : string := stake (to - from) (sdrop from t).

(* ---------- to_inline_range (reader.rs:357-389) --------------------------------------- *)

(* as found: character = byte distance from the line start.
   repaired (R11): character = content.get(line_start..x).map(|s| s.encode_utf16().count())
                               .unwrap_or(x - line_start)                                   *)
Definition to_position (v : variant) (t : string) (ls : list nat) (x : nat) : pos :=
  let '(line, col) := locate ls x in
  if v_utf16 v then
    let start := x - col in
    if is_char_boundary t start && is_char_boundary t x then (line, utf16_units (slice t start x))
    else (line, col)
  else (line, col).

Definition to_inline_range (v : variant) (t : string) (ls : list nat) (s e : nat) : irange :=
  (to_position v t ls s, to_position v t ls e).

(* ---------- the specification: what an LSP client means by a position ---------------- *)

(* scan [o] bytes of [t]: a line feed starts a new line, any other byte advances the column
   by [w] of that byte *)
Fixpoint walk (w : ascii -> nat) (t : string) (o line col : nat) : nat * nat :=
  match o with
  | O => (line, col)
  | S o' =>
      match t with
      | EmptyString => (line, col)
      | String c r => if is_lf c then walk w r o' (S line) 0 else walk w r o' line (col + w c)
      end
  end.
(* position with the column in bytes *)
Definition byte_pos (t : string) (o : nat) : pos := walk (fun _ => 1) t o 0 0.
(* position as the LSP counts it (UTF-16 code units), computed in one pass *)
Definition lsp_pos_walk (t : string) (o : nat) : pos := walk units_of_byte t o 0 0.

(* the declarative form: (line feeds in the first [o] bytes, UTF-16 length of the decoded
   text after the last of them) *)
Fixpoint count_lf (s : string) : nat :=
  match s with
  | EmptyString => 0
  | String c r => (if is_lf c then 1 else 0) + count_lf r
  end.
Fixpoint after_last_lf (s : string) : string :=
  match s with
  | EmptyString => EmptyString
  | String c r => if contains_char LF r then after_last_lf r else if is_lf c then r else s
  end.
Definition utf16_len (s : string) : nat :=
  match decode s with Some l => utf16_len_scalars l | None => utf16_units s end.
Definition lsp_pos (t : string) (o : nat) : pos :=
  let p := stake o t in (count_lf p, utf16_len (after_last_lf p)).

(* lines spanned by the bytes [s, e): from the line of [s] to the line of the last byte *)
Definition spec_lines (t : string) (s e : nat) : lrange :=
  let a := fst (lsp_pos_walk t s) in
  let b := fst (lsp_pos_walk t (if Nat.ltb s e then e - 1 else s)) in
  (a, S b).
Definition spec_span (t : string) (s e : nat) : irange := (lsp_pos_walk t s, lsp_pos_walk t e).

(* classes of texts *)
Fixpoint no_cr (s : string) : bool :=
  match s with EmptyString => true | String c r => negb (is_cr c) && no_cr r end.
Fixpoint all_ascii (s : string) : bool :=
  match s with EmptyString => true | String c r => Nat.ltb (nat_of_ascii c) 128 && all_ascii r end.
(* every byte of the line of offset [o], before [o], is ASCII *)
Definition ascii_before (t : string) (o : nat) : bool := all_ascii (after_last_lf (stake o t)).
(* a CR that is not followed by LF: pulldown and LSP take it for a line ending, `str::lines`
   does not; outside the property's quantifier (LF and CRLF endings) *)
Fixpoint lone_cr (s : string) : bool :=
  match s with
  | EmptyString => false
  | String c r => (is_cr c && match r with String d _ => negb (is_lf d) | EmptyString => true end) || lone_cr r
  end.

(* ---------- positioned inlines and blocks -------------------------------------------- *)

Inductive pkind := KEmph | KStrong | KStrike | KImage | KLink (lt : link_type) (url : string).

(* DocumentInline with what positions need: the inline range and the byte length of
   `to_plain_text()` *)
Inductive pinl :=
| PStr (len : nat)                                    (* Str: no range of its own *)
| PLeaf (r : irange) (len : nat)                      (* Code (len = |text|), Math (len = 0) *)
| PNode (k : pkind) (r : irange) (kids : list pinl).  (* Emph, Strong, Strikeout, Image, Link *)

Inductive pblock :=
| BPara (lr : lrange) (l : list pinl)
| BHeader (lr : lrange) (l : list pinl)
| BCode (lr : lrange)
| BQuote (lr : lrange) (bs : list pblock)
| BList (items : list (list pblock))                  (* ordered or bullet: no range of its own *)
| BRule (lr : lrange)
| BTable (lr : lrange) (header : list (list pinl)) (rows : list (list (list pinl))).
                                                      (* header cells; rows of cells; a cell = its inlines *)

Definition is_link (k : pkind) : bool := match k with KLink _ _ => true | _ => false end.

Fixpoint plain_len (i : pinl) : nat :=
  match i with
  | PStr n => n
  | PLeaf _ n => n
  | PNode _ _ kids => (fix go (l : list pinl) : nat := match l with [] => 0 | x :: r => plain_len x + go r end) kids
  end.

Definition inline_range (i : pinl) : irange :=
  match i with
  | PStr _ => ((0, 0), (0, 0))                        (* InlineRange::default() *)
  | PLeaf r _ => r
  | PNode _ r _ => r
  end.

(* derived Ord of Position: lexicographic on (line, character) *)
Definition pos_leb (a b : pos) : bool :=
  Nat.ltb (fst a) (fst b) || (Nat.eqb (fst a) (fst b) && Nat.leb (snd a) (snd b)).
Definition pos_ltb (a b : pos) : bool :=
  Nat.ltb (fst a) (fst b) || (Nat.eqb (fst a) (fst b) && Nat.ltb (snd a) (snd b)).
(* Range<Position>::contains *)
Definition irange_contains (r : irange) (p : pos) : bool := pos_leb (fst r) p && pos_ltb p (snd r).
Definition lrange_contains (r : lrange) (line : nat) : bool := Nat.leb (fst r) line && Nat.ltb line (snd r).

(* DocumentInline::link_at_position (document.rs:620-628) *)
Fixpoint link_at_position (i : pinl) (p : pos) : option pinl :=
  match i with
  | PNode k r kids =>
      if irange_contains r p && is_link k then Some i
      else (fix go (l : list pinl) : option pinl :=
              match l with
              | [] => None
              | x :: rest => match link_at_position x p with Some y => Some y | None => go rest end
              end) kids
  | _ => None
  end.
Fixpoint first_link_at (l : list pinl) (p : pos) : option pinl :=
  match l with
  | [] => None
  | x :: rest => match link_at_position x p with Some y => Some y | None => first_link_at rest p end
  end.

(* DocumentInline::key_range (document.rs:570-590); `end.character - 1` is a usize
   subtraction: it overflows (a panic in builds with overflow checks, a wrapped value
   otherwise) when the end column is 0 — which a correct end column of a link never is,
   its source ends with `)`, `]` or `>`, but a shifted one can be *)
Definition key_range (i : pinl) : res (option irange) :=
  match i with
  | PNode (KLink _ _) r _ =>
      match snd (snd r) with
      | O => Panic "attempt to subtract with overflow"
      | S c => Ok (Some ((fst (fst r), snd (fst r) + plain_len i + 3), (fst (snd r), c)))
      end
  | _ => Ok None
  end.

(* DocumentBlock::line_range (document.rs:227-254).
   as found: `list.items.first().unwrap().first().unwrap().line_range()`.
   repaired: `list.items.iter().flatten().next().map(|block| block.line_range()).unwrap_or_default()`
   — the first block of the first item that has one; `0..0` for a list without blocks *)
Fixpoint line_range (v : variant) (b : pblock) : res lrange :=
  match b with
  | BPara lr _ | BHeader lr _ | BCode lr | BQuote lr _ | BRule lr | BTable lr _ _ => Ok lr
  | BList items =>
      if v_empty_item v then
        (fix go (l : list (list pblock)) : res lrange :=
           match l with
           | [] => Ok (0, 0)
           | [] :: r => go r
           | (first :: _) :: _ => line_range v first
           end) items
      else
        match items with
        | (first :: _) :: _ => line_range v first
        | _ => Panic "line_range: unwrap on None"
        end
  end.

(* DocumentBlock::block_at_position (document.rs:272-277): the children first (find_map is
   lazy), then `.or(Some(self).filter(..))` whose argument — hence `self.line_range()` — is
   evaluated whether or not a child matched *)
Fixpoint block_at (v : variant) (b : pblock) (line : nat) : res (option pblock) :=
  let fix go (l : list pblock) : res (option pblock) :=
    match l with
    | [] => Ok None
    | x :: rest => do r <- block_at v x line; match r with Some y => Ok (Some y) | None => go rest end
    end in
  let fix go_items (l : list (list pblock)) : res (option pblock) :=
    match l with
    | [] => Ok None
    | it :: rest => do r <- go it; match r with Some y => Ok (Some y) | None => go_items rest end
    end in
  do c <- match b with
          | BQuote _ bs => go bs
          | BList items => go_items items
          | _ => Ok None
          end;
  do lr <- line_range v b;
  Ok (match c with
      | Some y => Some y
      | None => if lrange_contains lr line then Some b else None
      end).

(* Document::block_at_position (document.rs:56-60) *)
Fixpoint doc_block_at (v : variant) (bs : list pblock) (line : nat) : res (option pblock) :=
  match bs with
  | [] => Ok None
  | x :: rest => do r <- block_at v x line; match r with Some y => Ok (Some y) | None => doc_block_at v rest line end
  end.

(* DocumentBlock::child_inlines (document.rs:279-293).
   as found: a table has none.  repaired: the inlines of its cells, header first, row by row:
   `table.header.iter().chain(table.rows.iter().flatten()).flatten().cloned().collect()` *)
Definition child_inlines (v : variant) (b : pblock) : list pinl :=
  match b with
  | BPara _ l | BHeader _ l => l
  | BTable _ h rows => if v_table v then concat h ++ concat (concat rows) else []
  | _ => []
  end.

(* Document::link_at (document.rs:49-54) *)
Definition link_at (v : variant) (bs : list pblock) (p : pos) : res (option pinl) :=
  do b <- doc_block_at v bs (fst p);
  Ok (match b with Some blk => first_link_at (child_inlines v blk) p | None => None end).

(* ---------- the reader's stack machine, positions only -------------------------------- *)

Inductive tag :=
| TPara | THeading | TQuote | TCodeBlock | THtmlBlock | TList | TItem
| TTable | TTableHead | TTableRow | TTableCell
| TEmph | TStrong | TStrike | TLink (lt : link_type) (url : string) | TImage | TMeta | TOther.

(* pulldown events with their byte ranges; [len] = byte length of the event's text *)
Inductive ev :=
| EStart (t : tag) (s e : nat)
| EEnd (t : tag)
| EText (len s e : nat)
| ECode (len s e : nat)
| EMath (s e : nat)
| EInlineHtml (len s e : nat)
| EBreak (s e : nat)
| ERule (s e : nat)
| ESkip.        (* Html, DisplayMath, FootnoteReference, TaskListMarker: ignored by the reader *)

(* how ranges are computed; [m_union]: a paragraph's line range grows with every inline appended
   to it, so an implicit paragraph (tight item, text directly in a quote) covers all its inlines
   (the specification, and the code since the repair [v_tight]) instead of the first one only
   (the code as found) *)
Record mode := Mode { m_lines : nat -> nat -> lrange; m_inline : nat -> nat -> irange; m_union : bool }.

Definition code_mode (v : variant) (t : string) : mode :=
  let ls := line_starts v t in
  Mode (to_line_range ls) (to_inline_range v t ls) (v_tight v).
Definition spec_mode (t : string) : mode := Mode (spec_lines t) (spec_span t) true.

Definition lr_union (a b : lrange) : lrange := (Nat.min (fst a) (fst b), Nat.max (snd a) (snd b)).

(* tables (document.rs:130-150, 213-223): `append_row` pushes an empty row; `append_cell` pushes
   an empty cell to the header while there is no row, else to the last row; the Table arm of
   `append_inline` pushes the inline to the last header cell while there is no row, else to the
   last cell of the last row — `if let Some(..) = ..last_mut()`: nothing happens without a cell *)
Fixpoint push_last_cell (cells : list (list pinl)) (i : pinl) : list (list pinl) :=
  match cells with
  | [] => []
  | c :: [] => [c ++ [i]]
  | c :: r => c :: push_last_cell r i
  end.
Fixpoint on_last_row (rows : list (list (list pinl))) (f : list (list pinl) -> list (list pinl))
  : list (list (list pinl)) :=
  match rows with
  | [] => []
  | r :: [] => [f r]
  | r :: rest => r :: on_last_row rest f
  end.
Definition table_inline_header (h : list (list pinl)) (rows : list (list (list pinl))) (i : pinl) :=
  match rows with [] => push_last_cell h i | _ => h end.
Definition table_inline_rows (rows : list (list (list pinl))) (i : pinl) :=
  on_last_row rows (fun r => push_last_cell r i).
Definition table_cell_header (h : list (list pinl)) (rows : list (list (list pinl))) :=
  match rows with [] => h ++ [[]] | _ => h end.
Definition table_cell_rows (rows : list (list (list pinl))) :=
  on_last_row rows (fun r => r ++ [[]]).

(* DocumentBlock::append_inline (document.rs:164-225); the Para arm since the repair [v_tight]
   (document.rs:167-173):
   `para.line_range = para.line_range.start.min(line_range.start)..para.line_range.end.max(line_range.end)` *)
Fixpoint append_inline (M : mode) (b : pblock) (i : pinl) (lr : lrange) : res pblock :=
  let fix app_last (l : list pblock) : res (list pblock) :=
    match l with
    | [] => Panic "append_inline: unwrap on None"
    | x :: [] => do x' <- append_inline M x i lr; Ok [x']
    | x :: r => do r' <- app_last r; Ok (x :: r')
    end in
  (* the list arms (document.rs:186-209): the inline goes to the LAST block of the last item when
     that block is a paragraph - the implicit paragraph of a tight item - and opens a new paragraph
     otherwise (empty item, or text that follows a rule, code block, heading, table, quote or list
     of a tight item: `if !matches!(item.last(), Some(DocumentBlock::Para(_)))`) *)
  let fix app_tail (l : list pblock) : res (list pblock) :=
    match l with
    | [] => Ok [BPara lr [i]]
    | x :: [] => match x with
                 | BPara _ _ => do x' <- append_inline M x i lr; Ok [x']
                 | _ => Ok [x; BPara lr [i]]
                 end
    | x :: r => do r' <- app_tail r; Ok (x :: r')
    end in
  let fix app_item (l : list (list pblock)) : res (list (list pblock)) :=
    match l with
    | [] => Panic "append_inline: no item"
    | it :: [] => do it' <- app_tail it; Ok [it']
    | it :: r => do r' <- app_item r; Ok (it :: r')
    end in
  match b with
  | BPara r l => Ok (BPara (if m_union M then lr_union r lr else r) (l ++ [i]))
  | BHeader r l => Ok (BHeader r (l ++ [i]))
  | BCode _ | BRule _ => Ok b
  | BTable r h rows => Ok (BTable r (table_inline_header h rows i) (table_inline_rows rows i))
  | BQuote r bs =>
      match bs with
      | [] => Ok (BQuote r [BPara lr [i]])
      | _ => do bs' <- app_last bs; Ok (BQuote r bs')
      end
  | BList items => do items' <- app_item items; Ok (BList items')
  end.

Definition is_container (b : pblock) : bool :=
  match b with BQuote _ _ | BList _ => true | _ => false end.

(* DocumentBlock::append_block (document.rs:115-128) *)
Fixpoint push_last_item (items : list (list pblock)) (b : pblock) : res (list (list pblock)) :=
  match items with
  | [] => Panic "append_block: unwrap on None"
  | it :: [] => Ok [it ++ [b]]
  | it :: r => do r' <- push_last_item r b; Ok (it :: r')
  end.
Definition append_block (top b : pblock) : res pblock :=
  match top with
  | BList items => do items' <- push_last_item items b; Ok (BList items')
  | BQuote r bs => Ok (BQuote r (bs ++ [b]))
  | _ => Panic "append_block"
  end.

Record rst := R {
  r_inl : list (pinl * lrange);     (* inlines_stack with inlines_pos_stack, top first *)
  r_blk : list pblock;              (* blocks_stack, top first *)
  r_out : list pblock;              (* blocks *)
  r_meta : bool                     (* metadata_block *)
}.
Definition rst0 : rst := R [] [] [] false.

Definition push_inline (st : rst) (i : pinl) (lr : lrange) : rst :=
  R ((i, lr) :: r_inl st) (r_blk st) (r_out st) (r_meta st).
Definition push_block (st : rst) (b : pblock) : rst :=
  R (r_inl st) (b :: r_blk st) (r_out st) (r_meta st).

(* reader.rs:159-169 *)
Definition pop_inline (M : mode) (st : rst) : res rst :=
  match r_inl st with
  | [] => Panic "pop_inline: unwrap on None"
  | (i, lr) :: [] =>
      match r_blk st with
      | [] => Panic "to have element"
      | b :: rest => do b' <- append_inline M b i lr; Ok (R [] (b' :: rest) (r_out st) (r_meta st))
      end
  | (i, _) :: (parent, plr) :: rest =>
      match parent with
      | PNode k r kids => Ok (R ((PNode k r (kids ++ [i]), plr) :: rest) (r_blk st) (r_out st) (r_meta st))
      | _ => Panic "cannot append inline"
      end
  end.

(* reader.rs:171-182 *)
Definition pop_block (st : rst) : res rst :=
  match r_blk st with
  | [] => Panic "pop_block: unwrap on None"
  | b :: [] => Ok (R (r_inl st) [] (r_out st ++ [b]) (r_meta st))
  | b :: top :: rest =>
      if is_container top then
        do top' <- append_block top b; Ok (R (r_inl st) (top' :: rest) (r_out st) (r_meta st))
      else Ok (R (r_inl st) (top :: rest) (r_out st) (r_meta st))
  end.

Definition leaf_inline (M : mode) (st : rst) (i : pinl) (s e : nat) : res rst :=
  pop_inline M (push_inline st i (m_lines M s e)).

Definition with_top (st : rst) (f : pblock -> res pblock) : res rst :=
  match r_blk st with
  | [] => Panic "to have element"
  | b :: rest => do b' <- f b; Ok (R (r_inl st) (b' :: rest) (r_out st) (r_meta st))
  end.

(* reader.rs:50-148 (`read`), 184-319 (`start_tag`), 321-355 (`end_tag`) *)
Definition step (M : mode) (st : rst) (e : ev) : res rst :=
  match e with
  | EStart t s e' =>
      match t with
      | TPara => Ok (push_block st (BPara (m_lines M s e') []))
      | THeading => Ok (push_block st (BHeader (m_lines M s e') []))
      | TQuote => Ok (push_block st (BQuote (m_lines M s e') []))
      | TCodeBlock => Ok (push_block st (BCode (m_lines M s e')))
      | TList => Ok (push_block st (BList []))
      | TItem => with_top st (fun b => match b with BList items => Ok (BList (items ++ [[]])) | _ => Panic "append_item" end)
      | TTable => Ok (push_block st (BTable (m_lines M s e') [] []))
      | TTableRow => with_top st (fun b => match b with
                                           | BTable r h rows => Ok (BTable r h (rows ++ [[]]))
                                           | _ => Panic "cannot append row to non table block" end)
      | TTableCell => with_top st (fun b => match b with
                                            | BTable r h rows => Ok (BTable r (table_cell_header h rows) (table_cell_rows rows))
                                            | _ => Panic "cannot append cell to non table block" end)
      | TEmph => Ok (push_inline st (PNode KEmph (m_inline M s e') []) (m_lines M s e'))
      | TStrong => Ok (push_inline st (PNode KStrong (m_inline M s e') []) (m_lines M s e'))
      | TStrike => Ok (push_inline st (PNode KStrike (m_inline M s e') []) (m_lines M s e'))
      | TLink lt url => Ok (push_inline st (PNode (KLink lt url) (m_inline M s e') []) (m_lines M s e'))
      | TImage => Ok (push_inline st (PNode KImage (m_inline M s e') []) (m_lines M s e'))
      | TMeta => Ok (R (r_inl st) (r_blk st) (r_out st) true)
      | THtmlBlock | TTableHead | TOther => Ok st
      end
  | EEnd t =>
      match t with
      | TPara | THeading | TQuote | TCodeBlock | TList | TTable => pop_block st
      | TEmph | TStrong | TStrike | TLink _ _ | TImage => pop_inline M st
      | TMeta => Ok (R (r_inl st) (r_blk st) (r_out st) false)
      | _ => Ok st
      end
  | EText len s e' =>
      if r_meta st then Ok st
      else match r_blk st with
           | [] => Panic "to have element"
           | BCode _ :: _ => Ok st
           | _ => leaf_inline M st (PStr len) s e'
           end
  | ECode len s e' => leaf_inline M st (PLeaf (m_inline M s e') len) s e'
  | EMath s e' => leaf_inline M st (PLeaf (m_inline M s e') 0) s e'
  | EInlineHtml len s e' => leaf_inline M st (PStr len) s e'
  | EBreak s e' => if r_meta st then Ok st else leaf_inline M st (PStr 1) s e'
  | ERule s e' => pop_block (push_block st (BRule (m_lines M s e')))
  | ESkip => Ok st
  end.

Fixpoint run_events (M : mode) (st : rst) (evs : list ev) : res rst :=
  match evs with
  | [] => Ok st
  | e :: r => do st' <- step M st e; run_events M st' r
  end.

Definition read_events (M : mode) (evs : list ev) : res (list pblock) :=
  do st <- run_events M rst0 evs; Ok (r_out st).

(* ---------- boolean equalities and traversals ---------------------------------------- *)

Definition pos_eqb (a b : pos) : bool := Nat.eqb (fst a) (fst b) && Nat.eqb (snd a) (snd b).
Definition irange_eqb (a b : irange) : bool := pos_eqb (fst a) (fst b) && pos_eqb (snd a) (snd b).

Definition pkind_eqb (a b : pkind) : bool :=
  match a, b with
  | KEmph, KEmph | KStrong, KStrong | KStrike, KStrike | KImage, KImage => true
  | KLink lt u, KLink lt' u' => link_type_eqb lt lt' && String.eqb u u'
  | _, _ => false
  end.

Fixpoint pinl_eqb (a b : pinl) {struct a} : bool :=
  match a, b with
  | PStr n, PStr m => Nat.eqb n m
  | PLeaf r n, PLeaf r' m => irange_eqb r r' && Nat.eqb n m
  | PNode k r l, PNode k' r' l' =>
      pkind_eqb k k' && irange_eqb r r' &&
      (fix go (x y : list pinl) {struct x} : bool :=
         match x, y with
         | [], [] => true
         | i :: x', j :: y' => pinl_eqb i j && go x' y'
         | _, _ => false
         end) l l'
  | _, _ => false
  end.

Fixpoint pblock_eqb (a b : pblock) {struct a} : bool :=
  let fix go (x y : list pblock) {struct x} : bool :=
    match x, y with
    | [], [] => true
    | i :: x', j :: y' => pblock_eqb i j && go x' y'
    | _, _ => false
    end in
  let fix goi (x y : list (list pblock)) {struct x} : bool :=
    match x, y with
    | [], [] => true
    | i :: x', j :: y' => go i j && goi x' y'
    | _, _ => false
    end in
  match a, b with
  | BPara r l, BPara r' l' => lrange_eqb r r' && list_eqb pinl_eqb l l'
  | BHeader r l, BHeader r' l' => lrange_eqb r r' && list_eqb pinl_eqb l l'
  | BCode r, BCode r' => lrange_eqb r r'
  | BQuote r bs, BQuote r' bs' => lrange_eqb r r' && go bs bs'
  | BList it, BList it' => goi it it'
  | BRule r, BRule r' => lrange_eqb r r'
  | BTable r h rows, BTable r' h' rows' =>
      lrange_eqb r r' && list_eqb (list_eqb pinl_eqb) h h' && list_eqb (list_eqb (list_eqb pinl_eqb)) rows rows'
  | _, _ => false
  end.

(* the blocks in the order `block_at_position` tries them: children before their parent *)
Fixpoint search_order (b : pblock) : list pblock :=
  let fix go (l : list pblock) : list pblock :=
    match l with [] => [] | x :: r => search_order x ++ go r end in
  let fix go_items (l : list (list pblock)) : list pblock :=
    match l with [] => [] | it :: r => go it ++ go_items r end in
  match b with
  | BQuote _ bs => go bs ++ [b]
  | BList items => go_items items ++ [b]
  | _ => [b]
  end.
Fixpoint doc_search_order (bs : list pblock) : list pblock :=
  match bs with [] => [] | x :: r => search_order x ++ doc_search_order r end.

(* a list whose first item is empty (or that has no item): `line_range` panics on it *)
Definition bad_list (b : pblock) : bool :=
  match b with
  | BList ((_ :: _) :: _) => false
  | BList _ => true
  | _ => false
  end.

(* all links of an inline, outermost first, in the order `link_at_position` tries them *)
Fixpoint links_of (i : pinl) : list pinl :=
  match i with
  | PNode k r kids =>
      (if is_link k then [i] else []) ++
      (fix go (l : list pinl) : list pinl := match l with [] => [] | x :: r => links_of x ++ go r end) kids
  | _ => []
  end.
Fixpoint links_of_list (l : list pinl) : list pinl :=
  match l with [] => [] | x :: r => links_of x ++ links_of_list r end.
