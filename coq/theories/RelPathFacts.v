(* RelPathFacts.v — proofs about RelPath.v: the C15 algebra. *)
From IweV Require Import Str RelPath.
Local Open Scope string_scope.
Local Open Scope list_scope.

(* a path segment that names something: non-empty, no separator, not `.` / `..` *)
Definition wf_piece (n : string) : Prop := sempty n = false /\ contains_char SEP n = false.
Definition good_name (n : string) : Prop := wf_piece n /\ n <> "." /\ n <> "..".

Definition good_nameb (n : string) : bool :=
  negb (sempty n) && negb (contains_char SEP n) && negb (String.eqb n ".") && negb (String.eqb n "..").

Lemma good_nameb_spec n : good_nameb n = true <-> good_name n.
Proof.
  unfold good_nameb, good_name, wf_piece. rewrite !andb_true_iff, !negb_true_iff.
  rewrite !String.eqb_neq. tauto.
Qed.

Lemma classify_good n : good_name n -> classify n = Norm n.
Proof.
  intros (_ & H1 & H2). unfold classify.
  apply String.eqb_neq in H1, H2. now rewrite H1, H2.
Qed.

Lemma filter_all {A} (f : A -> bool) l : (forall x, In x l -> f x = true) -> filter f l = l.
Proof.
  induction l as [|x l IH]; intros H; cbn; [reflexivity|].
  rewrite (H x (or_introl eq_refl)). f_equal. apply IH. intros y Hy. apply H. now right.
Qed.

Lemma comps_join ns :
  Forall wf_piece ns -> components (join SEPS ns) = map classify ns.
Proof.
  intros HF. unfold components. destruct ns as [|n ns]; [reflexivity|].
  unfold SEPS. rewrite split_join.
  - f_equal. apply filter_all. intros x Hx.
    rewrite Forall_forall in HF. destruct (HF x Hx) as [E _]. now rewrite E.
  - congruence.
  - eapply Forall_impl; [|exact HF]. intros a [_ H]; exact H.
Qed.

Lemma good_wf n : good_name n -> wf_piece n.
Proof. now intros [H _]. Qed.

Lemma comps_join_good ns :
  Forall good_name ns -> components (join SEPS ns) = map Norm ns.
Proof.
  intros HF. rewrite comps_join.
  - apply map_ext_in. intros a Ha. rewrite Forall_forall in HF. now apply classify_good, HF.
  - eapply Forall_impl; [|exact HF]. intros a; apply good_wf.
Qed.

Lemma traverse_norms l buf : traverse buf (map Norm l) = rev (map Norm l) ++ buf.
Proof.
  revert buf; induction l as [|x l IH]; intros buf; cbn [map traverse rev]; [reflexivity|].
  rewrite IH, <- app_assoc. reflexivity.
Qed.

Lemma traverse_app buf a b : traverse buf (a ++ b) = traverse (traverse buf a) b.
Proof.
  revert buf; induction a as [|c a IH]; intros buf; [reflexivity|].
  cbn [app traverse]. destruct c; [apply IH| |apply IH].
  destruct buf as [|[| |?] ?]; apply IH.
Qed.

(* `..` repeated pops exactly as many named segments *)
Lemma traverse_pops l B rest :
  traverse (map Norm l ++ B) (repeat Par (length l) ++ rest) = traverse B rest.
Proof.
  induction l as [|x l IH]; [reflexivity|]. cbn [map app length repeat traverse]. exact IH.
Qed.

Fixpoint strip_common_s (a b : list string) : list string * list string :=
  match a, b with
  | x :: a', y :: b' => if String.eqb x y then strip_common_s a' b' else (a, b)
  | _, _ => (a, b)
  end.

Lemma strip_common_norm a b :
  strip_common (map Norm a) (map Norm b) =
  (map Norm (fst (strip_common_s a b)), map Norm (snd (strip_common_s a b))).
Proof.
  revert b; induction a as [|x a IH]; intros [|y b]; cbn [map strip_common strip_common_s comp_eqb];
    try reflexivity.
  destruct (String.eqb x y); [apply IH | reflexivity].
Qed.

Lemma strip_common_s_spec a b :
  exists p, a = p ++ fst (strip_common_s a b) /\ b = p ++ snd (strip_common_s a b).
Proof.
  revert b; induction a as [|x a IH]; intros [|y b]; cbn [strip_common_s];
    try (exists []; split; reflexivity).
  destruct (String.eqb_spec x y) as [->|]; [|exists []; split; reflexivity].
  destruct (IH b) as (p & H1 & H2). exists (y :: p). cbn [app]. split; congruence.
Qed.

(* --- `.md` at the end of a joined path is `.md` at the end of its last segment ------- *)

Lemma contains_char_app c (a b : string) : contains_char c (a ++ b)%string = contains_char c a || contains_char c b.
Proof. induction a as [|x a IH]; cbn; [reflexivity|]. destruct (Ascii.eqb x c); [reflexivity | exact IH]. Qed.

Lemma contains_char_srev c s : contains_char c (srev s) = contains_char c s.
Proof.
  induction s as [|x s IH]; [reflexivity|].
  rewrite srev_cons, contains_char_app, IH. cbn. destruct (Ascii.eqb x c); [apply orb_true_r | apply orb_false_r].
Qed.

Lemma join_snoc sep xs l :
  join sep (xs ++ [l]) = match xs with [] => l | _ => (join sep xs ++ sep ++ l)%string end.
Proof.
  induction xs as [|x xs IH]; [reflexivity|].
  destruct xs as [|y xs]; [reflexivity|].
  change (join sep ((x :: y :: xs) ++ [l])) with (x ++ sep ++ join sep ((y :: xs) ++ [l]))%string.
  rewrite IH. change (join sep (x :: y :: xs)) with (x ++ sep ++ join sep (y :: xs))%string.
  now rewrite !sapp_assoc.
Qed.

Lemma starts_dm_nosep a rest :
  contains_char SEP a = false ->
  (rest = "" \/ exists r, rest = String SEP r) ->
  starts_with "dm." (a ++ rest)%string = starts_with "dm." a.
Proof.
  intros Ha Hr.
  destruct a as [|c1 [|c2 [|c3 a]]]; cbn [String.append starts_with].
  - destruct Hr as [->|[r ->]]; reflexivity.
  - destruct (Ascii.eqb "d" c1); [|reflexivity]. destruct Hr as [->|[r ->]]; reflexivity.
  - destruct (Ascii.eqb "d" c1); [|reflexivity]. destruct (Ascii.eqb "m" c2); [|reflexivity].
    destruct Hr as [->|[r ->]]; reflexivity.
  - destruct (Ascii.eqb "d" c1); [|reflexivity]. destruct (Ascii.eqb "m" c2); [|reflexivity].
    destruct (Ascii.eqb "." c3); reflexivity.
Qed.

Lemma ends_md_join xs l :
  contains_char SEP l = false ->
  ends_with MD (join SEPS (xs ++ [l])) = ends_with MD l.
Proof.
  intros Hl. unfold ends_with. rewrite join_snoc.
  destruct xs as [|x xs]; [reflexivity|].
  rewrite !srev_append. change (srev MD) with "dm.". rewrite sapp_assoc.
  apply starts_dm_nosep.
  - now rewrite contains_char_srev.
  - right. eexists. reflexivity.
Qed.

(* --- the round trip ----------------------------------------------------------------- *)

Lemma render_comps_pars_norms n ks :
  render_comps (repeat Par n ++ map Norm ks) = join SEPS (repeat ".." n ++ ks).
Proof.
  unfold render_comps. rewrite map_app, map_map. f_equal. f_equal.
  - induction n as [|n IH]; cbn; [reflexivity | now rewrite IH].
  - now rewrite map_id.
Qed.

Lemma map_const_repeat {A B} (b : B) (l : list A) : map (fun _ => b) l = repeat b (length l).
Proof. induction l as [|x l IH]; cbn; [reflexivity | now rewrite IH]. Qed.

Lemma relative_canonical ds ks :
  Forall good_name ds -> Forall good_name ks ->
  relative (join SEPS ds) (join SEPS ks) =
  join SEPS (repeat ".." (length (fst (strip_common_s ds ks))) ++ snd (strip_common_s ds ks)).
Proof.
  intros Hd Hk. unfold relative.
  rewrite !comps_join_good by assumption.
  rewrite !traverse_norms, !app_nil_r, !rev_involutive.
  rewrite strip_common_norm.
  destruct (fst (strip_common_s ds ks)) as [|d ds'] eqn:E.
  - cbn [map app length repeat]. unfold render_comps. now rewrite map_map, map_id.
  - cbn [map]. rewrite <- render_comps_pars_norms. f_equal. f_equal.
    change (Par :: map (fun _ => Par) (map Norm ds')) with (map (fun _ : comp => Par) (map Norm (d :: ds'))).
    rewrite map_const_repeat, map_length. reflexivity.
Qed.

Lemma pars_wf n : Forall wf_piece (repeat ".." n).
Proof. induction n; cbn; constructor; auto. split; reflexivity. Qed.

Lemma classify_pars n : map classify (repeat ".." n) = repeat Par n.
Proof. induction n as [|n IH]; cbn; [reflexivity | now rewrite IH]. Qed.

Lemma ends_md_pars n : ends_with MD (join SEPS (repeat ".." n)) = false.
Proof.
  destruct n as [|n]; [reflexivity|].
  replace (repeat ".." (S n)) with (repeat ".." n ++ [".."]).
  - rewrite ends_md_join; reflexivity.
  - clear. induction n as [|n IH]; [reflexivity|]. cbn [repeat app] in *. now rewrite IH.
Qed.

Lemma exists_last_str (l : list string) : l <> [] -> exists xs x, l = xs ++ [x].
Proof. intros H. destruct (exists_last H) as (xs & x & ->). eauto. Qed.

(* the url written for K does not end in `.md` unless K does *)
Lemma rel_url_no_md pars p ks' :
  Forall good_name ks' ->
  ends_with MD (join SEPS (p ++ ks')) = false ->
  Forall good_name p ->
  ends_with MD (join SEPS (repeat ".." pars ++ ks')) = false.
Proof.
  intros Hk HK Hp.
  destruct ks' as [|k ks'] using rev_ind.
  - rewrite app_nil_r. apply ends_md_pars.
  - clear IHks'. rewrite app_assoc in HK |- *.
    apply Forall_app in Hk as [_ Hk]. inversion Hk as [|? ? [[_ Hs] _] _]; subst.
    rewrite ends_md_join in HK |- * by exact Hs. exact HK.
Qed.

(* --- `strip_md` and `ref_url` -------------------------------------------------------------- *)

Lemma strip_md_none s : ends_with MD s = false -> strip_md s = s.
Proof. apply strip_suffix_once_none. Qed.

(* exactly one extension goes, whatever the name is *)
Lemma strip_md_app s : strip_md (s +++ MD) = s.
Proof. apply strip_suffix_once_app. Qed.

(* what `ref_url` writes is read back (`strip_md`) as the url it was given: for both extensions
   iwe is configured with, for every url *)
Lemma strip_md_ref_url u ext : ext = MD \/ ext = "" -> strip_md (ref_url u ext) = u.
Proof.
  unfold ref_url. intros [-> | ->]; cbn [sempty andb].
  - apply strip_md_app.
  - destruct (ends_with MD u) eqn:E; [apply strip_md_app|]. rewrite append_nil_r. now apply strip_md_none.
Qed.

(* resolving the url written for K from D, the extension already taken off *)
Lemma join_relative_canonical ks ds :
  Forall good_name ks -> Forall good_name ds ->
  join_normalized (join SEPS ds) (relative (join SEPS ds) (join SEPS ks)) = join SEPS ks.
Proof.
  intros Hk Hd.
  rewrite relative_canonical by assumption.
  destruct (strip_common_s_spec ds ks) as (p & Ed & Ek).
  set (ds' := fst (strip_common_s ds ks)) in *. set (ks' := snd (strip_common_s ds ks)) in *.
  assert (Hk' : Forall good_name ks') by (rewrite Ek in Hk; now apply Forall_app in Hk as [_ ?]).
  assert (Hp : Forall good_name p) by (rewrite Ek in Hk; now apply Forall_app in Hk as [? _]).
  unfold join_normalized.
  rewrite (comps_join_good ds) by assumption.
  rewrite comps_join.
  2:{ apply Forall_app; split; [apply pars_wf|]. eapply Forall_impl; [|exact Hk']. intros a; apply good_wf. }
  rewrite map_app, classify_pars.
  replace (map classify ks') with (map Norm ks').
  2:{ apply map_ext_in. intros a Ha. rewrite Forall_forall in Hk'. symmetry. now apply classify_good, Hk'. }
  rewrite traverse_norms, app_nil_r.
  rewrite Ed at 1. rewrite map_app, rev_app_distr.
  replace (rev (map Norm ds')) with (map Norm (rev ds')) by (now rewrite map_rev).
  replace (length ds') with (length (rev ds')) by apply rev_length.
  rewrite traverse_pops, traverse_norms.
  unfold render. rewrite rev_app_distr, !rev_involutive, <- map_app, <- Ek.
  unfold render_comps. now rewrite map_map, map_id.
Qed.

(* the url as `to_rel_link_url` returns it, without any extension: the key must not end in `.md` *)
Theorem roundtrip_canonical ks ds :
  Forall good_name ks -> Forall good_name ds ->
  ends_with MD (join SEPS ks) = false ->
  from_rel_link_url (to_rel_link_url (join SEPS ks) (join SEPS ds)) (join SEPS ds) = join SEPS ks.
Proof.
  intros Hk Hd HK. unfold to_rel_link_url, from_rel_link_url.
  rewrite strip_md_none; [now apply join_relative_canonical|].
  rewrite relative_canonical by assumption.
  destruct (strip_common_s_spec ds ks) as (p & Ed & Ek).
  apply rel_url_no_md with (p := p).
  - rewrite Ek in Hk. now apply Forall_app in Hk as [_ ?].
  - now rewrite <- Ek.
  - rewrite Ek in Hk. now apply Forall_app in Hk as [? _].
Qed.

(* the url as it is WRITTEN (`ref_url`: with the configured extension, and with `.md` where the
   key itself ends in `.md`) resolves back to the key: every key, also one ending in `.md` *)
Theorem roundtrip_written ks ds ext :
  Forall good_name ks -> Forall good_name ds -> ext = MD \/ ext = "" ->
  from_rel_link_url (ref_url (to_rel_link_url (join SEPS ks) (join SEPS ds)) ext) (join SEPS ds) = join SEPS ks.
Proof.
  intros Hk Hd He. unfold from_rel_link_url, to_rel_link_url.
  rewrite strip_md_ref_url by exact He. now apply join_relative_canonical.
Qed.

(* the key `x.md` (file `x.md.md`): written without an extension the url `x.md` would be read as
   the note `x`; `ref_url` writes `x.md.md` *)
Example roundtrip_md_key :
  from_rel_link_url (to_rel_link_url "x.md" "") "" = "x" /\
  ref_url (to_rel_link_url "x.md" "") "" = "x.md.md" /\
  from_rel_link_url (ref_url (to_rel_link_url "x.md" "") "") "" = "x.md".
Proof. vm_compute. repeat split. Qed.

(* re-writing a resolved link from the same directory resolves to the same note:
   stated on keys, for any key that [from_rel_link_url] can produce in canonical form *)
Corollary rewrite_canonical ks ds :
  Forall good_name ks -> Forall good_name ds ->
  ends_with MD (join SEPS ks) = false ->
  let K := join SEPS ks in let D := join SEPS ds in
  from_rel_link_url (to_rel_link_url (from_rel_link_url (to_rel_link_url K D) D) D) D = K.
Proof. intros Hk Hd HK K D. unfold K, D. now rewrite !roundtrip_canonical. Qed.
