(* Check_C11.v — executable side of C11 (no edit notification is lost, whatever requests are
   in flight): the case type the harness fills after driving one chosen schedule on the real
   router through the cfg-guarded pause points, the correspondence with the Router.v model run
   on the same schedule (repaired rules), and the property predicates on the observations.

   Model instance: the server is the map key -> text; a notification is (key, Some text)
   (didChange / didSave with text) or (key, None) (didSave without text: no change); the only
   request is textDocument/formatting of a key, whose result is the note's text — the harness
   only sends texts that are fixpoints of formatting — and which panics for an unknown key
   (graph.rs:467-470 `collect`: expect("to have key")). *)
From IweV Require Import Str Arena Harness Router.
Local Open Scope string_scope.
Local Open Scope list_scope.
Local Open Scope N_scope.

Definition kvs := list (string * string).
Definition note_t := (string * option string)%type.

Fixpoint kv_get (k : string) (l : kvs) : option string :=
  match l with
  | [] => None
  | (k', t) :: r => if String.eqb k' k then Some t else kv_get k r
  end.

Fixpoint kv_set (k t : string) (l : kvs) : kvs :=
  match l with
  | [] => [(k, t)]
  | (k', t') :: r => if String.eqb k' k then (k, t) :: r else (k', t') :: kv_set k t r
  end.

Definition apply_kv (sv : kvs) (n : note_t) : kvs :=
  match snd n with Some t => kv_set (fst n) t sv | None => sv end.

Definition handler_fmt (sv : kvs) (k : string) : res string :=
  match kv_get k sv with Some t => Ok t | None => Panic "collect: to have key" end.

Inductive obody := ONull | OText (t : string) | OErr.

Definition obody_eqb (a b : obody) : bool :=
  match a, b with
  | ONull, ONull | OErr, OErr => true
  | OText x, OText y => String.eqb x y
  | _, _ => false
  end.

Record case := Case {
  c_docs : kvs;                              (* the library the server starts with *)
  c_msgs : list (msg note_t string);         (* what the client sends, in order *)
  c_sched : list label;                      (* the interleaving that was driven *)
  o_resps : list (N * obody);                (* responses received up to quiescence, sorted by id *)
  o_final : list (string * option string);   (* formatting of every note at quiescence (None: error) *)
  o_drops : list N;                          (* positions of notifications whose handling unwound *)
  o_realised : bool;                         (* every hook event the schedule waits for arrived *)
  o_loop : N                                 (* 1: `run` returned Ok after the final `exit` *)
}.

(* like [run], but a LoopResume that is not enabled is skipped: under the as-found
   notification rule the loop never waits, the harness' schedule still contains the label *)
Fixpoint run_skip (nv wv : variant) (s : state kvs note_t string string) (tr : list label)
  : option (state kvs note_t string string) :=
  match tr with
  | [] => Some s
  | l :: r =>
      match step apply_kv handler_fmt nv wv s l with
      | Some s' => run_skip nv wv s' r
      | None => match l with LoopResume => run_skip nv wv s r | _ => None end
      end
  end.

Fixpoint insert_by_id (x : N * obody) (l : list (N * obody)) : list (N * obody) :=
  match l with
  | [] => [x]
  | y :: r => if N.leb (fst x) (fst y) then x :: y :: r else y :: insert_by_id x r
  end.
Definition sort_by_id (l : list (N * obody)) : list (N * obody) := fold_right insert_by_id [] l.

Definition obody_of (b : body string) : obody :=
  match b with BNull => ONull | BResult t => OText t | BError => OErr end.

Definition model_resps (o : list (out string)) : list (N * obody) :=
  sort_by_id (flat_map (fun x => match x with Resp _ id b => [(id, obody_of b)] | ApplyEdit _ _ => [] end) o).

Definition resps_eqb (a b : list (N * obody)) : bool :=
  list_eqb (fun x y => N.eqb (fst x) (fst y) && obody_eqb (snd x) (snd y)) a b.

Definition final_ok (sv : kvs) (f : list (string * option string)) : bool :=
  forallb (fun kt => option_eqb String.eqb (kv_get (fst kt) sv) (snd kt)) f.

(* positions of the notifications the loop takes while a request worker is alive (the
   situation of finding R10), in the run of the repaired model *)
Fixpoint meeting_positions (s : state kvs note_t string string) (tr : list label) : list nat :=
  match tr with
  | [] => []
  | l :: r =>
      (match l, inbox s, live s with
       | LoopTake, MNote _ :: _, _ :: _ => [taken s]
       | _, _, _ => []
       end)
      ++ match step apply_kv handler_fmt Repaired Repaired s l with
         | Some s' => meeting_positions s' r
         | None => []
         end
  end.

Definition note_meets_worker (s : state kvs note_t string string) (tr : list label) : bool :=
  match meeting_positions s tr with [] => false | _ => true end.

(* a dropped notification has the effect of an ignored one *)
Fixpoint drop_at (p : nat) (drops : list nat) (l : list (msg note_t string)) : list (msg note_t string) :=
  match l with
  | [] => []
  | m :: r =>
      (match m with
       | MNote _ => if existsb (Nat.eqb p) drops then MOther else m
       | _ => m
       end) :: drop_at (S p) drops r
  end.

(* Does the implementation behave as the model in which exactly the notifications observed to
   be dropped are dropped (each of them having met a live worker: on a tree without R10 whether
   such a notification is lost depends on the race between the loop and the worker's exit) and
   the worker rule is [wv]? *)
Definition behaves_as (wv : variant) (c : case) : bool :=
  let drops := map N.to_nat (o_drops c) in
  let s0 := init (val := string) (c_msgs c) (c_docs c) in
  forallb (fun p => existsb (Nat.eqb p) (meeting_positions s0 (c_sched c))) drops
  && match run_skip Repaired wv (init (drop_at 0 drops (c_msgs c)) (c_docs c)) (c_sched c) with
     | None => false
     | Some s =>
         quiescentb s
         && resps_eqb (model_resps (outbox s)) (o_resps c)
         && final_ok (srv s) (o_final c)
     end.

Fixpoint reqs_with_pos (p : nat) (l : list (msg note_t string)) : list (nat * N * string) :=
  match l with
  | [] => []
  | MReq (Rq id (KPlain k)) :: r => (p, id, k) :: reqs_with_pos (S p) r
  | _ :: r => reqs_with_pos (S p) r
  end.

Definition resps_for (id : N) (l : list (N * obody)) : list obody :=
  flat_map (fun x => if N.eqb (fst x) id then [snd x] else []) l.

Definition run_C11 (c : case) : verdict :=
  let msgs := c_msgs c in
  let s0 := init (val := string) msgs (c_docs c) in
  let corr_repaired :=
    match run apply_kv handler_fmt Repaired Repaired s0 (c_sched c) with
    | None => [0]
    | Some s =>
        flag 0 (quiescentb s) ++
        flag 1 (resps_eqb (model_resps (outbox s)) (o_resps c)) ++
        flag 2 (final_ok (srv s) (o_final c)) ++
        flag 3 (list_eqb N.eqb [] (o_drops c))
    end ++ flag 4 (o_realised c) in
  (* the property, from the input and the observations only *)
  let last := fold_left apply_kv (notes_of (served msgs)) (c_docs c) in
  let p1 := final_ok last (o_final c) in
  let p2 := forallb (fun pik => match pik with (p, id, k) =>
                       match resps_for id (o_resps c) with
                       | [b] => obody_eqb b (match handler_fmt (server_at apply_kv msgs (c_docs c) p) k with
                                             | Ok t => OText t | Panic _ => OErr end)
                       | _ => false
                       end end) (reqs_with_pos 0 msgs) in
  let p3 := o_realised c && N.eqb (o_loop c) 1 in
  let p4 := match o_drops c with [] => true | _ => false end in
  let prop := flag 1 p1 ++ flag 2 p2 ++ flag 3 p3 ++ flag 4 p4 in
  let dropped := match o_drops c with [] => false | _ => true end in
  let cls :=
    if p1 && p2 && p3 && p4 then [] else
    if behaves_as Repaired c then (if dropped then [1] else [])
    else if behaves_as AsFound c then (if dropped then [3] else [2])
    else [] in
  let nontriv := note_meets_worker s0 (c_sched c) in
  (* the expected behaviour is the repaired one; a case in a known class corresponds, stage by
     stage, to the model with the as-found rule(s) instead ([behaves_as]) *)
  let corr := match cls with [] => corr_repaired | _ => flag 4 (o_realised c) end in
  V corr prop cls nontriv.
