(* RelPath.v — the parts of the `relative-path` 1.9.3 crate that iwe uses, modelled from the
   crate source (components / relative_traversal / push / pop / join / join_normalized /
   relative / parent), and `liwe::model::Key` on top of it. *)
From IweV Require Import Str.
Local Open Scope string_scope.
Local Open Scope list_scope.

Definition SEP : ascii := "/"%char.
Definition SEPS : string := "/".

Inductive comp := Cur | Par | Norm (s : string).

Definition comp_eqb (a b : comp) : bool :=
  match a, b with
  | Cur, Cur => true
  | Par, Par => true
  | Norm x, Norm y => String.eqb x y
  | _, _ => false
  end.

Definition classify (s : string) : comp :=
  if String.eqb s "." then Cur else if String.eqb s ".." then Par else Norm s.

Definition as_str (c : comp) : string :=
  match c with Cur => "." | Par => ".." | Norm s => s end.

(* `Components::next` repeatedly: pieces between separators, empty ones skipped *)
Definition components (s : string) : list comp :=
  map classify (filter (fun x => negb (sempty x)) (split_on SEP s)).

(* `relative_traversal(buf, components)`; the buffer is kept as the reversed list of the
   components it holds (it is only ever built by `push(name)` / `pop()`), rendered by
   [render]. *)
Fixpoint traverse (buf : list comp) (cs : list comp) : list comp :=
  match cs with
  | [] => buf
  | Cur :: r => traverse buf r
  | Par :: r =>
      match buf with
      | [] => traverse [Par] r
      | Par :: _ => traverse (Par :: buf) r
      | _ :: b => traverse b r
      end
  | Norm n :: r => traverse (Norm n :: buf) r
  end.

Definition render_comps (cs : list comp) : string := join SEPS (map as_str cs).
Definition render (buf : list comp) : string := render_comps (rev buf).

(* `RelativePath::normalize` / `join_normalized` *)
Definition normalize (s : string) : string := render (traverse [] (components s)).
Definition join_normalized (a b : string) : string :=
  render (traverse (traverse [] (components a)) (components b)).

(* `RelativePathBuf::push` (string level) and `join` *)
Definition push (self other : string) : string :=
  let other' := match other with String c r => if Ascii.eqb c SEP then r else other | _ => other end in
  let self' := if orb (sempty self) (ends_with SEPS self) then self else self +++ SEPS in
  self' +++ other'.
Definition rjoin (a b : string) : string := push a b.

(* strip the common prefix of two component lists: the `loop` of `relative` *)
Fixpoint strip_common (a b : list comp) : list comp * list comp :=
  match a, b with
  | x :: a', y :: b' => if comp_eqb x y then strip_common a' b' else (a, b)
  | _, _ => (a, b)
  end.

(* `from.relative(to)` *)
Definition relative (from to : string) : string :=
  let f := rev (traverse [] (components from)) in
  let t := rev (traverse [] (components to)) in
  let '(head, tail) := strip_common f t in
  match head with
  | Par :: _ => ""
  | _ => render_comps (map (fun _ => Par) head ++ tail)
  end.

(* `RelativePath::parent`: `None` for the empty path, else drop trailing `.` components and
   then one component; what is returned is the remaining *source text* (after trimming
   trailing separators), so doubled separators further left survive.  Modelled on the
   reversed string. *)
Fixpoint drop_seps (s : string) : string :=
  match s with
  | String c r => if Ascii.eqb c SEP then drop_seps r else s
  | EmptyString => s
  end.
(* take one piece (up to the next separator) off the front of a reversed source *)
Fixpoint take_piece (s : string) (acc : string) : string * string :=
  match s with
  | EmptyString => (acc, EmptyString)
  | String c r => if Ascii.eqb c SEP then (acc, drop_seps r) else take_piece r (String c acc)
  end.
(* next_back on reversed source: (component text in forward order, remaining reversed source) *)
Definition next_back (rs : string) : string * string := take_piece (drop_seps rs) EmptyString.

Fixpoint parent_loop (fuel : nat) (rs : string) : string :=
  match fuel with
  | O => rs
  | S f =>
      let '(piece, rest) := next_back rs in
      if String.eqb piece "." then parent_loop f rest else rest
  end.
Definition parent (s : string) : option string :=
  if sempty s then None else Some (srev (parent_loop (S (String.length s)) (srev s))).

(* ---------- liwe::model::Key ------------------------------------------------------- *)

Definition MD : string := ".md".

(* `strip_md` (model.rs:138-142, fn at 140): `name.strip_suffix(".md").unwrap_or(name)` - a file name or a
   link url names a note with or without the extension; ONE extension is taken off (`x.md.md` is
   the file of the note `x.md`).  The pinned tree had `trim_end_matches(".md")` here, which made
   `x.md.md` and `x.md` one note (findings F-C14-5 / F14-double-md, repaired). *)
Definition strip_md (name : string) : string := strip_suffix_once MD name.

(* `Key::name` (model.rs:51-56): the text is the key - state keys (Graph::import, Database::new)
   and the urls of the links the graph holds (GraphInline::ref_key, normalize) are keys already *)
Definition key_name (name : string) : string := name.

(* `Key::from_file_name` (model.rs:58-60) *)
Definition key_from_file_name (name : string) : string := strip_md name.

Definition key_parent (k : string) : string :=
  match parent k with Some p => p | None => "" end.

(* as found in the pinned tree: `RelativePath::new(relative_to).join(key)` (the url stripped as today) *)
Definition from_rel_link_url_as_found (url rel : string) : string :=
  rjoin rel (strip_md url).

(* after `fix:` R4: `join_normalized` (model.rs:62-70) *)
Definition from_rel_link_url (url rel : string) : string :=
  join_normalized rel (strip_md url).

(* `ref_url` (model.rs:144-152, fn at 146): the url a note link is written with - the key-like url plus the
   configured extension; a url that itself ends in `.md` gets an extension also where none is
   configured, so that `strip_md` of what is written is the url again *)
Definition ref_url (url ext : string) : string :=
  if sempty ext && ends_with MD url then url +++ MD else url +++ ext.

Definition to_rel_link_url (key rel : string) : string := relative rel key.

Definition to_path (key : string) : string := key +++ MD.

Definition is_ref_url (url : string) : bool :=
  let l := lower_ascii_str url in
  negb (orb (starts_with "http://" l) (orb (starts_with "https://" l) (starts_with "mailto:" l))).
