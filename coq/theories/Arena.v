(* Arena.v — liwe::graph::arena / graph_node / builder / sections_builder, transliterated:
   the arena is the vector of nodes with prev/next/child links, the builder is the cursor
   (id, insert), and the sections builder walks reader blocks issuing builder calls.
   Every Rust panic reachable in this code is a [Panic] result. *)
From IweV Require Import Str Ast RelPath.
Local Open Scope string_scope.
Local Open Scope list_scope.

Inductive res (A : Type) := Ok (a : A) | Panic (site : string).
Arguments Ok {A} a.
Arguments Panic {A} site.

Definition bind {A B} (r : res A) (f : A -> res B) : res B :=
  match r with Ok a => f a | Panic s => Panic s end.
Notation "'do' x <- r ; k" := (bind r (fun x => k)) (at level 200, x ident, r at level 100, k at level 200).

Inductive gkind :=
| KDocument (key : string)
| KSection (l : list inline)
| KQuote
| KBList
| KOList
| KLeaf (l : list inline)
| KRaw (lang : option string) (content : string)
| KRule
| KRef (key text : string) (rt : link_type)
| KTable (header : cells) (al : list align) (rows : list cells)
| KEmpty.

Record gnode := GN { g_kind : gkind; g_prev : option nat; g_next : option nat; g_child : option nat }.

Definition arena := list gnode.

Definition empty_node : gnode := GN KEmpty None None None.

Definition get (a : arena) (id : nat) : option gnode := nth_error a id.

Fixpoint set_nth {A} (l : list A) (n : nat) (x : A) : list A :=
  match l, n with
  | [], _ => []
  | _ :: r, O => x :: r
  | y :: r, S k => y :: set_nth r k x
  end.

Definition is_emptyk (k : gkind) : bool := match k with KEmpty => true | _ => false end.

Definition insertable (k : gkind) : bool :=
  match k with
  | KDocument _ | KSection _ | KQuote | KBList | KOList => true
  | _ => false
  end.

(* GraphNode::set_child_id through Arena::node_mut *)
Definition set_child_id (a : arena) (id c : nat) : res arena :=
  match get a id with
  | None => Panic "arena index out of bounds"
  | Some n =>
      match g_kind n with
      | KEmpty => Panic "Node is empty"
      | KDocument _ | KSection _ | KQuote | KBList | KOList =>
          Ok (set_nth a id (GN (g_kind n) (g_prev n) (g_next n) (Some c)))
      | _ => Panic "cant set child"
      end
  end.

Definition set_next_id (a : arena) (id c : nat) : res arena :=
  match get a id with
  | None => Panic "arena index out of bounds"
  | Some n =>
      match g_kind n with
      | KEmpty => Panic "Node is empty"
      | KDocument _ => Panic "cant set next for document"
      | _ => Ok (set_nth a id (GN (g_kind n) (g_prev n) (Some c) (g_child n)))
      end
  end.

(* ---------- GraphBuilder ----------------------------------------------------------- *)

Record bst := B { b_arena : arena; b_cur : nat; b_insert : bool; b_map : list (nat * lrange) }.

Definition set_insert (st : bst) (i : bool) : bst := B (b_arena st) (b_cur st) i (b_map st).
Definition set_id (st : bst) (id : nat) : bst := B (b_arena st) id (b_insert st) (b_map st).

(* add_node_and with an empty closure: link from the cursor, move the cursor, push the node *)
Definition add_node (st : bst) (k : gkind) : res bst :=
  let new_id := length (b_arena st) in
  do a' <- (if b_insert st then set_child_id (b_arena st) (b_cur st) new_id
            else set_next_id (b_arena st) (b_cur st) new_id);
  Ok (B (a' ++ [GN k (Some (b_cur st)) None None]) new_id false (b_map st)).

Definition set_lines_range (st : bst) (lr : lrange) : bst :=
  B (b_arena st) (b_cur st) (b_insert st) (b_map st ++ [(b_cur st, lr)]).

(* Graph::build_key: a fresh root *)
Definition build_key (a : arena) (key : string) : bst :=
  B (a ++ [GN (KDocument key) None None None]) (length a) true [].

(* ---------- SectionsBuilder --------------------------------------------------------- *)

Definition is_header (b : dblock) : bool := match b with DHeader _ _ _ => true | _ => false end.
Definition header_level (b : dblock) : option nat := match b with DHeader _ n _ => Some n | _ => None end.

Definition is_split (L : nat) (b : dblock) : bool :=
  match b with DHeader _ n _ => Nat.leb n L | _ => false end.

Fixpoint span_pre (bs : list dblock) : list dblock * list dblock :=
  match bs with
  | [] => ([], [])
  | b :: r => if is_header b then ([], bs) else let '(x, y) := span_pre r in (b :: x, y)
  end.

Fixpoint span_section (L : nat) (bs : list dblock) : list dblock * list dblock :=
  match bs with
  | [] => ([], [])
  | b :: r => if is_split L b then ([], bs) else let '(x, y) := span_section L r in (b :: x, y)
  end.

(* DocumentBlock::is_ref *)
Definition para_is_ref (l : list inline) : bool :=
  match l with
  | [Link url _ _ _] => is_ref_url url
  | _ => false
  end.

(* to_graph_inlines: constructor for constructor (see Ast.v); a link to a note is kept by the KEY of
   the note it names from the linking note's directory [dir] = key.parent(), exactly like a block
   reference (document.rs:454-463 `Key::from_rel_link_url(&link.target.url, relative_to)`, which
   also takes one `.md` off; the projector writes it relative to the note again and the writer adds
   an extension back).  The pinned tree kept the url as written (`strip_md` only): findings
   F-INLINEDIR / F-C05-inline-dir / F-C08-rawurl / F-C09-cross-dir-inline / F-C14-inline-dir, repaired. *)
Fixpoint to_ginline (dir : string) (i : inline) : inline :=
  match i with
  | Emph l => Emph (map (to_ginline dir) l)
  | Strong l => Strong (map (to_ginline dir) l)
  | Strike l => Strike (map (to_ginline dir) l)
  | Link url title lt l =>
      Link (if is_ref_url url then from_rel_link_url url dir else url) title lt (map (to_ginline dir) l)
  | Image url title l => Image url title (map (to_ginline dir) l)
  | _ => i
  end.
Definition to_ginlines (dir : string) (l : list inline) : list inline := map (to_ginline dir) l.

(* sections_builder.rs:258-266 starts_with_header (never asked about an empty range; Div, which the
   reader never produces, is not in the model) *)
Definition starts_with_header (bs : list dblock) : bool :=
  match bs with
  | (DPara _ _ | DHeader _ _ _) :: _ => true
  | [DBList _] | [DOList _] => true
  | _ => false
  end.

Section Sections.
  Variable dir : string.  (* key.parent() *)

  Fixpoint process_blocks (fuel : nat) (bs : list dblock) (st : bst) {struct fuel} : res bst :=
    match fuel with
    | O => Panic "out of fuel"
    | S f =>
        match bs with
        | [] => Ok st
        | _ =>
            let st := set_insert st true in
            let '(pre, rest) := span_pre bs in
            do st <- fold_left (fun acc b => do s <- acc; block f b s) pre (Ok st);
            match rest with
            | [] => Ok st
            | h :: _ =>
                match header_level h with
                | None => Ok st
                | Some L => process_sections f L rest st
                end
            end
        end
    end

  with process_sections (fuel : nat) (L : nat) (bs : list dblock) (st : bst) {struct fuel} : res bst :=
    match fuel with
    | O => Panic "out of fuel"
    | S f =>
        match bs with
        | [] => Ok st
        | h :: r =>
            let '(body, rest) := span_section L r in
            do st <- process_section f (h :: body) st;
            process_sections f L rest st
        end
    end

  (* sections_builder.rs:79-100: the first block is the header of the section (a heading, the text
     of a list item, or the list an item consists of, which section_block merges into the enclosing
     list); an item that starts with anything else becomes a section without text over ALL its
     blocks *)
  with process_section (fuel : nat) (bs : list dblock) (st : bst) {struct fuel} : res bst :=
    match fuel with
    | O => Panic "out of fuel"
    | S f =>
        match bs with
        | [] => Ok st
        | h :: body =>
            if starts_with_header bs then
              do st <- section_block f h st;
              let id := b_cur st in
              do st <- process_blocks f body st;
              Ok (set_id st id)
            else
              do st <- add_node st (KSection []);
              let id := b_cur st in
              do st <- process_blocks f bs st;
              Ok (set_id st id)
        end
    end

  with section_block (fuel : nat) (b : dblock) (st : bst) {struct fuel} : res bst :=
    match fuel with
    | O => Panic "out of fuel"
    | S f =>
        match b with
        | DPara lr l => do st <- add_node st (KSection (to_ginlines dir l)); Ok (set_lines_range st lr)
        | DHeader lr _ l => do st <- add_node st (KSection (to_ginlines dir l)); Ok (set_lines_range st lr)
        | DBList items | DOList items =>
            fold_left (fun acc it => do s <- acc; process_section f it s) items (Ok st)
        | _ => Panic "section block panic"   (* not reachable from process_section any more *)
        end
    end

  with block (fuel : nat) (b : dblock) (st : bst) {struct fuel} : res bst :=
    match fuel with
    | O => Panic "out of fuel"
    | S f =>
        match b with
        | DCode lr lang text => do st <- add_node st (KRaw lang text); Ok (set_lines_range st lr)
        | DPara lr l =>
            if para_is_ref l then
              match l with
              | [Link url _ lt ils] =>
                  do st <- add_node st (KRef (from_rel_link_url url dir) (inlines_plain_text ils) lt);
                  Ok (set_lines_range st lr)
              | _ => Panic "unreachable"
              end
            else do st <- add_node st (KLeaf (to_ginlines dir l)); Ok (set_lines_range st lr)
        | DBList items =>
            do st <- add_node st KBList;
            let st := set_insert st true in
            let id := b_cur st in
            do st <- fold_left (fun acc it => do s <- acc; process_section f it s) items (Ok st);
            Ok (set_insert (set_id st id) false)
        | DOList items =>
            do st <- add_node st KOList;
            let st := set_insert st true in
            let id := b_cur st in
            do st <- fold_left (fun acc it => do s <- acc; process_section f it s) items (Ok st);
            Ok (set_insert (set_id st id) false)
        | DQuote lr bs =>
            do st <- add_node st KQuote;
            let st := set_lines_range st lr in
            (* sections_builder.rs:192-205: a nested SectionsBuilder on a fresh builder at the quote;
               its nodes_map is appended to the outer one after the quote's own entry (pre-order) *)
            do inner <- process_blocks f bs (B (b_arena st) (b_cur st) true []);
            Ok (B (b_arena inner) (b_cur st) (b_insert st) (b_map st ++ b_map inner))
        | DRule lr => do st <- add_node st KRule; Ok (set_lines_range st lr)
        | DHeader _ _ _ => Panic "Unexpected block type, headers should be process outside of this block"
        | DTable lr h al rows =>
            do st <- add_node st (KTable (map (to_ginlines dir) h) al (map (map (to_ginlines dir)) rows));
            Ok (set_lines_range st lr)
        end
    end.
End Sections.

(* enough fuel for any input: every recursive call consumes one unit and strictly smaller
   input; the size below over-approximates the call depth *)
Fixpoint dblock_size (b : dblock) : nat :=
  let fix go (l : list dblock) : nat := match l with [] => 0 | x :: r => dblock_size x + go r end in
  let fix goi (l : list (list dblock)) : nat := match l with [] => 0 | x :: r => S (go x) + goi r end in
  match b with
  | DQuote _ bs => S (go bs)
  | DOList items | DBList items => S (goi items)
  | _ => 1
  end.
Definition dblocks_size (l : list dblock) : nat := fold_right (fun b n => dblock_size b + n) 0 l.
Definition fuel_for (bs : list dblock) : nat := 4 * dblocks_size bs + 8.

(* SectionsBuilder::new on a fresh root for [key] in arena [a] *)
Definition build_document (a : arena) (key : string) (bs : list dblock) : res bst :=
  process_blocks (key_parent key) (fuel_for bs) bs (build_key a key).

(* ---------- reading the arena back: Tree::from_pointer (collect) --------------------- *)

Definition kind_node (k : gkind) : option node :=
  match k with
  | KDocument key => Some (NDocument key)
  | KSection l => Some (NSection l)
  | KQuote => Some NQuote
  | KBList => Some NBList
  | KOList => Some NOList
  | KLeaf l => Some (NLeaf l)
  | KRaw la c => Some (NRaw la c)
  | KRule => Some NRule
  | KRef k t rt => Some (NRef k t rt)
  | KTable h al rows => Some (NTable h al rows)
  | KEmpty => None
  end.

(* the sibling chain starting at [id]; fuel bounds the walk (a cyclic arena would loop in
   Rust; the result then is a Panic) *)
Fixpoint sibling_ids (fuel : nat) (a : arena) (id : nat) : res (list nat) :=
  match fuel with
  | O => Panic "out of fuel"
  | S f =>
      match get a id with
      | None => Panic "arena index out of bounds"
      | Some n =>
          match g_kind n with
          | KEmpty => Panic "next_id of Empty"     (* GraphNode::next_id panics on Empty *)
          | _ =>
              match g_next n with
              | None => Ok [id]
              | Some nx => do r <- sibling_ids f a nx; Ok (id :: r)
              end
          end
      end
  end.

(* Tree::from_pointer: None when the node is Empty *)
Fixpoint collect_fuel (fuel : nat) (node_f : nat -> gkind -> option node) (a : arena) (id : nat) : res (option tree) :=
  match fuel with
  | O => Panic "out of fuel"
  | S f =>
      match get a id with
      | None => Panic "arena index out of bounds"
      | Some n =>
          match node_f id (g_kind n) with
          | None => Ok None
          | Some nd =>
              do ids <- (match g_child n with None => Ok [] | Some c => sibling_ids f a c end);
              do kids <- fold_right (fun i acc => do r <- acc; do t <- collect_fuel f node_f a i;
                                        Ok (match t with Some t => t :: r | None => r end)) (Ok []) ids;
              Ok (Some (T (Some id) nd kids))
          end
      end
  end.

Definition collect_raw (a : arena) (id : nat) : res (option tree) :=
  collect_fuel (S (length a)) (fun _ k => kind_node k) a id.
