(* Reparse.v — layer R of the design: the SPECIFICATION of what pulldown-cmark + iwe's reader
   (markdown/reader.rs) return on text that iwe itself wrote (Project.block_md), as a total function
   on the writer's blocks.  No text is parsed here: [rr] is structural on the written blocks and
   computes the reader's line ranges from the layout of the written text (how many lines each block
   renders to, blank lines between blocks, tight or sparse lists).

   pulldown-cmark is not modelled and cannot be proved correct here.  [rr] is the one assumption
   about it; it is claimed only on the decidable class [reparse_safe] and is compared on every run
   (Check_RR.v, correspondence stage 8) with what the real reader returns on the real writer's
   output.  No proofs in this file. *)
From IweV Require Import Str Text Ast RelPath Arena Project.
Local Open Scope string_scope.
Local Open Scope list_scope.

(* ---------- inlines ---------------------------------------------------------------------- *)

(* pulldown reports a run of plain text as ONE text event: adjacent [Str]s (left behind by soft
   breaks of the source, which the reader turns into [Str " "]) come back fused, and an empty [Str]
   leaves no event at all *)
Fixpoint merge_strs (l : list inline) : list inline :=
  match l with
  | [] => []
  | Str a :: r =>
      match merge_strs r with
      | Str b :: r' => Str (a +++ b) :: r'
      | r' => if sempty a then r' else Str a :: r'
      end
  | x :: r => x :: merge_strs r
  end.

(* the writer appends the configured extension to the destination of a regular note link
   (`ref_url`: and `.md` where the url ends in `.md` and no extension is configured) *)
Definition rr_url (o : opts) (url : string) : string :=
  if is_ref_url url then ref_url url (refs_extension o) else url.

(* the writer's test for `<url>` (inline_md, Regular) *)
Definition written_autolink (o : opts) (url : string) (l : list inline) : bool :=
  negb (is_ref_url url) && eq_ignore_ascii_case (inlines_md o l) url.

Fixpoint rr_inline (o : opts) (i : inline) : inline :=
  match i with
  | Emph l => Emph (merge_strs (map (rr_inline o) l))
  | Strong l => Strong (merge_strs (map (rr_inline o) l))
  | Strike l => Strike (merge_strs (map (rr_inline o) l))
  (* link titles are not written *)
  | Link url _ lt l =>
      match lt with
      | Regular =>
          if written_autolink o url l then Link url "" Regular [Str url]     (* `<url>`: the text is the destination *)
          else Link (rr_url o url) "" Regular (merge_strs (map (rr_inline o) l))
      | WikiLink => Link (wiki_url url) "" WikiLink [Str (wiki_url url)]   (* `[[url]]`: the text is the destination *)
      | WikiLinkPiped => Link (wiki_url url) "" WikiLinkPiped (merge_strs (map (rr_inline o) l))
      end
  | Image url _ l => Image url "" (merge_strs (map (rr_inline o) l))
  | x => x
  end.

Definition rr_inlines (o : opts) (l : list inline) : list inline := merge_strs (map (rr_inline o) l).

(* ---------- layout: how many lines a block is written to ------------------------------------ *)

Fixpoint count_lf (s : string) : nat :=
  match s with
  | EmptyString => 0
  | String a r => (if Ascii.eqb a LF then 1 else 0) + count_lf r
  end.

Definition sep_of (sparse : bool) : nat := if sparse then 1 else 0.

(* what is written of a list item: a first line without text is not written at all, the item starts with
   its next block (Project.block_md, the item writer) *)
Definition item_body (it : list gblock) : list gblock :=
  match it with
  | (GPlain [] | GPara []) :: rest => rest
  | _ => it
  end.

(* lines of [block_md]'s text of a block (every line ends with a line feed) *)
Fixpoint height (b : gblock) {struct b} : nat :=
  match b with
  | GPlain _ | GPara _ | GHeader _ _ | GRule => 1
  | GCode _ text => 3 + count_lf (trim_lf text)
  | GQuote bs => list_sum (map height bs) + pred (length bs)
  | GOList its | GBList its =>
      let sp := sep_of (is_sparse its) in
      list_sum (map (fun it => list_sum (map height (item_body it)) + sp * pred (length (item_body it))) its)
      + sp * pred (length its)
  | GTable _ _ _ => 1
  end.

Definition heights (sep : nat) (l : list gblock) : nat := list_sum (map height l) + sep * pred (length l).

(* the reader keeps the info string of a fence when it is not empty *)
Definition rr_lang (lang : option string) : option string :=
  match lang with
  | Some la => if all_ws la then None else Some la
  | None => None
  end.

(* ---------- blocks: [k] is the line the block starts on ---------------------------------------- *)

Fixpoint rr_block (o : opts) (k : nat) (b : gblock) {struct b} : dblock :=
  let fix go (sep k : nat) (l : list gblock) {struct l} : list dblock :=
    match l with
    | [] => []
    | x :: r => rr_block o k x :: go sep (k + height x + sep) r
    end in
  let fix goi (sp k : nat) (its : list (list gblock)) {struct its} : list (list dblock) :=
    match its with
    | [] => []
    | it :: r => go sp k (item_body it) :: goi sp (k + heights sp (item_body it) + sp) r
    end in
  match b with
  | GPlain l | GPara l => DPara (k, k + 1) (rr_inlines o l)
  | GHeader n l => DHeader (k, k + 1) n (rr_inlines o l)
  (* the range of a fenced block ends on the line of the closing fence *)
  | GCode lang text => DCode (k, k + height b - 1) (rr_lang lang) (trim_lf text +++ LFS)
  | GRule => DRule (k, k + 1)
  | GQuote bs => DQuote (k, k + height b) (go 1 k bs)
  | GOList its => DOList (goi (sep_of (is_sparse its)) k its)
  | GBList its => DBList (goi (sep_of (is_sparse its)) k its)
  | GTable h al rows => DTable (k, k + 1) h al rows        (* tables are an oracle: never claimed *)
  end.

Fixpoint rr_at (o : opts) (k : nat) (g : list gblock) : list dblock :=
  match g with
  | [] => []
  | x :: r => rr_block o k x :: rr_at o (k + height x + 1) r
  end.

(* the reader's blocks of the text written for [g] (no front matter) *)
Definition rr (o : opts) (g : list gblock) : list dblock := rr_at o 0 g.

(* front matter: `---⏎` m `---⏎⏎` body; the reader returns the metadata text as it is *)
Definition rr_meta (meta : option string) : option string := meta.
Definition meta_lines (meta : option string) : nat :=
  match meta with Some m => 3 + count_lf m | None => 0 end.

(* Graph::to_markdown, read back: metadata and blocks *)
Definition rr_doc (o : opts) (meta : option string) (g : list gblock) : option string * list dblock :=
  (rr_meta meta, rr_at o (meta_lines meta) g).

(* ---------- the class on which [rr] is claimed -------------------------------------------------- *)

(* bytes that are never Markdown syntax: ASCII letters, digits, space, and non-ASCII bytes other
   than the C2 page (NBSP and friends are white space to `trim`); the same as Check_Norm.safe_byte.
   `~` is plain text too (strikethrough is not enabled in the reader) unless three of them start a
   line (a fence) *)
Definition rs_byte (a : ascii) : bool :=
  let n := nat_of_ascii a in
  (Nat.leb 48 n && Nat.leb n 57) || (Nat.leb 65 n && Nat.leb n 90) || (Nat.leb 97 n && Nat.leb n 122)
  || Nat.eqb n 32 || (Nat.leb 128 n && negb (Nat.eqb n 194)).
Definition rs_text_byte (a : ascii) : bool := rs_byte a || Nat.eqb (nat_of_ascii a) 126.
Fixpoint rs_all (p : ascii -> bool) (s : string) : bool :=
  match s with EmptyString => true | String a r => p a && rs_all p r end.
Definition rs_str (s : string) : bool := rs_all rs_byte s.
Definition rs_text (s : string) : bool := rs_all rs_text_byte s.
(* urls: additionally `/` `.` `-` `_` `:` `@`, no space *)
Definition rs_url_byte (a : ascii) : bool :=
  let n := nat_of_ascii a in
  (rs_byte a && negb (Nat.eqb n 32)) || Nat.eqb n 47 || Nat.eqb n 46 || Nat.eqb n 45 || Nat.eqb n 95 || Nat.eqb n 58
  || Nat.eqb n 64.
Definition rs_url (s : string) : bool := rs_all rs_url_byte s && negb (sempty s).

Definition space : ascii := " "%char.
Definition starts_space (s : string) : bool := match s with String a _ => Ascii.eqb a space | EmptyString => false end.
Definition ends_space (s : string) : bool := starts_space (srev s).
Definition is_alnum (a : ascii) : bool :=
  let n := nat_of_ascii a in
  (Nat.leb 48 n && Nat.leb n 57) || (Nat.leb 65 n && Nat.leb n 90) || (Nat.leb 97 n && Nat.leb n 122).
Definition starts_alnum (s : string) : bool := match s with String a _ => is_alnum a | EmptyString => false end.
Definition ends_alnum (s : string) : bool := starts_alnum (srev s).

Definition is_emphish (i : inline) : bool := match i with Emph _ | Strong _ => true | _ => false end.
Definition is_str (i : inline) : bool := match i with Str _ => true | _ => false end.

(* the conditions below are evaluated on a sequence as the reader sees it: [merge_strs] first *)

(* no two neighbours that are both something else than text; an emphasis run stands alone: before
   it a space or the edge, after it a space or the edge *)
Definition str_ends_space (i : inline) : bool := match i with Str s => ends_space s | _ => false end.
Definition str_starts_space (i : inline) : bool := match i with Str s => starts_space s | _ => false end.
Fixpoint calm_neighbours (l : list inline) : bool :=
  match l with
  | a :: ((b :: _) as r) =>
      (is_str a || is_str b) &&
      (if is_emphish b then str_ends_space a else true) &&
      (if is_emphish a then str_starts_space b else true) && calm_neighbours r
  | _ => true
  end.

(* the first / last thing of a line or of a link text: not a space *)
Definition line_first (l : list inline) : bool :=
  match l with
  | [] => false
  | Str s :: _ => negb (starts_space s)
  | _ => true
  end.
Definition line_last (l : list inline) : bool :=
  match rev l with
  | [] => false
  | Str s :: _ => negb (ends_space s)
  | _ => true
  end.
(* the first / last thing inside an emphasis run: an ASCII letter or digit, a code span, a link;
   [strict]: not a nested emphasis run *)
Definition edge_first (strict : bool) (l : list inline) : bool :=
  match l with
  | [] => false
  | Str s :: _ => starts_alnum s
  | (Emph _ | Strong _) :: _ => negb strict
  | _ => true
  end.
Definition edge_last (strict : bool) (l : list inline) : bool :=
  match rev l with
  | [] => false
  | Str s :: _ => ends_alnum s
  | (Emph _ | Strong _) :: _ => negb strict
  | _ => true
  end.
Definition strict_content (i : inline) : bool :=
  match i with
  | Emph c | Strong c => let m := merge_strs c in edge_first true m && edge_last true m
  | _ => true
  end.
(* content [m] (merged) of an emphasis run: a nested run at an edge joins its delimiters with the
   outer ones; `***x***` reads as emphasis over strong, `****x****` as strong over strong *)
Definition emph_content_ok (m : list inline) : bool :=
  match m with
  | [Strong c] => strict_content (Strong c)
  | [Emph _] => false
  | _ =>
      edge_first false m && edge_last false m &&
      match m with x :: _ => strict_content x | [] => true end &&
      match rev m with x :: _ => strict_content x | [] => true end
  end.

(* [inlink]: inside a link text (links do not nest) *)
Fixpoint safe_inline (o : opts) (inlink : bool) (i : inline) {struct i} : bool :=
  let fix go (inl : bool) (l : list inline) {struct l} : bool :=
    match l with [] => true | x :: r => safe_inline o inl x && go inl r end in
  match i with
  | Str s => rs_text s
  | Code s => rs_str s && negb (sempty s) && negb (starts_space s) && negb (ends_space s)
  | Math _ => false
  | Strike _ => false                         (* strikethrough is not enabled in the reader *)
  | Emph l | Strong l =>
      go inlink l && let m := merge_strs l in emph_content_ok m && calm_neighbours m
  | Link url _ lt l =>
      negb inlink && rs_url url &&
      match lt with
      | WikiLink => true                      (* the text of a bare wiki link is not written *)
      | Regular =>
          if written_autolink o url l then true
          else go true l && let m := merge_strs l in line_first m && line_last m && calm_neighbours m
      | WikiLinkPiped =>
          go true l && let m := merge_strs l in line_first m && line_last m && calm_neighbours m
      end
  | Image url _ l =>
      rs_url url && match l with [Str s] => rs_str s && negb (sempty s) | _ => false end
  end.

Definition safe_line (o : opts) (l : list inline) : bool :=
  forallb (safe_inline o false) l &&
  let m := merge_strs l in
  line_first m && line_last m && calm_neighbours m &&
  match m with Str s :: _ => negb (starts_with "~~~" s) | _ => true end.

Definition safe_lang (lang : option string) : bool :=
  match lang with
  | None => true
  | Some la => rs_str la && negb (sempty la) && negb (starts_space la) && negb (ends_space la)
  end.

(* code bodies: inert bytes and line feeds only, no line ends with a space (a quote trims it),
   and the body is what the reader returns for the written fence: its lines, each with its feed *)
Fixpoint no_space_lf (s : string) : bool :=
  match s with
  | String a ((String b _) as r) => negb (Ascii.eqb a space && Ascii.eqb b LF) && no_space_lf r
  | _ => true
  end.
Definition safe_code (text : string) : bool :=
  rs_all (fun a => rs_byte a || Ascii.eqb a LF) text && no_space_lf text &&
  String.eqb text (trim_lf text +++ LFS).

Definition is_blist (b : gblock) : bool := match b with GBList _ => true | _ => false end.
Definition is_olist (b : gblock) : bool := match b with GOList _ => true | _ => false end.

(* two lists of the same kind written one after the other are read as one list *)
Fixpoint no_adjacent_lists (l : list gblock) : bool :=
  match l with
  | a :: ((b :: _) as r) =>
      negb (is_blist a && is_blist b) && negb (is_olist a && is_olist b) && no_adjacent_lists r
  | _ => true
  end.

(* (the blocks of an item of a list written tight stand on consecutive lines; since the repair of F-TIGHTTAIL the
   writer - Project.is_sparse, GraphBlock::is_sparce_list - writes a list tight only when no item holds a rule
   under its text or two quotes in a row, so tight items need no clause of their own here any more) *)

(* an item without text: what may stand right after the marker (a paragraph or heading there would be
   read as the item's text, a list alone as items of the enclosing list) *)
Definition headless_start (x : gblock) (rest : list gblock) : bool :=
  match x with
  | GCode _ _ | GQuote _ | GRule => true
  | GBList _ | GOList _ => match rest with [] => false | _ => true end
  | _ => false
  end.

Fixpoint safe_block (o : opts) (b : gblock) {struct b} : bool :=
  let fix go (l : list gblock) {struct l} : bool :=
    match l with [] => true | x :: r => safe_block o x && go r end in
  let fix goi (its : list (list gblock)) {struct its} : bool :=
    match its with
    | [] => true
    | it :: r =>
        match it with
        | (GPlain [] | GPara []) :: x :: rest =>
            (* the item starts with its second block (written right after the marker): a code block, a
               quote, a rule, or a list that more blocks follow *)
            headless_start x rest && no_adjacent_lists (x :: rest) && go (x :: rest)
        | (GPlain (_ :: _) | GPara (_ :: _)) :: _ => no_adjacent_lists it && go it
        | _ => false
        end && goi r
    end in
  match b with
  | GPlain l | GPara l => safe_line o l
  | GHeader n l => Nat.leb 1 n && Nat.leb n 6 && safe_line o l
  | GCode lang text => safe_lang lang && safe_code text
  | GQuote bs => match bs with [] => false | _ => go bs && no_adjacent_lists bs end
  | GOList its | GBList its => match its with [] => false | _ => goi its end
  | GRule => true
  | GTable _ _ _ => false
  end.

Definition reparse_safe (o : opts) (g : list gblock) : bool := forallb (safe_block o) g && no_adjacent_lists g.

(* front matter the reader returns verbatim: lines of inert text, `:`, `,`, brackets, each starting
   with a letter (so no line is a `---` / `...` fence and none is blank) *)
Definition meta_byte (a : ascii) : bool :=
  let n := nat_of_ascii a in
  rs_byte a || Nat.eqb n 58 || Nat.eqb n 44 || Nat.eqb n 91 || Nat.eqb n 93 || Nat.eqb n 45 || Nat.eqb n 95.
Definition is_letter (a : ascii) : bool :=
  let n := nat_of_ascii a in (Nat.leb 65 n && Nat.leb n 90) || (Nat.leb 97 n && Nat.leb n 122).
Definition meta_line_ok (s : string) : bool :=
  match s with String a _ => is_letter a && rs_all meta_byte s | EmptyString => false end.
Definition meta_safe (meta : option string) : bool :=
  match meta with
  | None => true
  | Some m => ends_with LFS m && forallb meta_line_ok (lines m)
  end.
