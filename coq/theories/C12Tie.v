(* C12Tie.v — what the tie stages of Check_C12 (model's handlers vs the real server, request by
   request) mean in terms of the ServerFacts theorems:

     * the states the check walks through (Server::new on the dumped notes, then every dumped
       notification) are states of the server invariant SInv, so C12_panic_sound,
       C12_key_methods_exact, resolve_panic_exact speak about exactly the states at which `handle` and
       `may_panic` are evaluated;
     * on the model side the start state always exists and a notification panics exactly when it is a
       didChange without a content change: stage 8 therefore compares the observed loop panics with
       "it was NChangeNone";
     * stage 6 (`handle` panics exactly when the real handler panicked) implies stage 4 (soundness of
       `may_panic`) and stage 5 (exactness on the exact classes): when 6 holds, a failure of 4 or 5
       would contradict the theorems.  (4 and 5 are still evaluated on their own: they are what is
       left when 6 fails.) *)
From Coq Require Import ZArith List Bool.
From IweV Require Import Str Text Ast RelPath Arena Project Library Index Paths TreeOps Actions ActionsTotal
  Reachable Server ServerFacts Harness Check_C12.
Import ListNotations.
Local Open Scope string_scope.
Local Open Scope list_scope.

(* ---------- the start state -------------------------------------------------------------------------- *)

Lemma existsb_eqb_In x l : existsb (String.eqb x) l = false -> ~ In x l.
Proof.
  intros H Hin. assert (E : existsb (String.eqb x) l = true).
  { apply existsb_exists. exists x. split; [exact Hin | apply String.eqb_refl]. }
  congruence.
Qed.

Lemma nodup_strb_spec l : nodup_strb l = true -> NoDup l.
Proof.
  induction l as [|x r IH]; cbn [nodup_strb]; intros H; [constructor|].
  apply andb_true_iff in H as [H1 H2]. apply negb_true_iff in H1.
  constructor; [now apply existsb_eqb_In | now apply IH].
Qed.

Lemma distinct_namesb_spec c : distinct_namesb c = true -> distinct_keys (start_notes c).
Proof. unfold distinct_namesb, distinct_keys. intros H. apply nodup_strb_spec in H. exact H. Qed.

(* Server::new never panics in the model, and gives a state of the invariant *)
Theorem tie_start_inv c :
  distinct_namesb c = true -> exists sv0, start_state c = Ok sv0 /\ SInv sv0.
Proof.
  intros H. apply distinct_namesb_spec in H.
  destruct (server_new_total (start_notes c)
              (map (fun n => (key_from_file_name (sn_name n), sn_doc n)) (c_notes c)) H) as (sv & E & HS & _).
  exists sv. split; [exact E | exact HS].
Qed.
Print Assumptions tie_start_inv.

(* ---------- notifications ---------------------------------------------------------------------------- *)

(* the model's side of stage 8: at a state of the invariant a notification panics exactly when it is a
   didChange without a content change *)
Theorem tie_note_model sv n :
  SInv sv -> is_ok (did_change sv n) = match n with NChangeNone => false | _ => true end.
Proof.
  intros HS. destruct n as [key meta bs d| |].
  - destruct (did_change_total sv (NChange key meta bs d) HS ltac:(discriminate)) as (sv' & -> & _). reflexivity.
  - reflexivity.
  - reflexivity.
Qed.
Print Assumptions tie_note_model.

(* the next state of the walk is Server.apply_note *)
Lemma walk_next_is_apply_note sv n :
  match did_change sv n with Ok s => s | Panic _ => sv end = apply_note sv n.
Proof. reflexivity. Qed.

(* ---------- one request ------------------------------------------------------------------------------ *)

Lemma eqb_negb_ok (h p : bool) : Bool.eqb (negb h) p = true -> p = negb h.
Proof. destruct h, p; cbn; congruence. Qed.

(* stage 6 implies stages 4 and 5 for every request evaluated at a state of the invariant *)
Theorem tie_iff_implies cf sv o :
  SInv sv -> t_iff (tie_req cf sv o) = true ->
  t_sound (tie_req cf sv o) = true /\ t_exact (tie_req cf sv o) = true.
Proof.
  intros HS. unfold tie_req. destruct (ro_req o) as [r| |]; cbn [t_iff t_sound t_exact tie_ok]; auto.
  intros H. apply eqb_negb_ok in H. rewrite H. clear H. split.
  - (* soundness: C12_handler_panic_domain *)
    destruct (handle cf sv r) as [v|site] eqn:E; cbn [is_ok negb implb]; [reflexivity|].
    now rewrite (C12_handler_panic_domain cf sv r site HS E).
  - (* exactness on the exact classes *)
    destruct (exact_class cf r) eqn:X; [|reflexivity].
    destruct (may_panic cf sv r) eqn:M; [|reflexivity]. cbn [implb].
    destruct r as [key| |key|key p|qe score|key| |key line er only|k data kg|key|key|key p|key p new_name|c| ];
      cbn [exact_class] in X; try discriminate; cbn [may_panic] in M.
    + destruct (C12_key_methods_exact cf sv key HS) as (E1 & _ & _). rewrite E1.
      apply negb_true_iff in M. now rewrite M.
    + destruct (C12_key_methods_exact cf sv key HS) as (_ & _ & E3). rewrite (E3 line er only).
      apply negb_true_iff in M. now rewrite M.
    + destruct k as [k|]; [destruct data as [target|]|].
      * rewrite (resolve_panic_exact cf sv k target kg HS X). rewrite X in M. cbn [negb] in M. rewrite orb_false_r in M.
        apply negb_true_iff in M. now rewrite M.
      * destruct (resolve_missing_field_panics cf sv (Some k) None kg (or_intror eq_refl)) as (s & ->). reflexivity.
      * destruct (resolve_missing_field_panics cf sv None data kg (or_introl eq_refl)) as (s & ->). reflexivity.
    + destruct (C12_key_methods_exact cf sv key HS) as (_ & E2 & _). rewrite E2.
      apply negb_true_iff in M. now rewrite M.
    + reflexivity.
Qed.
Print Assumptions tie_iff_implies.

(* ---------- the whole walk --------------------------------------------------------------------------- *)

Lemma forallb_app {A} (f : A -> bool) a b : forallb f (a ++ b) = forallb f a && forallb f b.
Proof. induction a as [|x r IH]; cbn; [reflexivity|]. now rewrite IH, andb_assoc. Qed.

Lemma ties_map cf sv os :
  SInv sv -> forallb t_iff (map (tie_req cf sv) os) = true ->
  forallb t_sound (map (tie_req cf sv) os) = true /\ forallb t_exact (map (tie_req cf sv) os) = true.
Proof.
  intros HS. induction os as [|o r IH]; cbn [map forallb]; [auto|].
  intros H. apply andb_true_iff in H as [H1 H2].
  destruct (tie_iff_implies cf sv o HS H1) as [A B]. destruct (IH H2) as [C D].
  now rewrite A, B, C, D.
Qed.

Theorem walk_iff_implies l : forall cf sv,
  SInv sv -> forallb t_iff (w_ties (walk cf sv l)) = true ->
  forallb t_sound (w_ties (walk cf sv l)) = true /\ forallb t_exact (w_ties (walk cf sv l)) = true.
Proof.
  induction l as [|i r IH]; intros cf sv HS; [cbn; auto|].
  destruct i as [o p p2 same|os p p2 same|hostile panicked n tables]; cbn [walk w_ties].
  - rewrite !forallb_app. intros H. apply andb_true_iff in H as [H1 H2].
    destruct (ties_map cf sv [o; p; p2] HS H1) as [A B]. destruct (IH cf sv HS H2) as [C D].
    now rewrite A, B, C, D.
  - rewrite !forallb_app. intros H. apply andb_true_iff in H as [H1 H2].
    destruct (ties_map cf sv (os ++ [p; p2]) HS H1) as [A B]. destruct (IH cf sv HS H2) as [C D].
    now rewrite A, B, C, D.
  - destruct n as [n|]; [|apply IH; exact HS].
    cbn [w_ties]. rewrite walk_next_is_apply_note. apply IH. now apply apply_note_inv.
Qed.
Print Assumptions walk_iff_implies.

(* the headline: on a case whose start notes have distinct keys, when stage 6 holds for every request of
   the walk, stages 4 and 5 hold *)
Theorem C12_tie_6_implies_4_5 c sv0 :
  distinct_namesb c = true -> start_state c = Ok sv0 ->
  let w := walk (mk_cf (c_tables c)) sv0 (c_items c) in
  forallb t_iff (w_ties w) = true -> forallb t_sound (w_ties w) = true /\ forallb t_exact (w_ties w) = true.
Proof.
  intros Hd E w. destruct (tie_start_inv c Hd) as (sv & E' & HS). rewrite E in E'. injection E' as <-.
  apply walk_iff_implies. exact HS.
Qed.
Print Assumptions C12_tie_6_implies_4_5.

(* non-vacuity: a request of each kind of outcome through tie_req at the witness state of ServerFacts *)
Example tie_req_examples :
  exists sv, Witness.sv0 = Ok sv /\ SInv sv /\
    let cf := Witness.cf0 in
    (* an unknown note: the model panics; an observed panic passes every stage, an observed answer fails 5 and 6 *)
    tie_req cf sv (RO 1 0 true [2%N] true (QReq (RFormatting "zzz")) ONone) = TIE true true true true true /\
    tie_req cf sv (RO 1 0 false [1%N] true (QReq (RFormatting "zzz")) (OText "x")) = TIE true false false true true /\
    (* an existing note: an observed panic fails 4 and 6; an answer with another text fails 7 only *)
    t_sound (tie_req cf sv (RO 1 0 true [2%N] true (QReq (RFormatting "a")) ONone)) = false /\
    t_iff (tie_req cf sv (RO 1 0 true [2%N] true (QReq (RFormatting "a")) ONone)) = false /\
    tie_req cf sv (RO 1 0 false [1%N] true (QReq (RFormatting "a")) (OText "x")) = TIE true true true false true.
Proof.
  destruct witness_reached as (sv & E & _ & HS). exists sv. split; [exact E|]. split; [exact HS|].
  vm_compute in E. injection E as <-. vm_compute. repeat split.
Qed.
