(* Check_C15.v — executable side of C15: the case type the harness fills with the
   implementation's observations, the correspondence (model = observed) and the property
   predicate evaluated on the observed values. *)
From IweV Require Import Str RelPath Harness.
Local Open Scope string_scope.
Local Open Scope list_scope.
Local Open Scope N_scope.

Definition good_nameb (n : string) : bool :=
  negb (sempty n) && negb (contains_char SEP n) && negb (String.eqb n ".") && negb (String.eqb n "..").

(* a canonical key: non-empty `/`-joined good names;  a canonical directory may be empty *)
Definition canonical_dirb (s : string) : bool :=
  if sempty s then true else forallb good_nameb (split_on SEP s).
Definition canonicalb (s : string) : bool := negb (sempty s) && canonical_dirb s.

Record case := Case {
  c_key : string; c_dir : string; c_url : string;
  (* observed on the implementation *)
  o_to_rel : string;       (* Key(c_key).to_rel_link_url(c_dir) *)
  o_rt : string;           (* Key::from_rel_link_url(o_to_rel, c_dir) *)
  o_from_rel : string;     (* Key::from_rel_link_url(c_url, c_dir) *)
  o_rewrite : string;      (* from_rel(to_rel(o_from_rel, c_dir), c_dir) *)
  o_parent : string;       (* Key(c_key).parent() *)
  o_self_rt : string;      (* from_rel(to_rel(K, parent K), parent K) *)
  o_url_parent : string;   (* Key(c_url).parent() — arbitrary text *)
  o_from_file : string;    (* Key::from_file_name(c_url) *)
  o_to_path : string;      (* Key(c_key).to_path() *)
  o_is_ref : bool;         (* is_ref_url(c_url) *)
  o_crate_join : string;   (* RelativePath::new(c_dir).join(c_url) *)
  o_crate_joinn : string;  (* RelativePath::new(c_dir).join_normalized(c_url) *)
  o_crate_rel : string;    (* RelativePath::new(c_dir).relative(c_url) *)
  o_crate_norm : string;   (* RelativePath::new(c_url).normalize() *)
  (* the url as it is written: model::ref_url with refs_extension ".md" / "" *)
  o_ref_md : string;       (* ref_url(o_to_rel, ".md") *)
  o_ref_plain : string;    (* ref_url(o_to_rel, "") *)
  o_ref_u_md : string;     (* ref_url(c_url, ".md") — arbitrary text *)
  o_ref_u_plain : string;  (* ref_url(c_url, "") *)
  o_strip_u : string;      (* strip_md(c_url) *)
  o_rt_md : string;        (* from_rel(ref_url(to_rel(K,D), ".md"), D) *)
  o_rt_plain : string;     (* from_rel(ref_url(to_rel(K,D), ""), D) *)
  o_rewrite_md : string;   (* from_rel(ref_url(to_rel(o_from_rel,D), ".md"), D) *)
  o_rewrite_plain : string;(* from_rel(ref_url(to_rel(o_from_rel,D), ""), D) *)
  o_self_md : string;      (* from_rel(ref_url(to_rel(K,parent K), ".md"), parent K) *)
  o_self_plain : string;   (* from_rel(ref_url(to_rel(K,parent K), ""), parent K) *)
  o_path_key : string      (* Key::from_file_name(Key(c_key).to_path()) *)
}.

Definition seqb := String.eqb.

Definition run (c : case) : verdict :=
  let K := c_key c in let D := c_dir c in let U := c_url c in
  let corr :=
    flag 1 (seqb (to_rel_link_url K D) (o_to_rel c)) ++
    flag 2 (seqb (from_rel_link_url (o_to_rel c) D) (o_rt c)) ++
    flag 3 (seqb (from_rel_link_url U D) (o_from_rel c)) ++
    flag 4 (seqb (from_rel_link_url (to_rel_link_url (o_from_rel c) D) D) (o_rewrite c)) ++
    flag 5 (seqb (key_parent K) (o_parent c)) ++
    flag 6 (seqb (key_parent U) (o_url_parent c)) ++
    flag 7 (seqb (key_from_file_name U) (o_from_file c)) ++
    flag 8 (seqb (to_path K) (o_to_path c)) ++
    flag 9 (Bool.eqb (is_ref_url U) (o_is_ref c)) ++
    flag 10 (seqb (rjoin D U) (o_crate_join c)) ++
    flag 11 (seqb (join_normalized D U) (o_crate_joinn c)) ++
    flag 12 (seqb (relative D U) (o_crate_rel c)) ++
    flag 13 (seqb (normalize U) (o_crate_norm c)) ++
    flag 14 (seqb (from_rel_link_url (to_rel_link_url K (o_parent c)) (o_parent c)) (o_self_rt c)) ++
    flag 15 (seqb (ref_url (o_to_rel c) MD) (o_ref_md c) && seqb (ref_url (o_to_rel c) "") (o_ref_plain c) &&
             seqb (ref_url U MD) (o_ref_u_md c) && seqb (ref_url U "") (o_ref_u_plain c)) ++
    flag 16 (seqb (strip_md U) (o_strip_u c)) ++
    flag 17 (seqb (from_rel_link_url (o_ref_md c) D) (o_rt_md c) && seqb (from_rel_link_url (o_ref_plain c) D) (o_rt_plain c)) ++
    flag 18 (let w := to_rel_link_url (o_from_rel c) D in
             seqb (from_rel_link_url (ref_url w MD) D) (o_rewrite_md c) && seqb (from_rel_link_url (ref_url w "") D) (o_rewrite_plain c)) ++
    flag 19 (let w := to_rel_link_url K (o_parent c) in
             seqb (from_rel_link_url (ref_url w MD) (o_parent c)) (o_self_md c) &&
             seqb (from_rel_link_url (ref_url w "") (o_parent c)) (o_self_plain c)) ++
    flag 20 (seqb (key_from_file_name (to_path K)) (o_path_key c)) in
  (* canonical key and directory: the domain of C15_roundtrip_written (every key, also one ending in `.md`) *)
  let dom0 := canonicalb K && canonical_dirb D in
  (* the url without any extension resolves back only when the key does not end in `.md` (C15_roundtrip) *)
  let dom1 := dom0 && negb (ends_with MD K) in
  let K' := o_from_rel c in
  (* the domain of RelPathLaws.C15_rewrite: every directory text, every url text, resolved key not ending in `.md` *)
  let dom2 := negb (ends_with MD K') in
  let prop :=
    (* 1: the link written for K from D (with either extension) resolves back to K; so does the bare url
          when K does not end in `.md` *)
    flag 1 (implb dom0 (seqb (o_rt_md c) K && seqb (o_rt_plain c) K) && implb dom1 (seqb (o_rt c) K)) ++
    (* 2: resolving then re-writing from the same directory names the same note: C15_rewrite_written for
          every directory and url text; the bare url on dom2 *)
    flag 2 (seqb (o_rewrite_md c) K' && seqb (o_rewrite_plain c) K' && implb dom2 (seqb (o_rewrite c) K')) ++
    (* 3: a note's own directory: the link from parent(K) to K resolves to K *)
    flag 3 (implb (canonicalb K) (seqb (o_self_md c) K && seqb (o_self_plain c) K) && implb dom1 (seqb (o_self_rt c) K)) ++
    (* 4: the file a key is written to is read back under that key (C15_file_name_of_path: every key) *)
    flag 4 (seqb (o_path_key c) K) in
  V corr prop [] (dom0 && negb (seqb K D) && negb (sempty D)).

(* ====================================================================================================== *)
(* LSP stage: one session of a real `iwes::router::server::Server` on a generated library with notes in
   several directories: `textDocument/completion` requests from notes in different directories, didChange
   notifications and `refactor.extract.section` code actions, in the order given.  What is observed is
   what the editor gets: per completion request the label and the inserted text of every offered item,
   per extraction the note that is created and the link lines left in the note the section came from. *)

(* the first occurrence of [p] in [s]: the text before it and the text after it *)
Fixpoint split_once_aux (p s acc : string) : option (string * string) :=
  match strip_prefix p s with
  | Some r => Some (srev acc, r)
  | None => match s with
            | EmptyString => None
            | String c r => split_once_aux p r (String c acc)
            end
  end.
Definition split_once (p s : string) : option (string * string) := split_once_aux p s EmptyString.

(* `[text](url)`: the text up to the first `](`, the url up to the closing parenthesis at the end *)
Definition parse_link (s : string) : option (string * string) :=
  match strip_prefix "[" s with
  | None => None
  | Some r =>
      match split_once "](" r with
      | None => None
      | Some (t, u) => match strip_suffix ")" u with Some u' => Some (t, u') | None => None end
      end
  end.

Definition write_link (text url : string) : string := "[" +++ text +++ "](" +++ url +++ ")".

(* the library as the editor knows it: key and title (None: the note does not start with a heading) *)
Definition lib := list (string * option string).

Fixpoint lib_title (l : lib) (k : string) : option (option string) :=
  match l with
  | [] => None
  | (k', t) :: r => if String.eqb k' k then Some t else lib_title r k
  end.

(* didChange: the note gets the new text (title); a note that is not there yet is added *)
Fixpoint lib_update (l : lib) (k : string) (t : option string) : lib :=
  match l with
  | [] => [(k, t)]
  | (k', t') :: r => if String.eqb k' k then (k, t) :: r else (k', t') :: lib_update r k t
  end.

(* Graph::get_ref_text(..).unwrap_or_default() *)
Definition title_text (t : option string) : string := match t with Some x => x | None => "" end.

(* U+1F517 and a space: the label prefix of a link completion (extensions.rs:288) *)
Definition LINK_LABEL : string := sb [240; 159; 148; 151; 32].

(* server.rs:188-206 handle_link_completion + extensions.rs:274-303 to_link / to_completion: one item per
   key of the graph; the url is written for the directory of the ASKING note, by `ref_url(.., "")`
   whatever extension is configured *)
Definition completion_item (asking : string) (kt : string * option string) : string * string :=
  let t := title_text (snd kt) in
  (LINK_LABEL +++ t, write_link t (ref_url (to_rel_link_url (fst kt) (key_parent asking)) "")).
Definition completion_items (l : lib) (asking : string) : list (string * string) :=
  map (completion_item asking) l.

Definition item_eqb (a b : string * string) : bool := seqb (fst a) (fst b) && seqb (snd a) (snd b).
Definition item_in (x : string * string) (l : list (string * string)) : bool := existsb (item_eqb x) l.
(* the same items, in whatever order (iwe sorts by label, ties in hash-map order) *)
Definition same_items (a b : list (string * string)) : bool :=
  Nat.eqb (length a) (length b) && forallb (fun x => item_in x b) a && forallb (fun x => item_in x a) b.

(* the note an offered `[text](url)` leads to when it is inserted in the asking note *)
Definition item_target (asking : string) (ins : string) : option (string * string) :=
  match parse_link ins with
  | Some (t, u) => Some (t, from_rel_link_url u (key_parent asking))
  | None => None
  end.

(* sub-property 5 for one answer: every offered link, resolved from the asking note's directory, is a
   note of the library whose title is the link text, and every note of the library is offered *)
Definition completion_ok (l : lib) (asking : string) (items : list (string * string)) : bool :=
  forallb (fun it => match item_target asking (snd it) with
                     | Some (t, k) => match lib_title l k with
                                      | Some title => seqb (title_text title) t
                                      | None => false
                                      end
                     | None => false
                     end) items &&
  forallb (fun kt => existsb (fun it => match item_target asking (snd it) with
                                        | Some (_, k) => seqb k (fst kt)
                                        | None => false
                                        end) items) l.

(* refactor.extract.section (action.rs:332-366): the new note is `random_key(parent of the note)` - with
   sequential ids the number [id] of keys + 1, resolved in the note's directory - and the section is
   replaced by a reference to it, written from the note's directory with the configured extension *)
Definition extract_new_key (src id : string) : string := from_rel_link_url id (key_parent src).
Definition extract_link (ext src id title : string) : string :=
  write_link title (ref_url (to_rel_link_url (extract_new_key src id) (key_parent src)) ext).

(* sub-property 6: the reference left in the note resolves, from the note's directory, to the created note *)
Definition extract_ok (src title created : string) (links : list string) : bool :=
  negb (Nat.eqb (length links) 0) &&
  forallb (fun ln => match item_target src ln with
                     | Some (t, k) => seqb k created && seqb t title
                     | None => false
                     end) links.

Inductive step :=
| SComplete (asking : string) (obs : option (list (string * string)))     (* None: the handler panicked *)
| SChange (key : string) (title : option string) (ok : bool)              (* ok: didChange returned *)
| SExtract (src title id : string)                                        (* section title, sequential id *)
           (obs : option (option (string * list string))).                (* panicked / not offered /
                                                                             created note, link lines *)

Record session := Session {
  s_ext : string;            (* markdown.refs_extension *)
  s_notes : lib;             (* the library the server is started on *)
  s_started : bool;          (* Server::new returned *)
  s_steps : list step
}.

Definition count_nat (n : nat) : N := N.of_nat n.

(* per step: correspondence stages that differ, sub-properties that fail *)
Fixpoint run_steps (ext : string) (l : lib) (steps : list step) : list N * list N :=
  match steps with
  | [] => ([], [])
  | SComplete a obs :: r =>
      let '(c, p) := run_steps ext l r in
      match obs with
      | None => (21 :: c, 5 :: p)
      | Some items =>
          (flag 21 (same_items (completion_items l a) items) ++ c,
           flag 5 (completion_ok l a items) ++ p)
      end
  | SChange k t ok :: r =>
      let '(c, p) := run_steps ext (lib_update l k t) r in
      (flag 22 ok ++ c, p)
  | SExtract src title id obs :: r =>
      let '(c, p) := run_steps ext l r in
      match obs with
      | Some (Some (created, links)) =>
          (flag 23 (seqb created (extract_new_key src id) &&
                    list_eqb seqb links [extract_link ext src id title]) ++ c,
           flag 6 (extract_ok src title created links) ++ p)
      | _ => (23 :: c, 6 :: p)
      end
  end.

Fixpoint dedup_N (l : list N) : list N :=
  match l with
  | [] => []
  | x :: r => if existsb (N.eqb x) r then dedup_N r else x :: dedup_N r
  end.

Definition step_dir (s : step) : list string :=
  match s with SComplete a _ => [key_parent a] | _ => [] end.
Fixpoint distinct_strings (l : list string) : nat :=
  match l with
  | [] => 0
  | x :: r => if existsb (seqb x) r then distinct_strings r else S (distinct_strings r)
  end.

(* non-trivial: completion is asked from two different directories in the one session, on a library
   with notes in two directories *)
Definition run_lsp (s : session) : verdict :=
  let '(c, p) := if s_started s then run_steps (s_ext s) (s_notes s) (s_steps s) else ([21], [5]) in
  V (dedup_N c) (dedup_N p) []
    (Nat.leb 2 (distinct_strings (flat_map step_dir (s_steps s))) &&
     Nat.leb 2 (distinct_strings (map (fun kt => key_parent (fst kt)) (s_notes s)))).

Inductive acase :=
| KeyApi (c : case)
| Lsp (s : session).

Definition run_all (a : acase) : verdict :=
  match a with KeyApi c => run c | Lsp s => run_lsp s end.
