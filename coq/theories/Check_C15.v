(* Check_C15.v — executable side of C15: the case type the harness fills with the
   implementation's observations, the correspondence (model = observed) and the property
   predicate evaluated on the observed values. *)
From IweV Require Import Str RelPath Harness.
Local Open Scope string_scope.
Local Open Scope list_scope.
Local Open Scope N_scope.

Definition good_nameb (n : string) : bool :=
  negb (sempty n) && negb (contains_char SEP n) && negb (String.eqb n ".") && negb (String.eqb n "..").

(* a canonical key: non-empty `/`-joined good names;  a canonical directory may be empty *)
Definition canonical_dirb (s : string) : bool :=
  if sempty s then true else forallb good_nameb (split_on SEP s).
Definition canonicalb (s : string) : bool := negb (sempty s) && canonical_dirb s.

Record case := Case {
  c_key : string; c_dir : string; c_url : string;
  (* observed on the implementation *)
  o_to_rel : string;       (* Key(c_key).to_rel_link_url(c_dir) *)
  o_rt : string;           (* Key::from_rel_link_url(o_to_rel, c_dir) *)
  o_from_rel : string;     (* Key::from_rel_link_url(c_url, c_dir) *)
  o_rewrite : string;      (* from_rel(to_rel(o_from_rel, c_dir), c_dir) *)
  o_parent : string;       (* Key(c_key).parent() *)
  o_self_rt : string;      (* from_rel(to_rel(K, parent K), parent K) *)
  o_url_parent : string;   (* Key(c_url).parent() — arbitrary text *)
  o_from_file : string;    (* Key::from_file_name(c_url) *)
  o_to_path : string;      (* Key(c_key).to_path() *)
  o_is_ref : bool;         (* is_ref_url(c_url) *)
  o_crate_join : string;   (* RelativePath::new(c_dir).join(c_url) *)
  o_crate_joinn : string;  (* RelativePath::new(c_dir).join_normalized(c_url) *)
  o_crate_rel : string;    (* RelativePath::new(c_dir).relative(c_url) *)
  o_crate_norm : string    (* RelativePath::new(c_url).normalize() *)
}.

Definition seqb := String.eqb.

Definition run (c : case) : verdict :=
  let K := c_key c in let D := c_dir c in let U := c_url c in
  let corr :=
    flag 1 (seqb (to_rel_link_url K D) (o_to_rel c)) ++
    flag 2 (seqb (from_rel_link_url (o_to_rel c) D) (o_rt c)) ++
    flag 3 (seqb (from_rel_link_url U D) (o_from_rel c)) ++
    flag 4 (seqb (from_rel_link_url (to_rel_link_url (o_from_rel c) D) D) (o_rewrite c)) ++
    flag 5 (seqb (key_parent K) (o_parent c)) ++
    flag 6 (seqb (key_parent U) (o_url_parent c)) ++
    flag 7 (seqb (key_from_file_name U) (o_from_file c)) ++
    flag 8 (seqb (to_path K) (o_to_path c)) ++
    flag 9 (Bool.eqb (is_ref_url U) (o_is_ref c)) ++
    flag 10 (seqb (rjoin D U) (o_crate_join c)) ++
    flag 11 (seqb (join_normalized D U) (o_crate_joinn c)) ++
    flag 12 (seqb (relative D U) (o_crate_rel c)) ++
    flag 13 (seqb (normalize U) (o_crate_norm c)) ++
    flag 14 (seqb (from_rel_link_url (to_rel_link_url K (o_parent c)) (o_parent c)) (o_self_rt c)) in
  let dom1 := canonicalb K && canonical_dirb D && negb (ends_with MD K) in
  let K' := o_from_rel c in
  (* the domain of RelPathLaws.C15_rewrite: every directory text, every url text, resolved key not ending in `.md` *)
  let dom2 := negb (ends_with MD K') in
  let prop :=
    (* 1: the link written for K from D resolves back to K *)
    flag 1 (implb dom1 (seqb (o_rt c) K)) ++
    (* 2: resolving then re-writing from the same directory names the same note *)
    flag 2 (implb dom2 (seqb (o_rewrite c) K')) ++
    (* 3: a note's own directory: the link from parent(K) to K resolves to K *)
    flag 3 (implb dom1 (seqb (o_self_rt c) K)) in
  V corr prop [] (dom1 && negb (seqb K D) && negb (sempty D)).
