(* Check_C15.v — executable side of C15: the case type the harness fills with the
   implementation's observations, the correspondence (model = observed) and the property
   predicate evaluated on the observed values. *)
From IweV Require Import Str RelPath Harness.
Local Open Scope string_scope.
Local Open Scope list_scope.
Local Open Scope N_scope.

Definition good_nameb (n : string) : bool :=
  negb (sempty n) && negb (contains_char SEP n) && negb (String.eqb n ".") && negb (String.eqb n "..").

(* a canonical key: non-empty `/`-joined good names;  a canonical directory may be empty *)
Definition canonical_dirb (s : string) : bool :=
  if sempty s then true else forallb good_nameb (split_on SEP s).
Definition canonicalb (s : string) : bool := negb (sempty s) && canonical_dirb s.

Record case := Case {
  c_key : string; c_dir : string; c_url : string;
  (* observed on the implementation *)
  o_to_rel : string;       (* Key(c_key).to_rel_link_url(c_dir) *)
  o_rt : string;           (* Key::from_rel_link_url(o_to_rel, c_dir) *)
  o_from_rel : string;     (* Key::from_rel_link_url(c_url, c_dir) *)
  o_rewrite : string;      (* from_rel(to_rel(o_from_rel, c_dir), c_dir) *)
  o_parent : string;       (* Key(c_key).parent() *)
  o_self_rt : string;      (* from_rel(to_rel(K, parent K), parent K) *)
  o_url_parent : string;   (* Key(c_url).parent() — arbitrary text *)
  o_from_file : string;    (* Key::from_file_name(c_url) *)
  o_to_path : string;      (* Key(c_key).to_path() *)
  o_is_ref : bool;         (* is_ref_url(c_url) *)
  o_crate_join : string;   (* RelativePath::new(c_dir).join(c_url) *)
  o_crate_joinn : string;  (* RelativePath::new(c_dir).join_normalized(c_url) *)
  o_crate_rel : string;    (* RelativePath::new(c_dir).relative(c_url) *)
  o_crate_norm : string;   (* RelativePath::new(c_url).normalize() *)
  (* the url as it is written: model::ref_url with refs_extension ".md" / "" *)
  o_ref_md : string;       (* ref_url(o_to_rel, ".md") *)
  o_ref_plain : string;    (* ref_url(o_to_rel, "") *)
  o_ref_u_md : string;     (* ref_url(c_url, ".md") — arbitrary text *)
  o_ref_u_plain : string;  (* ref_url(c_url, "") *)
  o_strip_u : string;      (* strip_md(c_url) *)
  o_rt_md : string;        (* from_rel(ref_url(to_rel(K,D), ".md"), D) *)
  o_rt_plain : string;     (* from_rel(ref_url(to_rel(K,D), ""), D) *)
  o_rewrite_md : string;   (* from_rel(ref_url(to_rel(o_from_rel,D), ".md"), D) *)
  o_rewrite_plain : string;(* from_rel(ref_url(to_rel(o_from_rel,D), ""), D) *)
  o_self_md : string;      (* from_rel(ref_url(to_rel(K,parent K), ".md"), parent K) *)
  o_self_plain : string;   (* from_rel(ref_url(to_rel(K,parent K), ""), parent K) *)
  o_path_key : string      (* Key::from_file_name(Key(c_key).to_path()) *)
}.

Definition seqb := String.eqb.

Definition run (c : case) : verdict :=
  let K := c_key c in let D := c_dir c in let U := c_url c in
  let corr :=
    flag 1 (seqb (to_rel_link_url K D) (o_to_rel c)) ++
    flag 2 (seqb (from_rel_link_url (o_to_rel c) D) (o_rt c)) ++
    flag 3 (seqb (from_rel_link_url U D) (o_from_rel c)) ++
    flag 4 (seqb (from_rel_link_url (to_rel_link_url (o_from_rel c) D) D) (o_rewrite c)) ++
    flag 5 (seqb (key_parent K) (o_parent c)) ++
    flag 6 (seqb (key_parent U) (o_url_parent c)) ++
    flag 7 (seqb (key_from_file_name U) (o_from_file c)) ++
    flag 8 (seqb (to_path K) (o_to_path c)) ++
    flag 9 (Bool.eqb (is_ref_url U) (o_is_ref c)) ++
    flag 10 (seqb (rjoin D U) (o_crate_join c)) ++
    flag 11 (seqb (join_normalized D U) (o_crate_joinn c)) ++
    flag 12 (seqb (relative D U) (o_crate_rel c)) ++
    flag 13 (seqb (normalize U) (o_crate_norm c)) ++
    flag 14 (seqb (from_rel_link_url (to_rel_link_url K (o_parent c)) (o_parent c)) (o_self_rt c)) ++
    flag 15 (seqb (ref_url (o_to_rel c) MD) (o_ref_md c) && seqb (ref_url (o_to_rel c) "") (o_ref_plain c) &&
             seqb (ref_url U MD) (o_ref_u_md c) && seqb (ref_url U "") (o_ref_u_plain c)) ++
    flag 16 (seqb (strip_md U) (o_strip_u c)) ++
    flag 17 (seqb (from_rel_link_url (o_ref_md c) D) (o_rt_md c) && seqb (from_rel_link_url (o_ref_plain c) D) (o_rt_plain c)) ++
    flag 18 (let w := to_rel_link_url (o_from_rel c) D in
             seqb (from_rel_link_url (ref_url w MD) D) (o_rewrite_md c) && seqb (from_rel_link_url (ref_url w "") D) (o_rewrite_plain c)) ++
    flag 19 (let w := to_rel_link_url K (o_parent c) in
             seqb (from_rel_link_url (ref_url w MD) (o_parent c)) (o_self_md c) &&
             seqb (from_rel_link_url (ref_url w "") (o_parent c)) (o_self_plain c)) ++
    flag 20 (seqb (key_from_file_name (to_path K)) (o_path_key c)) in
  (* canonical key and directory: the domain of C15_roundtrip_written (every key, also one ending in `.md`) *)
  let dom0 := canonicalb K && canonical_dirb D in
  (* the url without any extension resolves back only when the key does not end in `.md` (C15_roundtrip) *)
  let dom1 := dom0 && negb (ends_with MD K) in
  let K' := o_from_rel c in
  (* the domain of RelPathLaws.C15_rewrite: every directory text, every url text, resolved key not ending in `.md` *)
  let dom2 := negb (ends_with MD K') in
  let prop :=
    (* 1: the link written for K from D (with either extension) resolves back to K; so does the bare url
          when K does not end in `.md` *)
    flag 1 (implb dom0 (seqb (o_rt_md c) K && seqb (o_rt_plain c) K) && implb dom1 (seqb (o_rt c) K)) ++
    (* 2: resolving then re-writing from the same directory names the same note: C15_rewrite_written for
          every directory and url text; the bare url on dom2 *)
    flag 2 (seqb (o_rewrite_md c) K' && seqb (o_rewrite_plain c) K' && implb dom2 (seqb (o_rewrite c) K')) ++
    (* 3: a note's own directory: the link from parent(K) to K resolves to K *)
    flag 3 (implb (canonicalb K) (seqb (o_self_md c) K && seqb (o_self_plain c) K) && implb dom1 (seqb (o_self_rt c) K)) ++
    (* 4: the file a key is written to is read back under that key (C15_file_name_of_path: every key) *)
    flag 4 (seqb (o_path_key c) K) in
  V corr prop [] (dom0 && negb (seqb K D) && negb (sempty D)).
