(* Check_C10.v — property C10 (list/section conversions keep content and undo each other):
   predicates evaluated on the implementation's observations (the WorkspaceEdits the real
   server returned, the edited texts re-read by the real reader, the texts after the inverse
   action), and the classifiers of the known classes. *)
From IweV Require Export Check_Act.
Local Open Scope string_scope.
Local Open Scope list_scope.

(* ---------- token-level shapes of the three conversions ---------------------------------- *)

Definition is_open (s : string) : bool := ends_with "(" s.
Definition is_close (s : string) : bool := String.eqb s ")".

(* tokens up to (excluding) the `)` that closes the current bracket, and the rest after it *)
Fixpoint until_close (depth : nat) (l : list string) : option (list string * list string) :=
  match l with
  | [] => None
  | x :: r =>
      if is_close x then
        match depth with
        | O => Some ([], r)
        | S d => match until_close d r with Some (a, b) => Some (x :: a, b) | None => None end
        end
      else
        match until_close (if is_open x then S depth else depth) r with
        | Some (a, b) => Some (x :: a, b)
        | None => None
        end
  end.

Fixpoint balanced (depth : nat) (l : list string) : bool :=
  match l with
  | [] => Nat.eqb depth 0
  | x :: r => if is_close x then match depth with O => false | S d => balanced d r end
              else balanced (if is_open x then S depth else depth) r
  end.

(* list -> sections on tokens: `L( I( P t body ) I( P t body ) ) rest` becomes `H t body H t body rest`;
   an item without text `I( body )` becomes `H body` *)
Fixpoint unwrap_items (fuel : nat) (l : list string) : option (list string) :=
  match fuel with
  | O => None
  | S f =>
      match l with
      | ")" :: rest => Some rest
      | "I(" :: "P" :: r =>
          match until_close 0 r with
          | Some (item, rest) => match unwrap_items f rest with Some x => Some ("H" :: item ++ x) | None => None end
          | None => None
          end
      (* an item that does not start with text (it starts with a quote, code block, rule, table or
         list: one section without text over all its blocks) becomes a heading without text
         followed by those blocks *)
      | "I(" :: r =>
          match until_close 0 r with
          | Some (item, rest) => match unwrap_items f rest with Some x => Some ("H" :: item ++ x) | None => None end
          | None => None
          end
      | _ => None
      end
  end.
Definition unwrap_tokens (l : list string) : option (list string) :=
  match l with
  | "BL(" :: r | "OL(" :: r => unwrap_items (S (length r)) r
  | _ => None
  end.

(* section -> list: `H t body rest` becomes `BL( I( P t body ) ) rest` for a balanced body *)
Definition wrap_shape (before after : list string) : bool :=
  match before, after with
  | "H" :: R, "BL(" :: "I(" :: "P" :: R' =>
      Nat.eqb (length R') (length R + 2) &&
      existsb (fun k => balanced 0 (firstn k R) && strs_eqb R' (splice_at k R [")"; ")"])) (seq 0 (S (length R)))
  | _, _ => false
  end.

Definition type_shape (before after : list string) : bool :=
  match before, after with
  | "BL(" :: R, "OL(" :: R' | "OL(" :: R, "BL(" :: R' => strs_eqb R R'
  | _, _ => false
  end.

Definition conv_shape (kind : nat) (before after : list string) : bool :=
  let k := common_prefix before after in
  let b := skipn k before in let a := skipn k after in
  match kind with
  | 5 => wrap_shape b a
  | 6 => match unwrap_tokens b with Some x => strs_eqb x a | None => false end
  | 7 => type_shape b a
  | _ => false
  end.

(* ---------- classifiers on the model's view of the input ----------------------------------- *)

(* the children list that holds the node [id], with the position of that node *)
Fixpoint siblings_of (id : nat) (t : tree) {struct t} : option (list tree * nat) :=
  match t with
  | T _ _ c =>
      if existsb (fun ch => id_eq ch id) c then Some (c, length (take_while (fun ch => negb (id_eq ch id)) c))
      else find_map (fun ch => siblings_of id ch) c
  end.

Definition node_at (l : list tree) (n : nat) : option node :=
  match nth_error l n with Some t => Some (t_node t) | None => None end.

(* class 6 "follows a section": the section to convert has a previous sibling that is a section.
   The list written for it comes after that sibling's text and is read back as part of it. *)
Definition follows_section (tree : tree) (scope : nat) : bool :=
  match siblings_of scope tree with
  | Some (sibs, S p) => match node_at sibs p with Some (NSection _) => true | _ => false end
  | _ => false
  end.

(* ---------- per-action evaluation ---------------------------------------------------------- *)

(* which classes can explain the failure of which sub-property *)
Definition explain_C10 (p : N) : list N :=
  match p with
  | 2%N => [3; 4]%N
  | 3%N => [2%N]
  | 4%N => [2; 3]%N
  | 5%N => [2; 3; 4; 6]%N
  | _ => []
  end.

Definition single_update (key : string) (l : list och) : option string :=
  match l with
  | [OUpdate k t] => if String.eqb k key then Some t else None
  | _ => None
  end.

(* the scope node and the result tree the model predicts (input-side classifiers use them) *)
Definition model_scope (g : graph) (s : step) : option (tree * nat * tree) :=
  match step_target s, collect_key g (st_key s) with
  | Some id, Ok tree =>
      match st_kind s with
      | 5 => Some (tree, id, wrap_into_list id tree)
      | 6 => match get_top_level_surrounding_list_id id tree with
             | Some sc => Some (tree, sc, unwrap_list sc tree) | None => None end
      | 7 => match get_surrounding_list_id id tree with
             | Some sc => Some (tree, sc, change_list_type sc tree) | None => None end
      | _ => None
      end
  | _, _ => None
  end.

(* sub-properties
   1 the edit is one full-text update of the requested note and nothing else
   2 outside the converted part nothing changes; inside it every word, link and nested block is
     kept in order and nesting (token shape of the conversion)
   3 the front matter of the note is kept
   4 changing the list type twice restores the formatted original
   5 section -> list -> sections restores the formatted original
   classes
   1 outside the reparse-safe text domain (C01/C02 classes): text-level predicates not evaluated
   2 the note has front matter
   3 the converted block is adjacent to a list of the resulting type
   4 the conversion writes a heading deeper than 6
   (5 - a tight item holding a rule or table, or two quotes in a row - is repaired in the writer, F-TIGHTTAIL)
   6 section -> list on a section that follows a sibling section *)
Definition eval_act (c : actcase) (g : graph) (a : act_obs) : list N * list N :=
  let lc := ac_lib c in
  let s := ao_first a in
  let key := st_key s in
  match st_changes s, note_in_of lc key with
  | Ok l, Some ni =>
      let before := match ni_blocks ni with Ok bs => bs | Panic _ => [] end in
      let dom := lib_dom lc in
      let scope := model_scope g s in
      let cls :=
        flag 1 dom ++
        flag 2 (match ni_meta ni with Some _ => false | None => true end) ++
        flag 3 (negb match scope with Some (_, _, t') => adjacent_lists (project (key_parent key) t') | None => false end) ++
        flag 4 (negb match scope with Some (_, _, t') => Nat.ltb 6 (max_levels (project (key_parent key) t')) | None => false end) ++
        flag 6 (negb match scope with Some (t, sc, _) => Nat.eqb (st_kind s) 5 && follows_section t sc | None => false end) in
      let p1 := match single_update key l with Some _ => true | None => false end in
      let after := after_doc s key in
      let p2 := match after with
                | Some (_, bs') => conv_shape (st_kind s) (note_atoms key before) (note_atoms key bs')
                | None => false
                end in
      let p3 := match after with Some (m, _) => ostring_eqb (ni_meta ni) m | None => false end in
      let restored :=
        match ao_second a with
        | Some s2 => match st_changes s2 with
                     | Ok l2 => match single_update key l2 with
                                | Some t2 => text_eqb (Ok t2) (formatted_original lc key)
                                | None => false
                                end
                     | Panic _ => false
                     end
        | None => false
        end in
      let p4 := if Nat.eqb (st_kind s) 7 then restored else true in
      let p5 := if Nat.eqb (st_kind s) 5 then restored else true in
      explain_fails explain_C10
        (if dom then flag 1 p1 ++ flag 2 p2 ++ flag 3 p3 ++ flag 4 p4 ++ flag 5 p5 else flag 1 p1) cls
  | Panic _, _ => ([1%N], [])           (* an offered conversion must resolve *)
  | _, None => ([1%N], [])
  end.

Definition c10_kinds : list nat := [5; 6; 7].

Definition run_C10 (c : actcase) : verdict :=
  let corr := act_corr c c10_kinds in
  match model_graph (ac_lib c) with
  | Ok g =>
      let acts := filter (fun a => existsb (Nat.eqb (st_kind (ao_first a))) c10_kinds) (ac_acts c) in
      (* every predicate is also evaluated on what a server with a history answered *)
      let per := map (eval_act c g) (acts ++ flat_map (hist_variants (ac_seq c)) acts) in
      let '(f, k) := combine_acts per in
      let hits := dedup_N (flat_map snd per) in
      V corr f (match f with [] => hits | _ => k end)
        (existsb (fun a => Nat.leb 5 (st_kind (ao_first a))) (ac_acts c))
  | Panic _ => V corr [] [] false
  end.
