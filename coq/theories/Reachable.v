(* Reachable.v — the bridge between the forest invariant of C20 (proved of the builder, of
   delete_branch and of whole histories: BuilderWF.v, HistoryWF.v, HistoryClosed.v) and the
   hypotheses under which the index (C04/C05), the outline paths (C18) and squash (C17) are stated:
     B1  arena_ok gives bwd and collectability outright; it gives fwd / wf_arena / wf_arenab exactly
         when the tombstones carry no links ([tombs_clean]; arena_ok says nothing about an Empty
         slot: [arena_ok_not_wf_refuted]); the builder and delete_branch keep tombstones clean;
     B2  every update / import step satisfies IndexHistory.covers (walk of /repo);
     B3  C04_index_no_history_reached: no coverage / well-formedness / input-class premise left;
     B4  at every state reached by an import of notes with distinct keys and ANY history:
         the hypotheses of C05_index_exact, of C18_sound / _finite / _complete_listed (and
         graph_to_paths returns), of C17_equation / C17_terminates hold. *)
From Coq Require Import Lia List Permutation.
From IweV Require Import Str Text Ast RelPath Arena ArenaWF ArenaFacts ForestFacts Project Library LibraryFacts
  Check_Norm BuilderFacts BuilderWF HistoryWF HistoryClosed Index IndexFacts IndexHistory
  Paths PathsFacts PathsComplete Squash SquashFacts.
Local Open Scope string_scope.
Local Open Scope list_scope.

(* ================================================================================================ *)
(* B1 — from arena_ok to the hypotheses of the index / paths / squash theorems                       *)
(* ================================================================================================ *)

(* arena_ok constrains live slots only; the index walk's well-formedness (IndexFacts.wf_arena) also
   asks that an Empty slot has no child and no next.  Arena::delete_branch writes
   `GraphNode::Empty` (no links at all), the builder writes live nodes only. *)
Definition tombs_clean (a : arena) : Prop :=
  forall i n, get a i = Some n -> is_emptyk (g_kind n) = true -> g_child n = None /\ g_next n = None.

Definition tombs_cleanb (a : arena) : bool :=
  forallb (fun n => negb (is_emptyk (g_kind n)) ||
                    (match g_child n, g_next n with None, None => true | _, _ => false end)) a.

Lemma tombs_cleanb_spec a : tombs_cleanb a = true <-> tombs_clean a.
Proof.
  unfold tombs_cleanb, tombs_clean. rewrite forallb_forall. split.
  - intros H i n Hn He. apply nth_error_In in Hn. specialize (H n Hn). rewrite He in H. cbn in H.
    destruct (g_child n), (g_next n); try discriminate. auto.
  - intros H n Hin. apply In_nth_error in Hin as [i Hi]. destruct (is_emptyk (g_kind n)) eqn:He; [|reflexivity].
    destruct (H i n Hi He) as [-> ->]. reflexivity.
Qed.

Lemma live_links (a : arena) (Hok : arena_ok a = true) i n c :
  get a i = Some n -> is_emptyk (g_kind n) = false -> (g_child n = Some c \/ g_next n = Some c) ->
  i < c < length a.
Proof.
  intros Hn He Hc. destruct (link_down a Hok i n c Hn He Hc) as (Hlt & cn & Hg & _).
  apply ArenaFacts.get_lt in Hg. lia.
Qed.

(* the witness: a tombstone that still carries a link *)
Theorem arena_ok_not_wf_refuted :
  exists a, arena_ok a = true /\ wf_arenab a = false /\ ~ fwd a /\ ~ wf_arena a /\ tombs_cleanb a = false.
Proof.
  exists [GN KEmpty None (Some 7) None]. split; [reflexivity|]. split; [reflexivity|].
  assert (F : ~ fwd [GN KEmpty None (Some 7) None]).
  { intros F. destruct (F 0 _ eq_refl) as [_ Fn]. specialize (Fn 7 eq_refl). cbn in Fn. lia. }
  split; [exact F|]. split; [intros [W _]; now apply F | reflexivity].
Qed.

Theorem arena_ok_fwd a : arena_ok a = true -> tombs_clean a -> fwd a.
Proof.
  intros Hok Ht i n Hn. destruct (is_emptyk (g_kind n)) eqn:He.
  - destruct (Ht i n Hn He) as [-> ->]. split; intros ? E; discriminate.
  - split; intros c Hc; eapply live_links; eauto.
Qed.

Theorem arena_ok_kind_links a : arena_ok a = true -> tombs_clean a ->
  forall i n, get a i = Some n -> kind_links_ok n = true.
Proof.
  intros Hok Ht i n Hn. destruct (is_emptyk (g_kind n)) eqn:He.
  - destruct (Ht i n Hn He) as [Hc Hx]. unfold kind_links_ok. rewrite Hc, Hx.
    destruct (g_kind n); try discriminate; reflexivity.
  - assert (Hall : node_ok a i n = true) by (now apply (proj1 (arena_ok_spec a) Hok)).
    destruct (node_ok_live a i n Hall He) as (_ & Hci & _ & Hni & _).
    unfold kind_links_ok. destruct (g_kind n), (g_child n), (g_next n); cbn in *; try reflexivity; discriminate.
Qed.

Theorem arena_ok_wf_arena a : arena_ok a = true -> tombs_clean a -> wf_arena a.
Proof. intros Hok Ht. split; [now apply arena_ok_fwd | now apply arena_ok_kind_links]. Qed.

(* the exact extra condition *)
Theorem arena_ok_wf_arena_iff a : arena_ok a = true -> (wf_arena a <-> tombs_clean a).
Proof.
  intros Hok. split; [|now apply arena_ok_wf_arena].
  intros [_ K] i n Hn He. specialize (K i n Hn). unfold kind_links_ok in K.
  destruct (g_kind n); try discriminate. destruct (g_child n), (g_next n); try discriminate. auto.
Qed.

(* the boolean form is complete as well as sound *)
Lemma wf_fromb_intro len : forall l i,
  (forall j n, nth_error l j = Some n -> wf_nodeb len (i + j) n = true) -> wf_fromb len i l = true.
Proof.
  induction l as [|x r IH]; intros i H; [reflexivity|]. cbn [wf_fromb]. apply andb_true_intro. split.
  - specialize (H 0 x eq_refl). now rewrite Nat.add_0_r in H.
  - apply IH. intros j n Hn. specialize (H (S j) n Hn). now replace (S i + j) with (i + S j) by lia.
Qed.

Lemma wf_arenab_complete a : wf_arena a -> wf_arenab a = true.
Proof.
  intros [F K]. unfold wf_arenab. apply wf_fromb_intro. intros j n Hn. cbn [plus].
  destruct (F j n Hn) as [Fc Fn]. unfold wf_nodeb. rewrite (K j n Hn).
  assert (O : forall o, (forall c, o = Some c -> j < c < length a) -> olt j o (length a) = true).
  { intros [c|] H; [|reflexivity]. specialize (H c eq_refl). cbn.
    apply andb_true_intro. split; apply Nat.ltb_lt; lia. }
  rewrite (O _ Fc), (O _ Fn). reflexivity.
Qed.

Theorem arena_ok_wf_arenab a : arena_ok a = true -> tombs_clean a -> wf_arenab a = true.
Proof. intros. now apply wf_arenab_complete, arena_ok_wf_arena. Qed.

(* PathsFacts.bwd needs nothing more: prev_of ignores the prev slot of documents and tombstones *)
Theorem arena_ok_bwd a : arena_ok a = true -> bwd a.
Proof.
  intros Hok i n p Hn Hp. unfold prev_of in Hp.
  assert (He : is_emptyk (g_kind n) = false) by (destruct (g_kind n); try reflexivity; discriminate).
  assert (Hg : g_prev n = Some p) by (destruct (g_kind n); try discriminate; exact Hp).
  now destruct (link_up a Hok i n p Hn He Hg) as (_ & Hlt & _).
Qed.

(* ---------- collect: every root of a well-formed graph is collectable --------------------------- *)

Lemma sibling_ids_S f a id :
  sibling_ids (S f) a id =
  match get a id with
  | None => Panic "arena index out of bounds"
  | Some n =>
      match g_kind n with
      | KEmpty => Panic "next_id of Empty"
      | _ => match g_next n with
             | None => Ok [id]
             | Some nx => do r <- sibling_ids f a nx; Ok (id :: r)
             end
      end
  end.
Proof. reflexivity. Qed.

Lemma collect_fuel_S f nf a id :
  collect_fuel (S f) nf a id =
  match get a id with
  | None => Panic "arena index out of bounds"
  | Some n =>
      match nf id (g_kind n) with
      | None => Ok None
      | Some nd =>
          do ids <- (match g_child n with None => Ok [] | Some c => sibling_ids f a c end);
          do kids <- fold_right (fun i acc => do r <- acc; do t <- collect_fuel f nf a i;
                                    Ok (match t with Some t => t :: r | None => r end)) (Ok []) ids;
          Ok (Some (T (Some id) nd kids))
      end
  end.
Proof. reflexivity. Qed.

Section Collect.
  Variable a : arena.
  Hypothesis Hok : arena_ok a = true.

  (* the sibling chain of a live node: live nodes only, enough fuel is the distance to the end *)
  Lemma sibling_ids_total : forall fuel c, lv a c -> length a - c <= fuel ->
    exists ids, sibling_ids fuel a c = Ok ids /\ forall i, In i ids -> c <= i /\ lv a i.
  Proof.
    induction fuel as [|f IH]; intros c (n & Hn & He) Hf.
    - apply ArenaFacts.get_lt in Hn. lia.
    - rewrite sibling_ids_S, Hn, (nonempty_match (g_kind n) _ _ He).
      destruct (g_next n) as [nx|] eqn:Hx.
      + destruct (link_down a Hok c n nx Hn He (or_intror Hx)) as (Hlt & cn & Hg & Hce & _).
        destruct (IH nx (ex_intro _ cn (conj Hg Hce)) ltac:(lia)) as (ids & E & Hids).
        rewrite E. cbn [bind]. eexists. split; [reflexivity|].
        intros i [<-|Hi]; [split; [lia | now exists n]|]. destruct (Hids i Hi). split; [lia | assumption].
      + eexists. split; [reflexivity|]. intros i [<-|[]]. split; [lia | now exists n].
  Qed.

  Variable nf : nat -> gkind -> option node.
  Hypothesis Hnf : forall i k, is_emptyk k = false -> nf i k <> None.

  Lemma collect_fuel_total : forall fuel id, lv a id -> length a - id <= fuel ->
    exists t, collect_fuel fuel nf a id = Ok (Some t).
  Proof.
    induction fuel as [|f IH]; intros id (n & Hn & He) Hf.
    - apply ArenaFacts.get_lt in Hn. lia.
    - rewrite collect_fuel_S, Hn. destruct (nf id (g_kind n)) as [nd|] eqn:Hnd; [|now apply Hnf in Hnd].
      assert (Hids : exists ids, (match g_child n with None => Ok [] | Some c => sibling_ids f a c end) = Ok ids /\
                       forall i, In i ids -> id < i /\ lv a i).
      { destruct (g_child n) as [c|] eqn:Hc.
        - destruct (link_down a Hok id n c Hn He (or_introl Hc)) as (Hlt & cn & Hg & Hce & _).
          destruct (sibling_ids_total f c (ex_intro _ cn (conj Hg Hce)) ltac:(lia)) as (ids & E & Hi).
          exists ids. split; [exact E|]. intros i Hin. destruct (Hi i Hin). split; [lia | assumption].
        - exists []. split; [reflexivity | intros i []]. }
      destruct Hids as (ids & -> & Hids). cbn [bind].
      assert (Hk : exists kids, fold_right (fun i acc => do r <- acc; do t <- collect_fuel f nf a i;
                                    Ok (match t with Some t => t :: r | None => r end)) (Ok []) ids = Ok kids).
      { induction ids as [|i r IHr]; [eexists; reflexivity|]. cbn [fold_right].
        destruct IHr as (kids & ->); [intros j Hj; apply Hids; now right|]. cbn [bind].
        destruct (Hids i (or_introl eq_refl)) as [Hlt Hl].
        destruct (IH i Hl ltac:(lia)) as (t & ->). cbn [bind]. eexists. reflexivity. }
      destruct Hk as (kids & ->). cbn [bind]. eexists. reflexivity.
  Qed.
End Collect.

Lemma pointer_node_some ctx k : is_emptyk k = false -> pointer_node ctx k <> None.
Proof. destruct k; cbn; intros; discriminate. Qed.

Theorem collect_total ctx a root : arena_ok a = true -> lv a root -> exists t, collect ctx a root = Ok t.
Proof.
  intros Hok Hl. unfold collect.
  destruct (collect_fuel_total a Hok (fun _ k => pointer_node ctx k) (fun _ k => pointer_node_some ctx k)
              (S (length a)) root Hl ltac:(lia)) as (t & ->).
  cbn [bind]. eauto.
Qed.

(* SquashFacts.collectable: collect of every root returns (no panic, enough fuel) *)
Theorem wf_b_collectable g : wf_b (gr_arena g) (gr_keys g) = true -> collectable g = true.
Proof.
  intros Hwf. apply wf_b_spec in Hwf as (Hok & Hkeys & _). unfold collectable. apply forallb_forall.
  intros kv Hkv. destruct (proj1 (key_ok_spec _ kv) (Hkeys kv Hkv)) as (n & Hn & Hk).
  destruct (collect_total (get_key_title g) (gr_arena g) (snd kv) Hok) as (t & ->); [|reflexivity].
  exists n. split; [exact Hn | now rewrite Hk].
Qed.


(* ================================================================================================ *)
(* B2 — one step keeps the bridge invariant and is covered by the index walk                         *)
(* ================================================================================================ *)

(* the walk of subtree_ids only follows child / next links *)
Lemma subtree_below a : forall f r x, In x (subtree_ids f a r) -> below a r x.
Proof.
  induction f as [|f IH]; intros r x H; [destruct H|].
  rewrite ForestFacts.subtree_ids_S in H. destruct (get a r) as [n|] eqn:Hn; [|destruct H].
  destruct H as [<-|H]; [constructor|]. apply in_app_iff in H as [H|H].
  - destruct (g_child n) as [c|] eqn:Hc; [|destruct H]. eapply b_child; eauto.
  - destruct (is_dock (g_kind n)); [destruct H|]. destruct (g_next n) as [c|] eqn:Hc; [|destruct H].
    eapply b_next; eauto.
Qed.

(* what BuilderWF.build_document_wf says about the slots of the new arena *)
Lemma built_slots a (st : bst) key :
  firstn (length a) (b_arena st) = a ->
  (exists n, get (b_arena st) (length a) = Some n /\ g_kind n = KDocument key) ->
  (forall id n, length a < id -> get (b_arena st) id = Some n ->
                is_emptyk (g_kind n) = false /\ is_dock (g_kind n) = false) ->
  forall i n, get (b_arena st) i = Some n -> get a i = Some n \/ is_emptyk (g_kind n) = false.
Proof.
  intros Hfirst (rn & Hr & Hk) Hnew i n Hn. destruct (Nat.lt_total i (length a)) as [Hlt|[->|Hgt]].
  - left. rewrite <- Hfirst. now rewrite HistoryWF.get_firstn.
  - right. rewrite Hr in Hn. injection Hn as <-. now rewrite Hk.
  - right. now destruct (Hnew i n Hgt Hn).
Qed.

Lemma tombs_frame a a' : IndexHistory.frame a a' -> tombs_clean a -> tombs_clean a'.
Proof.
  intros [_ F] Ht i n Hn He. destruct (F i) as [E|E]; rewrite E in Hn.
  - eapply Ht; eauto.
  - injection Hn as <-. auto.
Qed.

(* Graph::update_key on a graph of the invariant, any blocks: returns, keeps graph_inv and clean
   tombstones, roots the key at the first fresh id, and every new slot hangs below that root *)
Lemma update_key_step g key meta bs :
  graph_inv g -> tombs_clean (gr_arena g) ->
  exists g', update_key g key meta bs = Ok g' /\ graph_inv g' /\ tombs_clean (gr_arena g') /\
    alookup key (gr_keys g') = Some (length (gr_arena g)) /\
    length (gr_arena g) < length (gr_arena g') /\
    (forall x, length (gr_arena g) <= x < length (gr_arena g') ->
               below (gr_arena g') (length (gr_arena g)) x).
Proof.
  intros Hinv Ht.
  destruct (HistoryWF.update_key_inv BuilderWF.build_document_wf g key meta bs Hinv) as (g' & H & Hinv').
  exists g'. split; [exact H|]. split; [exact Hinv'|].
  destruct (update_key_evolves _ _ _ _ _ H) as (_ & Hlt & Hk).
  pose proof H as H0. unfold update_key in H0. apply IndexHistory.bind_ok in H0 as (a1 & Hdel & H0).
  unfold from_blocks in H0. apply IndexHistory.bind_ok in H0 as (g1 & Hbn & E). injection E as <-.
  unfold build_note in Hbn. cbn [gr_arena gr_keys gr_maps gr_titles gr_meta] in Hbn.
  apply IndexHistory.bind_ok in Hbn as (st & Hb & E). injection E as <-.
  rewrite HistoryWF.refresh_title_arena in *. cbn [gr_arena] in *.
  assert (H1 : arena_ok a1 = true /\ length a1 = length (gr_arena g) /\ tombs_clean a1).
  { destruct (alookup key (gr_keys g)) as [root|] eqn:Hl.
    - destruct (ready_deleted g key root a1 Hinv Hl Hdel) as [(Hok & _) Hlen]. split; [exact Hok|].
      split; [exact Hlen|]. apply delete_branch_frame in Hdel. eapply tombs_frame; eauto.
    - injection Hdel as <-. destruct (ready_fresh g key Hinv Hl) as (Hok & _). auto. }
  destruct H1 as (Hok1 & Hlen1 & Ht1). rewrite <- Hlen1 in *.
  destruct (BuilderWF.build_document_wf a1 key bs Hok1)
    as (st' & Hb' & O & Hfirst & (rn & Hr & Hrk & _ & _) & Hnew).
  rewrite Hb in Hb'. injection Hb' as <-.
  split; [|split; [exact Hk | split; [exact Hlt|]]].
  - intros i n Hn He.
    destruct (built_slots a1 st key Hfirst (ex_intro _ rn (conj Hr Hrk)) Hnew i n Hn) as [E|E]; [|congruence].
    eapply Ht1; eauto.
  - destruct (BuilderWF.build_document_owned a1 key bs Hok1) as (st' & Hb' & _ & Perm).
    rewrite Hb in Hb'. injection Hb' as <-.
    intros x Hx. apply (subtree_below _ (S (length (b_arena st)))).
    eapply Permutation_in; [apply Permutation_sym; exact Perm|]. apply in_seq. lia.
Qed.

(* B2: every update step satisfies IndexHistory.covers, for the walk /repo runs *)
Theorem covers_update g key meta bs g' :
  graph_inv g -> tombs_clean (gr_arena g) -> update_key g key meta bs = Ok g' ->
  covers true (gr_arena g) (gr_arena g').
Proof.
  intros Hinv Ht H. destruct (update_key_step g key meta bs Hinv Ht) as (g2 & H2 & [Hwf _] & Ht' & _ & _ & B).
  rewrite H in H2. injection H2 as <-. apply wf_b_spec in Hwf as (Hok' & _).
  apply covers_of_wf; [now apply arena_ok_wf_arena | now left |].
  intros x Hx A. apply B. split; [exact Hx | now apply alive_lt].
Qed.

(* the state invariant: C20's graph invariant, clean tombstones, C04's index invariant *)
Definition Inv (s : gstate) : Prop :=
  graph_inv (gs_graph s) /\ tombs_clean (arena_of s) /\ IdxInv s.

(* Index.update_state_v: returns, keeps the invariant; its graph component IS Library.update_key *)
Theorem update_state_step s key meta bs :
  Inv s ->
  exists s', update_state_v true s key meta bs = Ok s' /\ Inv s' /\
             update_key (gs_graph s) key meta bs = Ok (gs_graph s') /\
             covers true (arena_of s) (arena_of s').
Proof.
  intros (Hinv & Ht & Hidx). unfold arena_of in *.
  destruct (update_key_step (gs_graph s) key meta bs Hinv Ht) as (g' & H & Hinv' & Ht' & Hk & Hlt & B).
  pose proof Hinv' as [Hwf' _]. apply wf_b_spec in Hwf' as (Hok' & _).
  destruct (index_from_terminates true (gr_arena g') (length (gr_arena (gs_graph s)))
              (arena_ok_fwd _ Hok' Ht') Hlt) as (fresh & Hf).
  destruct (index_after_update_spec true g' (gs_index s) key _ fresh Hk Hf) as (ri' & Hri & _).
  assert (E : update_state_v true s key meta bs =
              Ok (GS g' ri' (gs_lines s ++ key_map g' key))).
  { unfold update_state_v. rewrite H. cbn [bind]. rewrite Hri. reflexivity. }
  eexists. split; [exact E|].
  assert (C : covers true (gr_arena (gs_graph s)) (gr_arena g')) by (eapply covers_update; eauto).
  split; [|split; [exact H | exact C]].
  split; [exact Hinv'|]. split; [exact Ht'|].
  eapply index_history_invariant; [exact Hidx | exact E | exact C].
Qed.

(* ---------- import -------------------------------------------------------------------------------- *)

Lemma build_note_live g key meta bs g' :
  arena_ok (gr_arena g) = true /\ all_live (gr_arena g) -> build_note g key meta bs = Ok g' ->
  arena_ok (gr_arena g') = true /\ all_live (gr_arena g').
Proof.
  intros [Hok Hl] H. unfold build_note in H. apply IndexHistory.bind_ok in H as (st & Hb & E). injection E as <-.
  cbn [gr_arena].
  destruct (BuilderWF.build_document_wf (gr_arena g) key bs Hok)
    as (st' & Hb' & O & Hfirst & (rn & Hr & Hrk & _ & _) & Hnew).
  rewrite Hb in Hb'. injection Hb' as <-. split; [exact O|].
  intros i n Hn.
  destruct (built_slots _ st key Hfirst (ex_intro _ rn (conj Hr Hrk)) Hnew i n Hn) as [E|E]; [|exact E].
  eapply Hl; eauto.
Qed.

Lemma all_live_tombs a : all_live a -> tombs_clean a.
Proof. intros L i n Hn He. rewrite (L i n Hn) in He. discriminate. Qed.

Definition distinct_keys (notes : list (string * option string * list dblock)) : Prop :=
  NoDup (map HistoryWF.note_key notes).

(* Index.import_state_v on notes with pairwise distinct keys: returns, establishes
   the invariant; its graph component IS Library.import *)
Theorem import_state_step notes :
  distinct_keys notes ->
  exists s, import_state_v true notes = Ok s /\ Inv s /\ import notes = Ok (gs_graph s).
Proof.
  intros Hnd. destruct (import_wf_closed notes Hnd) as (g & Hg & Hwf & Hkd).
  assert (HL : arena_ok (gr_arena g) = true /\ all_live (gr_arena g)).
  { pose proof Hg as H0. unfold import in H0. apply IndexHistory.bind_ok in H0 as (g1 & Hfold & E). injection E as <-.
    destruct (refresh_all_arena_keys (gr_keys g1) g1) as [-> _].
    refine (HistoryWF.fold_inv
              (fun g (n : string * option string * list dblock) =>
                 let '(name, meta, bs) := n in build_note g (key_name name) meta bs)
              (fun g => arena_ok (gr_arena g) = true /\ all_live (gr_arena g)) notes _ empty_graph g1 _ Hfold).
    - intros [[name meta] bs] s0 s1 Hin Hs Hb. eapply build_note_live; [exact Hs | exact Hb].
    - split; [reflexivity|]. intros i n Hn. destruct i; discriminate. }
  destruct HL as [Hok Hl].
  assert (Ht : tombs_clean (gr_arena g)) by (now apply all_live_tombs).
  destruct (index_all_exact true (gr_arena g) (arena_ok_fwd _ Hok Ht) Hl) as (ri & Hri & _).
  assert (E : import_state_v true notes = Ok (GS g ri (flat_map snd (gr_maps g)))).
  { unfold import_state_v, index_after_import_v. rewrite Hg. cbn [bind]. rewrite Hri. reflexivity. }
  eexists. split; [exact E|]. split; [|exact Hg].
  split; [exact (conj Hwf Hkd)|]. split; [exact Ht|]. eapply index_import_invariant; exact E.
Qed.


(* ================================================================================================ *)
(* B3 — whole histories                                                                              *)
(* ================================================================================================ *)

(* EVERY history from a state of the invariant: no step panics, the invariant holds at the
   end, the graph component is the Library-level history, the coverage premise of IndexHistory holds *)
Theorem run_updates_total ops : forall s, Inv s ->
  exists s', run_updates true s ops = Ok s' /\ Inv s' /\
             fold_left hist_step ops (Ok (gs_graph s)) = Ok (gs_graph s') /\
             covered_run true s ops.
Proof.
  induction ops as [|[[key meta] bs] ops IH]; intros s HI.
  - exists s. split; [reflexivity|]. split; [exact HI|]. split; [reflexivity | exact I].
  - destruct (update_state_step s key meta bs HI) as (s1 & H1 & HI1 & Hg1 & C1).
    destruct (IH s1 HI1) as (s' & H' & HI' & Hg' & C').
    exists s'. cbn [run_updates fold_left hist_step bind]. rewrite H1, Hg1. cbn [bind].
    split; [exact H'|]. split; [exact HI'|]. split; [exact Hg'|].
    cbn [covered_run]. intros s2 E. rewrite H1 in E. injection E as <-. auto.
Qed.

(* the states the corollaries below speak about *)
Definition reached (notes : list (string * option string * list dblock)) (ops : list op) (s : gstate) : Prop :=
  exists s0, import_state_v true notes = Ok s0 /\ run_updates true s0 ops = Ok s.

(* import of notes with distinct keys, then ANY history: the run succeeds (no Panic at any step),
   and the state it ends in satisfies the invariant *)
Theorem reachable_total notes ops :
  distinct_keys notes ->
  exists s, reached notes ops s /\ Inv s /\
            fold_left hist_step ops (import notes) = Ok (gs_graph s).
Proof.
  intros Hd. destruct (import_state_step notes Hd) as (s0 & H0 & HI0 & Hg0).
  destruct (run_updates_total ops s0 HI0) as (s & H & HI & Hg & _).
  exists s. split; [exists s0; auto|]. split; [exact HI|]. now rewrite Hg0.
Qed.

Theorem reached_Inv notes ops s :
  distinct_keys notes -> reached notes ops s -> Inv s.
Proof.
  intros Hd (s0 & H0 & H). destruct (import_state_step notes Hd) as (s0' & H0' & HI0 & _).
  rewrite H0 in H0'. injection H0' as <-.
  destruct (run_updates_total ops s0 HI0) as (s' & H' & HI & _). rewrite H in H'. now injection H' as <-.
Qed.

(* B3.  For notes with pairwise distinct keys and EVERY history of updates
   (updates of existing notes, insertions of new ones, any metadata): the import and every step of
   the history return normally, the graph the index is threaded along is the one Library.update_key
   computes, and the getters answer exactly the live links of the final arena, for every key.
   No premise about coverage, well-formedness or the shape of the blocks is left. *)
Theorem C04_index_no_history_reached notes ops :
  distinct_keys notes ->
  exists s0 s, import_state_v true notes = Ok s0 /\ run_updates true s0 ops = Ok s /\
    fold_left hist_step ops (import notes) = Ok (gs_graph s) /\
    forall k, block_refs_to s k = Ok (exact_refs (arena_of s) k) /\
              inline_refs_to s k = Ok (exact_inline (arena_of s) k).
Proof.
  intros Hd. destruct (reachable_total notes ops Hd) as (s & (s0 & H0 & H) & (_ & _ & HI) & Hg).
  exists s0, s. split; [exact H0|]. split; [exact H|]. split; [exact Hg|]. now apply getters_exact.
Qed.

(* ... hence incremental = fresh start, whenever the two end in the same arena *)
Corollary C04_index_history_independent_reached notes1 ops1 notes2 ops2 s1 s2 :
  distinct_keys notes1 -> reached notes1 ops1 s1 ->
  distinct_keys notes2 -> reached notes2 ops2 s2 ->
  arena_of s1 = arena_of s2 ->
  forall k, block_refs_to s1 k = block_refs_to s2 k /\ inline_refs_to s1 k = inline_refs_to s2 k.
Proof.
  intros B1 R1 B2 R2 E k.
  destruct (reached_Inv _ _ _ B1 R1) as (_ & _ & I1). destruct (reached_Inv _ _ _ B2 R2) as (_ & _ & I2).
  destruct (getters_exact s1 I1 k) as [X1 Y1]. destruct (getters_exact s2 I2 k) as [X2 Y2].
  rewrite X1, X2, Y1, Y2, E. auto.
Qed.

(* ================================================================================================ *)
(* B4 — what holds at every state of the invariant (hence at every reached state)                    *)
(* ================================================================================================ *)

Lemma Inv_arena_ok s : Inv s -> arena_ok (arena_of s) = true.
Proof. intros ([Hwf _] & _). now apply wf_b_spec in Hwf as (Hok & _). Qed.

(* (a) the hypotheses of C05_index_exact, and its conclusion at every node *)
Theorem Inv_C05 s : Inv s ->
  wf_arena (arena_of s) /\ wf_arenab (arena_of s) = true /\
  forall root, root < length (arena_of s) ->
    exists ri, index_from true (arena_of s) root = Ok ri /\
      (forall k x, In x (raw_block_refs ri k) <-> below (arena_of s) root x /\ IndexFacts.is_ref (arena_of s) x k) /\
      (forall k x, In x (raw_inline_refs ri k) <-> below (arena_of s) root x /\ IndexFacts.is_inl (arena_of s) x k).
Proof.
  intros HI. pose proof (Inv_arena_ok s HI) as Hok. destruct HI as (_ & Ht & _).
  pose proof (arena_ok_wf_arena _ Hok Ht) as W.
  split; [exact W|]. split; [now apply wf_arenab_complete|]. intros root Hr. now apply index_from_exact.
Qed.

(* (b) the hypotheses of C18_sound / C18_finite / C18_complete_* *)
Lemma Inv_idx_in_range s : Inv s -> idx_in_range s.
Proof. intros (_ & _ & (_ & B & _)) k x Hx. now apply (B k x). Qed.

(* ---------- graph_to_paths returns ---------------------------------------------------------------- *)

Lemma filter_res_ok {A} (f : A -> res bool) l :
  (forall x, In x l -> exists b, f x = Ok b) -> exists ys, filter_res f l = Ok ys.
Proof.
  induction l as [|x l IH]; intros H; [eexists; reflexivity|]. cbn [filter_res fold_right].
  destruct IH as (ys & E); [intros y Hy; apply H; now right|]. unfold filter_res in E. rewrite E. cbn [bind].
  destruct (H x (or_introl eq_refl)) as (b & ->). cbn [bind]. eauto.
Qed.

Lemma is_in_list_S f a id :
  is_in_list (S f) a id =
  (do k <- Paths.kind_at a id;
   if is_listk k then Ok true
   else if is_documentk k then Ok false
   else do p <- parent_of a id; match p with Some p => is_in_list f a p | None => Ok false end).
Proof. reflexivity. Qed.

Lemma kind_at_ok a id : id < length a -> exists n, get a id = Some n /\ Paths.kind_at a id = Ok (g_kind n).
Proof. intros H. destruct (IndexFacts.get_lt a id H) as (n & Hn). exists n. unfold Paths.kind_at. now rewrite Hn. Qed.

Lemma is_in_list_ok a : bwd a -> forall fuel id, id < length a -> id < fuel -> exists b, is_in_list fuel a id = Ok b.
Proof.
  intros B. induction fuel as [|f IH]; intros id Hid Hf; [lia|].
  rewrite is_in_list_S. destruct (kind_at_ok a id Hid) as (n & _ & ->). cbn [bind].
  destruct (is_listk (g_kind n)); [eauto|]. destruct (is_documentk (g_kind n)); [eauto|].
  destruct (parent_of_ok a id B Hid) as (r & -> & Hr). cbn [bind]. destruct r as [p|]; [|eauto].
  specialize (Hr p eq_refl). apply IH; lia.
Qed.

Section Nav.
  Variable a : arena.
  Hypothesis Hok : arena_ok a = true.

  Lemma live_prev id n : get a id = Some n -> is_emptyk (g_kind n) = false -> is_dock (g_kind n) = false ->
    exists p pn, prev_of n = Some p /\ g_prev n = Some p /\ p < id /\ get a p = Some pn /\ is_emptyk (g_kind pn) = false.
  Proof.
    intros Hn He Hd.
    destruct (node_ok_prev a id n (proj1 (arena_ok_spec a) Hok id n Hn) He Hd) as (p & pn & Hp & Hlt & Hg & Hpe).
    exists p, pn. split; [|auto]. unfold prev_of. destruct (g_kind n); try discriminate; exact Hp.
  Qed.

  (* Graph::node_key on a live node: the prev chain ends at a document *)
  Lemma graph_node_key_ok : forall fuel id, lv a id -> id < fuel -> exists k, graph_node_key fuel a id = Ok k.
  Proof.
    induction fuel as [|f IH]; intros id (n & Hn & He) Hf; [lia|].
    cbn [graph_node_key]. rewrite Hn. destruct (is_dock (g_kind n)) eqn:Hd.
    - destruct (g_kind n); try discriminate. eauto.
    - destruct (live_prev id n Hn He Hd) as (p & pn & Hp & _ & Hlt & Hg & Hpe).
      rewrite Hp. destruct (IH p (ex_intro _ pn (conj Hg Hpe)) ltac:(lia)) as (k & Hk).
      exists k. destruct (g_kind n); try discriminate; exact Hk.
  Qed.

  (* NodePointer::to_parent on a live block: there is a parent (`unwrap` in root_ok does not panic) *)
  Lemma to_parent_some : forall fuel id n, get a id = Some n -> is_emptyk (g_kind n) = false ->
    is_dock (g_kind n) = false -> id < fuel -> exists p, to_parent fuel a id = Ok (Some p) /\ p < id.
  Proof.
    induction fuel as [|f IH]; intros id n Hn He Hd Hf; [lia|].
    cbn [to_parent]. rewrite Hn.
    destruct (live_prev id n Hn He Hd) as (p & pn & Hp & Hgp & Hlt & Hg & Hpe). rewrite Hp, Hg.
    destruct (link_up a Hok id n p Hn He Hgp) as (_ & _ & pn' & Hg' & _ & Hlink & Hnot).
    rewrite Hg in Hg'. injection Hg' as <-.
    destruct (node_ok_live a p pn (proj1 (arena_ok_spec a) Hok p pn Hg) Hpe) as (_ & Hci & _).
    cbv zeta. destruct Hlink as [Hc|[Hx Hpd]].
    - rewrite Hc in Hci. cbn in Hci.
      replace (match g_kind pn with
               | KDocument _ | KSection _ | KQuote | KBList | KOList => g_child pn
               | _ => None end) with (Some id) by (destruct (g_kind pn); try discriminate; now rewrite Hc).
      unfold onat_eqb, option_eqb. rewrite Nat.eqb_refl. eauto.
    - assert (Hne : onat_eqb (match g_kind pn with
                      | KDocument _ | KSection _ | KQuote | KBList | KOList => g_child pn
                      | _ => None end) (Some id) = false).
      { destruct (g_child pn) as [c|] eqn:Hc; [|destruct (g_kind pn); reflexivity].
        assert (c <> id) by (intros ->; now apply Hnot).
        assert (Nat.eqb c id = false) by (now apply Nat.eqb_neq).
        destruct (g_kind pn); cbn; auto. }
      rewrite Hne. destruct (IH p pn Hg Hpe Hpd ltac:(lia)) as (q & -> & Hq). exists q. split; [reflexivity | lia].
  Qed.
End Nav.

Theorem graph_to_paths_total filt s :
  arena_ok (gr_arena (gs_graph s)) = true -> idx_in_range s -> exists ps, graph_to_paths filt s = Ok ps.
Proof.
  intros Hok R. pose proof (arena_ok_bwd _ Hok) as B. unfold graph_to_paths. set (a := gr_arena (gs_graph s)) in *.
  cbv zeta.
  (* the start nodes *)
  destruct (filter_res_ok (fun id => do k <- Paths.kind_at a id;
                                     if is_emptyk k then Ok false
                                     else do il <- is_in_list (nav_fuel a) a id; Ok (negb il))
                          (seq 0 (length a))) as (starts & Hst).
  { intros id Hid. apply in_seq in Hid. destruct (kind_at_ok a id ltac:(lia)) as (n & _ & ->). cbn [bind].
    destruct (is_emptyk (g_kind n)); [eauto|].
    destruct (is_in_list_ok a B (nav_fuel a) id ltac:(lia) ltac:(unfold nav_fuel; lia)) as (b & ->). cbn [bind]. eauto. }
  rewrite Hst. cbn [bind].
  assert (Hstarts : forall id, In id starts -> id < length a).
  { intros id Hid. destruct (filter_res_In _ _ _ _ Hst Hid) as [Hin _]. apply in_seq in Hin. lia. }
  (* their walks *)
  destruct (concat_res_ok (map (fun id => paths_for_node filt (paths_fuel a) s id []) starts)) as (all & Hall).
  { intros r Hr. apply in_map_iff in Hr as (id & <- & Hid).
    apply paths_for_node_terminates; auto. }
  rewrite Hall. cbn [bind].
  (* the root filter *)
  destruct (filter_res_ok (root_ok filt s) all) as (kept & Hkept).
  { intros p Hp. destruct (concat_res_In _ _ _ Hall Hp) as (xs & Hxs & Hpx).
    apply in_map_iff in Hxs as (id & Hid & _).
    destruct (paths_for_node_sound _ _ _ _ _ _ Hid p Hpx) as [C _].
    destruct p as [|first rest]; [cbn; eauto|].
    destruct (chain_first_sec _ _ _ _ C) as (l & Hl). fold a in Hl.
    unfold Paths.kind_at in Hl. destruct (get a first) as [n|] eqn:Hn; [|discriminate]. injection Hl as Hl.
    assert (He : is_emptyk (g_kind n) = false) by (now rewrite Hl).
    assert (Hd : is_dock (g_kind n) = false) by (now rewrite Hl).
    pose proof (ArenaFacts.get_lt _ _ _ Hn) as Hlt.
    unfold root_ok. fold a. cbv zeta.
    destruct (graph_node_key_ok a Hok (nav_fuel a) first (ex_intro _ n (conj Hn He)) ltac:(unfold nav_fuel; lia))
      as (key & ->). cbn [bind].
    destruct (path_refs_ok filt s key R) as (refs & -> & _). cbn [bind].
    destruct refs; [|eauto].
    destruct (to_parent_some a Hok (nav_fuel a) first n Hn He Hd ltac:(unfold nav_fuel; lia)) as (d & Hd' & Hdl).
    unfold parent_of. rewrite Hd'. cbn [bind].
    destruct (kind_at_ok a d ltac:(lia)) as (dn & _ & ->). cbn [bind]. eauto. }
  rewrite Hkept. cbn [bind]. eauto.
Qed.

Theorem Inv_C18 s : Inv s ->
  bwd (arena_of s) /\ wf_arenab (arena_of s) = true /\ idx_in_range s /\
  (forall filt id, id < length (arena_of s) ->
     exists ps, paths_for_node filt (paths_fuel (arena_of s)) s id [] = Ok ps) /\
  (forall filt, exists ps, graph_to_paths filt s = Ok ps /\
     (* C18_sound *)
     (forall p, In p ps ->
        chain filt s p /\ Forall (heading s) p /\
        exists first rest key d k,
          p = first :: rest /\ graph_node_key (nav_fuel (arena_of s)) (arena_of s) first = Ok key /\
          path_refs filt s key = Ok [] /\ parent_of (arena_of s) first = Ok (Some d) /\ doc s d k) /\
     (* C18_complete_listed *)
     (forall d h q, listed_note filt s d -> hchain s h q d ->
        exists pre, In (pre ++ q) ps /\ lastn (pre ++ q) = Some h)).
Proof.
  intros HI. pose proof (Inv_arena_ok s HI) as Hok. pose proof (Inv_idx_in_range s HI) as R.
  pose proof (arena_ok_bwd _ Hok) as B. destruct (Inv_C05 s HI) as (_ & Wb & _). unfold arena_of in *.
  split; [exact B|]. split; [exact Wb|]. split; [exact R|]. split.
  - intros filt id Hid. now apply paths_for_node_terminates.
  - intros filt. destruct (graph_to_paths_total filt s Hok R) as (ps & Hps). exists ps. split; [exact Hps|]. split.
    + intros p Hp. exact (graph_to_paths_sound filt s ps p Hps Hp).
    + intros d h q Hl Hc. exact (PathsComplete.C18_complete_listed filt s B ps d h q Hps Hl Hc).
Qed.

(* (c) the hypothesis of C17_equation / C17_terminates, and their conclusions for every key and depth *)
Theorem Inv_C17 s : Inv s ->
  collectable (gs_graph s) = true /\
  (forall key d, squash (gs_graph s) key d = squash_spec (gs_graph s) key d) /\
  (forall key root d, alookup key (gr_keys (gs_graph s)) = Some root ->
     exists doc, collect_key (gs_graph s) key = Ok doc /\
                 squash (gs_graph s) key d = Ok (expand (lk_graph (gs_graph s)) d doc)).
Proof.
  intros ([Hwf _] & _). pose proof (wf_b_collectable _ Hwf) as C.
  split; [exact C|]. split; [now apply squash_is_expand | now apply squash_terminates].
Qed.

(* the same, said of the reached states *)
Theorem reached_C05 notes ops s :
  distinct_keys notes -> reached notes ops s ->
  wf_arena (arena_of s) /\ wf_arenab (arena_of s) = true /\
  forall root, root < length (arena_of s) ->
    exists ri, index_from true (arena_of s) root = Ok ri /\
      (forall k x, In x (raw_block_refs ri k) <-> below (arena_of s) root x /\ IndexFacts.is_ref (arena_of s) x k) /\
      (forall k x, In x (raw_inline_refs ri k) <-> below (arena_of s) root x /\ IndexFacts.is_inl (arena_of s) x k).
Proof. intros B R. exact (Inv_C05 s (reached_Inv notes ops s B R)). Qed.

Theorem reached_C18 notes ops s :
  distinct_keys notes -> reached notes ops s ->
  bwd (arena_of s) /\ wf_arenab (arena_of s) = true /\ idx_in_range s /\
  (forall filt id, id < length (arena_of s) ->
     exists ps, paths_for_node filt (paths_fuel (arena_of s)) s id [] = Ok ps) /\
  (forall filt, exists ps, graph_to_paths filt s = Ok ps /\
     (forall p, In p ps ->
        chain filt s p /\ Forall (heading s) p /\
        exists first rest key d k,
          p = first :: rest /\ graph_node_key (nav_fuel (arena_of s)) (arena_of s) first = Ok key /\
          path_refs filt s key = Ok [] /\ parent_of (arena_of s) first = Ok (Some d) /\ doc s d k) /\
     (forall d h q, listed_note filt s d -> hchain s h q d ->
        exists pre, In (pre ++ q) ps /\ lastn (pre ++ q) = Some h)).
Proof. intros B R. exact (Inv_C18 s (reached_Inv notes ops s B R)). Qed.

Theorem reached_C17 notes ops s :
  distinct_keys notes -> reached notes ops s ->
  collectable (gs_graph s) = true /\
  (forall key d, squash (gs_graph s) key d = squash_spec (gs_graph s) key d) /\
  (forall key root d, alookup key (gr_keys (gs_graph s)) = Some root ->
     exists doc, collect_key (gs_graph s) key = Ok doc /\
                 squash (gs_graph s) key d = Ok (expand (lk_graph (gs_graph s)) d doc)).
Proof. intros B R. exact (Inv_C17 s (reached_Inv notes ops s B R)). Qed.

(* C20 at the reached states, for completeness: the full executable invariant *)
Theorem reached_C20 notes ops s :
  distinct_keys notes -> reached notes ops s ->
  wf_b (arena_of s) (gr_keys (gs_graph s)) = true /\ tombs_cleanb (arena_of s) = true.
Proof.
  intros B R. destruct (reached_Inv _ _ _ B R) as ([Hwf _] & Ht & _).
  split; [exact Hwf | now apply tombs_cleanb_spec].
Qed.


(* ================================================================================================ *)
(* the premises are satisfiable                                                                      *)
(* ================================================================================================ *)

(* the former witness of F-ITEMLEAD (a list item that starts with a list and holds further blocks;
   before the builder repair the update orphaned the Reference node and the getters missed it:
   IndexHistory.index_history_former_orphan): B3 covers it like any other history *)
Theorem C04_former_orphan_exact :
  exists ops s0 s k, forallb (fun o : op => forallb plain_items (snd o)) ops = false /\
    import_state_v true [] = Ok s0 /\ run_updates true s0 ops = Ok s /\
    block_refs_to s k = Ok [5] /\ exact_refs (arena_of s) k = [5].
Proof.
  exists [("d", None, orphan_note)]. eexists. eexists. exists "b".
  split; [reflexivity|]. split; [vm_compute; reflexivity|]. split; [vm_compute; reflexivity|].
  split; vm_compute; reflexivity.
Qed.

(* without distinct keys (a list that is not a map) the import already leaves a live unrooted tree
   (HistoryWF.import_wf_refuted) *)

(* three notes (headings, a block reference, nested lists, a table followed by a paragraph with a
   link, a quote, a note in a sub-directory), five updates: a rewrite, an emptied note, a table
   followed by a block reference and nested lists, a new note with metadata, the emptied note
   filled again *)
Definition Lk (u : string) := Link u "" Regular [Str u].
Definition ex_tbl := DTable (2, 5) [[Str "t"]] [ANone] [[[Str "c"]]].
Definition ex_notes : list (string * option string * list dblock) :=
  [("a", None, [DHeader (0, 1) 1 [Str "A"]; DPara (1, 2) [Lk "b"];
                DBList [[DPara (2, 3) [Str "x"; Lk "c"]; DOList [[DPara (3, 4) [Lk "d/c"]]]]; [DPara (4, 5) [Str "y"]]];
                DHeader (5, 6) 2 [Str "A2"]; ex_tbl; DPara (9, 10) [Str "see "; Lk "b"]]);
   ("b", None, [DHeader (0, 1) 1 [Str "B"]; DPara (1, 2) [Str "t"]]);
   ("d/c", None, [DHeader (0, 1) 1 [Str "C"]; DQuote (1, 3) [DPara (1, 2) [Lk "../a"]]])].
Definition ex_ops : list op :=
  [("b", None, [DHeader (0, 1) 1 [Str "B"]; DHeader (1, 2) 2 [Str "B2"]; DPara (2, 3) [Lk "d/c"]]);
   ("d/c", None, []);
   ("a", None, [DHeader (0, 1) 1 [Str "A"]; ex_tbl; DPara (5, 6) [Lk "b"];
                DBList [[DPara (6, 7) [Lk "b"]; DBList [[DPara (7, 8) [Str "deep "; Lk "b"]]]]]]);
   ("e", Some "m", [DHeader (0, 1) 1 [Str "E"]; DPara (1, 2) [Lk "a"]]);
   ("d/c", None, [DHeader (0, 1) 1 [Str "C again"]; DPara (1, 2) [Str "z"]])].

Example ex_premises : distinct_keys ex_notes.
Proof. unfold distinct_keys. vm_compute. repeat constructor; cbn; intuition discriminate. Qed.

(* the theorems apply: the run succeeds; 37 slots, 19 of them tombstones; the raw index still holds
   the dead id 2 under "b", the getters answer exactly the live links; all five headings are listed
   (a chain through two block references); squash of "e" at depth 3 returns *)
Example reachable_nonvacuous :
  exists s, reached ex_notes ex_ops s /\ Inv s /\
    length (arena_of s) = 37 /\ length (filter (fun n => is_emptyk (g_kind n)) (arena_of s)) = 19 /\
    raw_block_refs (gs_index s) "b" = [2; 26] /\
    block_refs_to s "b" = Ok [26] /\ exact_refs (arena_of s) "b" = [26] /\
    inline_refs_to s "b" = Ok [28; 30] /\ exact_inline (arena_of s) "b" = [28; 30] /\
    graph_to_paths true s = Ok [[32]; [32; 24]; [32; 24; 19]; [32; 24; 19; 20]; [32; 24; 19; 20; 35]] /\
    collectable (gs_graph s) = true /\
    (exists t, squash (gs_graph s) "e" 3 = Ok t /\ Squash.tsize t = 12).
Proof.
  destruct (reachable_total ex_notes ex_ops ex_premises) as (s & R & HI & _).
  exists s. split; [exact R|]. split; [exact HI|].
  destruct R as (s0 & H0 & H).
  assert (E : (do s0 <- import_state_v true ex_notes; run_updates true s0 ex_ops) = Ok s) by (now rewrite H0).
  clear H0 H HI s0. vm_compute in E. injection E as <-.
  repeat split; try (vm_compute; reflexivity). eexists. split; vm_compute; reflexivity.
Qed.

Example reachable_nonvacuous_getters :
  exists s0 s, import_state_v true ex_notes = Ok s0 /\ run_updates true s0 ex_ops = Ok s /\
    forall k, block_refs_to s k = Ok (exact_refs (arena_of s) k) /\
              inline_refs_to s k = Ok (exact_inline (arena_of s) k).
Proof.
  destruct (C04_index_no_history_reached ex_notes ex_ops ex_premises) as (s0 & s & H0 & H & _ & G). eauto.
Qed.

Print Assumptions arena_ok_wf_arena.
Print Assumptions arena_ok_wf_arena_iff.
Print Assumptions arena_ok_wf_arenab.
Print Assumptions arena_ok_fwd.
Print Assumptions arena_ok_bwd.
Print Assumptions arena_ok_not_wf_refuted.
Print Assumptions collect_total.
Print Assumptions wf_b_collectable.
Print Assumptions update_key_step.
Print Assumptions covers_update.
Print Assumptions update_state_step.
Print Assumptions import_state_step.
Print Assumptions run_updates_total.
Print Assumptions reachable_total.
Print Assumptions reached_Inv.
Print Assumptions C04_index_no_history_reached.
Print Assumptions C04_index_history_independent_reached.
Print Assumptions graph_to_paths_total.
Print Assumptions Inv_C05.
Print Assumptions Inv_C18.
Print Assumptions Inv_C17.
Print Assumptions reached_C05.
Print Assumptions reached_C18.
Print Assumptions reached_C17.
Print Assumptions reached_C20.
Print Assumptions C04_former_orphan_exact.
Print Assumptions reachable_nonvacuous.
