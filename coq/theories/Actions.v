(* Actions.v — the seven ActionProviders of crates/iwes/src/router/server/action.rs
   (`action`: is it offered at this node, `changes`: the document changes) and the two
   handlers of server.rs (`handle_code_action`, `handle_code_action_resolve`) over the
   library model.  A change carries the *tree* it renders (`Update.markdown` is
   `tree.iter().to_markdown(parent, options)`, rendered by Project.tree_to_markdown in the
   check).  Every reachable unwrap/expect is a Panic.  No proofs here. *)
From IweV Require Import Str Text Ast RelPath Arena Project Library TreeOps.
Local Open Scope string_scope.
Local Open Scope list_scope.

(* kinds, numbered as the harness numbers them *)
Inductive akind :=
| SectionExtract          (* 1 refactor.extract.section *)
| SubSectionsExtract      (* 2 refactor.extract.subsections *)
| InlineSection           (* 3 refactor.inline.reference.section *)
| InlineQuote             (* 4 refactor.inline.reference.quote *)
| SectionToList           (* 5 refactor.rewrite.section.list *)
| ListToSections          (* 6 refactor.rewrite.list.section *)
| ListChangeType.         (* 7 refactor.rewrite.list.type *)

Definition kind_of_nat (n : nat) : option akind :=
  match n with
  | 1 => Some SectionExtract | 2 => Some SubSectionsExtract | 3 => Some InlineSection
  | 4 => Some InlineQuote | 5 => Some SectionToList | 6 => Some ListToSections
  | 7 => Some ListChangeType | _ => None
  end.

Inductive change :=
| Create (key : string)
| Update (key : string) (parent : string) (t : tree)     (* markdown = to_markdown(parent) of t *)
| Remove (key : string).

(* graph.rs:118 / node.rs:278 node_key: follow prev links up to the document node *)
Fixpoint key_of_fuel (fuel : nat) (a : arena) (id : nat) : res string :=
  match fuel with
  | O => Panic "out of fuel"
  | S f =>
      match get a id with
      | None => Panic "arena index out of bounds"
      | Some n =>
          match g_kind n with
          | KDocument k => Ok k
          | KEmpty => Panic "node_key of an Empty node"
          | _ => match g_prev n with
                 | Some p => key_of_fuel f a p
                 | None => Panic "node_key: called `Option::unwrap()` on a `None` value"
                 end
          end
      end
  end.
Definition key_of (g : graph) (id : nat) : res string :=
  key_of_fuel (S (length (gr_arena g))) (gr_arena g) id.

(* graph.rs:508 random_key.  Sequential mode: keys().len()+1; random mode: the draw that left
   the loop is an oracle (the list of keys the implementation returned, in drawing order). *)
Inductive keygen := KSeq | KRand (draws : list string).

Definition ref_tree (key text : string) : tree := T None (NRef key text Regular) [].

(* action.rs:266 SectionExtract::extract_rec (the one-element vectors are flattened away) *)
Fixpoint extract_rec (extract_id parent_id : nat) (new_key : string) (t : tree) {struct t} : res tree :=
  match t with
  | T i n c =>
      if id_eq t parent_id then
        match tfind extract_id t with
        | None => Panic "to have node"
        | Some x =>
            Ok (T i n (insert_at (pre_sub_header_position t) (ref_tree new_key (node_plain_text (t_node x)))
                         (filter (fun ch => negb (id_eq ch extract_id)) c)))
        end
      else
        do kids <- fold_right (fun ch acc => do r <- acc; do x <- extract_rec extract_id parent_id new_key ch; Ok (x :: r)) (Ok []) c;
        Ok (T i n kids)
  end.

(* the ActionContext trait (action.rs:21): what the providers may ask the server *)
Record actx := ACtx {
  cx_key_of : nat -> res string;          (* key_of *)
  cx_collect : string -> res tree;        (* collect *)
  cx_exists : string -> bool;             (* key_exists: graph().maybe_key(key).is_some() *)
  cx_nkeys : nat                          (* graph().keys().len(), for sequential keys *)
}.

Definition graph_ctx (g : graph) : actx :=
  ACtx (key_of g) (collect_key g)
       (fun k => match alookup k (gr_keys g) with Some _ => true | None => false end)
       (length (gr_keys g)).

Definition random_key (cx : actx) (kg : keygen) (parent : string) : res (string * keygen) :=
  match kg with
  | KSeq => Ok (from_rel_link_url (dec (cx_nkeys cx + 1)) parent, KSeq)
  | KRand (k :: r) => Ok (k, KRand r)
  | KRand [] => Panic "oracle exhausted"
  end.

Section Ctx.
  Variable cx : actx.

  Definition ctx_collect (key : string) : res tree := cx_collect cx key.

  (* action.rs can_inline: the referenced note exists and is not the note that holds the reference *)
  Definition can_inline (key : string) (tree : tree) (target : nat) : bool :=
    let ik := reference_key tree target in
    negb (String.eqb ik key) && cx_exists cx ik.

  (* ---- action: Some title when offered ---- *)
  Definition action (k : akind) (target : nat) : res (option string) :=
    do key <- cx_key_of cx target;
    do tree <- ctx_collect key;
    match k with
    | SectionExtract =>
        Ok (match get_surrounding_section_id target tree with
            | Some _ => if tree_is_header target tree then Some "Extract section" else None
            | None => None
            end)
    | SubSectionsExtract =>
        Ok (match tfind target tree with
            | Some x => if is_section x && existsb is_section (t_children x) then Some "Extract sub-sections" else None
            | None => None
            end)
    | ListChangeType =>
        match get_surrounding_list_id target tree with
        | Some scope =>
            match tfind scope tree with
            | Some x => Ok (Some (if is_bullet_list x then "Change to ordered list" else "Change to bullet list"))
            | None => Panic "ListChangeType: called `Option::unwrap()` on a `None` value"
            end
        | None => Ok None
        end
    | ListToSections =>
        Ok (match get_top_level_surrounding_list_id target tree with Some _ => Some "List to sections" | None => None end)
    | InlineSection =>
        do x <- tget tree target;
        Ok (if is_reference x && can_inline key tree target &&
               match get_surrounding_section_id target tree with Some _ => true | None => false end
            then Some "Inline section" else None)
    | InlineQuote =>
        do x <- tget tree target;
        Ok (if is_reference x && can_inline key tree target then Some "Inline quote" else None)
    | SectionToList =>
        Ok (if tree_is_header target tree then Some "Section to list" else None)
    end.

  (* ---- changes ---- *)
  Fixpoint sub_extract (kg : keygen) (parent : string) (x : tree) (ids : list nat)
      : res (list (nat * (string * string)) * list change) :=
    match ids with
    | [] => Ok ([], [])
    | sid :: r =>
        do kk <- random_key cx kg parent;
        let '(new_key, kg') := kk in
        match tfind sid x with
        | None => Panic "to have section"
        | Some s =>
            do rest <- sub_extract kg' parent x r;
            Ok ((sid, (new_key, node_plain_text (t_node s))) :: fst rest,
                Create new_key :: Update new_key (key_parent new_key) s :: snd rest)
        end
    end.

  Definition changes (k : akind) (kg : keygen) (target : nat) : res (option (list change)) :=
    do key <- cx_key_of cx target;
    do tree <- ctx_collect key;
    let parent := key_parent key in
    match k with
    | SectionExtract =>
        match get_surrounding_section_id target tree with
        | Some parent_id =>
            if tree_is_header target tree then
              do kk <- random_key cx kg parent;
              let new_key := fst kk in
              do updated <- extract_rec target parent_id new_key tree;
              do sub <- tget tree target;
              Ok (Some [Create new_key; Update new_key (key_parent new_key) sub; Update key parent updated])
            else Ok None
        | None => Ok None
        end
    | SubSectionsExtract =>
        match tfind target tree with
        | Some x =>
            if is_section x && existsb is_section (t_children x) then
              let ids := flat_map (fun ch => if is_section ch then [t_id ch] else []) (t_children x) in
              if existsb (fun o => match o with None => true | Some _ => false end) ids
              then Panic "child.id.unwrap()"
              else
                do r <- sub_extract kg parent x (flat_map (fun o => match o with Some i => [i] | None => [] end) ids);
                (* HashMap::insert: a later pair for the same id replaces the earlier one *)
                Ok (Some (snd r ++ [Update key parent (extract_sections (fst r) tree)]))
            else Ok None
        | None => Ok None
        end
    | ListChangeType =>
        Ok (match get_surrounding_list_id target tree with
            | Some scope => Some [Update key parent (change_list_type scope tree)]
            | None => None
            end)
    | ListToSections =>
        Ok (match get_top_level_surrounding_list_id target tree with
            | Some scope => Some [Update key parent (unwrap_list scope tree)]
            | None => None
            end)
    | InlineSection =>
        do x <- tget tree target;
        if is_reference x then
          let inline_key := reference_key tree target in
          match get_surrounding_section_id target tree with
          | Some section_id =>
              do inl <- ctx_collect inline_key;
              Ok (Some [Remove inline_key; Update key parent (append_pre_header section_id inl (remove_node target tree))])
          | None => Ok None
          end
        else Ok None
    | InlineQuote =>
        do x <- tget tree target;
        if is_reference x then
          let inline_key := reference_key tree target in
          do inl <- ctx_collect inline_key;
          Ok (Some [Remove inline_key; Update key parent (replace target (T None NQuote (t_children inl)) tree)])
        else Ok None
    | SectionToList =>
        Ok (if tree_is_header target tree then Some [Update key parent (wrap_into_list target tree)] else None)
    end.

  (* server.rs:551 handle_code_action for one kind (`only` = that kind, empty range);
     [at_line] is graph().get_node_id_at(key, line) *)
  Definition offer_at (at_line : res (option nat)) (k : akind) : res (option (string * nat)) :=
    do id <- at_line;
    match id with
    | None => Ok None
    | Some target =>
        do a <- action k target;
        Ok (match a with Some title => Some (title, target) | None => None end)
    end.

  (* server.rs:573 handle_code_action_resolve: changes(..).unwrap() *)
  Definition handle_resolve (k : akind) (kg : keygen) (target : nat) : res (list change) :=
    do c <- changes k kg target;
    match c with
    | Some l => Ok l
    | None => Panic "resolve: called `Option::unwrap()` on a `None` value"
    end.
End Ctx.

Definition handle_code_action (g : graph) (key : string) (line : nat) (k : akind) : res (option (string * nat)) :=
  offer_at (graph_ctx g) (get_node_id_at g key line) k.
