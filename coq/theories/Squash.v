(* Squash.v — `Tree::squash_from_pointer` (crates/liwe/src/model/tree.rs:357-406),
   `NodePointer::squash_tree` (model/node.rs:290-295), `Graph::squash` (graph.rs:471-473) and
   the CLI path `squash_command` (crates/iwe/src/main.rs:171-180): the squashed tree is fed
   through `GraphBuilder::insert_from_iter` into a fresh graph and exported.

   Two models, related by theorems in SquashFacts.v:
   * [squash] — the code, transliterated over the arena (GraphNodePointer navigation
     child/next, `is_reference`, `ref_key`, `to_key` through the key map), with every
     reachable panic explicit and explicit fuel for the walk inside one note;
   * [expand] — the specification: a recursive expansion over the *collected trees* of the
     notes, by recursion on the depth and structural recursion on the tree (the guard
     checker accepting it is the termination proof for every reference graph).

   `SquashIter` (graph/squash_iter.rs) is dead code in the pinned tree (`SquashIter::new` has
   no caller, `#[allow(dead_code)]`); it is not modelled.

   No proofs in this file. *)
From IweV Require Import Str Text Ast RelPath Arena Project Library.
Local Open Scope string_scope.
Local Open Scope list_scope.

(* ---------- the order of the children (tree.rs:362-383) ----------------------------------
   children = [first child] ++ [later siblings that are not references, in order]
                            ++ [later siblings that are references, in order]
   The first child keeps its place whatever it is.  The list below is the children already
   processed, each tagged with `is_reference` of the child it came from. *)
Definition order_tagged {A} (l : list (bool * A)) : list A :=
  match l with
  | [] => []
  | c :: r => snd c :: map snd (filter (fun x => negb (fst x)) r) ++ map snd (filter (fun x => fst x) r)
  end.

(* the same order on a plain list of children *)
Definition squash_order (isr : tree -> bool) (kids : list tree) : list tree :=
  order_tagged (map (fun c => (isr c, c)) kids).

Definition is_ref_node (n : node) : bool := match n with NRef _ _ _ => true | _ => false end.
Definition is_ref (t : tree) : bool := is_ref_node (t_node t).
Definition ref_key (t : tree) : option string :=
  match t_node t with NRef k _ _ => Some k | _ => None end.

(* ---------- the specification: expansion over collected trees ------------------------------ *)

Definition lookup := string -> option tree.    (* key -> collected tree of the note, if it exists *)

(* depth 0 (`Tree::squash_from_pointer(child, 0)`): nothing is expanded; only the order of
   siblings changes *)
Fixpoint expand0 (t : tree) : tree :=
  match t with
  | T i n kids => T i n (order_tagged (map (fun c => (is_ref c, expand0 c)) kids))
  end.

(* a child that is a reference to an existing note, at depth S d', is replaced by the
   children of that note's document squashed at depth d'; any other reference is kept (as
   its depth-0 squash); a non-reference is squashed at the same depth *)
Fixpoint expand (lk : lookup) (d : nat) {struct d} : tree -> tree :=
  fix go (t : tree) {struct t} : tree :=
    match t with
    | T i n kids =>
        T i n (concat (order_tagged (map (fun c =>
          (is_ref c,
           match ref_key c with
           | Some k =>
               match d with
               | S d' => match lk k with
                         | Some doc => t_children (expand lk d' doc)
                         | None => [expand0 c]
                         end
               | O => [expand0 c]
               end
           | None => [go c]
           end)) kids)))
    end.

(* the "in place" reading of the property, for comparison (C17_order_note): same expansion
   without the re-ordering of siblings *)
Fixpoint expand_inplace (lk : lookup) (d : nat) {struct d} : tree -> tree :=
  fix go (t : tree) {struct t} : tree :=
    match t with
    | T i n kids =>
        T i n (concat (map (fun c =>
           match ref_key c with
           | Some k =>
               match d with
               | S d' => match lk k with
                         | Some doc => t_children (expand_inplace lk d' doc)
                         | None => [c]
                         end
               | O => [c]
               end
           | None => [go c]
           end) kids))
    end.

(* where the two coincide: in every sibling list, after the first child no non-reference
   follows a reference *)
Fixpoint refs_last_list (seen_ref : bool) (l : list tree) : bool :=
  match l with
  | [] => true
  | c :: r => if is_ref c then refs_last_list true r else negb seen_ref && refs_last_list seen_ref r
  end.
Fixpoint refs_last (t : tree) : bool :=
  match t with
  | T _ _ kids =>
      match kids with [] => true | _ :: r => refs_last_list false r end &&
      (fix go (l : list tree) : bool := match l with [] => true | c :: r => refs_last c && go r end) kids
  end.

(* reference nodes have no children (the builder never gives them any: `set_child_id`
   panics on a reference, Arena.v) *)
Fixpoint refs_leaf (t : tree) : bool :=
  match t with
  | T _ n kids =>
      (if is_ref_node n then match kids with [] => true | _ => false end else true) &&
      (fix go (l : list tree) : bool := match l with [] => true | c :: r => refs_leaf c && go r end) kids
  end.

(* ---------- content functions (for the statements) ------------------------------------- *)

Definition item := (option nat * node)%type.

(* pre-order list of (id, node) *)
Fixpoint items (t : tree) : list item :=
  match t with T i n kids => (i, n) :: flat_map items kids end.
Definition items_l (l : list tree) : list item := flat_map items l.

Fixpoint tsize (t : tree) : nat :=
  match t with T _ _ kids => S (fold_right (fun c n => tsize c + n) 0 kids) end.
Definition tsize_l (l : list tree) : nat := fold_right (fun c n => tsize c + n) 0 l.

(* number of reference nodes in a tree *)
Fixpoint nrefs (t : tree) : nat :=
  match t with
  | T _ n kids => (if is_ref_node n then 1 else 0) + fold_right (fun c a => nrefs c + a) 0 kids
  end.

(* one child of a node, as squash treats it (the body of the `map` in tree.rs:390-402) *)
Definition child_spec (lk : lookup) (d : nat) (c : tree) : list tree :=
  match ref_key c with
  | Some k =>
      match d with
      | S d' => match lk k with
                | Some doc => t_children (expand lk d' doc)
                | None => [expand0 c]
                end
      | O => [expand0 c]
      end
  | None => [expand lk d c]
  end.

(* the references that remain after squashing, computed without building the tree: the
   keys of the references kept, in the order of the result *)
Fixpoint remaining (lk : lookup) (d : nat) {struct d} : tree -> list string :=
  fix go (t : tree) {struct t} : list string :=
    match t with
    | T i n kids =>
        concat (order_tagged (map (fun c =>
          (is_ref c,
           match ref_key c with
           | Some k =>
               match d with
               | S d' => match lk k with
                         | Some doc => remaining lk d' doc
                         | None => [k]
                         end
               | O => [k]
               end
           | None => go c
           end)) kids))
    end.

(* ---------- the code over the arena ---------------------------------------------------------- *)

Section SquashArena.
  Variable g : graph.

  Definition sq_fuel : nat := S (length (gr_arena g)).

  (* `pointer.node()` of a GraphNodePointer (basic_iter.rs) *)
  Definition node_at (id : nat) : res (option node) :=
    match get (gr_arena g) id with
    | None => Panic "arena index out of bounds"
    | Some n => Ok (pointer_node (get_key_title g) (g_kind n))
    end.

  (* `Tree::squash_from_pointer(p, 0)`: the recursion never leaves the note.  The returned
     `Vec<Tree>` always is the singleton `vec![Tree {..}]` (tree.rs:385), so the model returns
     the tree and `.first().unwrap()` (tree.rs:397, node.rs:292-294) cannot fail. *)
  Fixpoint squash0 (fuel id : nat) {struct fuel} : res tree :=
    match fuel with
    | O => Panic "out of fuel"
    | S f =>
        match get (gr_arena g) id with
        | None => Panic "arena index out of bounds"
        | Some n =>
            match pointer_node (get_key_title g) (g_kind n) with
            | None => Panic "squash_from_pointer: pointer.node().unwrap() on an Empty node"
            | Some nd =>
                do ids <- (match g_child n with None => Ok [] | Some c => sibling_ids f (gr_arena g) c end);
                do kids <- fold_right (fun i acc =>
                             do r <- acc;
                             do x <- (do ni <- node_at i;
                                      do t <- squash0 f i;
                                      Ok (match ni with Some x => is_ref_node x | None => false end, t));
                             Ok (x :: r))
                           (Ok []) ids;
                Ok (T (Some id) nd (order_tagged kids))
            end
        end
    end.

  (* `Tree::squash_from_pointer(p, depth)`.  `depth` is a u8 in the code; `depth - 1`
     (tree.rs:396) sits behind `.filter(|_| depth > 0)`, so it is evaluated only when
     depth = S d' and is d' — the [match] below is that guard.  The argument of `unwrap_or`
     (tree.rs:398) is evaluated eagerly for every reference child: [t0]. *)
  Fixpoint squash_at (d : nat) {struct d} : nat -> nat -> res tree :=
    fix go (fuel id : nat) {struct fuel} : res tree :=
      match fuel with
      | O => Panic "out of fuel"
      | S f =>
          match get (gr_arena g) id with
          | None => Panic "arena index out of bounds"
          | Some n =>
              match pointer_node (get_key_title g) (g_kind n) with
              | None => Panic "squash_from_pointer: pointer.node().unwrap() on an Empty node"
              | Some nd =>
                  do ids <- (match g_child n with None => Ok [] | Some c => sibling_ids f (gr_arena g) c end);
                  do kids <- fold_right (fun i acc =>
                               do r <- acc;
                               do x <- (do ni <- node_at i;
                                       match ni with
                                       | Some (NRef k _ _) =>
                                           do t0 <- squash0 f i;
                                           match d with
                                           | S d' =>
                                               match alookup k (gr_keys g) with     (* child.to_key(key) *)
                                               | Some root =>
                                                   do r <- squash_at d' sq_fuel root;
                                                   Ok (true, t_children r)
                                               | None => Ok (true, [t0])
                                               end
                                           | O => Ok (true, [t0])
                                           end
                                       | _ => do t <- go f i; Ok (false, [t])
                                       end);
                               Ok (x :: r))
                             (Ok []) ids;
                  Ok (T (Some id) nd (concat (order_tagged kids)))
              end
          end
      end.

  (* Graph::squash *)
  Definition squash (key : string) (d : nat) : res tree :=
    match alookup key (gr_keys g) with
    | None => Panic "to have key"
    | Some root => squash_at d sq_fuel root
    end.

  (* the specification side on the same graph: the lookup is `collect` of the key *)
  Definition lk_graph : lookup :=
    fun k => match collect_key g k with Ok t => Some t | Panic _ => None end.

  Definition squash_spec (key : string) (d : nat) : res tree :=
    do t <- collect_key g key; Ok (expand lk_graph d t).

  (* every note of the library can be collected (its arena part is a finite tree) *)
  Definition collectable : bool :=
    forallb (fun kv => match collect (get_key_title g) (gr_arena g) (snd kv) with Ok _ => true | Panic _ => false end)
            (gr_keys g).
End SquashArena.

(* ---------- u8 arithmetic ------------------------------------------------------------------ *)
(* Rust `depth - 1` on u8: a panic in debug builds / wrap-around in release when depth = 0 *)
Definition u8_sub1 (d : nat) : res nat :=
  match d with O => Panic "attempt to subtract with overflow" | S d' => Ok d' end.

(* ---------- CLI path (main.rs:171-180) --------------------------------------------------------
   `patch.build_key_from_iter(key, TreeIter::new(&squashed))` then `patch.export_key(key)`.
   (`insert_from_iter` on a Document calls `iter.child().unwrap()`, builder.rs:352-355, but
   `TreeIter::child` is `Some` for every existing node, tree.rs:481-490, so a document without
   children is not a panic: nothing is inserted and the text is empty.)  The fresh graph has
   default options (no refs extension), no titles and no metadata, so what is exported is the
   text of the squashed tree itself.

   The projector writes a section at nesting `header_level` (a usize) as
   `GraphBlock::Header(self.header_level + 1, ..)` (model/projector.rs:38-41) and `Level` is a
   usize (model.rs:129), the type of the counter: the heading level is the nesting + 1 at
   every depth, as in [project_node] of Project.v (a nat), and `GraphBlock::to_markdown` writes
   it as that many `#` (model/graph.rs:127-133).  There is no arithmetic that can overflow on
   this path (as found the level was a u8, `header_level as u8 + 1`, which panicked at nesting
   255 - only a squashed tree gets that deep, the reader produces levels 1..6 - finding
   F-C17-1, repaired), so the CLI text is the rendering of the squashed tree for every tree:
   the result type stays [res] because the observation it is compared with is one. *)

Definition squash_cli_text (key : string) (t : tree) : res string :=
  Ok (tree_to_markdown (Opts "") [] (key_parent key) t).

(* the size bound of C17_size_bound *)
Fixpoint bound (s r d : nat) : nat :=
  match d with O => s | S d' => s + r * bound s r d' end.
