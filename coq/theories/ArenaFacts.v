(* ArenaFacts.v — theorems about the arena invariant of ArenaWF.v (C20):
   - [arena_ok] is exactly "every slot satisfies [node_ok]";
   - a disciplined [add_node] (the only way the builder links nodes) and [build_key] preserve it;
   - in a well-formed arena the walk up the prev links terminates at a document for every
     live node, with fuel bounded by the node's own id (ids only grow), and a node has the
     same owner as the node it hangs below: navigation is consistent. *)
From IweV Require Import Str Ast Arena ArenaWF.
From Coq Require Import Lia.
Local Open Scope string_scope.
Local Open Scope list_scope.

(* ---------- arena_ok, slot by slot --------------------------------------------------------- *)

Lemma nodes_ok_from_spec a off l :
  nodes_ok_from a off l = true <->
  (forall i n, nth_error l i = Some n -> node_ok a (off + i) n = true).
Proof.
  revert off; induction l as [|x l IH]; intros off; cbn [nodes_ok_from].
  - split; [intros _ i n H; destruct i; discriminate | reflexivity].
  - rewrite Bool.andb_true_iff, IH. split.
    + intros [Hx Hl] i n H. destruct i as [|i]; cbn in H.
      * inversion H; subst. now rewrite Nat.add_0_r.
      * replace (off + S i) with (S off + i) by lia. now apply Hl.
    + intros H. split.
      * specialize (H 0 x eq_refl). now rewrite Nat.add_0_r in H.
      * intros i n Hn. replace (S off + i) with (off + S i) by lia. now apply H.
Qed.

Lemma arena_ok_spec a :
  arena_ok a = true <-> (forall id n, get a id = Some n -> node_ok a id n = true).
Proof. unfold arena_ok, get. rewrite nodes_ok_from_spec. cbn. reflexivity. Qed.

(* ---------- list surgery -------------------------------------------------------------------- *)

Lemma get_lt a id n : get a id = Some n -> id < length a.
Proof. unfold get. intros H. apply nth_error_Some. congruence. Qed.

Lemma set_nth_length {A} (l : list A) n x : length (set_nth l n x) = length l.
Proof. revert n; induction l as [|y l IH]; intros [|n]; cbn; auto. Qed.

Lemma get_set_nth_same a id x : id < length a -> get (set_nth a id x) id = Some x.
Proof.
  unfold get. revert id; induction a as [|y a IH]; intros [|id] H; cbn in *; try lia; auto.
  apply IH. lia.
Qed.

Lemma get_set_nth_other a id j x : j <> id -> get (set_nth a id x) j = get a j.
Proof.
  unfold get. revert id j; induction a as [|y a IH]; intros [|id] [|j] H; cbn; auto; try congruence.
Qed.

Lemma get_app_l a b id : id < length a -> get (a ++ b) id = get a id.
Proof. unfold get. intros. now apply nth_error_app1. Qed.

Lemma get_app_new a x : get (a ++ [x]) (length a) = Some x.
Proof. unfold get. rewrite nth_error_app2 by lia. now rewrite Nat.sub_diag. Qed.

Lemma get_app_inv a x id n :
  get (a ++ [x]) id = Some n -> (id < length a /\ get a id = Some n) \/ (id = length a /\ n = x).
Proof.
  unfold get. intros H. destruct (Nat.lt_ge_cases id (length a)) as [Hlt|Hge].
  - left. split; [exact Hlt|]. now rewrite nth_error_app1 in H.
  - right. rewrite nth_error_app2 in H by lia.
    destruct (id - length a) as [|k] eqn:E; cbn in H.
    + split; [lia | congruence].
    + destruct k; discriminate.
Qed.

(* ---------- reading node_ok ------------------------------------------------------------------ *)

Lemma oeqb_true o id : oeqb o id = true <-> o = Some id.
Proof.
  destruct o as [x|]; cbn; [|split; discriminate].
  rewrite Nat.eqb_eq. split; congruence.
Qed.

Lemma node_ok_live a id n :
  node_ok a id n = true -> is_emptyk (g_kind n) = false ->
  up_ok a id n = true /\
  implb (is_some (g_child n)) (insertable (g_kind n)) = true /\ back_ok a id (g_child n) = true /\
  implb (is_some (g_next n)) (negb (is_dock (g_kind n))) = true /\ back_ok a id (g_next n) = true.
Proof.
  unfold node_ok. intros H He. rewrite He in H.
  repeat (apply Bool.andb_true_iff in H; destruct H as [H ?]). auto.
Qed.

Lemma node_ok_intro a id n :
  up_ok a id n = true ->
  implb (is_some (g_child n)) (insertable (g_kind n)) = true -> back_ok a id (g_child n) = true ->
  implb (is_some (g_next n)) (negb (is_dock (g_kind n))) = true -> back_ok a id (g_next n) = true ->
  node_ok a id n = true.
Proof.
  intros H1 H2 H3 H4 H5. unfold node_ok. destruct (is_emptyk (g_kind n)); [reflexivity|].
  now rewrite H1, H2, H3, H4, H5.
Qed.

Lemma back_ok_some a id c :
  back_ok a id (Some c) = true ->
  id < c /\ exists cn, get a c = Some cn /\ is_emptyk (g_kind cn) = false /\ g_prev cn = Some id.
Proof.
  cbn [back_ok]. intros H. apply Bool.andb_true_iff in H as [H1 H2]. apply Nat.ltb_lt in H1.
  split; [exact H1|]. destruct (get a c) as [cn|]; [|discriminate]. exists cn.
  apply Bool.andb_true_iff in H2 as [H2 H3]. apply Bool.negb_true_iff in H2. apply oeqb_true in H3. auto.
Qed.

Lemma up_ok_some a id n p :
  up_ok a id n = true -> g_prev n = Some p ->
  is_dock (g_kind n) = false /\ p < id /\
  exists pn, get a p = Some pn /\ is_emptyk (g_kind pn) = false /\
             xorb (oeqb (g_child pn) id) (oeqb (g_next pn) id) = true.
Proof.
  unfold up_ok. intros H Hp. rewrite Hp in H.
  apply Bool.andb_true_iff in H as [H H3]. apply Bool.andb_true_iff in H as [H1 H2].
  apply Bool.negb_true_iff in H1. apply Nat.ltb_lt in H2.
  split; [exact H1|]. split; [exact H2|].
  destruct (get a p) as [pn|]; [|discriminate]. exists pn.
  apply Bool.andb_true_iff in H3 as [H3 H4]. apply Bool.negb_true_iff in H3. auto.
Qed.

Lemma node_ok_ptr_lt a id n c :
  node_ok a id n = true -> is_emptyk (g_kind n) = false ->
  (g_child n = Some c \/ g_next n = Some c) -> c < length a /\ id < c.
Proof.
  intros H He Hc. destruct (node_ok_live a id n H He) as (_ & _ & Hch & _ & Hnx).
  destruct Hc as [Hc|Hc]; rewrite Hc in *.
  - destruct (back_ok_some _ _ _ Hch) as (Hlt & cn & Hg & _). split; [eapply get_lt; eauto | exact Hlt].
  - destruct (back_ok_some _ _ _ Hnx) as (Hlt & cn & Hg & _). split; [eapply get_lt; eauto | exact Hlt].
Qed.

(* ---------- add_node preserves the invariant ----------------------------------------------- *)

(* the cursor discipline: the cursor is a live node that can take the new link, and the link
   slot is free *)
Definition disciplined (a : arena) (cur : nat) (ins : bool) : Prop :=
  exists n, get a cur = Some n /\ is_emptyk (g_kind n) = false /\
    (if ins then insertable (g_kind n) = true /\ g_child n = None
     else is_dock (g_kind n) = false /\ g_next n = None).

Section AddNode.
  Variables (a : arena) (cur : nat) (ins : bool) (k : gkind) (n : gnode).
  Hypothesis Hok : arena_ok a = true.
  Hypothesis Hn : get a cur = Some n.
  Hypothesis He : is_emptyk (g_kind n) = false.
  Hypothesis Hm : if ins then insertable (g_kind n) = true /\ g_child n = None
                  else is_dock (g_kind n) = false /\ g_next n = None.
  Hypothesis Hk : is_emptyk k = false.
  Hypothesis Hkd : is_dock k = false.

  Let new_id := length a.

  Definition linked : gnode :=
    if ins then GN (g_kind n) (g_prev n) (g_next n) (Some new_id)
    else GN (g_kind n) (g_prev n) (Some new_id) (g_child n).

  Definition new_node : gnode := GN k (Some cur) None None.
  Definition a' : arena := set_nth a cur linked ++ [new_node].

  Let Hall : forall id m, get a id = Some m -> node_ok a id m = true.
  Proof. now apply arena_ok_spec. Qed.

  Let Hcur : cur < new_id.
  Proof. unfold new_id. eapply get_lt; eauto. Qed.

  Lemma a'_get id m :
    get a' id = Some m ->
    (id = new_id /\ m = new_node) \/ (id = cur /\ m = linked) \/
    (id <> cur /\ id < new_id /\ get a id = Some m).
  Proof.
    intros H. unfold a' in H. apply get_app_inv in H. rewrite set_nth_length in H.
    destruct H as [[Hlt H]|[Hid Hm']]; [|left; auto].
    right. destruct (Nat.eq_dec id cur) as [->|Hne].
    - left. rewrite get_set_nth_same in H by exact Hcur. split; congruence.
    - right. rewrite get_set_nth_other in H by exact Hne. auto.
  Qed.

  Lemma a'_get_old id : id <> cur -> id < new_id -> get a' id = get a id.
  Proof.
    intros Hne Hlt. unfold a'. rewrite get_app_l by (now rewrite set_nth_length).
    now apply get_set_nth_other.
  Qed.

  Lemma a'_get_cur : get a' cur = Some linked.
  Proof.
    unfold a'. rewrite get_app_l by (now rewrite set_nth_length). now apply get_set_nth_same.
  Qed.

  Lemma a'_get_new : get a' new_id = Some new_node.
  Proof. unfold a', new_id. rewrite <- (set_nth_length a cur linked). apply get_app_new. Qed.

  Lemma linked_kind : g_kind linked = g_kind n.
  Proof. unfold linked. destruct ins; reflexivity. Qed.
  Lemma linked_prev : g_prev linked = g_prev n.
  Proof. unfold linked. destruct ins; reflexivity. Qed.

  (* old pointers never name the new id *)
  Lemma old_ptr_ne m id c :
    get a id = Some m -> is_emptyk (g_kind m) = false ->
    (g_child m = Some c \/ g_next m = Some c) -> c <> new_id.
  Proof.
    intros Hg Hem Hc. destruct (node_ok_ptr_lt a id m c (Hall _ _ Hg) Hem Hc). unfold new_id. lia.
  Qed.

  (* a downward link to an old slot keeps checking *)
  Lemma back_ok_keep id o :
    back_ok a id o = true -> back_ok a' id o = true.
  Proof.
    destruct o as [c|]; [|reflexivity]. intros H.
    destruct (back_ok_some _ _ _ H) as (Hlt & cn & Hg & Hce & Hcp).
    pose proof (get_lt _ _ _ Hg) as Hc.
    cbn [back_ok]. replace (Nat.ltb id c) with true by (symmetry; now apply Nat.ltb_lt). cbn [andb].
    destruct (Nat.eq_dec c cur) as [->|Hne].
    - rewrite a'_get_cur, linked_kind, linked_prev. rewrite Hn in Hg. inversion Hg; subst cn.
      rewrite Hce, Hcp. cbn. now rewrite Nat.eqb_refl.
    - rewrite a'_get_old by assumption. rewrite Hg, Hce, Hcp. cbn. now rewrite Nat.eqb_refl.
  Qed.

  (* the upward link of an old node keeps checking *)
  Lemma up_ok_keep id m :
    id < new_id -> get a id = Some m -> is_emptyk (g_kind m) = false ->
    up_ok a id m = true -> up_ok a' id m = true.
  Proof.
    intros Hid Hg Hem H. unfold up_ok in *. destruct (g_prev m) as [p|] eqn:Hp; [|exact H].
    assert (H' := H). unfold up_ok in H'.
    apply Bool.andb_true_iff in H as [H H3]. rewrite H. cbn [andb].
    apply Bool.andb_true_iff in H as [_ H2]. apply Nat.ltb_lt in H2.
    destruct (get a p) as [pn|] eqn:Egp; [|discriminate].
    apply Bool.andb_true_iff in H3 as [H3 H4].
    destruct (Nat.eq_dec p cur) as [->|Hne].
    - rewrite a'_get_cur, linked_kind. rewrite Hn in Egp. inversion Egp; subst pn.
      rewrite H3. cbn [andb]. unfold linked. destruct ins; cbn [g_child g_next].
      + destruct Hm as [_ Hch]. rewrite Hch in H4. cbn [oeqb] in *.
        replace (Nat.eqb new_id id) with false by (symmetry; apply Nat.eqb_neq; lia). exact H4.
      + destruct Hm as [_ Hnx]. rewrite Hnx in H4. cbn [oeqb] in *.
        replace (Nat.eqb new_id id) with false by (symmetry; apply Nat.eqb_neq; lia). exact H4.
    - rewrite a'_get_old by lia. rewrite Egp, H3, H4. reflexivity.
  Qed.

  Theorem add_node_preserves : arena_ok a' = true.
  Proof.
    apply arena_ok_spec. intros id m Hg.
    destruct (a'_get id m Hg) as [[-> ->]|[[-> ->]|(Hne & Hlt & Hold)]].
    - (* the new node *)
      apply node_ok_intro; cbn [new_node g_child g_next g_prev g_kind is_some implb back_ok]; try reflexivity.
      unfold up_ok. cbn [new_node g_prev g_kind]. rewrite Hkd. cbn [negb andb].
      replace (Nat.ltb cur new_id) with true by (symmetry; now apply Nat.ltb_lt). cbn [andb].
      rewrite a'_get_cur, linked_kind, He. cbn [negb andb].
      assert (Hx1 : forall x, g_next n = Some x -> x <> new_id)
        by (intros x Ex; exact (old_ptr_ne n cur x Hn He (or_intror Ex))).
      assert (Hx2 : forall x, g_child n = Some x -> x <> new_id)
        by (intros x Ex; exact (old_ptr_ne n cur x Hn He (or_introl Ex))).
      unfold linked. destruct ins; cbn [g_child g_next oeqb].
      + rewrite Nat.eqb_refl. destruct (g_next n) as [x|] eqn:Ex; [|reflexivity].
        cbn [oeqb]. pose proof (Hx1 x eq_refl) as Hx.
        replace (Nat.eqb x new_id) with false by (symmetry; now apply Nat.eqb_neq). reflexivity.
      + rewrite Nat.eqb_refl. destruct (g_child n) as [x|] eqn:Ex; [|reflexivity].
        cbn [oeqb]. pose proof (Hx2 x eq_refl) as Hx.
        replace (Nat.eqb x new_id) with false by (symmetry; now apply Nat.eqb_neq). reflexivity.
    - (* the cursor node, now linked to the new node *)
      destruct (node_ok_live a cur n (Hall _ _ Hn) He) as (Hup & Hci & Hcb & Hni & Hnb).
      assert (Hnewback : back_ok a' cur (Some new_id) = true).
      { cbn [back_ok]. replace (Nat.ltb cur new_id) with true by (symmetry; now apply Nat.ltb_lt).
        rewrite a'_get_new. cbn [new_node g_kind g_prev oeqb]. rewrite Hk, Nat.eqb_refl. reflexivity. }
      assert (Hup' : up_ok a' cur linked = true).
      { pose proof (up_ok_keep cur n Hcur Hn He Hup) as H. unfold up_ok in *.
        now rewrite linked_prev, linked_kind. }
      assert (Hkc : back_ok a' cur (g_child n) = true) by (now apply back_ok_keep).
      assert (Hkn : back_ok a' cur (g_next n) = true) by (now apply back_ok_keep).
      apply node_ok_intro; [exact Hup'|..]; rewrite ?linked_kind; unfold linked; destruct ins;
        cbn [g_child g_next g_kind is_some implb].
      + now destruct Hm.
      + exact Hci.
      + exact Hnewback.
      + exact Hkc.
      + exact Hni.
      + destruct Hm as [Hd _]. now rewrite Hd.
      + exact Hkn.
      + exact Hnewback.
    - (* every other node *)
      pose proof (Hall _ _ Hold) as Hc. unfold node_ok in Hc |- *.
      destruct (is_emptyk (g_kind m)) eqn:Hem; [reflexivity|].
      repeat (apply Bool.andb_true_iff in Hc; destruct Hc as [Hc ?]).
      rewrite (up_ok_keep id m Hlt Hold Hem Hc).
      repeat (apply Bool.andb_true_iff; split); try assumption; try reflexivity;
        now apply back_ok_keep.
  Qed.

  Lemma add_node_runs st :
    b_arena st = a -> b_cur st = cur -> b_insert st = ins ->
    exists st', add_node st k = Ok st' /\ b_arena st' = a' /\ b_cur st' = new_id /\ b_insert st' = false.
  Proof.
    intros Ha Hc Hi. unfold add_node. rewrite Ha, Hc, Hi. unfold a', linked, new_node.
    destruct ins.
    - destruct Hm as [Hins Hch]. unfold set_child_id. rewrite Hn.
      destruct (g_kind n) eqn:Ek; try discriminate; cbn [bind]; eexists; repeat split; reflexivity.
    - destruct Hm as [Hdoc Hnx]. unfold set_next_id. rewrite Hn.
      destruct (g_kind n) eqn:Ek; try discriminate; cbn [bind]; eexists; repeat split; reflexivity.
  Qed.
End AddNode.

(* the statement about the builder operation itself: under the cursor discipline add_node does
   not panic, keeps the arena well formed, and leaves the cursor on the new (last) node *)
Theorem add_node_wf (st : bst) (k : gkind) :
  arena_ok (b_arena st) = true ->
  disciplined (b_arena st) (b_cur st) (b_insert st) ->
  is_emptyk k = false -> is_dock k = false ->
  exists st', add_node st k = Ok st' /\ arena_ok (b_arena st') = true /\
              b_cur st' = length (b_arena st) /\ b_insert st' = false /\
              length (b_arena st') = S (length (b_arena st)).
Proof.
  intros Hok (n & Hn & He & Hm) Hk Hkd.
  destruct (add_node_runs (b_arena st) (b_cur st) (b_insert st) k n Hn He Hm st eq_refl eq_refl eq_refl)
    as (st' & Hadd & Har & Hcur & Hins).
  exists st'. repeat split; try assumption.
  - rewrite Har. now apply add_node_preserves.
  - rewrite Har. unfold a'. rewrite app_length, set_nth_length. cbn. lia.
Qed.

(* a fresh document root (Graph::build_key) keeps the invariant, and the builder starts
   disciplined on it *)
Theorem build_key_wf (a : arena) (key : string) :
  arena_ok a = true ->
  arena_ok (b_arena (build_key a key)) = true /\
  disciplined (b_arena (build_key a key)) (b_cur (build_key a key)) (b_insert (build_key a key)).
Proof.
  intros Hok. cbn [build_key b_arena b_cur b_insert]. split.
  - assert (Hall : forall id m, get a id = Some m -> node_ok a id m = true) by (now apply arena_ok_spec).
    set (r := GN (KDocument key) None None None).
    assert (Hext : forall c cn, get a c = Some cn -> get (a ++ [r]) c = Some cn).
    { intros c cn Hc. rewrite get_app_l; [exact Hc | eapply get_lt; eauto]. }
    assert (Hback : forall id o, back_ok a id o = true -> back_ok (a ++ [r]) id o = true).
    { intros id [c|] H; [|reflexivity]. destruct (back_ok_some _ _ _ H) as (Hlt & cn & Hg & Hce & Hcp).
      cbn [back_ok]. rewrite (Hext _ _ Hg), Hce, Hcp. cbn [negb oeqb andb]. rewrite Nat.eqb_refl.
      replace (Nat.ltb id c) with true by (symmetry; now apply Nat.ltb_lt). reflexivity. }
    apply arena_ok_spec. intros id m Hg. apply get_app_inv in Hg.
    destruct Hg as [[Hlt Hg]|[-> ->]]; [|reflexivity].
    pose proof (Hall _ _ Hg) as Hc. unfold node_ok in Hc |- *.
    destruct (is_emptyk (g_kind m)) eqn:Hem; [reflexivity|].
    repeat (apply Bool.andb_true_iff in Hc; destruct Hc as [Hc ?]).
    repeat (apply Bool.andb_true_iff; split); try assumption; try (now apply Hback).
    unfold up_ok in *. destruct (g_prev m) as [p|]; [|exact Hc].
    apply Bool.andb_true_iff in Hc as [Hc1 Hc2]. rewrite Hc1. cbn [andb].
    destruct (get a p) as [pn|] eqn:Egp; [|discriminate]. now rewrite (Hext _ _ Egp).
  - exists (GN (KDocument key) None None None). split; [apply get_app_new|]. cbn. auto.
Qed.

(* ---------- navigation: every live node has exactly one owner, found in at most id steps ----- *)

Lemma node_ok_prev a id n :
  node_ok a id n = true -> is_emptyk (g_kind n) = false -> is_dock (g_kind n) = false ->
  exists p pn, g_prev n = Some p /\ p < id /\ get a p = Some pn /\ is_emptyk (g_kind pn) = false.
Proof.
  intros H He Hd. destruct (node_ok_live a id n H He) as (Hup & _).
  destruct (g_prev n) as [p|] eqn:Hp.
  - destruct (up_ok_some a id n p Hup Hp) as (_ & Hlt & pn & Hg & Hpe & _). exists p, pn. auto.
  - unfold up_ok in Hup. rewrite Hp in Hup. congruence.
Qed.

Lemma to_document_fuel a :
  arena_ok a = true ->
  forall f id n, id < f -> get a id = Some n -> is_emptyk (g_kind n) = false ->
  exists r rn key, to_document f a id = Ok r /\ r <= id /\ get a r = Some rn /\ g_kind rn = KDocument key.
Proof.
  intros Hok. assert (Hall : forall id m, get a id = Some m -> node_ok a id m = true) by (now apply arena_ok_spec).
  induction f as [|f IH]; intros id n Hlt Hn He; [lia|].
  cbn [to_document]. rewrite Hn.
  destruct (is_dock (g_kind n)) eqn:Hd.
  - destruct (g_kind n) eqn:Ek; try discriminate. exists id, n, key. repeat split; auto.
  - destruct (node_ok_prev a id n (Hall _ _ Hn) He Hd) as (p & pn & Hp & Hpl & Hgp & Hep).
    destruct (IH p pn ltac:(lia) Hgp Hep) as (r & rn & key & Hr & Hle & Hgr & Hkr).
    destruct (g_kind n) eqn:Ek; try discriminate; rewrite Hp;
      exists r, rn, key; (repeat split; [exact Hr | lia | assumption | assumption]).
Qed.

(* the owner of a live node is found in at most id+1 steps: to_document / node_key terminate *)
Theorem to_document_total a :
  arena_ok a = true ->
  forall id n, get a id = Some n -> is_emptyk (g_kind n) = false ->
  exists r rn key, to_document (S id) a id = Ok r /\ r <= id /\ get a r = Some rn /\ g_kind rn = KDocument key.
Proof. intros Hok id n. apply to_document_fuel; [exact Hok | lia]. Qed.

(* more fuel never changes the answer *)
Lemma to_document_more a f id r : to_document f a id = Ok r -> forall f', f <= f' -> to_document f' a id = Ok r.
Proof.
  revert id; induction f as [|f IH]; intros id H f' Hf; [discriminate|].
  destruct f' as [|f']; [lia|]. cbn [to_document] in H |- *.
  destruct (get a id) as [n|]; [|discriminate].
  destruct (g_kind n); try exact H; try discriminate;
    (destruct (g_prev n) as [p|]; [apply IH; [exact H | lia] | discriminate]).
Qed.

(* a node has the owner of the node it hangs below: the whole subtree of a note belongs to it *)
Theorem owner_of_linked a :
  arena_ok a = true ->
  forall id n c, get a id = Some n -> is_emptyk (g_kind n) = false ->
    (g_child n = Some c \/ g_next n = Some c) ->
    forall r, to_document (S id) a id = Ok r -> to_document (S c) a c = Ok r.
Proof.
  intros Hok id n c Hn He Hc r Hr.
  assert (Hall : forall id m, get a id = Some m -> node_ok a id m = true) by (now apply arena_ok_spec).
  destruct (node_ok_live a id n (Hall _ _ Hn) He) as (_ & _ & Hcb & _ & Hnb).
  assert (Hb : back_ok a id (Some c) = true) by (destruct Hc as [Hc|Hc]; rewrite Hc in *; assumption).
  destruct (back_ok_some _ _ _ Hb) as (Hlt & cn & Hcn & Hce & Hcp).
  destruct (node_ok_live a c cn (Hall _ _ Hcn) Hce) as (Hup & _).
  destruct (up_ok_some a c cn id Hup Hcp) as (Hnd & _).
  cbn [to_document]. rewrite Hcn.
  destruct (g_kind cn) eqn:Ek; try discriminate; rewrite Hcp;
    (apply (to_document_more a (S id)); [exact Hr | lia]).
Qed.
