(* Determinism2.v — C16, the observables other than import: where the Rust consumes the iteration
   order of a HashMap / HashSet or the schedule of rayon, the answer is a function of the SET.

     graph/index.rs:7-44     RefIndex = two HashMap<Key, HashSet<NodeId>>; the getters collect a
                             HashSet into a Vec (hash order); merge iterates `other` (hash order)
     graph.rs:384-422        Graph::get_{block,inline}_references_to: filter of that Vec
     graph/path.rs:80-140    graph_to_paths: nodes().into_par_iter() .. flat_map(paths_for_node) ..
                             collect; `sorted().dedup()`.  paths_for_node iterates the Vec of
                             referrers of a Document (hash order); the cycle guard is a HashSet
                             used for membership only
     graph.rs:75-97          search_paths: par_iter().map().collect() (order kept), stable sorted_by
     database.rs:43-77       global_search: par_iter().map().collect() over a Vec, stable
                             sorted_by, take(100)
     graph.rs:351-356        export: keys.par_iter() (hash order) collected into a HashMap

   Part 1  C16_index_sets     getters = function of the key -> id-set content
   Part 2  C16_paths_perm     graph_to_paths = function of the sets it enumerates
   Part 3  C16_search_stable  the stable sort: what ties are resolved by, and when a permuted
                              input gives the same answer
   Part 4  C16_export_perm    export sorted by key = function of the key set                *)
From Coq Require Import Lia ZArith Permutation Sorted OrdersEx.
From IweV Require Import Str Text Ast RelPath Arena Project Library Index IndexFacts Paths PathsFacts
                         Determinism.
Local Open Scope string_scope.
Local Open Scope list_scope.

(* ---------- Part 0: tools ------------------------------------------------------------------- *)

(* two runs agree: the same value, or both panic (WHICH unwrap fails first may depend on the
   order in which a set is walked; that a panic happens does not) *)
Definition res_agree {A} (r r' : res A) : Prop :=
  match r, r' with
  | Ok x, Ok y => x = y
  | Panic _, Panic _ => True
  | _, _ => False
  end.

(* the same, for lists read as sets *)
Definition res_seteq {A} (r r' : res (list A)) : Prop :=
  match r, r' with
  | Ok l, Ok l' => forall x, In x l <-> In x l'
  | Panic _, Panic _ => True
  | _, _ => False
  end.

Lemma res_agree_refl {A} (r : res A) : res_agree r r.
Proof. destruct r; cbn; auto. Qed.

Lemma res_seteq_refl {A} (r : res (list A)) : res_seteq r r.
Proof. destruct r; cbn; [tauto | auto]. Qed.

Lemma res_agree_sym {A} (r r' : res A) : res_agree r r' -> res_agree r' r.
Proof. destruct r, r'; cbn; auto. Qed.

Lemma res_agree_trans {A} (r1 r2 r3 : res A) : res_agree r1 r2 -> res_agree r2 r3 -> res_agree r1 r3.
Proof. destruct r1, r2, r3; cbn; try tauto; congruence. Qed.

(* a list sorted by a strict order is determined by its set of elements *)
Section StrictSorted.
  Context {A : Type} (lt : A -> A -> Prop).
  Hypothesis lt_irrefl : forall x, ~ lt x x.
  Hypothesis lt_trans : forall x y z, lt x y -> lt y z -> lt x z.

  Lemma strict_sorted_ext (l1 : list A) : forall l2,
    StronglySorted lt l1 -> StronglySorted lt l2 -> (forall x, In x l1 <-> In x l2) -> l1 = l2.
  Proof.
    induction l1 as [|x t1 IH]; intros l2 S1 S2 E.
    - destruct l2 as [|y t2]; [reflexivity|]. exfalso. apply (proj2 (E y)). now left.
    - destruct l2 as [|y t2]; [exfalso; apply (proj1 (E x)); now left|].
      inversion S1 as [|? ? S1t F1]; subst. inversion S2 as [|? ? S2t F2]; subst.
      rewrite Forall_forall in F1, F2.
      assert (Hxy : x = y).
      { destruct (proj1 (E x) (or_introl eq_refl)) as [Hx | Hx]; [now symmetry|].
        destruct (proj2 (E y) (or_introl eq_refl)) as [Hy | Hy]; [assumption|].
        exfalso. apply (lt_irrefl x). eapply lt_trans; [apply F1; exact Hy | apply F2; exact Hx]. }
      subst y. f_equal. apply IH; auto.
      intros z. split; intros Hz.
      + destruct (proj1 (E z) (or_intror Hz)) as [<- | H]; [|exact H].
        exfalso. apply (lt_irrefl x). now apply F1.
      + destruct (proj2 (E z) (or_intror Hz)) as [<- | H]; [|exact H].
        exfalso. apply (lt_irrefl x). now apply F2.
  Qed.
End StrictSorted.

(* ---------- Part 1: the reference index ------------------------------------------------------ *)

(* the content of a HashMap<Key, HashSet<NodeId>>: which ids are recorded under which key *)
Definition kmap_equiv (m m' : kmap) : Prop := forall k x, In x (kget k m) <-> In x (kget k m').
Definition index_equiv (ri ri' : refindex) : Prop :=
  kmap_equiv (ri_block ri) (ri_block ri') /\ kmap_equiv (ri_inline ri) (ri_inline ri').

Lemma kmap_equiv_refl m : kmap_equiv m m.
Proof. intros k x. tauto. Qed.
Lemma kmap_equiv_sym m m' : kmap_equiv m m' -> kmap_equiv m' m.
Proof. intros H k x. symmetry. apply H. Qed.
Lemma kmap_equiv_trans m1 m2 m3 : kmap_equiv m1 m2 -> kmap_equiv m2 m3 -> kmap_equiv m1 m3.
Proof. intros H1 H2 k x. rewrite (H1 k x). apply H2. Qed.

(* sort_ids: ascending without duplicates *)
Lemma insert_sorted_sorted x l : StronglySorted Nat.lt l -> StronglySorted Nat.lt (insert_sorted x l).
Proof.
  induction 1 as [|y r Hr IH Hy]; cbn [insert_sorted]; [repeat constructor|].
  destruct (Nat.ltb x y) eqn:E1.
  - apply Nat.ltb_lt in E1. constructor; [now constructor|]. constructor; [exact E1|].
    eapply Forall_impl; [|exact Hy]. intros z Hz. unfold Nat.lt in *. lia.
  - destruct (Nat.eqb x y) eqn:E2; [now constructor|].
    apply Nat.ltb_ge in E1. apply Nat.eqb_neq in E2.
    constructor; [exact IH|]. rewrite Forall_forall in *. intros z Hz.
    apply insert_sorted_In in Hz as [-> | Hz]; [unfold Nat.lt; lia | now apply Hy].
Qed.

Lemma sort_ids_sorted l : StronglySorted Nat.lt (sort_ids l).
Proof.
  unfold sort_ids. induction l as [|x l IH]; cbn [fold_right]; [constructor | now apply insert_sorted_sorted].
Qed.

Theorem sort_ids_set l l' : (forall x, In x l <-> In x l') -> sort_ids l = sort_ids l'.
Proof.
  intros E. apply (strict_sorted_ext Nat.lt Nat.lt_irrefl Nat.lt_trans); try apply sort_ids_sorted.
  intros x. now rewrite !sort_ids_In.
Qed.

(* filter_live: the tombstone filter; it panics exactly when some id is outside the arena *)
Definition liveb (a : arena) (id : nat) : bool :=
  match get a id with Some n => negb (is_emptyk (g_kind n)) | None => false end.

Lemma filter_live_cases a ids :
  ((forall i, In i ids -> i < length a) /\ filter_live a ids = Ok (filter (liveb a) ids)) \/
  ((exists i, In i ids /\ length a <= i) /\ filter_live a ids = Panic "arena index out of bounds").
Proof.
  induction ids as [|i r IH]; [left; split; [intros i [] | reflexivity]|].
  unfold filter_live in *. cbn [fold_right filter].
  destruct IH as [[B E] | [[j [Hj Lj]] E]]; rewrite E; cbn [bind].
  - unfold live, liveb. destruct (get a i) as [n|] eqn:G.
    + left. split.
      * intros j [<- | Hj]; [|now apply B]. apply nth_error_Some. unfold get in G. congruence.
      * cbn [bind]. now destruct (negb (is_emptyk (g_kind n))).
    + right. split; [|reflexivity]. exists i. split; [now left|]. now apply nth_error_None.
  - right. split; [|reflexivity]. exists j. split; [now right | exact Lj].
Qed.

Lemma filter_live_set a l l' : (forall x, In x l <-> In x l') ->
  (do r <- filter_live a l; Ok (sort_ids r)) = (do r <- filter_live a l'; Ok (sort_ids r)).
Proof.
  intros E.
  destruct (filter_live_cases a l) as [[B1 E1] | [[i [Hi Li]] E1]];
  destruct (filter_live_cases a l') as [[B2 E2] | [[j [Hj Lj]] E2]]; rewrite E1, E2; cbn [bind].
  - f_equal. apply sort_ids_set. intros x. rewrite !filter_In, E. tauto.
  - exfalso. apply E in Hj. apply B1 in Hj. lia.
  - exfalso. apply E in Hi. apply B2 in Hi. lia.
  - reflexivity.
Qed.

(* C16_index_sets.  The answers of Graph::get_block_references_to / get_inline_references_to
   (read as sorted lists) depend only on which ids are recorded under the key: not on the order
   of the entries of the key map, not on the order of the ids inside a set, not on how often an
   id was inserted.  The equality is exact, panics included. *)
Theorem index_getters_set a ri ri' :
  index_equiv ri ri' ->
  forall k, get_block_references_to a ri k = get_block_references_to a ri' k /\
            get_inline_references_to a ri k = get_inline_references_to a ri' k.
Proof.
  intros [Hb Hi] k. unfold get_block_references_to, get_inline_references_to, raw_block_refs, raw_inline_refs.
  split; apply filter_live_set; intros x; [apply Hb | apply Hi].
Qed.

(* the raw getters of RefIndex, read as sorted lists (what path.rs read before R3) *)
Theorem raw_getters_set ri ri' :
  index_equiv ri ri' ->
  forall k, sort_ids (raw_block_refs ri k) = sort_ids (raw_block_refs ri' k) /\
            sort_ids (raw_inline_refs ri k) = sort_ids (raw_inline_refs ri' k).
Proof.
  intros [Hb Hi] k. split; apply sort_ids_set; intros x; [apply Hb | apply Hi].
Qed.

(* --- which representations have the same content --- *)

(* (a) the entries of the key map in another order (keys are distinct in a HashMap) *)
Lemma alookup_perm {A} (l l' : list (string * A)) :
  Permutation l l' -> NoDup (map fst l) -> forall k, alookup k l = alookup k l'.
Proof.
  induction 1 as [|[k0 v0] l l' P IH|[k1 v1] [k2 v2] l|l1 l2 l3 P1 IH1 P2 IH2]; intros ND k.
  - reflexivity.
  - cbn [alookup]. destruct (String.eqb k k0); [reflexivity|]. apply IH. cbn in ND. now inversion ND.
  - cbn [alookup]. destruct (String.eqb k k1) eqn:E1, (String.eqb k k2) eqn:E2; try reflexivity.
    apply String.eqb_eq in E1, E2. subst. exfalso. cbn in ND. inversion ND as [|? ? Hn _]. apply Hn. now left.
  - rewrite IH1 by exact ND. apply IH2. eapply Permutation_NoDup; [|exact ND]. now apply Permutation_map.
Qed.

Lemma kmap_entries_perm m m' : Permutation m m' -> keys_nodup m -> kmap_equiv m m'.
Proof. intros P ND k x. unfold kget. now rewrite (alookup_perm m m' P ND k). Qed.

(* (b) every id set in another order (or with repetitions): entry by entry the same set *)
Lemma kmap_sets_perm m m' :
  Forall2 (fun e e' => fst e = fst e' /\ forall x, In x (snd e) <-> In x (snd e')) m m' -> kmap_equiv m m'.
Proof.
  induction 1 as [|[k1 s1] [k2 s2] m m' [Hk Hs] F IH]; intros k x; [tauto|].
  cbn [fst snd] in Hk, Hs. subst k2. unfold kget in *. cbn [alookup].
  destruct (String.eqb k k1); [apply Hs | apply IH].
Qed.

Corollary kmap_perm_both m m1 m' :
  Forall2 (fun e e' => fst e = fst e' /\ Permutation (snd e) (snd e')) m m1 ->
  Permutation m1 m' -> keys_nodup m1 -> kmap_equiv m m'.
Proof.
  intros F P ND. eapply kmap_equiv_trans; [|apply kmap_entries_perm; eassumption].
  apply kmap_sets_perm. clear P ND. induction F as [|e e' l l' [H1 H2] F IH]; constructor; [|exact IH].
  split; [exact H1|]. intros x. split; apply Permutation_in; [exact H2 | now symmetry].
Qed.

(* (c) the same (key, id) insertions in another order: `entry(key).or_default().insert(id)` *)
Definition kadd_all (ps : list (string * nat)) (m : kmap) : kmap :=
  fold_left (fun acc p => kadd (fst p) (snd p) acc) ps m.

Lemma kget_kadd_all ps : forall m k x,
  In x (kget k (kadd_all ps m)) <-> In x (kget k m) \/ In (k, x) ps.
Proof.
  unfold kadd_all. induction ps as [|[k1 i1] r IH]; intros m k x; cbn [fold_left In fst snd]; [tauto|].
  rewrite IH, kget_kadd. split.
  - intros [[H | [-> ->]] | H]; auto.
  - intros [H | [E | H]]; auto. injection E as -> ->. auto.
Qed.

Theorem kadd_order_irrelevant ps ps' m m' :
  (forall p, In p ps <-> In p ps') -> kmap_equiv m m' -> kmap_equiv (kadd_all ps m) (kadd_all ps' m').
Proof. intros E Hm k x. now rewrite !kget_kadd_all, E, (Hm k x). Qed.

(* (d) RefIndex::merge iterates `other` in hash order: any order of its entries, and merges
   applied in any order, leave the same content *)
Lemma kmerge_equiv m m' o o' :
  kmap_equiv m m' -> (forall e, In e o <-> In e o') -> kmap_equiv (kmerge m o) (kmerge m' o').
Proof.
  intros Hm Ho k x. rewrite !kget_kmerge, (Hm k x). split; intros [H | [s [H1 H2]]]; auto;
    right; exists s; split; auto; now apply Ho.
Qed.

Lemma kmerge_comm m o1 o2 : kmap_equiv (kmerge (kmerge m o1) o2) (kmerge (kmerge m o2) o1).
Proof. intros k x. rewrite !kget_kmerge. tauto. Qed.

Theorem merge_order_irrelevant ri ri' o o' :
  index_equiv ri ri' ->
  Permutation (ri_block o) (ri_block o') -> Permutation (ri_inline o) (ri_inline o') ->
  index_equiv (merge ri o) (merge ri' o').
Proof.
  intros [Hb Hi] Pb Pi. split; cbn [merge ri_block ri_inline]; apply kmerge_equiv; auto;
    intros e; split; apply Permutation_in; auto; now symmetry.
Qed.

(* ---------- Part 2: graph_to_paths ------------------------------------------------------------ *)

(* --- path_cmp (Ord for Vec<NodeId>) is a total order --- *)

Lemma path_cmp_refl p : path_cmp p p = Eq.
Proof. induction p as [|x p IH]; cbn [path_cmp]; [reflexivity|]. now rewrite Nat.compare_refl. Qed.

Lemma path_cmp_antisym p : forall q, path_cmp q p = CompOpp (path_cmp p q).
Proof.
  induction p as [|x p IH]; intros [|y q]; cbn [path_cmp]; try reflexivity.
  rewrite (Nat.compare_antisym x y). destruct (Nat.compare x y); cbn [CompOpp]; auto.
Qed.

Lemma path_cmp_trans p : forall q r, path_cmp p q = Lt -> path_cmp q r = Lt -> path_cmp p r = Lt.
Proof.
  induction p as [|x p IH]; intros [|y q] [|z r]; cbn [path_cmp]; try discriminate; auto.
  destruct (Nat.compare x y) eqn:Exy; try discriminate; intros H1;
  destruct (Nat.compare y z) eqn:Eyz; try discriminate; intros H2.
  - apply Nat.compare_eq in Exy, Eyz. subst. rewrite Nat.compare_refl. eapply IH; eauto.
  - apply Nat.compare_eq in Exy. subst. now rewrite Eyz.
  - apply Nat.compare_eq in Eyz. subst. now rewrite Exy.
  - apply Nat.compare_lt_iff in Exy, Eyz. assert (E : Nat.compare x z = Lt) by (apply Nat.compare_lt_iff; lia).
    now rewrite E.
Qed.

Definition plt (p q : list nat) : Prop := path_cmp p q = Lt.
Definition ple (p q : list nat) : Prop := path_cmp p q <> Gt.

Lemma plt_irrefl p : ~ plt p p.
Proof. unfold plt. rewrite path_cmp_refl. discriminate. Qed.

(* antisymmetric, transitive, total *)
Theorem path_cmp_total_order :
  (forall p q, ple p q -> ple q p -> p = q) /\
  (forall p q r, ple p q -> ple q r -> ple p r) /\
  (forall p q, ple p q \/ ple q p).
Proof.
  unfold ple. split; [|split].
  - intros p q H1 H2. apply path_cmp_eq. rewrite (path_cmp_antisym p q) in H2.
    destruct (path_cmp p q); cbn in *; congruence.
  - intros p q r H1 H2.
    destruct (path_cmp p q) eqn:E1; [apply path_cmp_eq in E1; now subst | | congruence].
    destruct (path_cmp q r) eqn:E2; [apply path_cmp_eq in E2; subst; congruence | | congruence].
    rewrite (path_cmp_trans p q r E1 E2). discriminate.
  - intros p q. rewrite (path_cmp_antisym p q). destruct (path_cmp p q); cbn; [left | left | right]; discriminate.
Qed.

(* --- sort_paths = sorted().dedup(): strictly ascending, same set --- *)

Lemma insert_path_iff x p l : In x (insert_path p l) <-> x = p \/ In x l.
Proof. split; [apply insert_path_In | apply insert_path_mem]. Qed.

Lemma sort_paths_iff x l : In x (sort_paths l) <-> In x l.
Proof. split; [apply sort_paths_In | apply sort_paths_mem]. Qed.

Lemma insert_path_sorted p l : StronglySorted plt l -> StronglySorted plt (insert_path p l).
Proof.
  induction 1 as [|q r Hr IH Hq]; cbn [insert_path]; [repeat constructor|].
  destruct (path_cmp p q) eqn:E.
  - now constructor.
  - constructor; [now constructor|]. constructor; [exact E|].
    eapply Forall_impl; [|exact Hq]. intros z Hz. eapply path_cmp_trans; eauto.
  - constructor; [exact IH|]. rewrite Forall_forall in *. intros z Hz.
    apply insert_path_iff in Hz as [-> | Hz]; [|now apply Hq].
    unfold plt. rewrite (path_cmp_antisym p q), E. reflexivity.
Qed.

Lemma sort_paths_sorted l : StronglySorted plt (sort_paths l).
Proof.
  unfold sort_paths. induction l as [|x l IH]; cbn [fold_right]; [constructor | now apply insert_path_sorted].
Qed.

(* the last step of graph_to_paths: the answer depends only on the SET of collected paths -
   whatever order the parallel flat_map delivered them in, and however often a path occurs *)
Theorem sort_paths_set l l' : (forall p, In p l <-> In p l') -> sort_paths l = sort_paths l'.
Proof.
  intros E. apply (strict_sorted_ext plt plt_irrefl path_cmp_trans); try apply sort_paths_sorted.
  intros x. now rewrite !sort_paths_iff.
Qed.

(* the model folds `sorted()` and `dedup()` into one insertion; spelled out as in the Rust:
   a plain (duplicate keeping) sort followed by the removal of adjacent equal elements *)
Fixpoint pins (p : list nat) (l : list (list nat)) : list (list nat) :=
  match l with
  | [] => [p]
  | q :: r => match path_cmp p q with Gt => q :: pins p r | _ => p :: l end
  end.
Definition psort (l : list (list nat)) : list (list nat) := fold_right pins [] l.
Fixpoint dedup_adj (l : list (list nat)) : list (list nat) :=
  match l with
  | x :: r => match r with
              | y :: _ => match path_cmp x y with Eq => dedup_adj r | _ => x :: dedup_adj r end
              | [] => [x]
              end
  | [] => []
  end.

Lemma pins_iff x p l : In x (pins p l) <-> x = p \/ In x l.
Proof.
  induction l as [|q r IH]; cbn [pins In]; [intuition|].
  destruct (path_cmp p q); cbn [In]; rewrite ?IH; intuition.
Qed.

Lemma psort_iff x l : In x (psort l) <-> In x l.
Proof. unfold psort. induction l as [|y r IH]; cbn [fold_right In]; [tauto|]. rewrite pins_iff, IH. intuition. Qed.

Lemma psort_perm l : Permutation (psort l) l.
Proof.
  unfold psort. induction l as [|p l IH]; cbn [fold_right]; [constructor|].
  transitivity (p :: fold_right pins [] l); [|now constructor].
  generalize (fold_right pins [] l). intros m. induction m as [|q r IHm]; cbn [pins]; [reflexivity|].
  destruct (path_cmp p q); try reflexivity. rewrite IHm. apply perm_swap.
Qed.

Lemma ple_trans p q r : ple p q -> ple q r -> ple p r.
Proof. apply path_cmp_total_order. Qed.

Lemma pins_sorted p l : StronglySorted ple l -> StronglySorted ple (pins p l).
Proof.
  induction 1 as [|q r Hr IH Hq]; cbn [pins]; [repeat constructor|].
  assert (Hle : path_cmp p q <> Gt -> StronglySorted ple (p :: q :: r)).
  { intros H. constructor; [now constructor|]. constructor; [exact H|].
    eapply Forall_impl; [|exact Hq]. intros z Hz. eapply ple_trans; eauto. }
  destruct (path_cmp p q) eqn:E; try (apply Hle; discriminate).
  constructor; [exact IH|]. rewrite Forall_forall in *. intros z Hz.
  apply pins_iff in Hz as [-> | Hz]; [|now apply Hq].
  unfold ple. rewrite (path_cmp_antisym p q), E. discriminate.
Qed.

Lemma psort_sorted l : StronglySorted ple (psort l).
Proof. unfold psort. induction l as [|x l IH]; cbn [fold_right]; [constructor | now apply pins_sorted]. Qed.

Lemma dedup_adj_iff x l : In x (dedup_adj l) <-> In x l.
Proof.
  induction l as [|y [|z r] IH]; [tauto | cbn; tauto |].
  change (dedup_adj (y :: z :: r)) with
    (match path_cmp y z with Eq => dedup_adj (z :: r) | _ => y :: dedup_adj (z :: r) end).
  destruct (path_cmp y z) eqn:E.
  - apply path_cmp_eq in E. subst z. rewrite IH. cbn [In]. tauto.
  - cbn [In] in *. rewrite IH. tauto.
  - cbn [In] in *. rewrite IH. tauto.
Qed.

Lemma dedup_adj_sorted l : StronglySorted ple l -> StronglySorted plt (dedup_adj l).
Proof.
  induction l as [|y [|z r] IH]; intros S; [constructor | repeat constructor |].
  change (dedup_adj (y :: z :: r)) with
    (match path_cmp y z with Eq => dedup_adj (z :: r) | _ => y :: dedup_adj (z :: r) end).
  inversion S as [|? ? St F]; subst. specialize (IH St). rewrite Forall_forall in F.
  assert (Hlt : path_cmp y z = Lt -> StronglySorted plt (y :: dedup_adj (z :: r))).
  { intros E. constructor; [exact IH|]. rewrite Forall_forall. intros w Hw. apply (proj1 (dedup_adj_iff _ _)) in Hw.
    destruct Hw as [<- | Hw]; [exact E|].
    inversion St as [|? ? _ Fz]; subst. rewrite Forall_forall in Fz. specialize (Fz w Hw).
    unfold ple in Fz. destruct (path_cmp z w) eqn:E2; [apply path_cmp_eq in E2; now subst | | congruence].
    eapply path_cmp_trans; eauto. }
  destruct (path_cmp y z) eqn:E; [exact IH | now apply Hlt |].
  exfalso. apply (F z (or_introl eq_refl)). exact E.
Qed.

Theorem sort_paths_is_sorted_dedup l : sort_paths l = dedup_adj (psort l).
Proof.
  apply (strict_sorted_ext plt plt_irrefl path_cmp_trans).
  - apply sort_paths_sorted.
  - apply dedup_adj_sorted, psort_sorted.
  - intros x. now rewrite sort_paths_iff, dedup_adj_iff, psort_iff.
Qed.

(* --- graph_to_paths with the two enumeration orders made explicit --- *)

(* [refs k]: the Vec that Graph::get_block_references_to(k) hands to path.rs (a HashSet collected
   in hash order, then filtered); [order]: the order in which the start nodes are taken
   (graph.nodes() is the arena Vec and rayon's flat_map keeps it; the theorem does not need that) *)
Fixpoint pfn (refs : string -> res (list nat)) (fuel : nat) (a : arena) (id : nat) (visited : list nat)
  : res (list (list nat)) :=
  match fuel with
  | O => Panic "out of fuel"
  | S f =>
      if mem id visited then Ok []
      else
        let visited' := id :: visited in
        do k <- kind_at a id;
        match k with
        | KDocument key =>
            do rs <- refs key;
            concat_res (map (fun r => do p <- parent_of a r;
                                      match p with
                                      | Some p => pfn refs f a p visited'
                                      | None => Ok []
                                      end) rs)
        | KSection _ =>
            do p <- parent_of a id;
            do ps <- match p with
                     | Some p => pfn refs f a p visited'
                     | None => Ok []
                     end;
            Ok (map (fun q => q ++ [id]) ps ++ [[id]])
        | _ => Ok []
        end
  end.

Definition root_ok_gen (refs : string -> res (list nat)) (a : arena) (p : list nat) : res bool :=
  match p with
  | [] => Ok false
  | first :: _ =>
      do key <- graph_node_key (nav_fuel a) a first;
      do rs <- refs key;
      match rs with
      | _ :: _ => Ok false
      | [] => do par <- parent_of a first;
              match par with
              | None => Panic "unwrap on None"
              | Some d => do k <- kind_at a d; Ok (is_documentk k)
              end
      end
  end.

Definition start_ok (a : arena) (id : nat) : res bool :=
  do k <- kind_at a id;
  if is_emptyk k then Ok false
  else do il <- is_in_list (nav_fuel a) a id; Ok (negb il).

Definition graph_to_paths_gen (refs : string -> res (list nat)) (order : list nat) (a : arena)
  : res (list (list nat)) :=
  do starts <- filter_res (start_ok a) order;
  do all <- concat_res (map (fun id => pfn refs (paths_fuel a) a id []) starts);
  do kept <- filter_res (root_ok_gen refs a) all;
  Ok (sort_paths kept).

(* the model of Paths.v is the instance: referrers as the model's getter gives them (sorted),
   start nodes in arena order *)
Lemma pfn_model filt s : forall fuel id visited,
  paths_for_node filt fuel s id visited = pfn (path_refs filt s) fuel (gr_arena (gs_graph s)) id visited.
Proof.
  induction fuel as [|f IH]; intros id visited; [reflexivity|].
  cbn [paths_for_node pfn]. destruct (mem id visited); [reflexivity|].
  destruct (kind_at (gr_arena (gs_graph s)) id) as [k|e]; [|reflexivity]. cbn [bind].
  destruct k; try reflexivity.
  - destruct (path_refs filt s key) as [rs|e]; [|reflexivity]. cbn [bind]. f_equal.
    apply map_ext. intros r. destruct (parent_of (gr_arena (gs_graph s)) r) as [[p|]|e]; cbn [bind]; auto.
  - destruct (parent_of (gr_arena (gs_graph s)) id) as [[p|]|e]; cbn [bind]; auto. now rewrite IH.
Qed.

Theorem graph_to_paths_is_gen filt s :
  graph_to_paths filt s =
  graph_to_paths_gen (path_refs filt s) (seq 0 (length (gr_arena (gs_graph s)))) (gr_arena (gs_graph s)).
Proof.
  unfold graph_to_paths, graph_to_paths_gen. cbn zeta.
  change (fun id => do k <- kind_at (gr_arena (gs_graph s)) id;
                    if is_emptyk k then Ok false
                    else do il <- is_in_list (nav_fuel (gr_arena (gs_graph s))) (gr_arena (gs_graph s)) id; Ok (negb il))
    with (start_ok (gr_arena (gs_graph s))).
  destruct (filter_res (start_ok (gr_arena (gs_graph s))) (seq 0 (length (gr_arena (gs_graph s))))) as [starts|e];
    [|reflexivity]. cbn [bind].
  rewrite (map_ext _ (fun id => pfn (path_refs filt s) (paths_fuel (gr_arena (gs_graph s))) (gr_arena (gs_graph s)) id []))
    by (intros id; apply pfn_model).
  reflexivity.
Qed.

(* --- what concat_res / filter_res do with sets --- *)

Lemma concat_res_cases {A} (L : list (res (list A))) :
  (exists ys, concat_res L = Ok ys /\ (forall r, In r L -> exists xs, r = Ok xs) /\
              forall y, In y ys <-> exists xs, In (Ok xs) L /\ In y xs) \/
  ((exists s, concat_res L = Panic s) /\ exists s, In (Panic s) L).
Proof.
  induction L as [|r L IH].
  - left. exists []. split; [reflexivity|]. split; [intros r []|]. intros y. split; [intros [] | intros [xs [[] _]]].
  - change (concat_res (r :: L)) with (do x <- r; do y <- concat_res L; Ok (x ++ y)).
    destruct r as [x|s]; cbn [bind].
    + destruct IH as [[ys [E [AllOk M]]] | [[s E] [s' Hs']]].
      * left. rewrite E. cbn [bind]. exists (x ++ ys). split; [reflexivity|]. split.
        { intros r [<- | Hr]; [eauto | now apply AllOk]. }
        intros y. rewrite in_app_iff, M. split.
        { intros [H | [xs [H1 H2]]]; [exists x; split; [now left | exact H] | exists xs; split; [now right | exact H2]]. }
        { intros [xs [[E1 | H1] H2]]; [injection E1 as ->; now left | right; eauto]. }
      * right. rewrite E. cbn [bind]. split; [eauto|]. exists s'. now right.
    + right. split; [eauto|]. exists s. now left.
Qed.

Lemma concat_res_seteq {A B} (F F' : B -> res (list A)) l l' :
  (forall x, In x l <-> In x l') -> (forall x, In x l -> res_seteq (F x) (F' x)) ->
  res_seteq (concat_res (map F l)) (concat_res (map F' l')).
Proof.
  intros El EF.
  destruct (concat_res_cases (map F l)) as [[ys [E [AllOk M]]] | [[s E] [s1 Hs1]]];
  destruct (concat_res_cases (map F' l')) as [[ys' [E' [AllOk' M']]] | [[s' E'] [s1' Hs1']]];
  rewrite E, E'; cbn [res_seteq]; auto.
  - intros y. rewrite M, M'. split.
    + intros [xs [H1 H2]]. apply in_map_iff in H1 as [b [Hb Hin]].
      specialize (EF b Hin). rewrite Hb in EF.
      destruct (F' b) as [xs'|] eqn:Fb'; cbn in EF; [|contradiction].
      exists xs'. split; [apply in_map_iff; exists b; split; [exact Fb' | now apply El] | now apply EF].
    + intros [xs' [H1 H2]]. apply in_map_iff in H1 as [b [Hb Hin]]. apply El in Hin.
      specialize (EF b Hin). rewrite Hb in EF.
      destruct (F b) as [xs|] eqn:Fb; cbn in EF; [|contradiction].
      exists xs. split; [apply in_map_iff; exists b; split; [exact Fb | exact Hin] | now apply EF].
  - apply in_map_iff in Hs1' as [b [Hb Hin]]. apply El in Hin. specialize (EF b Hin). rewrite Hb in EF.
    destruct (AllOk (F b)) as [xs Hx]; [apply in_map_iff; eauto|]. rewrite Hx in EF. exact EF.
  - apply in_map_iff in Hs1 as [b [Hb Hin]]. specialize (EF b Hin). rewrite Hb in EF.
    destruct (AllOk' (F' b)) as [xs Hx]; [apply in_map_iff; exists b; split; [reflexivity | now apply El]|].
    rewrite Hx in EF. exact EF.
Qed.

Lemma filter_res_cases {A} (f : A -> res bool) l :
  (exists ys, filter_res f l = Ok ys /\ (forall x, In x l -> exists b, f x = Ok b) /\
              forall y, In y ys <-> In y l /\ f y = Ok true) \/
  ((exists s, filter_res f l = Panic s) /\ exists x s, In x l /\ f x = Panic s).
Proof.
  induction l as [|x l IH].
  - left. exists []. split; [reflexivity|]. split; [intros x []|]. intros y. cbn. tauto.
  - change (filter_res f (x :: l)) with (do r <- filter_res f l; do b <- f x; Ok (if b then x :: r else r)).
    destruct IH as [[ys [E [AllOk M]]] | [[s E] [x' [s' [Hin Hs']]]]]; rewrite E; cbn [bind].
    + destruct (f x) as [b|s] eqn:Fx; cbn [bind].
      * left. eexists. split; [reflexivity|]. split.
        { intros z [<- | Hz]; [eauto | now apply AllOk]. }
        intros y. destruct b; cbn [In]; rewrite M; split.
        { intros [<- | [H1 H2]]; [split; [now left | exact Fx] | split; [now right | exact H2]]. }
        { intros [[<- | H1] H2]; [now left | right; auto]. }
        { intros [H1 H2]. split; [now right | exact H2]. }
        { intros [[<- | H1] H2]; [congruence | auto]. }
      * right. split; [eauto|]. exists x, s. split; [now left | exact Fx].
    + right. split; [eauto|]. exists x', s'. split; [now right | exact Hs'].
Qed.

Lemma filter_res_seteq {A} (f f' : A -> res bool) l l' :
  (forall x, In x l <-> In x l') -> (forall x, In x l -> res_agree (f x) (f' x)) ->
  res_seteq (filter_res f l) (filter_res f' l').
Proof.
  intros El Ef.
  destruct (filter_res_cases f l) as [[ys [E [AllOk M]]] | [[s E] [x1 [s1 [Hin1 Hs1]]]]];
  destruct (filter_res_cases f' l') as [[ys' [E' [AllOk' M']]] | [[s' E'] [x1' [s1' [Hin1' Hs1']]]]];
  rewrite E, E'; cbn [res_seteq]; auto.
  - intros y. rewrite M, M'. split.
    + intros [H1 H2]. split; [now apply El|]. specialize (Ef y H1). rewrite H2 in Ef.
      destruct (f' y); cbn in Ef; [now subst | contradiction].
    + intros [H1 H2]. apply El in H1. split; [exact H1|]. specialize (Ef y H1). rewrite H2 in Ef.
      destruct (f y); cbn in Ef; [now subst | contradiction].
  - apply El in Hin1'. specialize (Ef x1' Hin1'). rewrite Hs1' in Ef.
    destruct (AllOk x1' Hin1') as [b Hb]. rewrite Hb in Ef. exact Ef.
  - specialize (Ef x1 Hin1). rewrite Hs1 in Ef. apply El in Hin1.
    destruct (AllOk' x1 Hin1) as [b Hb]. rewrite Hb in Ef. exact Ef.
Qed.

Lemma bind_seteq {A B} (r r' : res (list A)) (k k' : list A -> res (list B)) :
  res_seteq r r' -> (forall l l', (forall x, In x l <-> In x l') -> res_seteq (k l) (k' l')) ->
  res_seteq (bind r k) (bind r' k').
Proof. destruct r, r'; cbn; auto; contradiction. Qed.

Lemma bind_seteq_agree {A B} (r r' : res (list A)) (k k' : list A -> res B) :
  res_seteq r r' -> (forall l l', (forall x, In x l <-> In x l') -> res_agree (k l) (k' l')) ->
  res_agree (bind r k) (bind r' k').
Proof. destruct r, r'; cbn; auto; contradiction. Qed.

(* --- the invariance --- *)

Definition refs_equiv (refs refs' : string -> res (list nat)) : Prop := forall k, res_seteq (refs k) (refs' k).

Lemma pfn_seteq refs refs' a : refs_equiv refs refs' ->
  forall fuel id visited, res_seteq (pfn refs fuel a id visited) (pfn refs' fuel a id visited).
Proof.
  intros ER. induction fuel as [|f IH]; intros id visited; [exact I|].
  cbn [pfn]. destruct (mem id visited); [cbn; tauto|].
  destruct (kind_at a id) as [k|e]; [|exact I]. cbn [bind].
  destruct k; try (cbn; tauto).
  - apply bind_seteq; [apply ER|]. intros rs rs' El. apply concat_res_seteq; [exact El|].
    intros r _. destruct (parent_of a r) as [[p|]|e]; cbn [bind]; [apply IH | cbn; tauto | exact I].
  - destruct (parent_of a id) as [[p|]|e]; cbn [bind]; [| cbn; tauto | exact I].
    apply bind_seteq; [apply IH|]. intros ps ps' El. cbn [res_seteq]. intros x.
    rewrite !in_app_iff, !in_map_iff. split; intros [[q [H1 H2]] | H]; auto; left; exists q; split; auto; now apply El.
Qed.

Lemma root_ok_gen_agree refs refs' a p : refs_equiv refs refs' ->
  res_agree (root_ok_gen refs a p) (root_ok_gen refs' a p).
Proof.
  intros ER. destruct p as [|first r]; [reflexivity|]. cbn [root_ok_gen].
  destruct (graph_node_key (nav_fuel a) a first) as [key|e]; [|exact I]. cbn [bind].
  specialize (ER key). destruct (refs key) as [l|e], (refs' key) as [l'|e']; cbn in ER; try contradiction; [|exact I].
  cbn [bind]. destruct l as [|x l], l' as [|x' l'].
  - apply res_agree_refl.
  - exfalso. apply (proj2 (ER x')). now left.
  - exfalso. apply (proj1 (ER x)). now left.
  - reflexivity.
Qed.

(* C16_paths_perm.  Whatever order the start nodes are enumerated in and whatever order (and
   multiplicity) every referrer set is handed over in, graph_to_paths returns the same list -
   or panics in both runs.  Only WHICH panic is met first can depend on the order. *)
Theorem graph_to_paths_order_irrelevant refs refs' order order' a :
  refs_equiv refs refs' -> (forall x, In x order <-> In x order') ->
  res_agree (graph_to_paths_gen refs order a) (graph_to_paths_gen refs' order' a).
Proof.
  intros ER EO. unfold graph_to_paths_gen.
  apply bind_seteq_agree; [apply filter_res_seteq; [exact EO | intros; apply res_agree_refl]|].
  intros st st' Est. apply bind_seteq_agree.
  - apply concat_res_seteq; [exact Est|]. intros id _. now apply pfn_seteq.
  - intros al al' Eal. apply bind_seteq_agree.
    + apply filter_res_seteq; [exact Eal|]. intros p _. now apply root_ok_gen_agree.
    + intros kp kp' Ekp. cbn [res_agree]. now apply sort_paths_set.
Qed.

(* --- instance 1: the Rust getter does not sort; the model's path_refs does.  Harmless. --- *)

(* Graph::get_block_references_to as path.rs consumes it: the ids under [k] of ANY map with the
   same content as the index, in that map's own order, tombstones filtered, NOT sorted *)
Definition hash_refs (a : arena) (m : kmap) (k : string) : res (list nat) := filter_live a (kget k m).

Lemma hash_refs_equiv s m :
  kmap_equiv (ri_block (gs_index s)) m ->
  refs_equiv (path_refs true s) (hash_refs (gr_arena (gs_graph s)) m).
Proof.
  intros Hm k. unfold path_refs, block_refs_to, get_block_references_to, hash_refs, raw_block_refs.
  destruct (filter_live_cases (gr_arena (gs_graph s)) (kget k (ri_block (gs_index s)))) as [[B1 E1] | [[i [Hi Li]] E1]];
  destruct (filter_live_cases (gr_arena (gs_graph s)) (kget k m)) as [[B2 E2] | [[j [Hj Lj]] E2]];
    rewrite E1, E2; cbn [bind res_seteq]; auto.
  - intros x. rewrite sort_ids_In, !filter_In, (Hm k x). tauto.
  - apply Hm in Hj. apply B1 in Hj. lia.
  - apply Hm in Hi. apply B2 in Hi. lia.
Qed.

Theorem graph_to_paths_hash_order s m order :
  kmap_equiv (ri_block (gs_index s)) m ->
  (forall x, In x order <-> x < length (gr_arena (gs_graph s))) ->
  res_agree (graph_to_paths true s)
            (graph_to_paths_gen (hash_refs (gr_arena (gs_graph s)) m) order (gr_arena (gs_graph s))).
Proof.
  intros Hm Ho. rewrite graph_to_paths_is_gen. apply graph_to_paths_order_irrelevant.
  - now apply hash_refs_equiv.
  - intros x. rewrite Ho, in_seq. lia.
Qed.

(* the same for the as-found variant of path.rs (raw RefIndex getter, tombstones included) *)
Definition raw_refs (m : kmap) (k : string) : res (list nat) := Ok (kget k m).

Theorem graph_to_paths_hash_order_raw s m order :
  kmap_equiv (ri_block (gs_index s)) m ->
  (forall x, In x order <-> x < length (gr_arena (gs_graph s))) ->
  res_agree (graph_to_paths false s) (graph_to_paths_gen (raw_refs m) order (gr_arena (gs_graph s))).
Proof.
  intros Hm Ho. rewrite graph_to_paths_is_gen. apply graph_to_paths_order_irrelevant.
  - intros k. unfold path_refs, raw_refs, raw_block_refs. cbn [res_seteq]. intros x. rewrite sort_ids_In. apply Hm.
  - intros x. rewrite Ho, in_seq. lia.
Qed.

(* --- instance 2: two states that differ only in the representation of the index --- *)

Definition state_equiv (s s' : gstate) : Prop :=
  gs_graph s = gs_graph s' /\ gs_lines s = gs_lines s' /\ index_equiv (gs_index s) (gs_index s').

Lemma state_block_refs s s' : state_equiv s s' -> forall k, block_refs_to s k = block_refs_to s' k.
Proof.
  intros [Hg [_ Hi]] k. unfold block_refs_to. rewrite Hg. apply (index_getters_set _ _ _ Hi k).
Qed.

Lemma state_inline_refs s s' : state_equiv s s' -> forall k, inline_refs_to s k = inline_refs_to s' k.
Proof.
  intros [Hg [_ Hi]] k. unfold inline_refs_to. rewrite Hg. apply (index_getters_set _ _ _ Hi k).
Qed.

Lemma state_path_refs filt s s' : state_equiv s s' -> forall k, path_refs filt s k = path_refs filt s' k.
Proof.
  intros H k. unfold path_refs. destruct filt; [now apply state_block_refs|].
  destruct H as [_ [_ Hi]]. f_equal. apply (raw_getters_set _ _ Hi k).
Qed.

Lemma pfn_ext refs refs' a : (forall k, refs k = refs' k) ->
  forall fuel id visited, pfn refs fuel a id visited = pfn refs' fuel a id visited.
Proof.
  intros ER. induction fuel as [|f IH]; intros id visited; [reflexivity|].
  cbn [pfn]. destruct (mem id visited); [reflexivity|].
  destruct (kind_at a id) as [k|e]; [|reflexivity]. cbn [bind].
  destruct k; try reflexivity.
  - rewrite ER. destruct (refs' key) as [rs|e]; [|reflexivity]. cbn [bind]. f_equal.
    apply map_ext. intros r. destruct (parent_of a r) as [[p|]|e]; cbn [bind]; auto.
  - destruct (parent_of a id) as [[p|]|e]; cbn [bind]; auto. now rewrite IH.
Qed.

Lemma filter_res_ext {A} (f f' : A -> res bool) l : (forall x, f x = f' x) -> filter_res f l = filter_res f' l.
Proof.
  intros E. unfold filter_res. induction l as [|x l IH]; cbn [fold_right]; [reflexivity|]. now rewrite IH, E.
Qed.

Lemma root_ok_gen_ext refs refs' a p : (forall k, refs k = refs' k) -> root_ok_gen refs a p = root_ok_gen refs' a p.
Proof.
  intros ER. destruct p as [|first r]; [reflexivity|]. cbn [root_ok_gen].
  destruct (graph_node_key (nav_fuel a) a first) as [key|e]; [|reflexivity]. cbn [bind]. now rewrite ER.
Qed.

Lemma graph_to_paths_gen_ext refs refs' order a : (forall k, refs k = refs' k) ->
  graph_to_paths_gen refs order a = graph_to_paths_gen refs' order a.
Proof.
  intros ER. unfold graph_to_paths_gen.
  destruct (filter_res (start_ok a) order) as [st|e]; [|reflexivity]. cbn [bind].
  rewrite (map_ext _ (fun id => pfn refs' (paths_fuel a) a id [])) by (intros id; now apply pfn_ext).
  destruct (concat_res _) as [al|e]; [|reflexivity]. cbn [bind].
  rewrite (filter_res_ext _ (root_ok_gen refs' a)) by (intros p; now apply root_ok_gen_ext).
  reflexivity.
Qed.

Theorem graph_to_paths_state filt s s' : state_equiv s s' -> graph_to_paths filt s = graph_to_paths filt s'.
Proof.
  intros H. rewrite !graph_to_paths_is_gen. destruct H as [Hg H'] eqn:Keep. clear Keep. rewrite <- Hg.
  apply graph_to_paths_gen_ext. intros k. now apply state_path_refs.
Qed.

Lemma node_rank_state s s' : state_equiv s s' -> forall id, node_rank s id = node_rank s' id.
Proof.
  intros H id. pose proof H as [Hg _]. unfold node_rank. rewrite <- Hg.
  destruct (is_primary_section (gr_arena (gs_graph s)) id) as [[|]|e]; try reflexivity. cbn [bind].
  destruct (to_document _ _ id) as [[d|]|e]; try reflexivity. cbn [bind].
  destruct (kind_at _ d) as [k|e]; try reflexivity. cbn [bind].
  destruct k; try reflexivity.
  now rewrite (state_inline_refs s s' H), (state_block_refs s s' H).
Qed.

Lemma sp_entries_state s s' : state_equiv s s' -> forall ps, sp_entries s ps = sp_entries s' ps.
Proof.
  intros H ps. pose proof H as [Hg [Hl _]]. unfold sp_entries. rewrite <- Hg.
  induction ps as [|p ps IH]; cbn [fold_right]; [reflexivity|]. rewrite IH. clear IH.
  match goal with |- bind ?x _ = _ => destruct x as [r|e]; [|reflexivity] end. cbn [bind].
  destruct (texts_of _ p) as [t|e]; [|reflexivity]. cbn [bind].
  destruct (last_id p) as [target|e]; [|reflexivity]. cbn [bind].
  rewrite (node_rank_state s s' H). unfold node_line_range. now rewrite Hl.
Qed.

Lemma search_paths_of_state s s' : state_equiv s s' -> forall ps, search_paths_of s ps = search_paths_of s' ps.
Proof. intros H ps. unfold search_paths_of. now rewrite (sp_entries_state s s' H). Qed.

(* the search index (Database.paths) does not see the representation of the RefIndex *)
Theorem search_paths_state filt s s' : state_equiv s s' -> search_paths filt s = search_paths filt s'.
Proof.
  intros H. unfold search_paths. rewrite (graph_to_paths_state filt s s' H).
  destruct (graph_to_paths filt s') as [ps|e]; [|reflexivity]. cbn [bind]. now apply search_paths_of_state.
Qed.

(* ---------- Part 3: the stable sorts of search_paths and global_search ---------------------------- *)

Lemma filter_perm {A} (f : A -> bool) l l' : Permutation l l' -> Permutation (filter f l) (filter f l').
Proof.
  induction 1 as [|x l l' P IH|x y l|l1 l2 l3 P1 IH1 P2 IH2]; cbn [filter].
  - constructor.
  - destruct (f x); [now constructor | exact IH].
  - destruct (f x), (f y); try reflexivity. apply perm_swap.
  - now transitivity (filter f l2).
Qed.

Section Stable.
  Context {A : Type} (le : A -> A -> bool).
  Hypothesis le_total : forall x y, le x y = false -> le y x = true.
  Hypothesis le_trans : forall x y z, le x y = true -> le y z = true -> le x z = true.

  (* equal as far as the comparator can see *)
  Definition eqv (x y : A) : bool := le x y && le y x.
  Definition lep (x y : A) : Prop := le x y = true.

  Lemma le_refl x : le x x = true.
  Proof. destruct (le x x) eqn:E; [reflexivity | pose proof (le_total x x E); congruence]. Qed.

  Lemma eqv_refl x : eqv x x = true.
  Proof. unfold eqv. now rewrite le_refl. Qed.

  Lemma eqv_sym x y : eqv x y = eqv y x.
  Proof. unfold eqv. apply andb_comm. Qed.

  Lemma eqv_trans x y z : eqv x y = true -> eqv y z = true -> eqv x z = true.
  Proof.
    unfold eqv. intros H1 H2. apply andb_prop in H1 as [A1 B1]. apply andb_prop in H2 as [A2 B2].
    apply andb_true_intro. split; eapply le_trans; eauto.
  Qed.

  (* 1. the sort keeps, inside every class of comparator-equal elements, the input order *)
  Lemma insert_stable_filter z x l :
    filter (eqv z) (insert_stable le x l) = filter (eqv z) (x :: l).
  Proof.
    induction l as [|y r IH]; cbn [insert_stable]; [reflexivity|].
    destruct (le x y) eqn:E; [reflexivity|].
    cbn [filter] in *. rewrite IH.
    destruct (eqv z x) eqn:Zx, (eqv z y) eqn:Zy; try reflexivity.
    exfalso. rewrite eqv_sym in Zx. pose proof (eqv_trans x z y Zx Zy) as Hxy.
    unfold eqv in Hxy. rewrite E in Hxy. discriminate.
  Qed.

  Theorem stable_sort_keeps_classes z l : filter (eqv z) (stable_sort le l) = filter (eqv z) l.
  Proof.
    unfold stable_sort. induction l as [|x l IH]; cbn [fold_right]; [reflexivity|].
    rewrite insert_stable_filter. cbn [filter]. now rewrite IH.
  Qed.

  (* 2. sorted, in the strong sense *)
  Lemma insert_stable_ssorted x l : StronglySorted lep l -> StronglySorted lep (insert_stable le x l).
  Proof.
    induction 1 as [|y r Hr IH Hy]; cbn [insert_stable]; [repeat constructor|].
    destruct (le x y) eqn:E.
    - constructor; [now constructor|]. constructor; [exact E|].
      eapply Forall_impl; [|exact Hy]. intros w Hw. unfold lep in *. eapply le_trans; eauto.
    - constructor; [exact IH|].
      eapply Permutation_Forall; [apply insert_stable_perm|]. constructor; [now apply le_total | exact Hy].
  Qed.

  Lemma stable_sort_ssorted l : StronglySorted lep (stable_sort le l).
  Proof.
    unfold stable_sort. induction l as [|x l IH]; cbn [fold_right]; [constructor | now apply insert_stable_ssorted].
  Qed.

  (* 3. these two facts (with being a permutation) determine the result *)
  Lemma sorted_classes_unique l1 : forall l2,
    StronglySorted lep l1 -> StronglySorted lep l2 -> Permutation l1 l2 ->
    (forall z, filter (eqv z) l1 = filter (eqv z) l2) -> l1 = l2.
  Proof.
    induction l1 as [|x t1 IH]; intros l2 S1 S2 P C.
    - apply Permutation_nil in P. now subst.
    - destruct l2 as [|y t2]; [apply Permutation_sym, Permutation_nil in P; discriminate|].
      inversion S1 as [|? ? S1t F1]; subst. inversion S2 as [|? ? S2t F2]; subst.
      rewrite Forall_forall in F1, F2.
      assert (Hxy : le x y = true).
      { assert (Hin : In y (x :: t1)) by (eapply Permutation_in; [symmetry; exact P | now left]).
        destruct Hin as [->|Hin]; [apply le_refl | now apply F1]. }
      assert (Hyx : le y x = true).
      { assert (Hin : In x (y :: t2)) by (eapply Permutation_in; [exact P | now left]).
        destruct Hin as [->|Hin]; [apply le_refl | now apply F2]. }
      assert (x = y).
      { pose proof (C x) as Cx. cbn [filter] in Cx. rewrite eqv_refl in Cx.
        unfold eqv at 2 in Cx. rewrite Hxy, Hyx in Cx. cbn [andb] in Cx. congruence. }
      subst y. f_equal. apply IH; auto.
      + now apply Permutation_cons_inv in P.
      + intros z. specialize (C z). cbn [filter] in C. destruct (eqv z x); congruence.
  Qed.

  Theorem stable_sort_perm_classes l l' :
    Permutation l l' -> (forall z, filter (eqv z) l = filter (eqv z) l') ->
    stable_sort le l = stable_sort le l'.
  Proof.
    intros P C. apply sorted_classes_unique; try apply stable_sort_ssorted.
    - rewrite <- (stable_sort_perm le l), <- (stable_sort_perm le l'). exact P.
    - intros z. now rewrite !stable_sort_keeps_classes.
  Qed.

  Lemma at_most_one (l : list A) : NoDup l -> (forall x y, In x l -> In y l -> x = y) -> length l <= 1.
  Proof.
    intros ND H. destruct l as [|x [|y r]]; cbn; try lia. exfalso.
    inversion ND as [|? ? Hn _]; subst. apply Hn. left. apply H; cbn; auto.
  Qed.

  Corollary stable_sort_perm_distinct l l' :
    Permutation l l' -> NoDup l ->
    (forall x y, In x l -> In y l -> eqv x y = true -> x = y) ->
    stable_sort le l = stable_sort le l'.
  Proof.
    intros P ND D. apply stable_sort_perm_classes; [exact P|]. intros z.
    assert (L : length (filter (eqv z) l) <= 1).
    { apply at_most_one; [now apply NoDup_filter|]. intros x y Hx Hy.
      apply filter_In in Hx as [Hx Zx]. apply filter_In in Hy as [Hy Zy]. apply D; auto.
      rewrite eqv_sym in Zx. eapply eqv_trans; eauto. }
    pose proof (filter_perm (eqv z) l l' P) as PF.
    destruct (filter (eqv z) l) as [|x [|y r]]; cbn in L; try lia.
    - apply Permutation_nil in PF. now rewrite PF.
    - apply Permutation_length_1_inv in PF. now rewrite PF.
  Qed.
End Stable.

(* the comparator of global_search is a total preorder *)
Ltac break_ifs :=
  repeat match goal with
  | H : context [if ?b then _ else _] |- _ => destruct b eqn:?
  | |- context [if ?b then _ else _] => destruct b eqn:?
  end.
Ltac bool_props :=
  repeat match goal with
  | H : Nat.ltb _ _ = true |- _ => apply Nat.ltb_lt in H
  | H : Nat.ltb _ _ = false |- _ => apply Nat.ltb_ge in H
  | H : Nat.leb _ _ = true |- _ => apply Nat.leb_le in H
  | H : Nat.leb _ _ = false |- _ => apply Nat.leb_gt in H
  | H : Z.ltb _ _ = true |- _ => apply Z.ltb_lt in H
  | H : Z.ltb _ _ = false |- _ => apply Z.ltb_ge in H
  end.

Lemma gs_le_trans qe x y z : gs_le qe x y = true -> gs_le qe y z = true -> gs_le qe x z = true.
Proof.
  destruct x as [px sx], y as [py sy], z as [pz sz]. unfold gs_le.
  generalize (String.length (sp_text px)) (String.length (sp_text py)) (String.length (sp_text pz))
             (sp_rank px) (sp_rank py) (sp_rank pz). intros lx ly lz rx ry rz.
  destruct qe; intros H1 H2; break_ifs; try discriminate; try reflexivity; bool_props;
    try (apply Nat.leb_le); lia.
Qed.

(* two scored paths the comparator of global_search cannot tell apart *)
Definition gs_eqv (qe : bool) : spath * Z -> spath * Z -> bool := eqv (gs_le qe).

(* what the comparator looks at *)
Lemma gs_eqv_fields qe x y : gs_eqv qe x y = true <->
  sp_rank (fst x) = sp_rank (fst y) /\ String.length (sp_text (fst x)) = String.length (sp_text (fst y)) /\
  (qe = false -> snd x = snd y).
Proof.
  destruct x as [px sx], y as [py sy]. unfold gs_eqv, eqv, gs_le. cbn [fst snd].
  generalize (String.length (sp_text px)) (String.length (sp_text py)) (sp_rank px) (sp_rank py).
  intros lx ly rx ry. rewrite andb_true_iff. destruct qe.
  - split.
    + intros [H1 H2]. break_ifs; try discriminate; bool_props; repeat split; try lia; discriminate.
    + intros [H1 [H2 _]]. subst. rewrite Nat.ltb_irrefl, Nat.leb_refl. auto.
  - split.
    + intros [H1 H2]. break_ifs; try discriminate; bool_props; repeat split; try lia; intros _; lia.
    + intros [H1 [H2 H3]]. specialize (H3 eq_refl). subst. rewrite Z.ltb_irrefl, Nat.ltb_irrefl, Nat.leb_refl. auto.
Qed.

(* C16_search_stable.
   (i) what ties are resolved by: the result is the 100-prefix of the one list that is a
       permutation of the input, sorted by the comparator, and in which elements the comparator
       cannot tell apart (same rank, same text length, and - non-empty query - same score) stand
       in their INPUT order.  The input order is the order of Database.paths = search_paths =
       stable sort by (rank desc, key asc) of the paths in sorted path order, a Vec (rayon's
       par_iter().map().collect() keeps it): canonical by Part 2. *)
Theorem global_search_ties qe scored :
  exists all, global_search qe scored = firstn 100 (map fst all) /\
    Permutation scored all /\ StronglySorted (lep (gs_le qe)) all /\
    forall z, filter (gs_eqv qe z) all = filter (gs_eqv qe z) scored.
Proof.
  exists (stable_sort (gs_le qe) scored). split; [reflexivity|]. split; [apply stable_sort_perm|]. split.
  - apply stable_sort_ssorted; [apply gs_le_total | apply gs_le_trans].
  - intros z. apply stable_sort_keeps_classes. apply gs_le_trans.
Qed.

(* (ii) a permuted input gives the same answer iff nothing more than the order inside the tie
        classes is needed: same order inside every class => same result *)
Theorem global_search_perm_classes qe scored scored' :
  Permutation scored scored' ->
  (forall z, filter (gs_eqv qe z) scored = filter (gs_eqv qe z) scored') ->
  global_search qe scored = global_search qe scored'.
Proof.
  intros P C. unfold global_search. f_equal. f_equal.
  apply stable_sort_perm_classes; auto; [apply gs_le_total | apply gs_le_trans].
Qed.

(* in particular when the comparator separates all elements *)
Theorem global_search_perm_distinct qe scored scored' :
  Permutation scored scored' -> NoDup scored ->
  (forall x y, In x scored -> In y scored -> gs_eqv qe x y = true -> x = y) ->
  global_search qe scored = global_search qe scored'.
Proof.
  intros P ND D. unfold global_search. f_equal. f_equal.
  apply stable_sort_perm_distinct; auto; [apply gs_le_total | apply gs_le_trans].
Qed.

(* (iii) and permutation alone is NOT enough: two headings with the same rank and the same text
         length come out in input order *)
Definition tie_a : spath * Z := (SP "ab" 0 "k1" true 0 [1], 0%Z).
Definition tie_b : spath * Z := (SP "cd" 0 "k2" true 0 [5], 0%Z).

Theorem global_search_order_refuted :
  exists l l', Permutation l l' /\ NoDup l /\ global_search true l <> global_search true l' /\
               global_search false l <> global_search false l'.
Proof.
  exists [tie_a; tie_b], [tie_b; tie_a]. split; [apply perm_swap|]. split.
  - repeat constructor; cbn; intuition discriminate.
  - split; vm_compute; discriminate.
Qed.

(* (iv) the whole pipeline from the graph: any enumeration orders in graph_to_paths (Part 2),
        then search_paths_of (order-preserving map + stable sort: a function of the path list),
        then the scores of the matcher (a function of the text), then global_search *)
Definition search_paths_gen (refs : string -> res (list nat)) (order : list nat) (s : gstate) : res (list spath) :=
  do ps <- graph_to_paths_gen refs order (gr_arena (gs_graph s)); search_paths_of s ps.

Definition global_search_of (qe : bool) (score : spath -> Z) (paths : res (list spath)) : res (list spath) :=
  do ps <- paths; Ok (global_search qe (map (fun p => (p, score p)) ps)).

Lemma bind_agree {A B} (r r' : res A) (k : A -> res B) : res_agree r r' -> res_agree (bind r k) (bind r' k).
Proof. destruct r, r'; cbn; try tauto. intros ->. apply res_agree_refl. Qed.

Theorem search_pipeline_order_irrelevant qe score s m order :
  kmap_equiv (ri_block (gs_index s)) m ->
  (forall x, In x order <-> x < length (gr_arena (gs_graph s))) ->
  res_agree (global_search_of qe score (search_paths true s))
            (global_search_of qe score (search_paths_gen (hash_refs (gr_arena (gs_graph s)) m) order s)).
Proof.
  intros Hm Ho. unfold global_search_of, search_paths, search_paths_gen.
  apply bind_agree, bind_agree. now apply graph_to_paths_hash_order.
Qed.

(* ---------- Part 4: export ---------------------------------------------------------------------- *)

(* Graph::export: `keys.par_iter().map(|(k, _)| (k, to_markdown(k))).collect::<HashMap>()`.
   [tm]: the text of a key; [order]: the order the key map is iterated in *)
Definition export_of (tm : string -> res string) (order : list string) : res (list (string * string)) :=
  fold_right (fun k acc => do r <- acc; do t <- tm k; Ok ((k, t) :: r)) (Ok []) order.

(* the observable: the association list sorted by key (byte-wise) *)
Definition export_sorted (tm : string -> res string) (order : list string) : res (list (string * string)) :=
  do l <- export_of tm order; Ok (sort_by_key fst l).

Lemma export_of_cases tm order :
  (exists ts, export_of tm order = Ok (combine order ts) /\ length ts = length order /\
              forall k t, In (k, t) (combine order ts) -> tm k = Ok t) \/
  ((exists s, export_of tm order = Panic s) /\ exists k s, In k order /\ tm k = Panic s).
Proof.
  induction order as [|k r IH].
  - left. exists []. split; [reflexivity|]. split; [reflexivity|]. intros k t [].
  - cbn [export_of fold_right]. fold (export_of tm r).
    destruct IH as [[ts [E [L M]]] | [[s E] [k' [s' [Hin Hs']]]]]; rewrite E; cbn [bind].
    + destruct (tm k) as [t|s] eqn:Tk; cbn [bind].
      * left. exists (t :: ts). split; [reflexivity|]. split; [cbn; now rewrite L|].
        intros k0 t0 [H | H]; [injection H as <- <-; exact Tk | now apply M].
      * right. split; [eauto|]. exists k, s. split; [now left | exact Tk].
    + right. split; [eauto|]. exists k', s'. split; [now right | exact Hs'].
Qed.

Lemma export_of_ok tm order l : export_of tm order = Ok l ->
  map fst l = order /\ forall k t, In (k, t) l <-> In k order /\ tm k = Ok t.
Proof.
  revert l. induction order as [|k r IH]; intros l H.
  - injection H as <-. split; [reflexivity|]. intros k t. cbn. tauto.
  - cbn [export_of fold_right] in H. fold (export_of tm r) in H.
    apply bind_ok in H as [l0 [E0 H]]. apply bind_ok in H as [t0 [Tk H]]. injection H as <-.
    destruct (IH l0 E0) as [F M]. split; [cbn; now rewrite F|].
    intros k1 t1. cbn [In]. rewrite M. split.
    + intros [H | [H1 H2]]; [injection H as <- <-; auto | auto].
    + intros [[<- | H1] H2]; [left; congruence | auto].
Qed.

(* C16_export_perm.  Whatever order the key map is iterated in, the export read as an
   association list sorted by key is the same - or some note cannot be written and both runs
   panic. *)
Theorem export_order_irrelevant tm order order' :
  Permutation order order' -> NoDup order ->
  res_agree (export_sorted tm order) (export_sorted tm order').
Proof.
  intros P ND. unfold export_sorted.
  destruct (export_of_cases tm order) as [[ts [E [L M]]] | [[s E] [k [s1 [Hin Hs1]]]]];
  destruct (export_of_cases tm order') as [[ts' [E' [L' M']]] | [[s' E'] [k' [s1' [Hin' Hs1']]]]];
    rewrite E, E'; cbn [bind res_agree]; auto.
  - destruct (export_of_ok _ _ _ E) as [F1 M1]. destruct (export_of_ok _ _ _ E') as [F2 M2].
    apply (sorted_unique fst); try apply sort_sorted.
    + rewrite !(sort_perm fst). apply NoDup_Permutation.
      * apply (NoDup_map_inv fst). now rewrite F1.
      * apply (NoDup_map_inv fst). rewrite F2. eapply Permutation_NoDup; eauto.
      * intros [k t]. rewrite M1, M2. split; intros [H1 H2]; (split; [|exact H2]).
        { eapply Permutation_in; [exact P | exact H1]. }
        { eapply Permutation_in; [symmetry; exact P | exact H1]. }
    + eapply Permutation_NoDup; [apply Permutation_map; symmetry; apply (sort_perm fst)|]. now rewrite F1.
  - assert (Hk : In k' order) by (eapply Permutation_in; [symmetry; exact P | exact Hin']).
    destruct (In_nth _ _ "" Hk) as [n [Hn Hnth]].
    assert (Hc : In (k', nth n ts "") (combine order ts)).
    { rewrite <- Hnth at 1. rewrite <- combine_nth by (now symmetry). apply nth_In. rewrite combine_length. lia. }
    rewrite (M _ _ Hc) in Hs1'. discriminate.
  - assert (Hk : In k order') by (eapply Permutation_in; eauto).
    destruct (In_nth _ _ "" Hk) as [n [Hn Hnth]].
    assert (Hc : In (k, nth n ts' "") (combine order' ts')).
    { rewrite <- Hnth at 1. rewrite <- combine_nth by (now symmetry). apply nth_In. rewrite combine_length. lia. }
    rewrite (M' _ _ Hc) in Hs1. discriminate.
Qed.

(* the key set of the graph, iterated in any order *)
Definition export_graph (o : opts) (tables : string -> list string) (g : graph) (order : list string)
  : res (list (string * string)) :=
  export_sorted (fun k => to_markdown o (tables k) g k) order.

Theorem export_graph_order_irrelevant o tables g order :
  Permutation (map fst (gr_keys g)) order -> NoDup (map fst (gr_keys g)) ->
  res_agree (export_graph o tables g (map fst (gr_keys g))) (export_graph o tables g order).
Proof. intros P ND. now apply export_order_irrelevant. Qed.

(* and to_markdown itself only LOOKS UP in the graph's HashMaps (keys, keys_to_ref_text,
   metadata): two graphs whose maps hold the same entries in another order write the same text *)
Lemma normalize_inline_ext ctx ctx' : (forall k, ctx k = ctx' k) ->
  forall i, normalize_inline ctx i = normalize_inline ctx' i.
Proof.
  intros E. apply (inline_ind' (fun i => normalize_inline ctx i = normalize_inline ctx' i));
    intros; cbn [normalize_inline]; try reflexivity.
  - f_equal. apply map_ext_Forall. assumption.
  - f_equal. apply map_ext_Forall. assumption.
  - f_equal. apply map_ext_Forall. assumption.
  - now rewrite E.
Qed.

Lemma normalize_inlines_ext ctx ctx' : (forall k, ctx k = ctx' k) ->
  forall l, normalize_inlines ctx l = normalize_inlines ctx' l.
Proof. intros E l. unfold normalize_inlines. apply map_ext. now apply normalize_inline_ext. Qed.

Lemma pointer_node_ext ctx ctx' : (forall k, ctx k = ctx' k) -> forall k, pointer_node ctx k = pointer_node ctx' k.
Proof.
  intros E k. destruct k; cbn [pointer_node]; try reflexivity.
  - now rewrite (normalize_inlines_ext ctx ctx' E).
  - now rewrite (normalize_inlines_ext ctx ctx' E).
  - now rewrite E.
  - f_equal. f_equal.
    + apply map_ext. now apply normalize_inlines_ext.
    + apply map_ext. intros r. apply map_ext. now apply normalize_inlines_ext.
Qed.

Lemma collect_fuel_ext nf nf' a : (forall i k, nf i k = nf' i k) ->
  forall fuel id, collect_fuel fuel nf a id = collect_fuel fuel nf' a id.
Proof.
  intros E. induction fuel as [|f IH]; intros id; [reflexivity|].
  cbn [collect_fuel]. destruct (get a id) as [n|]; [|reflexivity]. rewrite E.
  destruct (nf' id (g_kind n)) as [nd|]; [|reflexivity].
  destruct (match g_child n with None => Ok [] | Some c => sibling_ids f a c end) as [ids|e]; [|reflexivity].
  cbn [bind]. f_equal. induction ids as [|i r IHr]; cbn [fold_right]; [reflexivity|]. now rewrite IHr, IH.
Qed.

Lemma collect_ext ctx ctx' a root : (forall k, ctx k = ctx' k) -> collect ctx a root = collect ctx' a root.
Proof.
  intros E. unfold collect.
  rewrite (collect_fuel_ext (fun _ k => pointer_node ctx k) (fun _ k => pointer_node ctx' k)); [reflexivity|].
  intros _ k. now apply pointer_node_ext.
Qed.

Definition graph_equiv (g g' : graph) : Prop :=
  gr_arena g = gr_arena g' /\
  Permutation (gr_keys g) (gr_keys g') /\ NoDup (map fst (gr_keys g)) /\
  Permutation (gr_titles g) (gr_titles g') /\ NoDup (map fst (gr_titles g)) /\
  Permutation (gr_meta g) (gr_meta g') /\ NoDup (map fst (gr_meta g)).

Theorem to_markdown_hashmaps o tables g g' key :
  graph_equiv g g' -> to_markdown o tables g key = to_markdown o tables g' key.
Proof.
  intros [Ha [Pk [Nk [Pt [Nt [Pm Nm]]]]]]. unfold to_markdown.
  rewrite (alookup_perm _ _ Pk Nk key), (alookup_perm _ _ Pm Nm key), <- Ha.
  destruct (alookup key (gr_keys g')) as [root|]; [|reflexivity].
  rewrite (collect_ext (get_key_title g) (get_key_title g')); [reflexivity|].
  intros k. unfold get_key_title. now apply alookup_perm.
Qed.

Lemma export_of_ext tm tm' order : (forall k, tm k = tm' k) -> export_of tm order = export_of tm' order.
Proof.
  intros E. unfold export_of. induction order as [|k r IH]; cbn [fold_right]; [reflexivity|]. now rewrite IH, E.
Qed.

Theorem export_graph_hashmaps o tables g g' :
  graph_equiv g g' ->
  res_agree (export_graph o tables g (map fst (gr_keys g))) (export_graph o tables g' (map fst (gr_keys g'))).
Proof.
  intros H. pose proof H as [_ [Pk [Nk _]]]. unfold export_graph, export_sorted.
  rewrite (export_of_ext _ (fun k => to_markdown o (tables k) g' k)) by (intros k; now apply to_markdown_hashmaps).
  apply (export_order_irrelevant (fun k => to_markdown o (tables k) g' k)); [now apply Permutation_map | exact Nk].
Qed.

(* ---------- search_paths: the first stable sort ------------------------------------------------------
   graph.rs:87-96 since the repair of F-SEARCHTIE: rank descending, then key, search text, line and the
   heading texts of the chain.  The comparator reads nothing but the CONTENT of an entry ([sp_view]) and
   is a total ORDER on contents (antisymmetric: two entries it cannot tell apart say the same), so the
   sorted list, read without node ids, is a function of the multiset of contents. *)

Lemma then_with_lt_trans c1 c2 c3 d1 d2 d3 :
  (c1 = Lt -> c2 = Lt -> c3 = Lt) -> (c1 = Eq -> c3 = c2) -> (c2 = Eq -> c3 = c1) ->
  (d1 = Lt -> d2 = Lt -> d3 = Lt) ->
  then_with c1 d1 = Lt -> then_with c2 d2 = Lt -> then_with c3 d3 = Lt.
Proof.
  intros T E1 E2 D. destruct c1, c2; cbn [then_with]; intros H1 H2; try discriminate.
  - rewrite (E1 eq_refl). cbn [then_with]. auto.
  - rewrite (E1 eq_refl). reflexivity.
  - rewrite (E2 eq_refl). reflexivity.
  - rewrite (T eq_refl eq_refl). reflexivity.
Qed.

Lemma scmp_eq x y : String.compare x y = Eq -> x = y.
Proof. apply String.compare_eq_iff. Qed.

Lemma scmp_refl x : String.compare x x = Eq.
Proof. pose proof (String.compare_antisym x x) as H. destruct (String.compare x x); cbn in H; congruence. Qed.

Lemma scmp_lt_trans x y z : String.compare x y = Lt -> String.compare y z = Lt -> String.compare x z = Lt.
Proof.
  intros E1 E2. change String.compare with OrdersEx.String_as_OT.compare in *.
  exact (RelationClasses.StrictOrder_Transitive (R := OrdersEx.String_as_OT.lt) x y z E1 E2).
Qed.

Lemma strs_cmp_eq l : forall m, strs_cmp l m = Eq -> l = m.
Proof.
  induction l as [|x l IH]; intros [|y m]; cbn [strs_cmp]; intros H; try discriminate; [reflexivity|].
  unfold then_with in H. destruct (String.compare x y) eqn:E; try discriminate.
  apply scmp_eq in E. subst y. f_equal. now apply IH.
Qed.

Lemma strs_cmp_refl l : strs_cmp l l = Eq.
Proof. induction l as [|x l IH]; cbn [strs_cmp]; [reflexivity|]. now rewrite scmp_refl. Qed.

Lemma strs_cmp_anti l : forall m, strs_cmp m l = CompOpp (strs_cmp l m).
Proof.
  induction l as [|x l IH]; intros [|y m]; cbn [strs_cmp]; try reflexivity.
  rewrite (String.compare_antisym y x), (IH m). destruct (String.compare x y); reflexivity.
Qed.

Lemma strs_cmp_lt_trans l : forall m n, strs_cmp l m = Lt -> strs_cmp m n = Lt -> strs_cmp l n = Lt.
Proof.
  induction l as [|x l IH]; intros [|y m] [|z n]; cbn [strs_cmp]; intros H1 H2; try discriminate; try reflexivity.
  revert H1 H2. apply then_with_lt_trans.
  - apply scmp_lt_trans.
  - intros H. apply scmp_eq in H. now subst.
  - intros H. apply scmp_eq in H. now subst.
  - apply IH.
Qed.

Ltac solve_cmp :=
  first [ apply scmp_lt_trans
        | rewrite !Nat.compare_lt_iff; lia
        | let H := fresh in intros H; first [apply scmp_eq in H | apply Nat.compare_eq in H]; subst; reflexivity ].

Lemma sv_cmp_eq x y : sv_cmp x y = Eq -> x = y.
Proof.
  destruct x as [[[[rx kx] tx] lx] cx], y as [[[[ry ky] ty] ly] cy]. unfold sv_cmp, then_with.
  destruct (Nat.compare ry rx) eqn:E1; try (intros ?; discriminate).
  destruct (String.compare kx ky) eqn:E2; try (intros ?; discriminate).
  destruct (String.compare tx ty) eqn:E3; try (intros ?; discriminate).
  destruct (Nat.compare lx ly) eqn:E4; try (intros ?; discriminate).
  intros E5. apply Nat.compare_eq in E1, E4. apply scmp_eq in E2, E3. apply strs_cmp_eq in E5. now subst.
Qed.

Lemma sv_cmp_anti x y : sv_cmp y x = CompOpp (sv_cmp x y).
Proof.
  destruct x as [[[[rx kx] tx] lx] cx], y as [[[[ry ky] ty] ly] cy]. unfold sv_cmp.
  rewrite (Nat.compare_antisym ry rx), (String.compare_antisym ky kx), (String.compare_antisym ty tx),
    (Nat.compare_antisym lx ly), (strs_cmp_anti cx cy).
  destruct (Nat.compare ry rx), (String.compare kx ky), (String.compare tx ty), (Nat.compare lx ly), (strs_cmp cx cy);
    reflexivity.
Qed.

Lemma sv_cmp_lt_trans x y z : sv_cmp x y = Lt -> sv_cmp y z = Lt -> sv_cmp x z = Lt.
Proof.
  destruct x as [[[[rx kx] tx] lx] cx], y as [[[[ry ky] ty] ly] cy], z as [[[[rz kz] tz] lz] cz]. unfold sv_cmp.
  apply then_with_lt_trans; [solve_cmp | solve_cmp | solve_cmp |].
  apply then_with_lt_trans; [solve_cmp | solve_cmp | solve_cmp |].
  apply then_with_lt_trans; [solve_cmp | solve_cmp | solve_cmp |].
  apply then_with_lt_trans; [solve_cmp | solve_cmp | solve_cmp |].
  apply strs_cmp_lt_trans.
Qed.

Lemma sv_le_total x y : sv_le x y = false -> sv_le y x = true.
Proof. unfold sv_le. rewrite (sv_cmp_anti x y). destruct (sv_cmp x y); cbn; congruence. Qed.

Lemma sv_le_trans x y z : sv_le x y = true -> sv_le y z = true -> sv_le x z = true.
Proof.
  unfold sv_le. intros H1 H2.
  destruct (sv_cmp x y) eqn:E1; [apply sv_cmp_eq in E1; now subst | | discriminate].
  destruct (sv_cmp y z) eqn:E2; [apply sv_cmp_eq in E2; subst; now rewrite E1 | | discriminate].
  now rewrite (sv_cmp_lt_trans x y z E1 E2).
Qed.

(* the comparator is an ORDER on contents: what it cannot tell apart is the same content *)
Lemma sv_le_antisym x y : sv_le x y = true -> sv_le y x = true -> x = y.
Proof.
  unfold sv_le. rewrite (sv_cmp_anti x y). destruct (sv_cmp x y) eqn:E; cbn; intros H1 H2; try discriminate.
  now apply sv_cmp_eq.
Qed.

Lemma sp_le_total x y : sp_le x y = false -> sp_le y x = true.
Proof. unfold sp_le. apply sv_le_total. Qed.

Lemma sp_le_trans x y z : sp_le x y = true -> sp_le y z = true -> sp_le x z = true.
Proof. unfold sp_le. apply sv_le_trans. Qed.

(* two entries tie under the comparator of search_paths iff they have the same rank, key, search text,
   line and chain of heading texts *)
Lemma sp_le_ties x y : eqv sp_le x y = true <-> sp_view x = sp_view y.
Proof.
  unfold eqv, sp_le. split.
  - intros H. apply andb_prop in H as [H1 H2]. now apply sv_le_antisym.
  - intros ->. rewrite (le_refl sv_le sv_le_total). reflexivity.
Qed.

(* a stable sort whose comparator reads a view [v] only, and is an order on views *)
Section Content.
  Context {A B : Type} (v : A -> B) (leB : B -> B -> bool).
  Hypothesis leB_total : forall x y, leB x y = false -> leB y x = true.
  Hypothesis leB_trans : forall x y z, leB x y = true -> leB y z = true -> leB x z = true.
  Hypothesis leB_antisym : forall x y, leB x y = true -> leB y x = true -> x = y.

  Lemma insert_stable_map x l :
    map v (insert_stable (fun x y => leB (v x) (v y)) x l) = insert_stable leB (v x) (map v l).
  Proof.
    induction l as [|y r IH]; cbn [insert_stable map]; [reflexivity|].
    destruct (leB (v x) (v y)); cbn [map]; [reflexivity | now rewrite IH].
  Qed.

  Lemma stable_sort_map l : map v (stable_sort (fun x y => leB (v x) (v y)) l) = stable_sort leB (map v l).
  Proof.
    unfold stable_sort. induction l as [|x l IH]; cbn [fold_right map]; [reflexivity|].
    now rewrite insert_stable_map, IH.
  Qed.

  Lemma ssorted_antisym_unique l1 : forall l2,
    StronglySorted (lep leB) l1 -> StronglySorted (lep leB) l2 -> Permutation l1 l2 -> l1 = l2.
  Proof.
    induction l1 as [|x t1 IH]; intros l2 S1 S2 P.
    - apply Permutation_nil in P. now subst.
    - destruct l2 as [|y t2]; [apply Permutation_sym, Permutation_nil in P; discriminate|].
      inversion S1 as [|? ? S1t F1]; subst. inversion S2 as [|? ? S2t F2]; subst.
      rewrite Forall_forall in F1, F2.
      assert (Hxy : leB x y = true).
      { assert (Hin : In y (x :: t1)) by (eapply Permutation_in; [symmetry; exact P | now left]).
        destruct Hin as [->|Hin]; [apply (le_refl leB leB_total) | now apply F1]. }
      assert (Hyx : leB y x = true).
      { assert (Hin : In x (y :: t2)) by (eapply Permutation_in; [exact P | now left]).
        destruct Hin as [->|Hin]; [apply (le_refl leB leB_total) | now apply F2]. }
      assert (x = y) by (now apply leB_antisym). subst y. f_equal.
      apply IH; auto. now apply Permutation_cons_inv in P.
  Qed.

  (* the sorted list, read through the view, is a function of the multiset of views *)
  Theorem stable_sort_content l l' :
    Permutation (map v l) (map v l') ->
    map v (stable_sort (fun x y => leB (v x) (v y)) l) = map v (stable_sort (fun x y => leB (v x) (v y)) l').
  Proof.
    intros P. rewrite !stable_sort_map.
    apply ssorted_antisym_unique; try (apply stable_sort_ssorted; assumption).
    rewrite <- (stable_sort_perm leB (map v l)), <- (stable_sort_perm leB (map v l')). exact P.
  Qed.
End Content.

(* C04 / C16: the order of the search paths is a function of what the paths SAY.  Two lists of entries
   with the same contents - whatever their node ids, whatever their order - are sorted into lists that
   read the same, position by position *)
Theorem search_sort_content (l l' : list sentry) :
  Permutation (map sp_view l) (map sp_view l') ->
  map sp_view (stable_sort sp_le l) = map sp_view (stable_sort sp_le l').
Proof. exact (stable_sort_content sp_view sv_le sv_le_total sv_le_trans sv_le_antisym l l'). Qed.

(* C16: the same entries in another order are sorted into the same list, ids included, as soon as no two
   entries say the same *)
Theorem search_sort_perm (l l' : list sentry) :
  Permutation l l' -> NoDup l ->
  (forall x y, In x l -> In y l -> sp_view x = sp_view y -> x = y) ->
  stable_sort sp_le l = stable_sort sp_le l'.
Proof.
  intros P ND D. apply stable_sort_perm_distinct; auto; [apply sp_le_total | apply sp_le_trans|].
  intros x y Hx Hy E. apply D; auto. now apply sp_le_ties.
Qed.

(* ... and without that premise the two results differ at most by entries that say the same *)
Corollary search_sort_perm_content (l l' : list sentry) :
  Permutation l l' -> map sp_view (stable_sort sp_le l) = map sp_view (stable_sort sp_le l').
Proof. intros P. apply search_sort_content. now apply Permutation_map. Qed.

Lemma texts_of_length a p ts : texts_of a p = Ok ts -> length ts = length p.
Proof.
  revert ts. induction p as [|x p IH]; intros ts H; unfold texts_of in *; cbn [fold_right] in H.
  - now injection H as <-.
  - apply bind_ok in H as [r [Hr H]]. apply bind_ok in H as [t [_ H]]. injection H as <-.
    cbn [length]. now rewrite (IH r Hr).
Qed.

(* what an entry of the search index shows: everything but the node ids (the symbol is built from the key,
   the line, the root flag and the texts of the chain: server.rs path_to_symbol / render_path) *)
Definition sobs := (nat * string * string * nat * bool * res (list string))%type.
Definition sp_obs (a : arena) (p : spath) : sobs :=
  (sp_rank p, sp_key p, sp_text p, sp_line p, sp_root p, texts_of a (sp_ids p)).
Definition obs_of_view (w : sview) : sobs :=
  let '(rk, k, t, ln, c) := w in (rk, k, t, ln, Nat.eqb (length c) 1, Ok c).

(* the entries search_paths makes: one per path, in path order; the view holds all an entry shows *)
Lemma sp_entries_shape s ps l : sp_entries s ps = Ok l ->
  map (fun e => sp_ids (fst e)) l = ps /\
  Forall (fun e => sp_obs (gr_arena (gs_graph s)) (fst e) = obs_of_view (sp_view e) /\
                   sp_text (fst e) = join " " (snd e)) l.
Proof.
  unfold sp_entries. revert l. induction ps as [|p ps IH]; intros l E; cbn [fold_right] in E.
  - injection E as <-. split; [reflexivity | constructor].
  - apply bind_ok in E as [l0 [E0 E]]. apply bind_ok in E as [ts [Ets E]]. apply bind_ok in E as [tg [_ E]].
    apply bind_ok in E as [rk [_ E]]. apply bind_ok in E as [key [_ E]]. injection E as <-.
    destruct (IH l0 E0) as [I1 I2]. split; [cbn [map fst sp_ids]; now rewrite I1|].
    constructor; [|exact I2]. unfold sp_obs, sp_view, obs_of_view. cbn [fst snd sp_rank sp_key sp_text sp_line sp_root sp_ids].
    rewrite Ets, (texts_of_length _ _ _ Ets). split; reflexivity.
Qed.

(* the list handed to global_search: one entry per path, sorted by the comparator; two entries the
   comparator cannot tell apart have the same rank, key, search text, line and chain of texts *)
Theorem search_paths_of_ties s ps r :
  search_paths_of s ps = Ok r ->
  exists l, sp_entries s ps = Ok l /\ map (fun e => sp_ids (fst e)) l = ps /\
            r = map fst (stable_sort sp_le l) /\ Permutation l (stable_sort sp_le l) /\
            StronglySorted (lep sp_le) (stable_sort sp_le l) /\
            forall x y, eqv sp_le x y = true <-> sp_view x = sp_view y.
Proof.
  unfold search_paths_of. intros H. apply bind_ok in H as [l [E H]]. injection H as <-.
  exists l. split; [exact E|]. split; [exact (proj1 (sp_entries_shape s ps l E))|]. split; [reflexivity|].
  split; [apply stable_sort_perm|]. split; [apply stable_sort_ssorted; [apply sp_le_total | apply sp_le_trans]|].
  apply sp_le_ties.
Qed.

(* C04_search_content.  Two graphs (two histories, two processes) whose search entries have the same
   contents - the same multiset of (rank, key, search text, line, chain of heading texts) - hand the same
   list to global_search, position by position, in everything an entry shows *)
Theorem search_paths_content s s' ps ps' l l' :
  sp_entries s ps = Ok l -> sp_entries s' ps' = Ok l' ->
  Permutation (map sp_view l) (map sp_view l') ->
  exists r r', search_paths_of s ps = Ok r /\ search_paths_of s' ps' = Ok r' /\
    map (sp_obs (gr_arena (gs_graph s))) r = map (sp_obs (gr_arena (gs_graph s'))) r'.
Proof.
  intros E E' P. unfold search_paths_of. rewrite E, E'. cbn [bind]. do 2 eexists. split; [reflexivity|].
  split; [reflexivity|].
  assert (Hobs : forall t es sorted, sp_entries t es = Ok sorted -> forall m, Permutation sorted m ->
            map (sp_obs (gr_arena (gs_graph t))) (map fst m) = map obs_of_view (map sp_view m)).
  { intros t es l0 E0 m Pm. destruct (sp_entries_shape t es l0 E0) as [_ F].
    rewrite !map_map. apply map_ext_in. intros e He. rewrite Forall_forall in F.
    apply F. eapply Permutation_in; [symmetry; exact Pm | exact He]. }
  rewrite (Hobs s ps l E _ (stable_sort_perm sp_le l)), (Hobs s' ps' l' E' _ (stable_sort_perm sp_le l')).
  now rewrite (search_sort_content l l' P).
Qed.

(* ... and global_search, whose comparator reads the rank, the search text and the score the matcher gives
   that text, answers the same, position by position *)
Definition obs_rank (o : sobs) : nat := let '(rk, _, _, _, _, _) := o in rk.
Definition obs_text (o : sobs) : string := let '(_, _, t, _, _, _) := o in t.
Definition gso_le (qe : bool) (x y : sobs * Z) : bool :=
  let lenx := String.length (obs_text (fst x)) in let leny := String.length (obs_text (fst y)) in
  if qe then
    if Nat.ltb (obs_rank (fst y)) (obs_rank (fst x)) then true
    else if Nat.ltb (obs_rank (fst x)) (obs_rank (fst y)) then false
    else Nat.leb lenx leny
  else
    if Z.ltb (snd y) (snd x) then true
    else if Z.ltb (snd x) (snd y) then false
    else if Nat.ltb lenx leny then true
    else if Nat.ltb leny lenx then false
    else Nat.leb (obs_rank (fst y)) (obs_rank (fst x)).

Lemma gs_sort_obs qe b sc :
  map (fun x : spath * Z => (sp_obs b (fst x), snd x)) (stable_sort (gs_le qe) sc) =
  stable_sort (gso_le qe) (map (fun x : spath * Z => (sp_obs b (fst x), snd x)) sc).
Proof.
  set (w := fun x : spath * Z => (sp_obs b (fst x), snd x)).
  assert (L : forall x y, gs_le qe x y = gso_le qe (w x) (w y)) by (intros [px sx] [py sy]; reflexivity).
  unfold stable_sort. induction sc as [|x sc IH]; cbn [fold_right map]; [reflexivity|].
  rewrite <- IH. clear IH. generalize (fold_right (insert_stable (gs_le qe)) [] sc). intros acc.
  induction acc as [|y acc IHa]; cbn [insert_stable map]; [reflexivity|].
  rewrite <- L. destruct (gs_le qe x y); cbn [map]; [reflexivity | now rewrite IHa].
Qed.

Theorem global_search_content qe (score : string -> Z) a a' r r' :
  map (sp_obs a) r = map (sp_obs a') r' ->
  map (sp_obs a) (global_search qe (map (fun p => (p, score (sp_text p))) r)) =
  map (sp_obs a') (global_search qe (map (fun p => (p, score (sp_text p))) r')).
Proof.
  intros H. unfold global_search.
  assert (G : forall b q, map (sp_obs b) (firstn 100 (map fst (stable_sort (gs_le qe) (map (fun p => (p, score (sp_text p))) q)))) =
                          firstn 100 (map fst (stable_sort (gso_le qe) (map (fun o => (o, score (obs_text o))) (map (sp_obs b) q))))).
  { intros b q. rewrite <- firstn_map. f_equal.
    assert (E1 : map (fun o => (o, score (obs_text o))) (map (sp_obs b) q) =
                 map (fun x : spath * Z => (sp_obs b (fst x), snd x)) (map (fun p => (p, score (sp_text p))) q))
      by (rewrite !map_map; reflexivity).
    rewrite E1, <- (gs_sort_obs qe b). rewrite !map_map. reflexivity. }
  now rewrite (G a r), (G a' r'), H.
Qed.

(* ================================================================================================ *)
(* Headline theorems                                                                                *)
(* ================================================================================================ *)

(* C16_index_sets: same key -> id-set content (entries in any order, ids in any order, any
   multiplicity) => the getters answer the same sorted list, panics included *)
Theorem C16_index_sets :
  forall (a : arena) (ri ri' : refindex),
    (forall k x, In x (kget k (ri_block ri)) <-> In x (kget k (ri_block ri'))) ->
    (forall k x, In x (kget k (ri_inline ri)) <-> In x (kget k (ri_inline ri'))) ->
    forall k, get_block_references_to a ri k = get_block_references_to a ri' k /\
              get_inline_references_to a ri k = get_inline_references_to a ri' k.
Proof. intros a ri ri' Hb Hi. apply index_getters_set. split; assumption. Qed.
Print Assumptions C16_index_sets.

(* ... and these are the representations with the same content: a permutation of the entries of
   a map with distinct keys whose id lists are permuted one by one *)
Theorem C16_index_sets_perm :
  forall (m m1 m' : kmap),
    Forall2 (fun e e' => fst e = fst e' /\ Permutation (snd e) (snd e')) m m1 ->
    Permutation m1 m' -> NoDup (map fst m1) ->
    forall k x, In x (kget k m) <-> In x (kget k m').
Proof. exact kmap_perm_both. Qed.
Print Assumptions C16_index_sets_perm.

(* ... the same insertions in another order, and merges of indexes whose maps are iterated in
   another order *)
Theorem C16_index_insert_order :
  forall (ps ps' : list (string * nat)) (m : kmap),
    Permutation ps ps' -> forall k x, In x (kget k (kadd_all ps m)) <-> In x (kget k (kadd_all ps' m)).
Proof.
  intros ps ps' m P. apply kadd_order_irrelevant; [|apply kmap_equiv_refl].
  intros p. split; apply Permutation_in; [exact P | now symmetry].
Qed.
Print Assumptions C16_index_insert_order.

Theorem C16_index_merge_order :
  forall ri ri' o o', index_equiv ri ri' ->
    Permutation (ri_block o) (ri_block o') -> Permutation (ri_inline o) (ri_inline o') ->
    index_equiv (merge ri o) (merge ri' o').
Proof. exact merge_order_irrelevant. Qed.
Print Assumptions C16_index_merge_order.

(* C16_paths_perm.  (1) the last step `sorted().dedup()` is a function of the set *)
Theorem C16_paths_set :
  forall l l' : list (list nat), (forall p, In p l <-> In p l') -> sort_paths l = sort_paths l'.
Proof. exact sort_paths_set. Qed.
Print Assumptions C16_paths_set.

Theorem C16_path_cmp_total_order :
  (forall p q, path_cmp p q <> Gt -> path_cmp q p <> Gt -> p = q) /\
  (forall p q r, path_cmp p q <> Gt -> path_cmp q r <> Gt -> path_cmp p r <> Gt) /\
  (forall p q, path_cmp p q <> Gt \/ path_cmp q p <> Gt).
Proof. exact path_cmp_total_order. Qed.
Print Assumptions C16_path_cmp_total_order.

Theorem C16_sort_paths_is_sorted_dedup : forall l, sort_paths l = dedup_adj (psort l).
Proof. exact sort_paths_is_sorted_dedup. Qed.
Print Assumptions C16_sort_paths_is_sorted_dedup.

(* (2) the whole of graph_to_paths: any enumeration of the start nodes, any order / multiplicity
   of every referrer list *)
Theorem C16_paths_perm :
  forall (refs refs' : string -> res (list nat)) (order order' : list nat) (a : arena),
    (forall k, res_seteq (refs k) (refs' k)) -> (forall x, In x order <-> In x order') ->
    res_agree (graph_to_paths_gen refs order a) (graph_to_paths_gen refs' order' a).
Proof. exact graph_to_paths_order_irrelevant. Qed.
Print Assumptions C16_paths_perm.

(* (3) tied to the model and to the Rust: the model (sorted referrers, arena order) agrees with
   the run that reads the referrers unsorted from any map with the index's content and takes the
   start nodes in any order *)
Theorem C16_paths_model :
  forall (s : gstate) (m : kmap) (order : list nat),
    (forall k x, In x (kget k (ri_block (gs_index s))) <-> In x (kget k m)) ->
    (forall x, In x order <-> x < length (gr_arena (gs_graph s))) ->
    res_agree (graph_to_paths true s)
              (graph_to_paths_gen (hash_refs (gr_arena (gs_graph s)) m) order (gr_arena (gs_graph s))).
Proof. exact graph_to_paths_hash_order. Qed.
Print Assumptions C16_paths_model.

(* (4) exact equality (panic sites included) between states that differ in the index
   representation only *)
Theorem C16_paths_state :
  forall filt s s', state_equiv s s' ->
    graph_to_paths filt s = graph_to_paths filt s' /\ search_paths filt s = search_paths filt s'.
Proof. intros filt s s' H. split; [now apply graph_to_paths_state | now apply search_paths_state]. Qed.
Print Assumptions C16_paths_state.

(* C16_search_stable *)
Theorem C16_search_stable :
  forall qe (scored scored' : list (spath * Z)),
    Permutation scored scored' ->
    (forall z, filter (gs_eqv qe z) scored = filter (gs_eqv qe z) scored') ->
    global_search qe scored = global_search qe scored'.
Proof. exact global_search_perm_classes. Qed.
Print Assumptions C16_search_stable.

Theorem C16_search_distinct :
  forall qe (scored scored' : list (spath * Z)),
    Permutation scored scored' -> NoDup scored ->
    (forall x y, In x scored -> In y scored -> gs_eqv qe x y = true -> x = y) ->
    global_search qe scored = global_search qe scored'.
Proof. exact global_search_perm_distinct. Qed.
Print Assumptions C16_search_distinct.

Theorem C16_search_ties :
  forall qe scored, exists all,
    global_search qe scored = firstn 100 (map fst all) /\
    Permutation scored all /\ StronglySorted (fun x y => gs_le qe x y = true) all /\
    forall z, filter (gs_eqv qe z) all = filter (gs_eqv qe z) scored.
Proof. exact global_search_ties. Qed.
Print Assumptions C16_search_ties.

Theorem C16_search_pipeline :
  forall qe (score : spath -> Z) (s : gstate) (m : kmap) (order : list nat),
    (forall k x, In x (kget k (ri_block (gs_index s))) <-> In x (kget k m)) ->
    (forall x, In x order <-> x < length (gr_arena (gs_graph s))) ->
    res_agree (global_search_of qe score (search_paths true s))
              (global_search_of qe score (search_paths_gen (hash_refs (gr_arena (gs_graph s)) m) order s)).
Proof. exact search_pipeline_order_irrelevant. Qed.
Print Assumptions C16_search_pipeline.
Print Assumptions search_paths_of_ties.
Print Assumptions global_search_order_refuted.

(* C16_export_perm *)
Theorem C16_export_perm :
  forall (tm : string -> res string) (order order' : list string),
    Permutation order order' -> NoDup order ->
    res_agree (export_sorted tm order) (export_sorted tm order').
Proof. exact export_order_irrelevant. Qed.
Print Assumptions C16_export_perm.

Theorem C16_export_graph :
  forall o tables g g', graph_equiv g g' ->
    res_agree (export_graph o tables g (map fst (gr_keys g))) (export_graph o tables g' (map fst (gr_keys g'))).
Proof. exact export_graph_hashmaps. Qed.
Print Assumptions C16_export_graph.

(* ---------- non-vacuity ---------------------------------------------------------------------------- *)

(* d includes c and b; a and b include c; c includes a (cycle a <-> c): key "c" has three referrers *)
Definition c16_witness : list (string * option string * list dblock) :=
  [("a", None, [DHeader (0, 1) 1 [Str "a"]; ref_to "c" (2, 3)]);
   ("b", None, [DHeader (0, 1) 1 [Str "b"]; DHeader (2, 3) 2 [Str "sub"]; ref_to "c" (4, 5)]);
   ("c", None, [DHeader (0, 1) 1 [Str "c"]; DHeader (2, 3) 2 [Str "c2"]; ref_to "a" (4, 5)]);
   ("d", None, [DHeader (0, 1) 1 [Str "d"]; ref_to "c" (2, 3); ref_to "b" (4, 5)])].

(* the key map in reverse order with every id list reversed *)
Definition rev_kmap (m : kmap) : kmap := rev (map (fun e => (fst e, rev (snd e))) m).

Example C16_paths_example :
  exists s, import_state_v true c16_witness = Ok s /\
    let a := gr_arena (gs_graph s) in
    ri_block (gs_index s) = [("c", [2; 6; 13]); ("a", [10]); ("b", [14])] /\
    graph_to_paths true s = Ok [[12]; [12; 4]; [12; 4; 5]; [12; 4; 5; 8]; [12; 4; 5; 8; 9]; [12; 4; 5; 8; 9; 1];
                                [12; 8]; [12; 8; 9]; [12; 8; 9; 1]] /\
    graph_to_paths_gen (hash_refs a (rev_kmap (ri_block (gs_index s)))) (rev (seq 0 (length a))) a
      = graph_to_paths true s /\
    get_block_references_to a (RI (rev_kmap (ri_block (gs_index s))) []) "c" = Ok [2; 6; 13] /\
    (do ps <- search_paths true s; Ok (map sp_ids (firstn 2 ps))) = Ok [[12; 4; 5; 8]; [12; 8]].
Proof. eexists. split; [vm_compute; reflexivity|]. vm_compute. repeat split; reflexivity. Qed.

(* the last two lines: why C16_paths_perm / C16_export_perm say "or both panic" and not "=" -
   the site of the first panic does depend on the order *)
Example C16_export_example :
  export_sorted (fun k => Ok (String.append k "!")) ["b"; "a"; "d/c"] = Ok [("a", "a!"); ("b", "b!"); ("d/c", "d/c!")] /\
  export_sorted (fun k => Ok (String.append k "!")) ["d/c"; "b"; "a"] = Ok [("a", "a!"); ("b", "b!"); ("d/c", "d/c!")] /\
  res_agree (export_sorted (fun k => if String.eqb k "a" then Panic "x" else Panic "y") ["a"; "b"])
            (export_sorted (fun k => if String.eqb k "a" then Panic "x" else Panic "y") ["b"; "a"]) /\
  export_sorted (fun k => if String.eqb k "a" then Panic "x" else Panic "y") ["a"; "b"] <>
  export_sorted (fun k => if String.eqb k "a" then Panic "x" else Panic "y") ["b"; "a"].
Proof. repeat split; try reflexivity. vm_compute. discriminate. Qed.

Example C16_search_example :
  global_search true [tie_a; tie_b; (SP "x" 7 "k3" true 0 [9], 0%Z)] =
    [SP "x" 7 "k3" true 0 [9]; fst tie_a; fst tie_b] /\
  gs_eqv true tie_a tie_b = true.
Proof. split; reflexivity. Qed.
