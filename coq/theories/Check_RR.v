(* Check_RR.v — per-run validation of the re-parse specification (Reparse.v): correspondence
   stage 8.  For every note of a library case whose written blocks (the model's projection of the
   model's collected tree, titles refreshed) are in the class [reparse_safe] and whose front matter
   is [meta_safe], the blocks — with line ranges — and the metadata that the REAL reader returned on
   the REAL writer's text ([no_reread]) must be exactly [rr_doc] of the written blocks.
   The runners are those of Check_Norm with this stage appended. *)
From IweV Require Export Check_Norm Reparse.
Local Open Scope string_scope.
Local Open Scope list_scope.

Definition dblocks_eqb := list_eqb dblock_eqb.

(* the blocks the model writes for a note: Projector over Graph::collect *)
Definition written_blocks (g : graph) (key : string) : res (list gblock) :=
  do t <- collect_key g key; Ok (project (key_parent key) t).

Definition note_rr_safe (c : libcase) (g : graph) (o : note_obs) : bool :=
  match written_blocks g (no_key o) with
  | Ok gb => reparse_safe (o_of c) gb && meta_safe (alookup (no_key o) (gr_meta g))
  | Panic _ => false
  end.

Definition note_rr_ok (c : libcase) (g : graph) (o : note_obs) : bool :=
  match written_blocks g (no_key o) with
  | Ok gb =>
      let meta := alookup (no_key o) (gr_meta g) in
      if reparse_safe (o_of c) gb && meta_safe meta then
        match no_reread o with
        | Ok (m, bs) =>
            let '(m', bs') := rr_doc (o_of c) meta gb in
            ostring_eqb m' m && dblocks_eqb bs' bs
        | Panic _ => false
        end
      else true
  | Panic _ => true
  end.

Definition rr_corr (c : libcase) : list N :=
  match model_graph c with
  | Panic _ => []
  | Ok g => flag 8 (forallb (note_rr_ok c g) (lo_notes c))
  end.

(* share of the class: (notes in the class, notes) of a case *)
Definition rr_share (c : libcase) : nat * nat :=
  match model_graph c with
  | Panic _ => (0, length (lo_notes c))
  | Ok g => (length (filter (note_rr_safe c g) (lo_notes c)), length (lo_notes c))
  end.

(* diagnosis: per failing note (key, written text, model's rr, observed re-read) *)
Definition rr_debug (c : libcase) :=
  match model_graph c with
  | Panic _ => []
  | Ok g =>
      flat_map (fun o =>
        if note_rr_ok c g o then []
        else match written_blocks g (no_key o) with
             | Ok gb => [(no_key o, no_text o, rr_doc (o_of c) (alookup (no_key o) (gr_meta g)) gb, no_reread o)]
             | Panic _ => []
             end) (lo_notes c)
  end.

Definition with_rr (c : libcase) (v : verdict) : verdict :=
  V (v_corr v ++ rr_corr c) (v_prop v) (v_cls v) (v_nontriv v).

Definition run_C01 (c : libcase) : verdict := with_rr c (Check_Norm.run_C01 c).
Definition run_C02 (c : libcase) : verdict := with_rr c (Check_Norm.run_C02 c).

(* ---------- C01, the reader against an independent account of what the note says -------------
   [said]: per note (state name), the characters of every Text / Code / InlineHtml event and the
   destination of every link and image of pulldown-cmark itself (the reader's Options; outside raw HTML blocks - a documented drop - and
   outside the front matter, which sub-property 2 covers), in document order, white space removed.
   Sub-property 3: the blocks the reader returned say exactly that - the same characters in the
   same order: nothing dropped, doubled or moved by the reader before normalization starts. *)
Definition is_ws (c : ascii) : bool :=
  let n := Ascii.nat_of_ascii c in Nat.eqb n 32 || Nat.eqb n 10 || Nat.eqb n 13 || Nat.eqb n 9.
Fixpoint squeeze (s : string) : string :=
  match s with
  | EmptyString => EmptyString
  | String c r => if is_ws c then squeeze r else String c (squeeze r)
  end.

(* what an inline says: its text, and for a link or image its destination (between the marks
   \001 and \002) where it starts *)
Definition mark1 : string := String (Ascii.ascii_of_nat 1) "".
Definition mark2 : string := String (Ascii.ascii_of_nat 2) "".
Fixpoint inline_says (i : inline) : string :=
  let fix go (l : list inline) : string :=
    match l with [] => "" | x :: r => inline_says x +++ go r end in
  match i with
  | Str s | Code s => s
  | Math _ => ""
  | Emph l | Strong l | Strike l => go l
  | Link u _ _ l | Image u _ l => mark1 +++ u +++ mark2 +++ go l
  end.
Definition inlines_say (l : list inline) : string := sconcat (map inline_says l).

Fixpoint block_says (b : dblock) {struct b} : string :=
  let fix go (l : list dblock) : string :=
    match l with [] => "" | x :: r => block_says x +++ go r end in
  let fix items (l : list (list dblock)) : string :=
    match l with [] => "" | it :: r => go it +++ items r end in
  match b with
  | DPara _ l | DHeader _ _ l => inlines_say l
  | DCode _ _ t => t
  | DQuote _ bs => go bs
  | DOList its | DBList its => items its
  | DRule _ => ""
  | DTable _ h _ rows => sconcat (map inlines_say h) +++ sconcat (map (fun r => sconcat (map inlines_say r)) rows)
  end.
Definition blocks_say (bs : list dblock) : string := squeeze (sconcat (map block_says bs)).

Definition p_said (c : libcase) (said : list (string * string)) : bool :=
  forallb (fun ni => match ni_blocks ni, alookup (ni_name ni) said with
                     | Ok bs, Some s => String.eqb (blocks_say bs) s
                     | Panic _, _ => true          (* a reader panic is C03's *)
                     | _, None => false
                     end) (lc_notes c).

(* sub-property 4: what formatting a note gives does not change when the OTHER notes of the library
   are re-submitted with the texts they already have (update_key of each: what saving an unchanged
   buffer does) - "keeps everything the note says" also in a library that is being worked on.
   [settled]: per note, the two texts (None: a step panicked, which is C03's / C04's to report). *)
Definition p_settled (settled : list (string * option (string * string))) : bool :=
  forallb (fun e => match snd e with Some (a, b) => String.eqb a b | None => true end) settled.

Definition run_C01o (cs : libcase * list (string * string) * list (string * option (string * string))) : verdict :=
  let '(lc, said, settled) := cs in
  let v := run_C01 lc in
  (* no known class speaks about the reader or about re-submitting unchanged notes: failures of
     sub-properties 3 and 4 are never excused *)
  let extra := (if p_said lc said then [] else [3%N]) ++ (if p_settled settled then [] else [4%N]) in
  match extra with
  | [] => v
  | _ => V (v_corr v) (v_prop v ++ extra) [] (v_nontriv v)
  end.

Definition run_C06 (c : libcase) : verdict := with_rr c (Check_Norm.run_C06 c).
Definition run_C07 (c : libcase) : verdict := with_rr c (Check_Norm.run_C07 c).
