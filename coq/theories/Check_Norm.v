(* Check_Norm.v — property predicates of the normalization family (C01 C02 C06 C07),
   evaluated on what the implementation did (library case of Check_Lib.v): the blocks the
   real reader produced for the source, the text the real code wrote, the blocks the real
   reader produces for that text, and the text written the second time.
   Also the classifiers of the known-finding classes. *)
From IweV Require Export Check_Lib SectionsSpec.
Local Open Scope string_scope.
Local Open Scope list_scope.

(* ---------- skeleton (C07): block structure with heading levels and line ranges erased ---- *)

Inductive sk :=
| SPara | SCode | SRule | STable
| SHeader (level : nat) (text : string)
| SQuote (bs : list sk)
| SList (ordered : bool) (items : list (list sk)).

Fixpoint sk_eqb (lv : bool) (a b : sk) {struct a} : bool :=
  let fix go (x y : list sk) {struct x} : bool :=
    match x, y with
    | [], [] => true
    | i :: x', j :: y' => sk_eqb lv i j && go x' y'
    | _, _ => false
    end in
  let fix goi (x y : list (list sk)) {struct x} : bool :=
    match x, y with
    | [], [] => true
    | i :: x', j :: y' => go i j && goi x' y'
    | _, _ => false
    end in
  match a, b with
  | SPara, SPara | SCode, SCode | SRule, SRule | STable, STable => true
  | SHeader l t, SHeader l' t' => (if lv then Nat.eqb l l' else true) && String.eqb t t'
  | SQuote x, SQuote y => go x y
  | SList o x, SList o' y => Bool.eqb o o' && goi x y
  | _, _ => false
  end.

(* words of a text: split at ASCII white space *)
Definition is_space (a : ascii) : bool :=
  let n := nat_of_ascii a in (Nat.leb 9 n && Nat.leb n 13) || Nat.eqb n 32.
Fixpoint words_aux (s : string) (cur : string) : list string :=
  match s with
  | EmptyString => if sempty cur then [] else [srev cur]
  | String a r => if is_space a then (if sempty cur then words_aux r "" else srev cur :: words_aux r "")
                  else words_aux r (String a cur)
  end.
Definition words (s : string) : list string := words_aux s "".
Definition norm_text (s : string) : string := join " " (words s).

(* the documented merges, as a transformation on reader blocks:
   - a heading that is the first block of an item counts as the item's text (paragraph);
   - an item that is nothing but a list is merged into the enclosing list;
   - empty items, and lists/quotes left without content, carry nothing. *)
Fixpoint canon (b : dblock) {struct b} : list dblock :=
  let fix go (l : list dblock) {struct l} : list dblock :=
    match l with [] => [] | x :: r => canon x ++ go r end in
  let fix items (l : list (list dblock)) {struct l} : list (list dblock) :=
    match l with
    | [] => []
    | it :: r =>
        (* the heading rule is applied to what is LEFT of the item once the blocks that carry
           nothing are gone (`+ +` / `  # h`: an empty inner list, then a heading - written
           `- # h`, where the heading leads the item) *)
        (let lead (l : list dblock) : list dblock :=
           match l with DHeader lr _ il :: rest => DPara lr il :: rest | _ => l end in
         match it with
         | [] => []
         | ((DBList _ | DOList _) as first) :: rest =>
             match go rest with
             | [] => match canon first with [DBList inner] | [DOList inner] => inner | _ => [] end
             | s => [lead (canon first ++ s)]
             end
         | _ => match go it with [] => [] | s => [lead s] end
         end) ++ items r
    end in
  match b with
  | DQuote lr bs => match go bs with [] => [] | s => [DQuote lr s] end
  | DOList its => match items its with [] => [] | s => [DOList s] end
  | DBList its => match items its with [] => [] | s => [DBList s] end
  | _ => [b]
  end.
Definition canons (bs : list dblock) : list dblock := flat_map canon bs.

(* heading text with the parts formatting may legitimately rewrite (C06: refreshed link
   titles, bare wiki links) replaced by the link DESTINATION - the note the url names from the
   note's directory [dir], as everywhere else (since inline note links are kept by key the url is
   written in its canonical relative form: `./a` comes back as `a`, the same destination) *)
Section Skel.
Variable dir : string.
Fixpoint stable_text (i : inline) : string :=
  let fix go (l : list inline) : string :=
    match l with [] => "" | x :: r => stable_text x +++ go r end in
  match i with
  | Str s => s
  | Code s => s
  | Math _ => ""
  | Emph l | Strong l | Strike l => go l
  | Link url _ lt l =>
      if is_ref_url url then
        match lt with
        | WikiLinkPiped => go l
        | _ => " @" +++ from_rel_link_url url dir +++ " "
        end
      else go l
  | Image _ _ l => go l
  end.
Definition stable_plain (l : list inline) : string := sconcat (map stable_text l).

Fixpoint skel1 (b : dblock) {struct b} : sk :=
  let fix go (l : list dblock) {struct l} : list sk :=
    match l with [] => [] | x :: r => skel1 x :: go r end in
  let fix items (l : list (list dblock)) {struct l} : list (list sk) :=
    match l with [] => [] | it :: r => go it :: items r end in
  match b with
  | DPara _ _ => SPara
  | DCode _ _ _ => SCode
  | DRule _ => SRule
  | DTable _ _ _ _ => STable
  | DHeader _ n l => SHeader n (norm_text (stable_plain l))
  | DQuote _ bs => SQuote (go bs)
  | DOList its => SList true (items its)
  | DBList its => SList false (items its)
  end.

Definition skels (bs : list dblock) : list sk := map skel1 (canons bs).
End Skel.

(* heading levels of one nesting context *)
Definition levels_of (s : list sk) : list nat :=
  flat_map (fun x => match x with SHeader n _ => [n] | _ => [] end) s.

Fixpoint well_nested_from (prev : nat) (l : list nat) : bool :=
  match l with
  | [] => true
  | n :: r => Nat.leb 1 n && Nat.leb n (S prev) && well_nested_from n r
  end.
Definition well_nested (l : list nat) : bool := well_nested_from 0 l.

(* every nesting context (top level, each quote, each item) is well nested *)
Fixpoint wn_sk (x : sk) {struct x} : bool :=
  let fix go (l : list sk) {struct l} : bool :=
    match l with [] => true | y :: r => wn_sk y && go r end in
  let fix goi (l : list (list sk)) {struct l} : bool :=
    match l with [] => true | it :: r => well_nested (levels_of it) && go it && goi r end in
  match x with
  | SQuote bs => well_nested (levels_of bs) && go bs
  | SList _ its => goi its
  | _ => true
  end.
Definition all_well_nested (s : list sk) : bool := well_nested (levels_of s) && forallb wn_sk s.

(* ---------- known-finding classifiers on reader blocks ---------------------------------- *)

(* characters that are never Markdown syntax: ASCII letters, digits, space, and non-ASCII
   bytes other than the C2 page (NBSP and friends are white space to `trim`) *)
Definition safe_byte (a : ascii) : bool :=
  let n := nat_of_ascii a in
  (Nat.leb 48 n && Nat.leb n 57) || (Nat.leb 65 n && Nat.leb n 90) || (Nat.leb 97 n && Nat.leb n 122)
  || Nat.eqb n 32 || (Nat.leb 128 n && negb (Nat.eqb n 194)).
Fixpoint all_bytes (p : ascii -> bool) (s : string) : bool :=
  match s with EmptyString => true | String a r => p a && all_bytes p r end.
Definition inert_str (s : string) : bool := all_bytes safe_byte s.
(* urls: additionally `/` `.` `-` `_` `:` *)
Definition url_byte (a : ascii) : bool :=
  let n := nat_of_ascii a in
  (safe_byte a && negb (Nat.eqb n 32)) || Nat.eqb n 47 || Nat.eqb n 46 || Nat.eqb n 45 || Nat.eqb n 95 || Nat.eqb n 58.
Definition inert_url (s : string) : bool := all_bytes url_byte s && negb (sempty s).

Fixpoint inert_inline (i : inline) : bool :=
  let fix go (l : list inline) : bool := match l with [] => true | x :: r => inert_inline x && go r end in
  match i with
  | Str s => inert_str s
  | Code s => inert_str s && negb (sempty (trim s)) && String.eqb (trim s) s
  | Math _ => false
  | Emph l | Strong l | Strike l => go l && negb (sempty (inlines_plain_text l))
  | Link url title _ l => inert_url url && sempty title && go l
  | Image url title l => inert_url url && sempty title && go l
  end.
Definition inert_inlines (l : list inline) : bool := forallb inert_inline l.

(* two adjacent inlines that would fuse or re-tokenise when written side by side *)
Definition is_strish (i : inline) : bool := match i with Str _ => true | _ => false end.
Fixpoint no_adjacent_str (l : list inline) : bool :=
  match l with
  | a :: ((b :: _) as r) => negb (is_strish a && is_strish b) && no_adjacent_str r
  | _ => true
  end.

Fixpoint inert_block (b : dblock) {struct b} : bool :=
  let fix go (l : list dblock) : bool := match l with [] => true | x :: r => inert_block x && go r end in
  let fix goi (l : list (list dblock)) : bool := match l with [] => true | x :: r => go x && goi r end in
  match b with
  | DPara _ l => inert_inlines l
  | DHeader _ _ l => inert_inlines l
  | DCode _ lang text => match lang with Some la => inert_str la | None => true end
                         && all_bytes (fun a => safe_byte a || Ascii.eqb a LF) text
  | DQuote _ bs => go bs
  | DOList its | DBList its => goi its
  | DRule _ => true
  | DTable _ h _ rows => forallb inert_inlines h && forallb (forallb inert_inlines) rows
  end.
Definition inert_blocks (bs : list dblock) : bool := forallb inert_block bs.

(* the shape "odd item lead" (F1, F18; formerly known-finding class 2, F-LEADPANIC / F-ITEMLEAD): an
   item whose first block is a code block, quote, table or rule (the builder used to panic), or
   is a list and is followed by further blocks in the same item (the blocks of the inner list's
   last item used to be overwritten).  Repaired in the builder; the predicate classifies nothing
   any more and is kept only to name the shape in examples. *)
Fixpoint plain_items (b : dblock) {struct b} : bool :=
  let fix go (l : list dblock) : bool := match l with [] => true | x :: r => plain_items x && go r end in
  let fix goi (l : list (list dblock)) : bool :=
    match l with
    | [] => true
    | it :: r => (match it with
                  | (DCode _ _ _ | DQuote _ _ | DTable _ _ _ _ | DRule _) :: _ => false
                  | (DBList _ | DOList _) :: _ :: _ => false
                  | _ => true
                  end) && go it && goi r
    end in
  match b with
  | DQuote _ bs => go bs
  | DOList its | DBList its => goi its
  | _ => true
  end.

(* the shape "tight tail" (F7; formerly known-finding class 3, F-TIGHTTAIL): a list that WAS written tight (no
   item with two paragraphs, the item text that a leading heading becomes counted) in which some item holds a rule
   or a table (under text: re-read as a setext heading / as a lazy continuation line) or two block quotes in a row
   (re-read as ONE quote).  Repaired in the writer: GraphBlock::is_sparce_list (model/graph.rs:53-84) writes a
   list sparse as soon as an item holds two blocks in a row that cannot stand on consecutive lines
   (Project.is_sparse / absorbs).  The predicate classifies nothing any more and is kept only to name the shape
   in examples. *)
Definition is_dpara (x : dblock) : bool := match x with DPara _ _ => true | _ => false end.
Definition item_paras (it : list dblock) : nat :=
  match it with
  | DHeader _ _ _ :: r => S (length (filter is_dpara r))
  | _ => length (filter is_dpara it)
  end.
Definition tight_list (its : list (list dblock)) : bool := negb (existsb (fun it => Nat.ltb 1 (item_paras it)) its).
Definition is_dquote (x : dblock) : bool := match x with DQuote _ _ => true | _ => false end.
Fixpoint adjacent_quotes (l : list dblock) : bool :=
  match l with
  | a :: ((b :: _) as r) => (is_dquote a && is_dquote b) || adjacent_quotes r
  | _ => false
  end.
Fixpoint calm_items (b : dblock) {struct b} : bool :=
  let fix go (l : list dblock) : bool := match l with [] => true | x :: r => calm_items x && go r end in
  let fix goi (tight : bool) (l : list (list dblock)) : bool :=
    match l with
    | [] => true
    | it :: r => negb (tight && (existsb (fun x => match x with DRule _ | DTable _ _ _ _ => true | _ => false end) it
                                 || adjacent_quotes it))
                 && go it && goi tight r
    end in
  match b with
  | DQuote _ bs => go bs
  | DOList its | DBList its => goi (tight_list its) its
  | _ => true
  end.

(* (the former class 4 "code span in a table cell", F-TABLECODE, is repaired: the table writer
   is fed the inline code event, markdown/writer.rs:154-156; a table holding a code span is an
   input like any other) *)

Fixpoint max_heading_depth (s : list sk) : nat :=
  length (levels_of s).

(* ---------- per-note predicates -------------------------------------------------------- *)

Definition note_blocks (c : libcase) (key : string) : option (list dblock) :=
  match find (fun n => String.eqb (key_name (ni_name n)) key) (lc_notes c) with
  | Some n => match ni_blocks n with Ok bs => Some bs | Panic _ => None end
  | None => None
  end.

Definition text_eqb (a b : res string) : bool :=
  match a, b with Ok x, Ok y => String.eqb x y | _, _ => false end.

(* C02: the second formatting returns the first byte for byte *)
Definition p_fixpoint (o : note_obs) : bool := text_eqb (no_text o) (no_text2 o).

(* C07a: same skeleton (levels erased) before and after *)
Definition p_skeleton (c : libcase) (o : note_obs) : bool :=
  match note_blocks c (no_key o), no_reread o with
  | Some bs, Ok (_, bs') => list_eqb (sk_eqb false) (skels (key_parent (no_key o)) bs) (skels (key_parent (no_key o)) bs')
  | _, _ => false
  end.
(* C07b: the written outline is well nested in every context *)
Definition p_well_nested (o : note_obs) : bool :=
  match no_reread o with Ok (_, bs') => all_well_nested (skels (key_parent (no_key o)) bs') | _ => false end.
(* C07c: a well-nested outline is reproduced with identical levels *)
Definition p_identity (c : libcase) (o : note_obs) : bool :=
  match note_blocks c (no_key o), no_reread o with
  | Some bs, Ok (_, bs') =>
      implb (all_well_nested (skels (key_parent (no_key o)) bs)) (list_eqb (sk_eqb true) (skels (key_parent (no_key o)) bs) (skels (key_parent (no_key o)) bs'))
  | _, _ => false
  end.

Definition note_classes (c : libcase) (o : note_obs) : list N :=
  match note_blocks c (no_key o) with
  | Some bs =>
      flag 1 (inert_blocks bs)
  | None => [9%N]
  end.

(* class "title depends on titles" (F-TITLELINK): the first heading of some note of the library
   contains a note link that is REWRITTEN on output - a regular link (its text is refreshed from a
   title), or a bare wiki link whose url is not the form iwe writes (`.md` taken off, the path made
   canonical: its text is the url) - so the title the cache holds (the heading as read) is not the
   title of the formatted note *)
Fixpoint has_refreshable (dir : string) (i : inline) : bool :=
  let fix go (l : list inline) : bool := match l with [] => false | x :: r => has_refreshable dir x || go r end in
  match i with
  | Emph l | Strong l | Strike l => go l
  | Link url _ Regular _ => is_ref_url url
  | Link url _ WikiLink _ =>
      is_ref_url url && negb (String.eqb (to_rel_link_url (from_rel_link_url url dir) dir) url)
  | _ => false
  end.
Definition title_has_link (n : note_in) : bool :=
  match ni_blocks n with
  | Ok (DHeader _ _ l :: _) => existsb (has_refreshable (key_parent (key_name (ni_name n)))) l
  | _ => false
  end.

Definition dedup_N (l : list N) : list N := nodup N.eq_dec l.

(* ---------- atoms (C01): what a note says, as a token list ------------------------------- *)

Section Atoms.
  Variable dir : string.   (* directory of the note: destinations are compared as resolved keys *)

  Fixpoint inline_atoms (i : inline) : list string :=
    let fix go (l : list inline) : list string :=
      match l with [] => [] | x :: r => inline_atoms x ++ go r end in
    match i with
    | Str s => map (fun w => "w:" +++ w) (words s)
    | Code s => ["c:" +++ norm_text s]
    | Math s => ["m:" +++ s]
    | Emph l | Strong l | Strike l => go l
    | Link url _ lt l =>
        if is_ref_url url then
          match lt with
          | Regular => ["u:" +++ from_rel_link_url url dir]                  (* text may be refreshed: C06 *)
          | WikiLink => ["u:" +++ from_rel_link_url url dir]
          | WikiLinkPiped => ("u:" +++ from_rel_link_url url dir) :: go l
          end
        else ("x:" +++ url) :: go l
    | Image url _ l => ("i:" +++ url) :: go l
    end.
  Definition inlines_atoms (l : list inline) : list string := flat_map inline_atoms l.
  Definition cells_atoms (c : cells) : list string := flat_map (fun x => "c(" :: inlines_atoms x ++ [")"]) c.

  (* on canonical blocks *)
  Fixpoint atoms1 (b : dblock) {struct b} : list string :=
    let fix go (l : list dblock) {struct l} : list string :=
      match l with [] => [] | x :: r => atoms1 x ++ go r end in
    let fix items (l : list (list dblock)) {struct l} : list string :=
      match l with [] => [] | it :: r => ("I(" :: go it ++ [")"]) ++ items r end in
    match b with
    | DPara _ l => "P" :: inlines_atoms l
    | DCode _ lang text => ["C:" +++ match lang with Some la => trim la | None => "" end; trim_lf text]
    | DRule _ => ["R"]
    | DTable _ h _ rows => ("T(" :: cells_atoms h) ++ flat_map (fun r => "r(" :: cells_atoms r ++ [")"]) rows ++ [")"]
    | DHeader _ _ l => "H" :: inlines_atoms l
    | DQuote _ bs => "Q(" :: go bs ++ [")"]
    | DOList its => "OL(" :: items its ++ [")"]
    | DBList its => "BL(" :: items its ++ [")"]
    end.
  Definition atoms (bs : list dblock) : list string := flat_map atoms1 (canons bs).
End Atoms.

(* C01: same atoms before and after; front matter kept *)
Definition p_atoms (c : libcase) (o : note_obs) : bool :=
  match note_blocks c (no_key o), no_reread o with
  | Some bs, Ok (_, bs') => let d := key_parent (no_key o) in list_eqb String.eqb (atoms d bs) (atoms d bs')
  | _, _ => false
  end.
Definition note_meta (c : libcase) (key : string) : option string :=
  match find (fun n => String.eqb (key_name (ni_name n)) key) (lc_notes c) with
  | Some n => ni_meta n
  | None => None
  end.
Definition p_meta (c : libcase) (o : note_obs) : bool :=
  match no_reread o with
  | Ok (m, _) => ostring_eqb (note_meta c (no_key o)) m
  | _ => false
  end.

(* a case fails when some note fails outside every known class; the classes reported are
   those of the failing notes *)
Definition combine_notes (l : list (list N * list N)) : list N * list N :=
  let failing := filter (fun x => match fst x with [] => false | _ => true end) l in
  let bad := filter (fun x => match snd x with [] => true | _ => false end) failing in
  match bad with
  | [] => (dedup_N (flat_map fst failing), dedup_N (flat_map snd failing))
  | _ => (dedup_N (flat_map fst bad), [])
  end.

Definition run_norm_explore (c : libcase) : verdict :=
  let per := map (fun o =>
     (flag 1 (p_fixpoint o) ++ flag 2 (p_skeleton c o) ++ flag 3 (p_well_nested o) ++ flag 4 (p_identity c o)
      ++ flag 5 (p_atoms c o) ++ flag 6 (p_meta c o),
      note_classes c o ++ flag 5 (negb (existsb title_has_link (lc_notes c))))) (lo_notes c) in
  let '(f, k) := combine_notes per in
  V (lib_corr c) f k (lib_nontrivial c).

(* ---------- C06: links before and after ------------------------------------------------- *)

(* every link / image occurrence in document order: (kind tag, destination, plain text) *)
Fixpoint inline_links (i : inline) : list (string * string * string) :=
  let fix go (l : list inline) : list (string * string * string) :=
    match l with [] => [] | x :: r => inline_links x ++ go r end in
  match i with
  | Emph l | Strong l | Strike l => go l
  | Link url _ lt l =>
      ((match lt with Regular => (if is_ref_url url then "ref" else "ext") | WikiLink => "wiki" | WikiLinkPiped => "piped" end),
       url, norm_text (inlines_plain_text l)) :: nil   (* links nested in a link text belong to that text *)
  | Image url _ l => ("img", url, norm_text (inlines_plain_text l)) :: go l
  | _ => []
  end.
Fixpoint block_links (b : dblock) {struct b} : list (string * string * string) :=
  let fix go (l : list dblock) : list (string * string * string) :=
    match l with [] => [] | x :: r => block_links x ++ go r end in
  let fix goi (l : list (list dblock)) : list (string * string * string) :=
    match l with [] => [] | x :: r => go x ++ goi r end in
  match b with
  | DPara _ l | DHeader _ _ l => flat_map inline_links l
  | DQuote _ bs => go bs
  | DOList its | DBList its => goi its
  | DTable _ h _ rows => flat_map (flat_map inline_links) h ++ flat_map (fun r => flat_map (flat_map inline_links) r) rows
  | _ => []
  end.
Definition links_of (bs : list dblock) := flat_map block_links bs.

Definition is_note_kind (k : string) : bool := String.eqb k "ref" || String.eqb k "wiki" || String.eqb k "piped".

Definition title_of (c : libcase) (key : string) : option string :=
  match find (fun kv => String.eqb (fst kv) key) (lo_titles c) with
  | Some (_, t) => t
  | None => None
  end.

(* one occurrence before (a) and after (b) formatting, in a note of directory [d] *)
Definition link_ok (c : libcase) (d : string) (a b : string * string * string) : bool :=
  let '(ka, ua, ta) := a in let '(kb, ub, tb) := b in
  String.eqb ka kb &&
  (if is_note_kind ka
   then String.eqb (from_rel_link_url ua d) (from_rel_link_url ub d)     (* same note, whatever the extension *)
   else String.eqb ua ub) &&
  (if String.eqb ka "ref" then
     match title_of c (from_rel_link_url ub d) with
     | Some t => String.eqb tb (norm_text t)
     | None => String.eqb tb ta
     end
   else if String.eqb ka "wiki" then true
   else String.eqb tb ta).

Definition p_links (c : libcase) (o : note_obs) : bool :=
  match note_blocks c (no_key o), no_reread o with
  | Some bs, Ok (_, bs') =>
      let d := key_parent (no_key o) in
      list_eqb (link_ok c d) (links_of bs) (links_of bs')
  | _, _ => false
  end.

Definition para_is_block_ref (b : dblock) : bool :=
  match b with DPara _ l => para_is_ref l | _ => false end.

(* ---------- the four runners ------------------------------------------------------------------ *)

(* class 1 (F-ESC) also through a TITLE: a refreshed link is given the title of the note it names as
   its text, unescaped like any other text (`# a ]]` in b makes `[t](b)` come back as `[a ]]](b)`).
   So class 1 holds as well when the note has a refreshable link (regular, to a note) to a note of
   the library - the note the url names from the note's directory - whose title
   (the plain text of a leading heading, Library.extract_ref_text) is not inert text. *)
Definition note_title_inert (n : note_in) : bool :=
  match ni_blocks n with
  | Ok (DHeader _ _ l :: _) => inert_str (inlines_plain_text l)
  | _ => true
  end.
Definition linked_titles_inert (c : libcase) (o : note_obs) : bool :=
  match note_blocks c (no_key o) with
  | Some bs =>
      let d := key_parent (no_key o) in
      forallb (fun t => let '(k, u, _) := t in
                 negb (String.eqb k "ref") ||
                 forallb (fun n => let key := key_name (ni_name n) in
                            negb (String.eqb key (from_rel_link_url u d))
                            || note_title_inert n) (lc_notes c))
              (links_of bs)
  | None => true
  end.

(* class 7 (F-C02-lead-nothing): the FIRST block of some list item carries nothing (a list of empty items,
   an empty quote) and something follows it: the item does not start with text as read - it is built as a
   section without text over its blocks - but does once it is written, because what carries nothing is
   not written: `+ +` / `  # h` is written `- # h` and then `- h`; `1) +` / `   text` is written as a
   loose item and then as a tight one *)
Fixpoint lead_nothing (b : dblock) {struct b} : bool :=
  let fix go (l : list dblock) {struct l} : bool :=
    match l with [] => false | x :: r => lead_nothing x || go r end in
  let fix items (l : list (list dblock)) {struct l} : bool :=
    match l with
    | [] => false
    | it :: r =>
        (match it with
         | first :: rest =>
             match canon first, flat_map canon rest with
             | [], _ :: _ => true
             | _, _ => false
             end
         | [] => false
         end) || go it || items r
    end in
  match b with
  | DQuote _ bs => go bs
  | DOList its | DBList its => items its
  | _ => false
  end.
Definition note_lead_nothing (c : libcase) (o : note_obs) : bool :=
  match note_blocks c (no_key o) with Some bs => existsb lead_nothing bs | None => false end.

Definition base_classes (c : libcase) (o : note_obs) : list N :=
  note_classes c o ++ flag 1 (linked_titles_inert c o) ++ flag 5 (negb (existsb title_has_link (lc_notes c))) ++
  flag 7 (negb (note_lead_nothing c o)).

Definition has_kinds (c : libcase) : bool := lib_nontrivial c.

(* correspondence stage 7: the specification of SectionsSpec.v against the transliterated cursor
   machine (whose arena is compared with the implementation's in stage 1): for every note, the
   tree read back from the arena, ids aside and before any title refresh, is the tree the
   specification gives *)
Definition spec_corr (c : libcase) : list N :=
  match model_graph c with
  | Panic _ => []
  | Ok g =>
      flag 7 (forallb (fun n =>
        match ni_blocks n with
        | Ok bs =>
            let key := key_name (ni_name n) in
            match alookup key (gr_keys g) with
            | Some root =>
                match collect_raw (gr_arena g) root with
                | Ok (Some t) => tree_eqb_noid t (spec_tree key bs)
                | _ => false
                end
            | None => false
            end
        | Panic _ => true
        end) (lc_notes c))
  end.

Definition run_notes (c : libcase) (preds : note_obs -> list N) (classes : note_obs -> list N) : verdict :=
  let per := map (fun o => (preds o, classes o)) (lo_notes c) in
  let '(f, k) := combine_notes per in
  V (lib_corr c ++ spec_corr c) f k (lib_nontrivial c).

Definition run_C01 (c : libcase) : verdict :=
  run_notes c (fun o => flag 1 (p_atoms c o) ++ flag 2 (p_meta c o)) (base_classes c).

Definition run_C02 (c : libcase) : verdict :=
  run_notes c (fun o => flag 1 (p_fixpoint o)) (base_classes c).

(* (the former class 6, F-INLINEDIR "inline link keyed without the directory", is gone: an inline note link
   is kept by the key it names from the note's directory, like a block reference; [link_ok] always compared
   resolved destinations and demanded the title of the resolved note, so a failure there is a violation now) *)
Definition run_C06 (c : libcase) : verdict :=
  run_notes c (fun o => flag 1 (p_links c o)) (base_classes c).

Definition run_C07 (c : libcase) : verdict :=
  run_notes c (fun o => flag 1 (p_skeleton c o) ++ flag 2 (p_well_nested o) ++ flag 3 (p_identity c o)) (base_classes c).
