(* ReparseCalm.v — which written lines are written the same again: fusing text runs is invisible to the
   writer; a structural sufficient condition ([calm], [gcalm]) for the byte-level fixpoint of ReparseText.v. *)
From IweV Require Import Str Text Ast RelPath RelPathLaws Arena Project SectionsSpec Check_Norm NormFacts BuilderFacts
  SectionsFacts HistoryText Reparse ReparseFacts ReparseText.
From Coq Require Import Lia.
Local Open Scope string_scope.
Local Open Scope list_scope.

(* ---------- which lines are written the same again: a structural sufficient condition ------------------- *)

Lemma inline_md_go o l :
  (fix go (l : list inline) : string := match l with [] => "" | x :: r => inline_md o x +++ go r end) l = inlines_md o l.
Proof. unfold inlines_md. induction l as [|x l IH]; cbn [map sconcat]; [reflexivity | now rewrite IH]. Qed.

Lemma sapp_nil_r s : s +++ "" = s.
Proof. induction s as [|a s IH]; cbn; [reflexivity | now rewrite IH]. Qed.
Lemma sapp_assoc' a b c : (a +++ b) +++ c = a +++ b +++ c.
Proof. induction a as [|x a IH]; cbn; [reflexivity | now rewrite IH]. Qed.

(* fusing text runs is invisible to every rendering that writes text runs verbatim *)
Lemma merge_invisible (f : inline -> string) : (forall s, f (Str s) = s) ->
  forall m, sconcat (map f (merge_strs m)) = sconcat (map f m).
Proof.
  intros Hf m. induction m as [|x m IH]; [reflexivity|].
  destruct x; try (cbn [merge_strs map sconcat]; now rewrite IH).
  cbn [merge_strs]. cbn [map sconcat]. rewrite <- IH, Hf.
  destruct (merge_strs m) as [|y r] eqn:E.
  - destruct (sempty s) eqn:Es; cbn [map sconcat]; [destruct s; [reflexivity | discriminate]|].
    now rewrite Hf.
  - destruct y; try (destruct (sempty s) eqn:Es; cbn [map sconcat]; [destruct s; [reflexivity | discriminate] | now rewrite Hf]).
    cbn [map sconcat]. rewrite !Hf. now rewrite sapp_assoc'.
Qed.

Lemma eq_ignore_refl s : eq_ignore_ascii_case s s = true.
Proof. unfold eq_ignore_ascii_case. apply String.eqb_refl. Qed.

Lemma forallb_map_local {A B} (f : A -> B) p l : forallb p (map f l) = forallb (fun x => p (f x)) l.
Proof. induction l as [|x l IH]; [reflexivity|]. cbn [map forallb]. now rewrite IH. Qed.
Lemma forallb_ext_local {A} (p q : A -> bool) l : (forall x, p x = q x) -> forallb p l = forallb q l.
Proof. intros H. induction l as [|x l IH]; [reflexivity|]. cbn [forallb]. now rewrite H, IH. Qed.

(* a line comes back without text exactly when it was written without text *)
Definition no_text (i : inline) : bool := match i with Str s => sempty s | _ => false end.
Lemma merge_nil l : is_nil (merge_strs l) = forallb no_text l.
Proof.
  induction l as [|x l IH]; [reflexivity|]. destruct x; try reflexivity.
  cbn [merge_strs forallb no_text]. rewrite <- IH. destruct (merge_strs l) as [|y r].
  - destruct (sempty s); reflexivity.
  - cbn [is_nil]. rewrite andb_false_r. destruct y; destruct (sempty s); reflexivity.
Qed.
Lemma no_text_rr o i : no_text (rr_inline o i) = no_text i.
Proof.
  destruct i; try reflexivity. cbn [rr_inline].
  repeat match goal with |- context [match ?x with _ => _ end] => destruct x end; reflexivity.
Qed.
Lemma lead_kind_safe ctx dir o l : lead_kind_stable ctx dir o l = is_nil l || negb (is_nil (merge_strs l)).
Proof.
  unfold lead_kind_stable, line0, rel_inlines, normalize_inlines, to_ginlines, rr_inlines.
  assert (E : forall A B (f : A -> B) m, is_nil (map f m) = is_nil m) by (intros A B f []; reflexivity).
  rewrite !E, !merge_nil, forallb_map_local.
  destruct l as [|x l]; [reflexivity|]. cbn [is_nil orb]. rewrite (forallb_ext_local _ no_text).
  - destruct (forallb no_text (x :: l)); reflexivity.
  - intros i. apply no_text_rr.
Qed.

Section Calm.
  Variable ctx : titles.
  Variable dir : string.
  Variable o : opts.

  (* no link inside (the text of a link holds no link) *)
  Fixpoint nolink (i : inline) {struct i} : bool :=
    match i with
    | Emph l | Strong l | Strike l | Image _ _ l => forallb nolink l
    | Link _ _ _ _ => false
    | _ => true
    end.

  (* re-read and url clean-up, without / with the title refresh *)
  Definition G (i : inline) : inline := to_ginline dir (rr_inline o i).
  (* ... and written relative to the note again *)
  Definition NG (i : inline) : inline := rel_inline dir (normalize_inline ctx (G i)).

  Lemma md_list (h r : inline -> inline) l :
    (forall s, h (Str s) = Str s) -> Forall (fun i => inline_md o (h (r i)) = inline_md o i) l ->
    inlines_md o (map h (merge_strs (map r l))) = inlines_md o l.
  Proof.
    intros Hs HF. unfold inlines_md. rewrite map_map.
    rewrite (merge_invisible (fun x => inline_md o (h x))); [|intros s; now rewrite Hs].
    rewrite map_map.
    induction HF as [|x r' Hx _ IH]; cbn [map sconcat]; [reflexivity | now rewrite Hx, IH].
  Qed.

  Lemma nolink_merge (h : inline -> inline) m :
    (forall s, h (Str s) = Str s) -> Forall (fun y => nolink (h y) = true) m ->
    forallb nolink (map h (merge_strs m)) = true.
  Proof.
    intros Hs HF. induction HF as [|x m' Hx _ IH]; [reflexivity|].
    destruct x; try (cbn [merge_strs map forallb]; rewrite Hx; exact IH).
    cbn [merge_strs]. destruct (merge_strs m') as [|y q].
    - destruct (sempty s); [reflexivity|]. cbn [map forallb]. now rewrite Hs.
    - destruct y; try (destruct (sempty s); [exact IH | cbn [map forallb]; rewrite Hs; exact IH]).
      cbn [map forallb] in IH |- *. rewrite Hs in IH |- *. exact IH.
  Qed.

  Lemma nolink_list (h r : inline -> inline) l :
    (forall s, h (Str s) = Str s) -> Forall (fun i => nolink (h (r i)) = true) l ->
    forallb nolink (map h (merge_strs (map r l))) = true.
  Proof.
    intros Hs HF. apply nolink_merge; [exact Hs|]. induction HF; cbn [map]; constructor; auto.
  Qed.

  Lemma nolink_G : forall i, nolink i = true -> inline_md o (G i) = inline_md o i /\ nolink (G i) = true.
  Proof.
    apply (inline_ind' (fun i => nolink i = true -> inline_md o (G i) = inline_md o i /\ nolink (G i) = true));
      try (intros; split; reflexivity).
    - intros l IH H. cbn [nolink] in H. unfold G. cbn [rr_inline to_ginline inline_md nolink]. rewrite !inline_md_go.
      rewrite forallb_forall in H. rewrite Forall_forall in IH. split.
      + f_equal. f_equal. apply md_list; [reflexivity|]. apply Forall_forall. intros x Hx. now apply IH, H.
      + apply nolink_list; [reflexivity|]. apply Forall_forall. intros x Hx. now apply IH, H.
    - intros l IH H. cbn [nolink] in H. unfold G. cbn [rr_inline to_ginline inline_md nolink]. rewrite !inline_md_go.
      rewrite forallb_forall in H. rewrite Forall_forall in IH. split.
      + f_equal. f_equal. apply md_list; [reflexivity|]. apply Forall_forall. intros x Hx. now apply IH, H.
      + apply nolink_list; [reflexivity|]. apply Forall_forall. intros x Hx. now apply IH, H.
    - intros l IH H. cbn [nolink] in H. unfold G. cbn [rr_inline to_ginline inline_md nolink]. rewrite !inline_md_go.
      rewrite forallb_forall in H. rewrite Forall_forall in IH. split.
      + f_equal. f_equal. apply md_list; [reflexivity|]. apply Forall_forall. intros x Hx. now apply IH, H.
      + apply nolink_list; [reflexivity|]. apply Forall_forall. intros x Hx. now apply IH, H.
    - intros u t lt l _ H. discriminate.
    - intros u t l IH H. cbn [nolink] in H. unfold G. cbn [rr_inline to_ginline inline_md nolink]. rewrite !inline_md_go.
      rewrite forallb_forall in H. rewrite Forall_forall in IH. split.
      + f_equal. f_equal. apply md_list; [reflexivity|]. apply Forall_forall. intros x Hx. now apply IH, H.
      + apply nolink_list; [reflexivity|]. apply Forall_forall. intros x Hx. now apply IH, H.
  Qed.

  (* an inline without links is written as it is *)
  Lemma nolink_rel : forall i, nolink i = true -> rel_inline dir i = i.
  Proof.
    assert (HL : forall l, Forall (fun i => nolink i = true -> rel_inline dir i = i) l ->
                 forallb nolink l = true -> map (rel_inline dir) l = l).
    { induction 1 as [|x l Hx _ IH]; intros H; [reflexivity|]. cbn [forallb] in H. apply andb_prop in H as [H1 H2].
      cbn [map]. now rewrite Hx, IH. }
    apply (inline_ind' (fun i => nolink i = true -> rel_inline dir i = i)); try reflexivity.
    - intros l IH H. cbn [nolink] in H. cbn [rel_inline]. now rewrite HL.
    - intros l IH H. cbn [nolink] in H. cbn [rel_inline]. now rewrite HL.
    - intros l IH H. cbn [nolink] in H. cbn [rel_inline]. now rewrite HL.
    - intros u t lt l _ H. discriminate.
    - intros u t l IH H. cbn [nolink] in H. cbn [rel_inline]. now rewrite HL.
  Qed.
  Lemma nolink_rel_list l : forallb nolink l = true -> map (rel_inline dir) l = l.
  Proof.
    induction l as [|x l IH]; intros H; [reflexivity|]. cbn [forallb] in H. apply andb_prop in H as [H1 H2].
    cbn [map]. now rewrite nolink_rel, IH.
  Qed.

  Lemma nolink_children l : forallb nolink l = true ->
    forallb nolink (map (to_ginline dir) (merge_strs (map (rr_inline o) l))) = true.
  Proof.
    intros H. apply nolink_list; [reflexivity|]. apply Forall_forall. intros x Hx.
    rewrite forallb_forall in H. now apply (nolink_G x (H x Hx)).
  Qed.

  Lemma nolink_children_md l : forallb nolink l = true ->
    inlines_md o (map (to_ginline dir) (merge_strs (map (rr_inline o) l))) = inlines_md o l.
  Proof.
    intros H. apply md_list; [reflexivity|]. apply Forall_forall. intros x Hx.
    rewrite forallb_forall in H. now apply (nolink_G x (H x Hx)).
  Qed.

  (* a note link written with the url [w] (the destination plus the extension) is read back from the note's
     directory as the key of a note, and that key is written relative to the note as [url] again *)
  Definition key_kept (w url : string) : bool :=
    is_ref_url w && is_ref_url (from_rel_link_url w dir) &&
    String.eqb (to_rel_link_url (key_name (from_rel_link_url w dir)) dir) url.

  (* every url the projector writes for a note link is kept: [url] = the path of the key K = [from_rel_link_url u dir]
     relative to [dir], written with the extension `.md` or none, is read back as K (RelPathLaws.C15_rewrite_written)
     and K is written as [url] again - as long as the written text and K read as note urls *)
  Lemma key_kept_written u ext :
    ext = MD \/ ext = "" ->
    let K := from_rel_link_url u dir in
    let url := to_rel_link_url K dir in
    is_ref_url (ref_url url ext) = true -> is_ref_url K = true ->
    key_kept (ref_url url ext) url = true.
  Proof.
    intros He K url H1 H2. unfold key_kept, key_name. rewrite H1.
    pose proof (C15_rewrite_written u dir ext He) as E. cbv zeta in E. fold K in E. fold url in E.
    rewrite E, H2. cbn [andb]. apply String.eqb_refl.
  Qed.

  (* a wiki link is written `[[wiki_url url]]` *)
  Definition url_kept (url : string) : bool :=
    if is_ref_url url then key_kept (wiki_url url) url else true.

  (* the line is written the same again: a note link is read back as the key of the note it names from
     the note's directory and written relative to the note with the url it was written with ([key_kept]:
     the url is one the projector writes - RelPathLaws.rewrite_written - and the extension is one iwe
     reads back: `.md` or none), regular note links carry the
     current title of that note as their text; link texts and image texts hold no link *)
  Fixpoint calm (i : inline) {struct i} : bool :=
    match i with
    | Emph l | Strong l | Strike l => forallb calm l
    | Image _ _ l => forallb nolink l
    | Link url _ lt l =>
        forallb nolink l &&
        match lt with
        | Regular =>
            written_autolink o url l ||
            (if is_ref_url url then
               key_kept (ref_url url (refs_extension o)) url &&
               match ctx (key_name (from_rel_link_url (ref_url url (refs_extension o)) dir)) with
               | Some t => String.eqb (inlines_md o l) t
               | None => true
               end
             else true)
        | _ => url_kept url
        end
    | _ => true
    end.

  Lemma calm_md : forall i, calm i = true -> inline_md o (NG i) = inline_md o i.
  Proof.
    apply (inline_ind' (fun i => calm i = true -> inline_md o (NG i) = inline_md o i)); try reflexivity.
    - intros l IH H. cbn [calm] in H. unfold NG, G. cbn [rr_inline to_ginline normalize_inline rel_inline inline_md].
      rewrite !inline_md_go, !map_map. f_equal. f_equal.
      apply (md_list (fun x => rel_inline dir (normalize_inline ctx (to_ginline dir x)))); [reflexivity|].
      rewrite forallb_forall in H. rewrite Forall_forall in IH. apply Forall_forall. intros x Hx. now apply IH, H.
    - intros l IH H. cbn [calm] in H. unfold NG, G. cbn [rr_inline to_ginline normalize_inline rel_inline inline_md].
      rewrite !inline_md_go, !map_map. f_equal. f_equal.
      apply (md_list (fun x => rel_inline dir (normalize_inline ctx (to_ginline dir x)))); [reflexivity|].
      rewrite forallb_forall in H. rewrite Forall_forall in IH. apply Forall_forall. intros x Hx. now apply IH, H.
    - intros l IH H. cbn [calm] in H. unfold NG, G. cbn [rr_inline to_ginline normalize_inline rel_inline inline_md].
      rewrite !inline_md_go, !map_map. f_equal. f_equal.
      apply (md_list (fun x => rel_inline dir (normalize_inline ctx (to_ginline dir x)))); [reflexivity|].
      rewrite forallb_forall in H. rewrite Forall_forall in IH. apply Forall_forall. intros x Hx. now apply IH, H.
    - (* link *)
      intros url t lt l _ H. cbn [calm] in H. apply andb_prop in H as [Hn H].
      pose proof (nolink_children_md l Hn) as Hc.
      pose proof (nolink_rel_list _ (nolink_children l Hn)) as Hr.
      unfold NG, G. destruct lt.
      + (* regular *)
        cbn [rr_inline]. destruct (written_autolink o url l) eqn:Ea.
        * unfold written_autolink in Ea. apply andb_prop in Ea as [Er Ee]. apply negb_true_iff in Er.
          cbn [to_ginline map]. rewrite Er. cbn [normalize_inline]. rewrite Er. cbn [rel_inline map]. rewrite Er.
          cbn [inline_md]. rewrite !inline_md_go.
          rewrite Ee, Er. unfold inlines_md. cbn [map sconcat inline_md]. rewrite sapp_nil_r, eq_ignore_refl. reflexivity.
        * cbn [orb] in H. unfold rr_url. destruct (is_ref_url url) eqn:Er.
          -- apply andb_prop in H as [H H3]. unfold key_kept in H. apply andb_prop in H as [H H2].
             apply andb_prop in H as [H1 Hk]. apply String.eqb_eq in H2.
             cbn [to_ginline]. rewrite H1. cbn [normalize_inline]. rewrite Hk.
             destruct (ctx (key_name (from_rel_link_url (ref_url url (refs_extension o)) dir))) as [ti|].
             ++ cbn [rel_inline map]. rewrite Hk, H2. cbn [inline_md]. rewrite Er. cbn [negb andb]. rewrite !inline_md_go.
                apply String.eqb_eq in H3. now rewrite sapp_nil_r, H3.
             ++ cbn [rel_inline]. rewrite Hk, H2, Hr. cbn [inline_md]. rewrite Er. cbn [negb andb]. rewrite !inline_md_go.
                now rewrite Hc.
          -- cbn [to_ginline]. rewrite Er. cbn [normalize_inline]. rewrite Er. cbn [rel_inline]. rewrite Er, Hr.
             cbn [inline_md]. rewrite Er.
             rewrite !inline_md_go, Hc. reflexivity.
      + (* wiki *)
        cbn [rr_inline to_ginline map]. unfold url_kept in H. destruct (is_ref_url url) eqn:Er.
        * unfold key_kept in H. apply andb_prop in H as [H H2]. apply andb_prop in H as [H1 Hk]. apply String.eqb_eq in H2.
          rewrite H1. cbn [normalize_inline]. rewrite Hk. cbn [rel_inline map]. rewrite Hk, H2. reflexivity.
        * assert (W : wiki_url url = url) by (unfold wiki_url; now rewrite Er).
          rewrite !W, Er. cbn [normalize_inline]. rewrite Er. cbn [rel_inline map]. rewrite Er. cbn [inline_md]. now rewrite W.
      + (* piped *)
        cbn [rr_inline to_ginline]. unfold url_kept in H. destruct (is_ref_url url) eqn:Er.
        * unfold key_kept in H. apply andb_prop in H as [H H2]. apply andb_prop in H as [H1 Hk]. apply String.eqb_eq in H2.
          rewrite H1. cbn [normalize_inline]. rewrite Hk. cbn [rel_inline]. rewrite Hk, H2, Hr. cbn [inline_md].
          rewrite !inline_md_go, Hc. reflexivity.
        * assert (W : wiki_url url = url) by (unfold wiki_url; now rewrite Er).
          rewrite !W, Er. cbn [normalize_inline]. rewrite Er. cbn [rel_inline]. rewrite Er, Hr. cbn [inline_md].
          rewrite !inline_md_go, Hc. reflexivity.
    - (* image *)
      intros url t l _ H. cbn [calm] in H. unfold NG, G. cbn [rr_inline to_ginline normalize_inline rel_inline inline_md].
      rewrite (nolink_rel_list _ (nolink_children l H)).
      rewrite !inline_md_go, (nolink_children_md l H). reflexivity.
  Qed.

  Theorem calm_line l : forallb calm l = true -> line_md_stable ctx dir o l = true.
  Proof.
    intros H. unfold line_md_stable. apply String.eqb_eq. unfold line0, rr_inlines, rel_inlines, normalize_inlines, to_ginlines.
    rewrite !map_map. apply (md_list (fun x => rel_inline dir (normalize_inline ctx (to_ginline dir x)))); [reflexivity|].
    rewrite forallb_forall in H. apply Forall_forall. intros x Hx. now apply (calm_md x), H.
  Qed.
End Calm.

(* ---------- ... and the blocks: the byte-level fixpoint from structural hypotheses ------------------------- *)

Section CalmBlocks.
  Variable ctx : titles.
  Variable dir : string.
  Variable o : opts.

  (* a paragraph that is a block reference is re-written from its key: compared as written *)
  Definition para_calm (l : list inline) : bool :=
    if para_is_ref (rr_inlines o l)
    then String.eqb (inlines_md o (para_line ctx dir (rr_inlines o l))) (inlines_md o l)
    else forallb (calm ctx dir o) l.

  Fixpoint gcalm (b : gblock) {struct b} : bool :=
    match b with
    | GPlain l | GPara l => para_calm l
    | GHeader _ l => forallb (calm ctx dir o) l
    | GQuote bs => forallb gcalm bs
    | GOList its | GBList its =>
        forallb (fun it => match it with
                           | [] => true
                           | h :: rest => forallb (calm ctx dir o) (gline h) && forallb gcalm rest
                           end) its
    | _ => true
    end.

  Lemma para_line_nonref l' : para_is_ref l' = false -> para_line ctx dir l' = line0 ctx dir l'.
  Proof.
    unfold para_line. destruct l' as [|i [|j r]]; try reflexivity.
    - destruct i; try reflexivity. cbn [para_is_ref]. now intros ->.
    - destruct i; reflexivity.
  Qed.

  Lemma para_calm_md l : para_calm l = true ->
    String.eqb (inlines_md o (para_line ctx dir (rr_inlines o l))) (inlines_md o l) = true.
  Proof.
    unfold para_calm. destruct (para_is_ref (rr_inlines o l)) eqn:E; [auto|]. intros H.
    rewrite (para_line_nonref _ E). apply (calm_line ctx dir o l H).
  Qed.

  Lemma code_md_safe la tx : safe_code tx = true ->
    String.eqb (fst (block_md o [] (GCode (rr_lang la) (trim_lf tx +++ LFS)))) (fst (block_md o [] (GCode la tx))) = true.
  Proof.
    unfold safe_code. intros H. apply andb_prop in H as [_ H]. apply String.eqb_eq in H. rewrite <- H.
    apply String.eqb_eq. destruct la as [la|]; [|reflexivity]. cbn [rr_lang block_md].
    destruct (all_ws la) eqn:E; cbn [block_md]; [reflexivity|]. now rewrite E.
  Qed.

  Lemma safe_line_kind l : safe_line o l = true -> lead_kind_stable ctx dir o l = true.
  Proof.
    unfold safe_line. intros H. apply andb_prop in H as [_ H]. apply andb_prop in H as [H _].
    apply andb_prop in H as [H _]. apply andb_prop in H as [H _].
    rewrite lead_kind_safe. destruct (merge_strs l); [discriminate H|]. apply orb_true_r.
  Qed.

  Definition CM (b : gblock) : Prop := safe_block o b = true -> gcalm b = true -> md_settled ctx dir o b = true.

  Lemma calm_seq l : Forall CM l -> forallb (safe_block o) l = true -> forallb gcalm l = true ->
    forallb (md_settled ctx dir o) l = true.
  Proof.
    induction 1 as [|x r Hx _ IH]; intros Hs Hc; [reflexivity|]. cbn [forallb] in *.
    apply andb_prop in Hs as [Hs1 Hs2]. apply andb_prop in Hc as [Hc1 Hc2]. now rewrite Hx, IH.
  Qed.

  Lemma calm_items its : Forall (Forall CM) its ->
    forallb (fun it => item_safe it && forallb (safe_block o) (item_body it)) its = true ->
    forallb (fun it => match it with
                       | [] => true
                       | h :: rest => forallb (calm ctx dir o) (gline h) && forallb gcalm rest
                       end) its = true ->
    forallb (item_md_settled ctx dir o) its = true.
  Proof.
    induction 1 as [|it r Hit _ IH]; intros Hs Hc; [reflexivity|]. cbn [forallb] in *.
    apply andb_prop in Hs as [Hs1 Hs2]. apply andb_prop in Hc as [Hc1 Hc2]. rewrite IH by assumption.
    rewrite andb_true_r. apply andb_prop in Hs1 as [Hl Hs1].
    destruct it as [|h rest]; [reflexivity|]. inversion Hit as [|? ? _ Hr]; subst.
    apply andb_prop in Hc1 as [Hch Hcr].
    assert (Hrest : forallb (safe_block o) rest = true /\ lead_kind_stable ctx dir o (gline h) = true /\ is_paragraph h = true).
    { destruct h as [l|l| | | | | | |]; try discriminate Hl;
        (destruct l as [|i l];
         [cbn [item_body] in Hs1; split; [exact Hs1 | split; [now rewrite lead_kind_safe | reflexivity]]
         |cbn [item_body forallb safe_block] in Hs1; apply andb_prop in Hs1 as [Hsh Hs1];
          split; [exact Hs1 | split; [now apply safe_line_kind | reflexivity]]]). }
    destruct Hrest as (Hsr & Hk & Hp).
    cbn [item_md_settled]. now rewrite Hp, Hk, (calm_line ctx dir o _ Hch), (calm_seq rest Hr Hsr Hcr).
  Qed.

  Lemma calm_block : forall b, CM b.
  Proof.
    intros b. induction b as [l|l|la tx|bs IH|its IH|its IH|n l| |h al rows] using gblock_ind'; intros Hs Hc;
      try reflexivity.
    - cbn [md_settled gcalm] in *. now apply para_calm_md.
    - cbn [md_settled gcalm] in *. now apply para_calm_md.
    - cbn [safe_block] in Hs. apply andb_prop in Hs as [_ Hs]. cbn [md_settled]. now apply code_md_safe.
    - rewrite safe_quote in Hs. destruct bs as [|b0 bs]; [discriminate|]. apply andb_prop in Hs as [Hs _].
      cbn [md_settled gcalm] in *. now apply calm_seq.
    - rewrite safe_olist in Hs. destruct its as [|i0 its]; [discriminate|].
      cbn [gcalm] in Hc. cbn [md_settled]. change (forallb (item_md_settled ctx dir o) (i0 :: its) = true).
      now apply calm_items.
    - rewrite safe_blist in Hs. destruct its as [|i0 its]; [discriminate|].
      cbn [gcalm] in Hc. cbn [md_settled]. change (forallb (item_md_settled ctx dir o) (i0 :: its) = true).
      now apply calm_items.
    - cbn [md_settled gcalm] in *. now apply calm_line.
  Qed.

  Theorem calm_md_settled g : reparse_safe o g = true -> forallb gcalm g = true ->
    forallb (md_settled ctx dir o) g = true.
  Proof.
    unfold reparse_safe. intros Hs Hc. apply andb_prop in Hs as [Hs _].
    apply calm_seq; auto. apply Forall_forall. intros x _. apply calm_block.
  Qed.
End CalmBlocks.

(* BYTE-LEVEL FIXPOINT from structural hypotheses: the written blocks are in the class of the re-parse
   specification; note links are read back with the url they were written from (true for the extensions
   `.md` and none) and regular note links carry the current title ([calm]);
   block references come back written the same.  Text runs in pieces, link titles, any heading walk of
   the source, any nesting: all allowed. *)
Theorem fixpoint_text_calm ctx o key t tables :
  reparse_safe o (project (key_parent key) t) = true ->
  forallb (gcalm ctx (key_parent key) o) (project (key_parent key) t) = true ->
  tree_to_markdown o tables (key_parent key) (tmap (norm_node ctx) (spec_tree key (rr o (project (key_parent key) t))))
  = tree_to_markdown o tables (key_parent key) t.
Proof. intros Hs Hc. apply fixpoint_text_md; [exact Hs | now apply calm_md_settled]. Qed.

Example ex_calm :
  forallb (gcalm ex_ctx (key_parent ex_key) ex_opts) ex_written = true /\
  forallb (gcalm ex_ctx "" ex_opts) [GPara [Str "a"; Str " "; Str "b"]; GPara [Link "http://x" "t" Regular [Str "y"]]] = true /\
  (* a link to the note `a.md` (file `a.md.md`) is calm also where no extension is configured: it is written
     `a.md.md` (ref_url) and read back as `a.md`; under an extension iwe does not read back, none is *)
  gcalm ex_ctx "" (Opts "") (GPara [Str "see "; Link "a.md" "" Regular [Str "x"]]) = true /\
  gcalm ex_ctx "" (Opts ".txt") (GPara [Str "see "; Link "a" "" Regular [Str "x"]]) = false.
Proof. repeat split; vm_compute; reflexivity. Qed.

Print Assumptions fixpoint_text_calm.
