(* IndexHistory.v — the reference index stays exact along EVERY edit history (C04 / C05).
   Model: Index.v (merge-only RefIndex, getters that filter tombstones), Library.v (update_key =
   delete_branch + rebuild at fresh ids).  Facts used: ids are never reused (a dead slot stays
   dead: `arena_evolves`), merge only adds, the getters drop exactly the dead ids.
   Nothing in this file assumes well-formedness of the arena for the sound half
   (everything reported is a live link); the complete half (every live link is reported) needs
   exactly one premise per step: the walk from the new root reaches every new live node
   ([covers]); it follows from the forest invariant of C20 ([covers_of_wf]). *)
From Coq Require Import Lia.
From IweV Require Import Str Text Ast RelPath Arena ArenaWF ArenaFacts BuilderFacts Project Library LibraryFacts Index IndexFacts.
Local Open Scope string_scope.
Local Open Scope list_scope.

(* ---------- the exact sets, as ascending lists ---------------------------------------------- *)

Definition is_refb (k : string) (n : gnode) : bool :=
  match g_kind n with KRef k' _ _ => String.eqb k k' | _ => false end.

Definition is_inlb (k : string) (n : gnode) : bool :=
  match g_kind n with
  | KSection l | KLeaf l => existsb (String.eqb k) (ref_keys l)
  | _ => false
  end.

Definition ids_where (p : gnode -> bool) (a : arena) : list nat :=
  filter (fun i => match get a i with Some n => p n | None => false end) (seq 0 (length a)).

(* the live Reference nodes of [a] keyed [k] *)
Definition exact_refs (a : arena) (k : string) : list nat := ids_where (is_refb k) a.
(* the live Section / Leaf nodes of [a] whose line holds a link keyed [k] *)
Definition exact_inline (a : arena) (k : string) : list nat := ids_where (is_inlb k) a.

Definition alive (a : arena) (x : nat) : Prop :=
  exists n, get a x = Some n /\ is_emptyk (g_kind n) = false.

Definition arena_of (s : gstate) : arena := gr_arena (gs_graph s).

(* raw = exact + possibly dead ids (all inside the arena) *)
Definition IdxInv (s : gstate) : Prop :=
  let a := arena_of s in let ri := gs_index s in
  (forall k x, In x (exact_refs a k) -> In x (raw_block_refs ri k)) /\
  (forall k x, In x (raw_block_refs ri k) -> x < length a /\ (alive a x -> In x (exact_refs a k))) /\
  (forall k x, In x (exact_inline a k) -> In x (raw_inline_refs ri k)) /\
  (forall k x, In x (raw_inline_refs ri k) -> x < length a /\ (alive a x -> In x (exact_inline a k))).

(* a history: updates run one after the other *)
Definition op := (string * option string * list dblock)%type.

Fixpoint run_updates (tbl : bool) (s : gstate) (ops : list op) : res gstate :=
  match ops with
  | [] => Ok s
  | (key, meta, bs) :: r => do s' <- update_state_v tbl s key meta bs; run_updates tbl s' r
  end.


(* ---------- generic helpers -------------------------------------------------------------------- *)

Lemma bind_ok {A B} (r : res A) (k : A -> res B) y :
  bind r k = Ok y -> exists x, r = Ok x /\ k x = Ok y.
Proof. destruct r as [x|s]; cbn; [eauto | discriminate]. Qed.

Lemma fold_bind_panic {X S} (step : S -> X -> res S) l s :
  fold_left (fun acc x => do r <- acc; step r x) l (Panic s) = Panic s.
Proof. induction l as [|x l IH]; cbn; auto. Qed.

(* a fold of fallible steps that ends well went well all the way *)
Lemma fold_bind_inv {X S} (step : S -> X -> res S) (R : S -> S -> Prop) :
  (forall s, R s s) -> (forall a b c, R a b -> R b c -> R a c) ->
  forall l, (forall x s s', In x l -> step s x = Ok s' -> R s s') ->
  forall s0 s1, fold_left (fun acc x => do r <- acc; step r x) l (Ok s0) = Ok s1 -> R s0 s1.
Proof.
  intros Rr Rt. induction l as [|x l IH]; intros Hstep s0 s1 H; cbn [fold_left] in H.
  - injection H as <-. apply Rr.
  - cbn [bind] in H. destruct (step s0 x) as [s'|e] eqn:E.
    + eapply Rt; [eapply Hstep; [now left | exact E]|]. apply IH; [|exact H].
      intros y s t Hy. apply Hstep. now right.
    + rewrite fold_bind_panic in H. discriminate.
Qed.

(* ---------- ascending lists -------------------------------------------------------------------- *)

Fixpoint asc (l : list nat) : Prop :=
  match l with
  | [] => True
  | x :: r => (forall y, In y r -> x < y) /\ asc r
  end.

Lemma asc_ext l : forall m, asc l -> asc m -> (forall x, In x l <-> In x m) -> l = m.
Proof.
  induction l as [|x l IH]; intros [|y m] Al Am E.
  - reflexivity.
  - exfalso. apply (proj2 (E y)). now left.
  - exfalso. apply (proj1 (E x)). now left.
  - destruct Al as [Lx Al], Am as [My Am].
    assert (x = y).
    { destruct (proj1 (E x) (or_introl eq_refl)) as [->|Hx]; [reflexivity|].
      destruct (proj2 (E y) (or_introl eq_refl)) as [->|Hy]; [reflexivity|].
      specialize (Lx y Hy). specialize (My x Hx). lia. }
    subst y. f_equal. apply IH; auto. intros z. split; intros Hz.
    + destruct (proj1 (E z) (or_intror Hz)) as [->|H]; [specialize (Lx z Hz); lia | exact H].
    + destruct (proj2 (E z) (or_intror Hz)) as [->|H]; [specialize (My z Hz); lia | exact H].
Qed.

Lemma asc_insert x l : asc l -> asc (insert_sorted x l).
Proof.
  induction l as [|y r IH]; intros A; cbn [insert_sorted].
  - cbn. tauto.
  - destruct A as [Ly Ar]. destruct (Nat.ltb x y) eqn:E1.
    + apply Nat.ltb_lt in E1. cbn [asc]. split; [|split; assumption].
      intros z [<-|Hz]; [exact E1 | specialize (Ly z Hz); lia].
    + apply Nat.ltb_ge in E1. destruct (Nat.eqb x y) eqn:E2.
      * cbn [asc]. split; assumption.
      * apply Nat.eqb_neq in E2. cbn [asc]. split; [|now apply IH].
        intros z Hz. apply insert_sorted_In in Hz. destruct Hz as [->|Hz]; [lia | now apply Ly].
Qed.

Lemma asc_sort_ids l : asc (sort_ids l).
Proof. unfold sort_ids. induction l as [|x l IH]; cbn [fold_right]; [exact I | now apply asc_insert]. Qed.

Lemma asc_filter p l : asc l -> asc (filter p l).
Proof.
  induction l as [|x l IH]; intros A; cbn [filter]; [exact I|]. destruct A as [Lx Al].
  destruct (p x); [|now apply IH]. cbn [asc]. split; [|now apply IH].
  intros y Hy. apply filter_In in Hy. now apply Lx.
Qed.

Lemma asc_seq n : forall s, asc (seq s n).
Proof.
  induction n as [|n IH]; intros s; cbn [seq asc]; [exact I|]. split; [|apply IH].
  intros y Hy. apply in_seq in Hy. lia.
Qed.

(* ---------- the exact sets --------------------------------------------------------------------- *)

Lemma ids_where_In p a x : In x (ids_where p a) <-> exists n, get a x = Some n /\ p n = true.
Proof.
  unfold ids_where. rewrite filter_In, in_seq. split.
  - intros [_ H]. destruct (get a x) as [n|]; [eauto | discriminate].
  - intros (n & G & P). rewrite G. split; [|exact P]. apply ArenaFacts.get_lt in G. lia.
Qed.

Lemma ids_where_asc p a : asc (ids_where p a).
Proof. unfold ids_where. apply asc_filter, asc_seq. Qed.

Lemma exact_refs_In a k x : In x (exact_refs a k) <-> is_ref a x k.
Proof.
  unfold exact_refs. rewrite ids_where_In. unfold is_ref, is_refb. split.
  - intros (n & G & P). destruct (g_kind n) eqn:K; try discriminate.
    apply String.eqb_eq in P. subst. eauto.
  - intros (n & t & rt & G & K). exists n. split; [exact G|]. rewrite K. apply String.eqb_refl.
Qed.

Lemma exact_inline_In a k x : In x (exact_inline a k) <-> is_inl a x k.
Proof.
  unfold exact_inline. rewrite ids_where_In. unfold is_inl, is_inlb. split.
  - intros (n & G & P). destruct (g_kind n) eqn:K; try discriminate;
      apply existsb_exists in P as (k' & Hk & E); apply String.eqb_eq in E; subst k'; exists n, l; auto.
  - intros (n & l & G & [K|K] & Hk); exists n; (split; [exact G|]); rewrite K;
      apply existsb_exists; exists k; (split; [exact Hk | apply String.eqb_refl]).
Qed.

(* the three predicates only look at the kind of the slot *)
Lemma is_ref_kind a x k : is_ref a x k <-> exists t rt, kind_at a x = Some (KRef k t rt).
Proof.
  unfold is_ref, kind_at. split.
  - intros (n & t & rt & G & K). exists t, rt. rewrite G. cbn. now rewrite K.
  - intros (t & rt & H). destruct (get a x) as [n|]; [|discriminate]. cbn in H. injection H as H. eauto.
Qed.

Lemma is_inl_kind a x k : is_inl a x k <->
  exists l, (kind_at a x = Some (KSection l) \/ kind_at a x = Some (KLeaf l)) /\ In k (ref_keys l).
Proof.
  unfold is_inl, kind_at. split.
  - intros (n & l & G & K & Hk). exists l. rewrite G. cbn. split; [|exact Hk]. destruct K as [-> | ->]; auto.
  - intros (l & H & Hk). destruct (get a x) as [n|]; [|destruct H; discriminate]. cbn in H.
    exists n, l. split; [reflexivity|]. split; [|exact Hk]. destruct H as [H|H]; injection H as H; auto.
Qed.

Lemma alive_kind a x : alive a x <-> exists kd, kind_at a x = Some kd /\ is_emptyk kd = false.
Proof.
  unfold alive, kind_at. split.
  - intros (n & G & K). exists (g_kind n). rewrite G. auto.
  - intros (kd & H & K). destruct (get a x) as [n|]; [|discriminate]. cbn in H. injection H as <-. eauto.
Qed.

Lemma is_ref_same a b x k : kind_at b x = kind_at a x -> is_ref a x k -> is_ref b x k.
Proof. rewrite !is_ref_kind. now intros ->. Qed.
Lemma is_inl_same a b x k : kind_at b x = kind_at a x -> is_inl a x k -> is_inl b x k.
Proof. rewrite !is_inl_kind. now intros ->. Qed.
Lemma alive_same a b x : kind_at b x = kind_at a x -> alive a x -> alive b x.
Proof. rewrite !alive_kind. now intros ->. Qed.

Lemma is_ref_alive a x k : is_ref a x k -> alive a x.
Proof. intros (n & t & rt & G & K). exists n. split; [exact G | now rewrite K]. Qed.
Lemma is_inl_alive a x k : is_inl a x k -> alive a x.
Proof. intros (n & l & G & [K|K] & _); exists n; (split; [exact G | now rewrite K]). Qed.
Lemma alive_lt a x : alive a x -> x < length a.
Proof. intros (n & G & _). eapply ArenaFacts.get_lt; eauto. Qed.

(* IdxInv, said with the predicates of IndexFacts.v *)
Definition IdxSound (a : arena) (ri : refindex) : Prop :=
  (forall k x, In x (raw_block_refs ri k) -> x < length a /\ (alive a x -> is_ref a x k)) /\
  (forall k x, In x (raw_inline_refs ri k) -> x < length a /\ (alive a x -> is_inl a x k)).
Definition IdxComplete (a : arena) (ri : refindex) : Prop :=
  (forall k x, is_ref a x k -> In x (raw_block_refs ri k)) /\
  (forall k x, is_inl a x k -> In x (raw_inline_refs ri k)).

Lemma IdxInv_spec s : IdxInv s <-> IdxSound (arena_of s) (gs_index s) /\ IdxComplete (arena_of s) (gs_index s).
Proof.
  unfold IdxInv, IdxSound, IdxComplete. cbv zeta. split.
  - intros (A & B & C & D). repeat split.
    + now apply (B k x).
    + intros L. apply exact_refs_In. now apply (B k x).
    + now apply (D k x).
    + intros L. apply exact_inline_In. now apply (D k x).
    + intros k x H. apply A. now apply exact_refs_In.
    + intros k x H. apply C. now apply exact_inline_In.
  - intros ((B & D) & (A & C)). repeat split.
    + intros k x H. apply A. now apply exact_refs_In.
    + now apply (B k x).
    + intros L. apply exact_refs_In. now apply (B k x).
    + intros k x H. apply C. now apply exact_inline_In.
    + now apply (D k x).
    + intros L. apply exact_inline_In. now apply (D k x).
Qed.

(* ---------- the walk, from its result ----------------------------------------------------------- *)

(* whenever index_node returns, it has added exactly the references at the nodes its walk
   visits: no hypothesis on the arena (IndexFacts.index_node_spec also proves termination and
   needs forward links for that) *)
Lemma index_node_ok tbl a : forall fuel id ri ri',
  index_node tbl fuel a id ri = Ok ri' -> adds a (wreach tbl a id) ri ri'.
Proof.
  induction fuel as [|f IH]; intros id ri ri' H; [discriminate|].
  cbn [index_node] in H. destruct (get a id) as [n|] eqn:Hn; [|discriminate].
  assert (L : forall js r0 r', fold_left (fun acc j => do r <- acc; index_node tbl f a j r) js (Ok r0) = Ok r' ->
            adds a (fun x => exists j, In j js /\ wreach tbl a j x) r0 r').
  { induction js as [|j js IHjs]; intros r0 r' E; cbn [fold_left bind] in E.
    - injection E as <-. eapply adds_ext; [|apply adds_none]. intros x. split; [tauto | intros [j [[] _]]].
    - destruct (index_node tbl f a j r0) as [r1|e] eqn:E1; [|rewrite fold_bind_panic in E; discriminate].
      eapply adds_ext; [|exact (adds_trans _ _ _ _ _ _ (IH _ _ _ E1) (IHjs _ _ E))].
      intros x. split.
      + intros [Hx | [j' [Hj' Hx]]]; [exists j; split; [now left | exact Hx] | exists j'; split; [now right | exact Hx]].
      + intros [j' [[<- | Hj'] Hx]]; [now left | right; eauto]. }
  eapply adds_ext; [|exact (adds_trans _ _ _ _ _ _ (record_adds a id n ri Hn) (L _ _ _ H))].
  intros x. rewrite (wreach_inv tbl a id x n Hn). intuition.
Qed.

Lemma index_from_ok tbl a root fresh : index_from tbl a root = Ok fresh ->
  (forall k x, In x (raw_block_refs fresh k) <-> wreach tbl a root x /\ is_ref a x k) /\
  (forall k x, In x (raw_inline_refs fresh k) <-> wreach tbl a root x /\ is_inl a x k).
Proof.
  intros H. destruct (index_node_ok _ _ _ _ _ _ H) as [A B]. unfold raw_block_refs, raw_inline_refs.
  split; intros k x; [rewrite A | rewrite B]; cbn; tauto.
Qed.

(* Graph::import: whenever index_all returns, the index is exact *)
Lemma index_all_ok tbl a ri : index_all tbl a = Ok ri ->
  (forall k x, In x (raw_block_refs ri k) <-> is_ref a x k) /\
  (forall k x, In x (raw_inline_refs ri k) <-> is_inl a x k).
Proof.
  unfold index_all. intros H.
  assert (G : forall ids r0 r',
     fold_left (fun acc id => do ri <- acc;
               match get a id with
               | Some n => if is_emptyk (g_kind n) then Panic "id of Empty" else index_node tbl (index_fuel a) a id ri
               | None => Panic "arena index out of bounds"
               end) ids (Ok r0) = Ok r' ->
       adds a (fun x => exists i, In i ids /\ wreach tbl a i x) r0 r').
  { induction ids as [|i ids IH]; intros r0 r' E; cbn [fold_left bind] in E.
    - injection E as <-. eapply adds_ext; [|apply adds_none]. intros x; split; [tauto | intros [i [[] _]]].
    - destruct (get a i) as [n|]; [|rewrite fold_bind_panic in E; discriminate].
      destruct (is_emptyk (g_kind n)); [rewrite fold_bind_panic in E; discriminate|].
      destruct (index_node tbl (index_fuel a) a i r0) as [r1|e] eqn:E1; [|rewrite fold_bind_panic in E; discriminate].
      eapply adds_ext; [|exact (adds_trans _ _ _ _ _ _ (index_node_ok _ _ _ _ _ _ E1) (IH _ _ E))].
      intros x. split.
      + intros [Hx | [j [Hj Hx]]]; [exists i; split; [now left | exact Hx] | exists j; split; [now right | exact Hx]].
      + intros [j [[<- | Hj] Hx]]; [now left | right; eauto]. }
  destruct (G _ _ _ H) as [A B]. unfold raw_block_refs, raw_inline_refs.
  split; intros k x; [rewrite A | rewrite B]; cbn; (split; [intros [[] | [_ I]]; exact I | intros I; right; split; [|exact I]]).
  - exists x. split; [|constructor]. apply in_seq. apply is_ref_alive, alive_lt in I. lia.
  - exists x. split; [|constructor]. apply in_seq. apply is_inl_alive, alive_lt in I. lia.
Qed.

(* ---------- ids are never reused: how update_key changes the arena ------------------------------ *)

(* delete_branch only tombstones: same length, every slot is what it was or empty_node *)
Definition frame (a a' : arena) : Prop :=
  length a' = length a /\ forall i, get a' i = get a i \/ get a' i = Some empty_node.

Lemma frame_refl a : frame a a.
Proof. split; auto. Qed.

Lemma frame_trans a b c : frame a b -> frame b c -> frame a c.
Proof.
  intros [L1 F1] [L2 F2]. split; [congruence|]. intros i.
  destruct (F2 i) as [E|E]; [rewrite E; apply F1 | now right].
Qed.

Lemma frame_tomb a id n : get a id = Some n -> frame a (set_nth a id empty_node).
Proof.
  intros G. split; [apply set_nth_length|]. intros i. destruct (Nat.eq_dec i id) as [->|Hne].
  - right. apply get_set_nth_same. eapply ArenaFacts.get_lt; eauto.
  - left. now apply get_set_nth_other.
Qed.

Lemma delete_branch_frame : forall fuel a id a', delete_branch fuel a id = Ok a' -> frame a a'.
Proof.
  induction fuel as [|f IH]; intros a id a' H; [discriminate|].
  cbn [delete_branch] in H. destruct (get a id) as [n|] eqn:Hn; [|discriminate].
  apply bind_ok in H as (a1 & H1 & H). apply bind_ok in H as (a2 & H2 & H). injection H as <-.
  assert (F1 : frame a a1).
  { destruct (g_child n) as [c|]; [eapply IH; eauto | injection H1 as <-; apply frame_refl]. }
  assert (F2 : frame a1 a2).
  { destruct (get a1 id) as [n1|]; [|discriminate].
    destruct (g_kind n1); try discriminate;
      (destruct (g_next n1) as [nx|]; [eapply IH; eauto | injection H2 as <-; apply frame_refl]). }
  assert (G2 : exists n2, get a2 id = Some n2).
  { apply IndexFacts.get_lt. destruct F1 as [L1 _], F2 as [L2 _]. rewrite L2, L1. eapply ArenaFacts.get_lt; eauto. }
  destruct G2 as [n2 G2].
  eapply frame_trans; [eapply frame_trans; eauto|]. eapply frame_tomb; eauto.
Qed.

(* the builder only appends and re-links: every slot keeps its kind, whatever the input
   (BuilderFacts proves this together with totality for the F-ITEMLEAD-free inputs; here it
   is read off a successful run, for every input) *)
Lemma add_node_ext st k st' : add_node st k = Ok st' -> ext (b_arena st) (b_arena st').
Proof.
  unfold add_node. intros H. apply bind_ok in H as (a' & H1 & H). injection H as <-. cbn [b_arena].
  assert (E : forall n n', get (b_arena st) (b_cur st) = Some n -> g_kind n' = g_kind n ->
            ext (b_arena st) (set_nth (b_arena st) (b_cur st) n' ++ [GN k (Some (b_cur st)) None None])).
  { intros n n' Hn Hk. pose proof (ArenaFacts.get_lt _ _ _ Hn) as Hlt. split.
    - rewrite app_length, set_nth_length. lia.
    - intros id Hid. unfold kind_at. rewrite get_app_l by (now rewrite set_nth_length).
      destruct (Nat.eq_dec id (b_cur st)) as [->|Hne].
      + rewrite get_set_nth_same by exact Hlt. rewrite Hn. cbn. now rewrite Hk.
      + now rewrite get_set_nth_other by exact Hne. }
  destruct (b_insert st).
  - unfold set_child_id in H1. destruct (get (b_arena st) (b_cur st)) as [n|] eqn:Hn; [|discriminate].
    destruct (g_kind n) eqn:K; try discriminate; injection H1 as <-; eapply E; eauto.
  - unfold set_next_id in H1. destruct (get (b_arena st) (b_cur st)) as [n|] eqn:Hn; [|discriminate].
    destruct (g_kind n) eqn:K; try discriminate; injection H1 as <-; eapply E; eauto.
Qed.

Definition ext_ok (F : bst -> res bst) : Prop :=
  forall st st', F st = Ok st' -> ext (b_arena st) (b_arena st').

Lemma fold_ext {X} (step : bst -> X -> res bst) l :
  (forall x, In x l -> ext_ok (fun s => step s x)) ->
  ext_ok (fun st => fold_left (fun acc x => do s <- acc; step s x) l (Ok st)).
Proof.
  intros Hs st st' H.
  apply (fold_bind_inv step (fun s s' => ext (b_arena s) (b_arena s'))) with (l := l); auto.
  - intros; apply ext_refl.
  - intros; eapply ext_trans; eauto.
  - intros x s s' Hx E. eapply Hs; eauto.
Qed.

Lemma add_then_lines_ext k lr : ext_ok (fun st => do st1 <- add_node st k; Ok (set_lines_range st1 lr)).
Proof.
  intros st st' H. apply bind_ok in H as (st1 & H1 & H). injection H as <-. cbn [set_lines_range b_arena].
  now apply add_node_ext in H1.
Qed.

Section BuilderExt.
  Variable dir : string.

  Lemma builder_ext : forall f,
    (forall b, ext_ok (block dir f b)) /\
    (forall b, ext_ok (section_block dir f b)) /\
    (forall it, ext_ok (process_section dir f it)) /\
    (forall L bs, ext_ok (process_sections dir f L bs)) /\
    (forall bs, ext_ok (process_blocks dir f bs)).
  Proof.
    induction f as [|f (IHb & IHsb & IHs & IHss & IHbs)].
    - split; [|split; [|split; [|split]]]; unfold ext_ok; intros; discriminate.
    - assert (Items : forall its, ext_ok (fun st => fold_left (fun acc it => do s <- acc; process_section dir f it s) its (Ok st))).
      { intros its. apply fold_ext. intros it _. apply IHs. }
      assert (Lst : forall k its, ext_ok (fun st =>
                 do st <- add_node st k;
                 let st := set_insert st true in
                 let id := b_cur st in
                 do st <- fold_left (fun acc it => do s <- acc; process_section dir f it s) its (Ok st);
                 Ok (set_insert (set_id st id) false))).
      { intros k its st st' H. apply bind_ok in H as (st1 & H1 & H). cbv zeta in H.
        apply bind_ok in H as (st2 & H2 & H). injection H as <-. cbn [set_insert set_id b_arena].
        apply add_node_ext in H1. apply Items in H2. cbn [set_insert b_arena] in H2. eapply ext_trans; eauto. }
      split; [|split; [|split; [|split]]].
      + (* block *)
        intros b st st' H. rewrite block_S in H.
        destruct b as [lr l|lr lang text|lr bs|its|its|lr lv l|lr|lr h al rows]; try discriminate.
        * destruct (para_is_ref l).
          -- destruct l as [|i r]; try discriminate. destruct i; try discriminate. destruct r; try discriminate.
             eapply add_then_lines_ext; eauto.
          -- eapply add_then_lines_ext; eauto.
        * eapply add_then_lines_ext; eauto.
        * apply bind_ok in H as (st1 & H1 & H). cbv zeta in H. apply bind_ok in H as (inner & H2 & H).
          injection H as <-. cbn [b_arena]. apply add_node_ext in H1. apply IHbs in H2.
          cbn [set_lines_range b_arena] in H2. eapply ext_trans; eauto.
        * eapply Lst; eauto.
        * eapply Lst; eauto.
        * eapply add_then_lines_ext; eauto.
        * eapply add_then_lines_ext; eauto.
      + (* section_block *)
        intros b st st' H. rewrite section_block_S in H.
        destruct b as [lr l|lr lang text|lr bs|its|its|lr lv l|lr|lr h al rows]; try discriminate.
        * eapply add_then_lines_ext; eauto.
        * eapply Items; eauto.
        * eapply Items; eauto.
        * eapply add_then_lines_ext; eauto.
      + (* process_section *)
        intros it st st' H. rewrite process_section_S in H. destruct it as [|h body].
        * injection H as <-. apply ext_refl.
        * destruct (starts_with_header (h :: body)).
          -- apply bind_ok in H as (st1 & H1 & H). cbv zeta in H. apply bind_ok in H as (st2 & H2 & H).
             injection H as <-. cbn [set_id b_arena]. apply IHsb in H1. apply IHbs in H2. eapply ext_trans; eauto.
          -- apply bind_ok in H as (st1 & H1 & H). cbv zeta in H. apply bind_ok in H as (st2 & H2 & H).
             injection H as <-. cbn [set_id b_arena]. apply add_node_ext in H1. apply IHbs in H2. eapply ext_trans; eauto.
      + (* process_sections *)
        intros L bs st st' H. rewrite process_sections_S in H. destruct bs as [|h r].
        * injection H as <-. apply ext_refl.
        * destruct (span_section L r) as [body rest]. apply bind_ok in H as (st1 & H1 & H).
          apply IHs in H1. apply IHss in H. eapply ext_trans; eauto.
      + (* process_blocks *)
        intros bs st st' H. rewrite process_blocks_S in H. destruct bs as [|b0 bs0].
        * injection H as <-. apply ext_refl.
        * cbv zeta in H. destruct (span_pre (b0 :: bs0)) as [pre rest].
          apply bind_ok in H as (st1 & H1 & H).
          assert (E1 : ext (b_arena st) (b_arena st1)).
          { apply (fold_ext (fun s b => block dir f b s) pre) in H1; [exact H1|]. intros b _. apply IHb. }
          destruct rest as [|h r]; [injection H as <-; exact E1|].
          destruct (header_level h) as [L|]; [|injection H as <-; exact E1].
          apply IHss in H. eapply ext_trans; eauto.
  Qed.
End BuilderExt.

Lemma build_document_ext a key bs st : build_document a key bs = Ok st ->
  ext (a ++ [GN (KDocument key) None None None]) (b_arena st).
Proof.
  unfold build_document. intros H.
  destruct (builder_ext (key_parent key) (fuel_for bs)) as (_ & _ & _ & _ & HB).
  apply HB in H. exact H.
Qed.

(* one update seen from the arena: it may grow, old slots keep their kind or become tombstones *)
Definition evolves (a a' : arena) : Prop :=
  length a <= length a' /\
  forall i, i < length a -> kind_at a' i = kind_at a i \/ kind_at a' i = Some KEmpty.

Lemma evolves_refl a : evolves a a.
Proof. split; auto. Qed.

Lemma evolves_trans a b c : evolves a b -> evolves b c -> evolves a c.
Proof.
  intros [L1 K1] [L2 K2]. split; [lia|]. intros i Hi.
  destruct (K2 i ltac:(lia)) as [E|E]; [rewrite E; now apply K1 | now right].
Qed.

(* Graph::update_key: the new root is the first fresh id, nothing below it is reused *)
Theorem update_key_evolves g key meta bs g' : update_key g key meta bs = Ok g' ->
  evolves (gr_arena g) (gr_arena g') /\ length (gr_arena g) < length (gr_arena g') /\
  alookup key (gr_keys g') = Some (length (gr_arena g)).
Proof.
  unfold update_key. intros H. apply bind_ok in H as (a1 & H1 & H).
  assert (F : frame (gr_arena g) a1).
  { destruct (alookup key (gr_keys g)) as [root|]; [eapply delete_branch_frame; eauto | injection H1 as <-; apply frame_refl]. }
  unfold from_blocks in H. apply bind_ok in H as (g1 & H2 & H). injection H as <-.
  rewrite refresh_title_arena, refresh_title_keys.
  unfold build_note in H2. cbn [gr_arena gr_keys gr_meta gr_maps gr_titles] in H2.
  apply bind_ok in H2 as (st & H2 & H). injection H as <-. cbn [gr_arena gr_keys].
  apply build_document_ext in H2. destruct H2 as [L K]. destruct F as [FL FK].
  rewrite app_length in L. cbn [length] in L. split; [|split].
  - split; [lia|]. intros i Hi. rewrite K by (rewrite app_length; lia).
    unfold kind_at. rewrite get_app_l by lia. destruct (FK i) as [E|E]; rewrite E; auto.
  - lia.
  - rewrite FL. apply alookup_ainsert_same.
Qed.

(* a dead id stays dead, an id is never given out twice *)
Corollary dead_stays_dead a a' x : evolves a a' -> kind_at a x = Some KEmpty -> kind_at a' x = Some KEmpty.
Proof.
  intros [_ K] H. destruct (K x (kind_at_lt _ _ _ H)) as [E|E]; congruence.
Qed.

Lemma evolves_alive a a' x : evolves a a' -> x < length a -> alive a' x -> kind_at a' x = kind_at a x.
Proof.
  intros [_ K] Hx A. destruct (K x Hx) as [E|E]; [exact E|].
  apply alive_kind in A as (kd & E' & Hk). rewrite E in E'. injection E' as <-. discriminate.
Qed.

(* ---------- one step of the history ---------------------------------------------------------------- *)

(* what one update does, seen from arena and index *)
Lemma update_state_inv tbl s key meta bs s' : update_state_v tbl s key meta bs = Ok s' ->
  let a := arena_of s in let a' := arena_of s' in
  evolves a a' /\ length a < length a' /\
  exists fresh, index_from tbl a' (length a) = Ok fresh /\
    (forall k x, In x (raw_block_refs (gs_index s') k) <->
                 In x (raw_block_refs (gs_index s) k) \/ In x (raw_block_refs fresh k)) /\
    (forall k x, In x (raw_inline_refs (gs_index s') k) <->
                 In x (raw_inline_refs (gs_index s) k) \/ In x (raw_inline_refs fresh k)).
Proof.
  unfold update_state_v. intros H. apply bind_ok in H as (g' & H1 & H). apply bind_ok in H as (ri' & H2 & H).
  injection H as <-. cbv zeta. unfold arena_of. cbn [gs_graph gs_index].
  destruct (update_key_evolves _ _ _ _ _ H1) as (E & Hl & Hk). split; [exact E|]. split; [exact Hl|].
  pose proof H2 as H2'. unfold index_after_update_v in H2'. rewrite Hk in H2'.
  apply bind_ok in H2' as (fresh & Hf & _). exists fresh. split; [exact Hf|].
  destruct (index_after_update_spec tbl g' (gs_index s) key _ fresh Hk Hf) as (ri'' & E2 & A & B).
  rewrite H2 in E2. injection E2 as <-. auto.
Qed.

(* the sound half needs nothing: whatever the arenas look like, every recorded id stays inside
   the arena and every recorded id that is alive is a link of the recorded kind and key *)
Lemma step_sound tbl a a' ri ri' fresh :
  evolves a a' -> index_from tbl a' (length a) = Ok fresh ->
  (forall k x, In x (raw_block_refs ri' k) <-> In x (raw_block_refs ri k) \/ In x (raw_block_refs fresh k)) ->
  (forall k x, In x (raw_inline_refs ri' k) <-> In x (raw_inline_refs ri k) \/ In x (raw_inline_refs fresh k)) ->
  IdxSound a ri -> IdxSound a' ri'.
Proof.
  intros E Hf MB MI [SB SI]. destruct (index_from_ok _ _ _ _ Hf) as [FB FI]. pose proof E as [EL _]. split; intros k x Hx.
  - apply MB in Hx as [Hx|Hx].
    + destruct (SB k x Hx) as [Hlt Hal]. split; [lia|]. intros A.
      pose proof (evolves_alive _ _ _ E Hlt A) as K.
      eapply is_ref_same; [exact K|]. apply Hal. eapply alive_same; [symmetry; exact K | exact A].
    + apply FB in Hx as [_ R]. split; [now apply is_ref_alive, alive_lt in R | auto].
  - apply MI in Hx as [Hx|Hx].
    + destruct (SI k x Hx) as [Hlt Hal]. split; [lia|]. intros A.
      pose proof (evolves_alive _ _ _ E Hlt A) as K.
      eapply is_inl_same; [exact K|]. apply Hal. eapply alive_same; [symmetry; exact K | exact A].
    + apply FI in Hx as [_ R]. split; [now apply is_inl_alive, alive_lt in R | auto].
Qed.

(* the complete half needs the walk from the new root to reach the new link-carrying nodes *)
Definition carries (a : arena) (x : nat) : Prop := exists k, is_ref a x k \/ is_inl a x k.
Definition covers (tbl : bool) (a a' : arena) : Prop :=
  forall x, length a <= x -> carries a' x -> wreach tbl a' (length a) x.

Lemma step_complete tbl a a' ri ri' fresh :
  evolves a a' -> index_from tbl a' (length a) = Ok fresh -> covers tbl a a' ->
  (forall k x, In x (raw_block_refs ri' k) <-> In x (raw_block_refs ri k) \/ In x (raw_block_refs fresh k)) ->
  (forall k x, In x (raw_inline_refs ri' k) <-> In x (raw_inline_refs ri k) \/ In x (raw_inline_refs fresh k)) ->
  IdxComplete a ri -> IdxComplete a' ri'.
Proof.
  intros E Hf C MB MI [CB CI]. destruct (index_from_ok _ _ _ _ Hf) as [FB FI]. split; intros k x R.
  - apply MB. destruct (Nat.lt_ge_cases x (length a)) as [Hlt|Hge].
    + left. apply CB. eapply is_ref_same; [|exact R]. symmetry. apply evolves_alive; auto. eapply is_ref_alive; eauto.
    + right. apply FB. split; [|exact R]. apply C; [exact Hge|]. exists k. now left.
  - apply MI. destruct (Nat.lt_ge_cases x (length a)) as [Hlt|Hge].
    + left. apply CI. eapply is_inl_same; [|exact R]. symmetry. apply evolves_alive; auto. eapply is_inl_alive; eauto.
    + right. apply FI. split; [|exact R]. apply C; [exact Hge|]. exists k. now right.
Qed.

(* ---------- the invariant ----------------------------------------------------------------------- *)

(* after Graph::import the index is exact: both variants, any library *)
Theorem index_import_invariant tbl notes s : import_state_v tbl notes = Ok s -> IdxInv s.
Proof.
  unfold import_state_v. intros H. apply bind_ok in H as (g & _ & H). apply bind_ok in H as (ri & H & E).
  injection E as <-. apply IdxInv_spec. unfold arena_of. cbn [gs_graph gs_index].
  destruct (index_all_ok _ _ _ H) as [A B]. split; split; intros k x Hx.
  - apply A in Hx. split; [now apply is_ref_alive, alive_lt in Hx | auto].
  - apply B in Hx. split; [now apply is_inl_alive, alive_lt in Hx | auto].
  - now apply A.
  - now apply B.
Qed.

Theorem index_sound_step tbl s key meta bs s' :
  IdxSound (arena_of s) (gs_index s) -> update_state_v tbl s key meta bs = Ok s' ->
  IdxSound (arena_of s') (gs_index s').
Proof.
  intros S H. destruct (update_state_inv _ _ _ _ _ _ H) as (E & _ & fresh & Hf & MB & MI).
  eapply step_sound; eauto.
Qed.

(* the invariant is kept by every update whose new nodes the walk reaches *)
Theorem index_history_invariant tbl s key meta bs s' :
  IdxInv s -> update_state_v tbl s key meta bs = Ok s' ->
  covers tbl (arena_of s) (arena_of s') -> IdxInv s'.
Proof.
  rewrite !IdxInv_spec. intros [S C] H Cv.
  destruct (update_state_inv _ _ _ _ _ _ H) as (E & _ & fresh & Hf & MB & MI). split.
  - eapply step_sound; eauto.
  - eapply step_complete; eauto.
Qed.

(* ... and by no other: the premise is exactly what the step needs *)
Theorem covers_necessary tbl s key meta bs s' :
  IdxInv s -> update_state_v tbl s key meta bs = Ok s' -> IdxInv s' ->
  covers tbl (arena_of s) (arena_of s').
Proof.
  rewrite !IdxInv_spec. intros [[SB SI] _] H [_ [CB CI]] x Hx [k C].
  destruct (update_state_inv _ _ _ _ _ _ H) as (E & _ & fresh & Hf & MB & MI).
  destruct (index_from_ok _ _ _ _ Hf) as [FB FI]. destruct C as [C|C].
  - apply CB, MB in C as [C|C]; [apply SB in C; lia | now apply FB in C].
  - apply CI, MI in C as [C|C]; [apply SI in C; lia | now apply FI in C].
Qed.

(* the premise along a history *)
Fixpoint covered_run (tbl : bool) (s : gstate) (ops : list op) : Prop :=
  match ops with
  | [] => True
  | (key, meta, bs) :: r =>
      forall s', update_state_v tbl s key meta bs = Ok s' ->
                 covers tbl (arena_of s) (arena_of s') /\ covered_run tbl s' r
  end.

Theorem index_run_invariant tbl ops : forall s s',
  IdxInv s -> run_updates tbl s ops = Ok s' -> covered_run tbl s ops -> IdxInv s'.
Proof.
  induction ops as [|[[key meta] bs] r IH]; intros s s' I H C; cbn [run_updates] in H.
  - now injection H as <-.
  - apply bind_ok in H as (s1 & H1 & H). destruct (C s1 H1) as [C1 Cr].
    eapply IH; [|exact H|exact Cr]. eapply index_history_invariant; eauto.
Qed.

Theorem index_run_sound tbl ops : forall s s',
  IdxSound (arena_of s) (gs_index s) -> run_updates tbl s ops = Ok s' -> IdxSound (arena_of s') (gs_index s').
Proof.
  induction ops as [|[[key meta] bs] r IH]; intros s s' I H; cbn [run_updates] in H.
  - now injection H as <-.
  - apply bind_ok in H as (s1 & H1 & H). eapply IH; [|exact H]. eapply index_sound_step; eauto.
Qed.

(* ids are never reused along a history *)
Theorem run_evolves tbl ops : forall s s', run_updates tbl s ops = Ok s' -> evolves (arena_of s) (arena_of s').
Proof.
  induction ops as [|[[key meta] bs] r IH]; intros s s' H; cbn [run_updates] in H.
  - injection H as <-. apply evolves_refl.
  - apply bind_ok in H as (s1 & H1 & H). destruct (update_state_inv _ _ _ _ _ _ H1) as (E & _).
    eapply evolves_trans; eauto.
Qed.

Corollary run_dead_stays_dead tbl ops s s' x : run_updates tbl s ops = Ok s' ->
  kind_at (arena_of s) x = Some KEmpty -> kind_at (arena_of s') x = Some KEmpty.
Proof. intros H. apply dead_stays_dead. eapply run_evolves; eauto. Qed.

(* ---------- the getters --------------------------------------------------------------------------- *)

Lemma filter_sorted_exact a ids ex :
  (forall x, In x ids -> x < length a) ->
  (forall x, In x ex <-> In x ids /\ alive a x) -> asc ex ->
  (do l <- filter_live a ids; Ok (sort_ids l)) = Ok ex.
Proof.
  intros B M A. destruct (filter_live_spec a ids B) as (l & E & S). rewrite E. cbn [bind]. f_equal.
  apply asc_ext; [apply asc_sort_ids | exact A|]. intros x. rewrite sort_ids_In, S, M. reflexivity.
Qed.

(* under the invariant the getters answer exactly the exact sets of the arena, as ascending
   lists: tombstones and merge order leave no trace *)
Theorem getters_exact s : IdxInv s -> forall k,
  block_refs_to s k = Ok (exact_refs (arena_of s) k) /\
  inline_refs_to s k = Ok (exact_inline (arena_of s) k).
Proof.
  intros I k. apply IdxInv_spec in I as [[SB SI] [CB CI]].
  unfold block_refs_to, inline_refs_to, get_block_references_to, get_inline_references_to. fold (arena_of s). split.
  - apply filter_sorted_exact; [intros x Hx; now apply (SB k x) | | apply ids_where_asc].
    intros x. rewrite exact_refs_In. split.
    + intros R. split; [now apply CB | eapply is_ref_alive; eauto].
    + intros [Hx A]. now apply (SB k x).
  - apply filter_sorted_exact; [intros x Hx; now apply (SI k x) | | apply ids_where_asc].
    intros x. rewrite exact_inline_In. split.
    + intros R. split; [now apply CI | eapply is_inl_alive; eauto].
    + intros [Hx A]. now apply (SI k x).
Qed.

(* without any premise: the getters never panic and never report anything but a live link of
   the asked kind and key *)
Theorem getters_sound a ri : IdxSound a ri -> forall k,
  (exists l, get_block_references_to a ri k = Ok l /\ forall x, In x l -> In x (exact_refs a k)) /\
  (exists l, get_inline_references_to a ri k = Ok l /\ forall x, In x l -> In x (exact_inline a k)).
Proof.
  intros [SB SI] k. split.
  - destruct (get_block_references_to_spec a ri k) as (l & E & S); [intros x Hx; now apply (SB k x)|].
    exists l. split; [exact E|]. intros x Hx. apply S in Hx as [Hx A]. apply exact_refs_In. now apply (SB k x).
  - destruct (get_inline_references_to_spec a ri k) as (l & E & S); [intros x Hx; now apply (SI k x)|].
    exists l. split; [exact E|]. intros x Hx. apply S in Hx as [Hx A]. apply exact_inline_In. now apply (SI k x).
Qed.

(* ---------- C04: no trace of the history ---------------------------------------------------------------- *)

(* Whatever the library, whatever the history of updates: if every step answered and the walk
   reached the new nodes of every step, the backlinks the server answers are exactly the live
   links of the FINAL arena, as ascending lists — a function of the arena alone, the same
   function a fresh start answers with (ops = []). *)
Theorem C04_index_no_history tbl notes ops s0 s :
  import_state_v tbl notes = Ok s0 -> run_updates tbl s0 ops = Ok s -> covered_run tbl s0 ops ->
  forall k, block_refs_to s k = Ok (exact_refs (arena_of s) k) /\
            inline_refs_to s k = Ok (exact_inline (arena_of s) k).
Proof.
  intros H0 H C. apply getters_exact. eapply index_run_invariant; eauto. eapply index_import_invariant; eauto.
Qed.

(* two histories (from any two libraries) that end in the same arena answer the same *)
Corollary C04_index_history_independent tbl notes1 ops1 s01 s1 notes2 ops2 s02 s2 :
  import_state_v tbl notes1 = Ok s01 -> run_updates tbl s01 ops1 = Ok s1 -> covered_run tbl s01 ops1 ->
  import_state_v tbl notes2 = Ok s02 -> run_updates tbl s02 ops2 = Ok s2 -> covered_run tbl s02 ops2 ->
  arena_of s1 = arena_of s2 ->
  forall k, block_refs_to s1 k = block_refs_to s2 k /\ inline_refs_to s1 k = inline_refs_to s2 k.
Proof.
  intros A1 B1 C1 A2 B2 C2 E k.
  destruct (C04_index_no_history _ _ _ _ _ A1 B1 C1 k) as [X1 Y1].
  destruct (C04_index_no_history _ _ _ _ _ A2 B2 C2 k) as [X2 Y2].
  rewrite X1, X2, Y1, Y2, E. auto.
Qed.

(* no premise at all (any input, both variants of the walk, orphans or not): after every
   history the getters answer, and what they answer are live links of the final arena *)
Theorem C04_index_sound_no_history tbl notes ops s0 s :
  import_state_v tbl notes = Ok s0 -> run_updates tbl s0 ops = Ok s ->
  forall k,
    (exists l, block_refs_to s k = Ok l /\ forall x, In x l -> In x (exact_refs (arena_of s) k)) /\
    (exists l, inline_refs_to s k = Ok l /\ forall x, In x l -> In x (exact_inline (arena_of s) k)).
Proof.
  intros H0 H. apply getters_sound. eapply index_run_sound; [|exact H].
  apply index_import_invariant in H0. now apply IdxInv_spec in H0 as [S _].
Qed.

(* ---------- where the premise comes from ------------------------------------------------------------------- *)

(* from the forest invariant: a well-formed arena whose new live nodes all hang below the new
   root, and (for the walk as found) no new table with a successor *)
Lemma below_wreach_from tbl a root : wf_arena a ->
  (tbl = true \/ forall i n, root <= i -> get a i = Some n -> table_with_next n = false) ->
  forall i x, root <= i -> below a i x -> wreach tbl a i x.
Proof.
  intros [F K] T i x Hi B. induction B as [| i c x n Hn Hc _ IH | i j x n Hn Hj _ IH]; [constructor | |].
  - eapply wr_step; [exact Hn | | apply IH; destruct (F i n Hn) as [Fc _]; specialize (Fc c Hc); lia].
    apply links_succs; eauto. destruct T as [T|T]; [now left | right; eapply T; eauto].
  - eapply wr_step; [exact Hn | | apply IH; destruct (F i n Hn) as [_ Fn]; specialize (Fn j Hj); lia].
    apply links_succs; eauto. destruct T as [T|T]; [now left | right; eapply T; eauto].
Qed.

Theorem covers_of_wf tbl a a' : wf_arena a' ->
  (tbl = true \/ forall i n, length a <= i -> get a' i = Some n -> table_with_next n = false) ->
  (forall x, length a <= x -> alive a' x -> below a' (length a) x) ->
  covers tbl a a'.
Proof.
  intros W T B x Hx [k C]. eapply below_wreach_from; eauto. apply B; [exact Hx|].
  destruct C as [C|C]; [eapply is_ref_alive | eapply is_inl_alive]; eauto.
Qed.

(* decidable form, for concrete histories *)
Fixpoint walk (tbl : bool) (fuel : nat) (a : arena) (id : nat) : list nat :=
  match fuel with
  | O => []
  | S f => match get a id with
           | None => []
           | Some n => id :: flat_map (walk tbl f a) (succs tbl n)
           end
  end.

Lemma walk_wreach tbl a : forall fuel id x, In x (walk tbl fuel a id) -> wreach tbl a id x.
Proof.
  induction fuel as [|f IH]; intros id x H; [destruct H|].
  cbn [walk] in H. destruct (get a id) as [n|] eqn:Hn; [|destruct H].
  destruct H as [<-|H]; [constructor|]. apply in_flat_map in H as (j & Hj & Hx).
  eapply wr_step; eauto.
Qed.

Definition carriesb (n : gnode) : bool :=
  match g_kind n with
  | KRef _ _ _ => true
  | KSection l | KLeaf l => match ref_keys l with [] => false | _ => true end
  | _ => false
  end.

Definition coversb (tbl : bool) (a a' : arena) : bool :=
  let w := walk tbl (S (length a')) a' (length a) in
  forallb (fun x => match get a' x with
                    | Some n => implb (carriesb n) (mem x w)
                    | None => true
                    end) (seq (length a) (length a' - length a)).

Lemma coversb_sound tbl a a' : coversb tbl a a' = true -> covers tbl a a'.
Proof.
  unfold coversb, covers. rewrite forallb_forall. intros H x Hx [k C].
  assert (G : exists n, get a' x = Some n /\ carriesb n = true).
  { destruct C as [(n & t & rt & G & K) | (n & l & G & K & Hk)]; exists n; (split; [exact G|]); unfold carriesb.
    - now rewrite K.
    - destruct K as [K|K]; rewrite K; (destruct (ref_keys l); [destruct Hk | reflexivity]). }
  destruct G as (n & G & Cb). specialize (H x). rewrite G, Cb in H. cbn [implb] in H.
  eapply walk_wreach. apply mem_In. apply H. apply in_seq.
  apply ArenaFacts.get_lt in G. lia.
Qed.

Fixpoint covered_runb (tbl : bool) (s : gstate) (ops : list op) : bool :=
  match ops with
  | [] => true
  | (key, meta, bs) :: r =>
      match update_state_v tbl s key meta bs with
      | Ok s' => coversb tbl (arena_of s) (arena_of s') && covered_runb tbl s' r
      | Panic _ => true
      end
  end.

Lemma covered_runb_sound tbl ops : forall s, covered_runb tbl s ops = true -> covered_run tbl s ops.
Proof.
  induction ops as [|[[key meta] bs] r IH]; intros s H; cbn [covered_runb covered_run] in *; [exact I|].
  intros s' E. rewrite E in H. apply andb_prop in H as [H1 H2]. split; [now apply coversb_sound | now apply IH].
Qed.

(* ---------- a concrete history ----------------------------------------------------------------- *)

Definition P (l : list inline) := DPara (0, 1) l.
Definition L (u : string) := Link u "" Regular [Str u].
Definition notes1 : list (string * option string * list dblock) :=
  [("a", None, [DHeader (0, 1) 1 [Str "a"]; P [L "b"]; P [Str "see "; L "b"];
                DBList [[P [L "c"]]; [P [Str "x"; L "b"]; P [L "b"]]];
                DQuote (0,1) [P [L "b"]; DTable (2, 5) [[Str "t"]] [ANone] [[[Str "c"]]]; P [L "b"]]]);
   ("b", None, [DHeader (0, 1) 1 [Str "b"]; P [L "a"]]);
   ("c", None, [P [L "b"]])].

Definition ops1 : list op :=
  [("a", None, [DHeader (0, 1) 1 [Str "a"]; P [L "c"]; DHeader (0,1) 2 [L "b"]; P [L "b"]]);
   ("c", None, []);
   ("b", None, [P [L "b"]; DTable (2, 5) [[Str "t"]] [ANone] [[[Str "c"]]]; P [L "b"]; P [Str "q"; L "b"]]);
   ("d", None, [DOList [[P [L "b"]; DBList [[P [L "b"]]]]]]);
   ("a", None, [P [L "b"]])].


(* ---------- non-vacuity and the refuted variants ------------------------------------------------------------- *)

(* a history of five updates (a note with lists, a quote, a table; notes emptied, created,
   rewritten): every premise holds, so the theorem gives the answers below *)
Example history_premises_hold :
  exists s0, import_state_v true notes1 = Ok s0 /\ covered_runb true s0 ops1 = true /\
  exists s, run_updates true s0 ops1 = Ok s /\
    exact_refs (arena_of s) "b" = [24; 26; 34] /\ exact_inline (arena_of s) "b" = [27; 30; 32] /\
    raw_block_refs (gs_index s) "b" = [2; 7; 9; 11; 16; 21; 24; 26; 34].
Proof. eexists. split; [vm_compute; reflexivity|]. split; [vm_compute; reflexivity|].
       eexists. split; [vm_compute; reflexivity|]. repeat split; vm_compute; reflexivity. Qed.

Example history_invariant_holds :
  exists s0 s, import_state_v true notes1 = Ok s0 /\ run_updates true s0 ops1 = Ok s /\
    covered_run true s0 ops1 /\ IdxInv s.
Proof.
  eexists. eexists. split; [vm_compute; reflexivity|]. split; [vm_compute; reflexivity|].
  assert (C : forall s0, covered_runb true s0 ops1 = true -> covered_run true s0 ops1)
    by (intros; now apply covered_runb_sound).
  split.
  - apply C. vm_compute. reflexivity.
  - eapply (index_run_invariant true ops1); [eapply (index_import_invariant true notes1); vm_compute; reflexivity | vm_compute; reflexivity |].
    apply C. vm_compute. reflexivity.
Qed.

(* the walk as found (pinned tree, before 7b992d5) does not keep the invariant: the same history
   loses the links behind the table of the third update, for ever *)
Theorem index_history_as_found_refuted :
  exists notes ops s0 s k, import_state notes = Ok s0 /\ run_updates false s0 ops = Ok s /\
    block_refs_to s k = Ok [21; 24] /\ exact_refs (arena_of s) k = [21; 24; 26] /\
    covered_runb false s0 ops = false.
Proof.
  exists notes1, (firstn 3 ops1). eexists. eexists. exists "b".
  split; [vm_compute; reflexivity|]. split; [vm_compute; reflexivity|]. repeat split; vm_compute; reflexivity.
Qed.

(* the witness of F-ITEMLEAD (a list item that starts with a list and holds further blocks used to
   orphan a Reference node, which a fresh start found and an update did not): since the builder
   repair the item is one section without text over all its blocks, nothing is orphaned, the run
   is covered and import and update agree *)
Definition orphan_note : list dblock := [DBList [[DBList [[P [Str "x"]; P [L "b"]]]; P [Str "z"]]]].

Theorem index_history_former_orphan :
  (exists s, import_state_v true [("d", None, orphan_note)] = Ok s /\ block_refs_to s "b" = Ok [5]) /\
  (exists s0 s, import_state_v true [] = Ok s0 /\ run_updates true s0 [("d", None, orphan_note)] = Ok s /\
     block_refs_to s "b" = Ok [5] /\ exact_refs (arena_of s) "b" = [5] /\
     covered_runb true s0 [("d", None, orphan_note)] = true).
Proof.
  split.
  - eexists. split; vm_compute; reflexivity.
  - eexists. eexists. split; [vm_compute; reflexivity|]. split; [vm_compute; reflexivity|].
    repeat split; vm_compute; reflexivity.
Qed.

Print Assumptions index_import_invariant.
Print Assumptions index_history_invariant.
Print Assumptions covers_necessary.
Print Assumptions index_run_invariant.
Print Assumptions C04_index_no_history.
Print Assumptions C04_index_history_independent.
Print Assumptions C04_index_sound_no_history.
Print Assumptions update_key_evolves.
Print Assumptions run_dead_stays_dead.
Print Assumptions covers_of_wf.
Print Assumptions index_history_as_found_refuted.
Print Assumptions index_history_former_orphan.
