(* LinkPaths.v — which FILE a link written in a note file names, computed from the directory
   tree alone: the linking file is <dirs>/<stem>.md, the url is read relative to <dirs>
   (`.` stays, `..` goes one directory up: RelPath's [traverse]), one `.md` is taken off the url
   (a link names a note with or without the extension) and the file is <path>.md.
   Nothing of iwe's key machinery (Key::parent, join_normalized on key text, url_to_key) is used:
   this is the reference the C14 check compares go-to-definition / find-references with, and
   LinkPathsFacts.v proves that the modelled key machinery agrees with it. *)
From IweV Require Import Str RelPath.
Local Open Scope string_scope.
Local Open Scope list_scope.

(* the names held by a buffer of components, [None] if a `..` is left in it (the path leaves
   the library) *)
Fixpoint norm_names (buf : list comp) : option (list string) :=
  match buf with
  | [] => Some []
  | Norm s :: r => match norm_names r with Some l => Some (s :: l) | None => None end
  | _ => None
  end.

(* directory of the file <dirs>/<stem>.md given as dirs ++ [stem] *)
Definition dir_of (comps : list string) : list string := removelast comps.

(* the last component of a url is a name (a url ending in `.` / `..` / nothing names a
   directory, not a note) *)
Definition names_a_file (cs : list comp) : bool :=
  match rev cs with Norm _ :: _ => true | _ => false end.

(* dirs ++ [stem] of the note file the link `url` written in the file [from] names; [None]
   for an external url (http:, https:, mailto:), a url that names no file or one that leaves
   the library *)
Definition link_target (from : list string) (url : string) : option (list string) :=
  if is_ref_url url then
    let cs := components (strip_md url) in
    if names_a_file cs then
      match norm_names (traverse (rev (map Norm (dir_of from))) cs) with
      | Some names => Some (rev names)
      | None => None
      end
    else None
  else None.

(* the key the disk loader gives the file dirs ++ [stem] (fs.rs: directory names and stem joined by `/`) *)
Definition file_key (comps : list string) : string := join SEPS comps.
