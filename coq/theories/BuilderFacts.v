(* BuilderFacts.v — the SectionsBuilder / GraphBuilder cursor machine never panics and always
   terminates (C03): for EVERY list of reader blocks and for every arena, `build_document`
   returns `Ok` — none of its `expect`/`panic!` sites is reachable, and the fuel
   `fuel_for bs = 4 * size + 8` is enough for every input (the recursion of
   process_blocks / process_section / section_block / block is well founded).
   (Before the repair of F-LEADPANIC the statement needed the hypothesis that no list item
   starts with a code block, quote, table or rule: `section_block` panicked on those.) *)
From IweV Require Import Str Ast RelPath Arena ArenaWF ArenaFacts.
From Coq Require Import Lia.
Local Open Scope string_scope.
Local Open Scope list_scope.

(* ---------- sizes ----------------------------------------------------------------------------- *)

Lemma size_go l :
  (fix go (l : list dblock) : nat := match l with [] => 0 | x :: r => dblock_size x + go r end) l = dblocks_size l.
Proof. induction l as [|x l IH]; cbn; [reflexivity | now rewrite IH]. Qed.

Fixpoint items_size (its : list (list dblock)) : nat :=
  match its with [] => 0 | it :: r => S (dblocks_size it) + items_size r end.

Lemma size_goi its :
  (fix goi (l : list (list dblock)) : nat :=
     match l with
     | [] => 0
     | x :: r => S ((fix go (l : list dblock) : nat := match l with [] => 0 | x :: r => dblock_size x + go r end) x) + goi r
     end) its = items_size its.
Proof. induction its as [|it its IH]; cbn [items_size]; [reflexivity | now rewrite size_go, IH]. Qed.

Lemma size_blist its : dblock_size (DBList its) = S (items_size its).
Proof. cbn [dblock_size]. now rewrite size_goi. Qed.
Lemma size_olist its : dblock_size (DOList its) = S (items_size its).
Proof. cbn [dblock_size]. now rewrite size_goi. Qed.
Lemma size_quote lr bs : dblock_size (DQuote lr bs) = S (dblocks_size bs).
Proof. cbn [dblock_size]. now rewrite size_go. Qed.

Lemma dblock_size_pos b : 1 <= dblock_size b.
Proof. destruct b; cbn [dblock_size]; lia. Qed.

Lemma dblocks_size_cons b l : dblocks_size (b :: l) = dblock_size b + dblocks_size l.
Proof. reflexivity. Qed.

Lemma dblocks_size_app l1 l2 : dblocks_size (l1 ++ l2) = dblocks_size l1 + dblocks_size l2.
Proof. induction l1 as [|x l1 IH]; cbn [app]; [reflexivity|]. rewrite !dblocks_size_cons, IH. lia. Qed.

Lemma items_size_in it its : In it its -> S (dblocks_size it) <= items_size its.
Proof.
  induction its as [|x its IH]; [contradiction|]. intros [->|H]; cbn [items_size]; [lia|].
  specialize (IH H). lia.
Qed.

(* ---------- the splitting functions ------------------------------------------------------------- *)

Definition headed (bs : list dblock) : Prop :=
  match bs with [] => True | h :: _ => is_header h = true end.

Lemma span_pre_spec bs pre rest :
  span_pre bs = (pre, rest) ->
  bs = pre ++ rest /\ Forall (fun b => is_header b = false) pre /\ headed rest.
Proof.
  revert pre rest; induction bs as [|b bs IH]; intros pre rest H; cbn [span_pre] in H.
  - inversion H; subst. repeat split; constructor.
  - destruct (is_header b) eqn:Eh.
    + inversion H; subst. repeat split; [constructor | exact Eh].
    + destruct (span_pre bs) as [x y] eqn:Es. inversion H; subst.
      destruct (IH x rest eq_refl) as (-> & Hf & Hh). repeat split; auto.
Qed.

Lemma is_split_header L b : is_split L b = true -> is_header b = true.
Proof. destruct b; cbn; congruence. Qed.

Lemma span_section_spec L bs body rest :
  span_section L bs = (body, rest) -> bs = body ++ rest /\ headed rest.
Proof.
  revert body rest; induction bs as [|b bs IH]; intros body rest H; cbn [span_section] in H.
  - inversion H; subst. split; [reflexivity | exact I].
  - destruct (is_split L b) eqn:Eh.
    + inversion H; subst. split; [reflexivity | now apply (is_split_header L)].
    + destruct (span_section L bs) as [x y] eqn:Es. inversion H; subst.
      destruct (IH x rest eq_refl) as (-> & Hh). split; auto.
Qed.

(* ---------- arena extension and the cursor invariants ------------------------------------------ *)

Definition kind_at (a : arena) (id : nat) : option gkind := option_map g_kind (get a id).

(* a' extends a: older slots keep their kind (the builder only ever adds links) *)
Definition ext (a a' : arena) : Prop :=
  length a <= length a' /\ forall id, id < length a -> kind_at a' id = kind_at a id.

Lemma ext_refl a : ext a a.
Proof. split; auto. Qed.

Lemma ext_trans a b c : ext a b -> ext b c -> ext a c.
Proof.
  intros [L1 K1] [L2 K2]. split; [lia|]. intros id H. rewrite K2 by lia. now apply K1.
Qed.

(* the cursor can take the next node *)
Definition J (st : bst) : Prop :=
  exists k, kind_at (b_arena st) (b_cur st) = Some k /\ is_emptyk k = false /\
            (b_insert st = true -> insertable k = true) /\
            (b_insert st = false -> is_dock k = false).

(* ... and is a container other than the document: a list item may start below it whatever the
   insert flag is *)
Definition Q (st : bst) : Prop :=
  exists k, kind_at (b_arena st) (b_cur st) = Some k /\ insertable k = true /\ is_dock k = false.

(* any container, the document included: a run of blocks may start below it *)
Definition Qb (st : bst) : Prop :=
  exists k, kind_at (b_arena st) (b_cur st) = Some k /\ insertable k = true.

Lemma kind_at_lt a id k : kind_at a id = Some k -> id < length a.
Proof.
  unfold kind_at. destruct (get a id) as [n|] eqn:E; [|discriminate]. intros _. eapply get_lt; eauto.
Qed.

Lemma insertable_live k : insertable k = true -> is_emptyk k = false.
Proof. destruct k; cbn; congruence. Qed.

Lemma Q_J st : Q st -> J st.
Proof.
  intros (k & Hk & Hi & Hd). exists k. repeat split; auto. now apply insertable_live.
Qed.

Lemma Q_Qb st : Q st -> Qb st.
Proof. intros (k & Hk & Hi & _). exists k. auto. Qed.

Lemma Q_at (a : arena) id ins m k :
  kind_at a id = Some k -> insertable k = true -> is_dock k = false -> Q (B a id ins m).
Proof. intros Hk Hi Hd. exists k. auto. Qed.

Lemma Qb_J_true st : Qb st -> J (set_insert st true).
Proof.
  intros (k & Hk & Hi). exists k. cbn. repeat split; auto; [now apply insertable_live | discriminate].
Qed.

Lemma add_node_J st k :
  J st -> is_emptyk k = false -> is_dock k = false ->
  exists st', add_node st k = Ok st' /\ ext (b_arena st) (b_arena st') /\
              b_cur st' = length (b_arena st) /\ b_insert st' = false /\
              kind_at (b_arena st') (b_cur st') = Some k /\ b_map st' = b_map st.
Proof.
  intros (k0 & Hk0 & He & Hi & Hd) Hk Hkd.
  unfold kind_at in Hk0. destruct (get (b_arena st) (b_cur st)) as [n|] eqn:Hn; [|discriminate].
  cbn in Hk0. inversion Hk0; subst k0; clear Hk0.
  pose proof (get_lt _ _ _ Hn) as Hlt.
  assert (Hext : forall n', g_kind n' = g_kind n ->
            ext (b_arena st) (set_nth (b_arena st) (b_cur st) n' ++ [GN k (Some (b_cur st)) None None])).
  { intros n' Hkn. split.
    - rewrite app_length, set_nth_length. lia.
    - intros id Hid. unfold kind_at. rewrite get_app_l by (now rewrite set_nth_length).
      destruct (Nat.eq_dec id (b_cur st)) as [->|Hne].
      + rewrite get_set_nth_same by exact Hlt. rewrite Hn. cbn. now rewrite Hkn.
      + now rewrite get_set_nth_other by exact Hne. }
  assert (Hnew : forall n', kind_at (set_nth (b_arena st) (b_cur st) n' ++ [GN k (Some (b_cur st)) None None])
                                    (length (b_arena st)) = Some k).
  { intros n'. unfold kind_at. rewrite <- (set_nth_length (b_arena st) (b_cur st) n'), get_app_new. reflexivity. }
  unfold add_node. destruct (b_insert st) eqn:Ei.
  - specialize (Hi eq_refl). unfold set_child_id. rewrite Hn.
    destruct (g_kind n) eqn:Ek; try discriminate; cbn [bind];
      eexists; (split; [reflexivity|]); cbn [b_arena b_cur b_insert b_map];
      (split; [apply Hext; cbn; congruence|]); repeat split; apply Hnew.
  - specialize (Hd eq_refl). unfold set_next_id. rewrite Hn.
    destruct (g_kind n) eqn:Ek; try discriminate; cbn [bind];
      eexists; (split; [reflexivity|]); cbn [b_arena b_cur b_insert b_map];
      (split; [apply Hext; cbn; congruence|]); repeat split; apply Hnew.
Qed.

Lemma J_of_new st k :
  kind_at (b_arena st) (b_cur st) = Some k -> is_emptyk k = false -> is_dock k = false ->
  b_insert st = false -> J st.
Proof. intros Hk He Hd Hi. exists k. repeat split; auto. rewrite Hi. discriminate. Qed.

Lemma J_set_lines st lr : J st -> J (set_lines_range st lr).
Proof. intros H. exact H. Qed.

(* folding a step that keeps an invariant and extends the arena *)
Lemma fold_steps {X} (step : bst -> X -> res bst) (Inv : bst -> Prop) (l : list X) :
  forall st, Inv st ->
  (forall x, In x l -> forall s, Inv s -> exists s', step s x = Ok s' /\ ext (b_arena s) (b_arena s') /\ Inv s') ->
  exists st', fold_left (fun acc x => do s <- acc; step s x) l (Ok st) = Ok st' /\
              ext (b_arena st) (b_arena st') /\ Inv st'.
Proof.
  induction l as [|x l IH]; intros st Hinv Hstep; cbn [fold_left].
  - exists st. repeat split; auto using ext_refl.
  - destruct (Hstep x (or_introl eq_refl) st Hinv) as (s1 & H1 & E1 & I1).
    cbn [bind]. rewrite H1.
    assert (Hrest : forall y, In y l -> forall s, Inv s ->
              exists s', step s y = Ok s' /\ ext (b_arena s) (b_arena s') /\ Inv s')
      by (intros y Hy; apply Hstep; now right).
    destruct (IH s1 I1 Hrest) as (st' & H2 & E2 & I2).
    exists st'. split; [exact H2|]. split; [eapply ext_trans; eauto | exact I2].
Qed.

(* ---------- the main induction ----------------------------------------------------------------- *)

Definition text_lead (b : dblock) : bool := match b with DPara _ _ | DHeader _ _ _ => true | _ => false end.
Definition list_lead (b : dblock) : bool := match b with DBList _ | DOList _ => true | _ => false end.

(* what an item needs of the state it starts in *)
Definition pre_item (it : list dblock) (st : bst) : Prop :=
  match it with
  | [] => True
  | h :: _ => if text_lead h then J st else Q st
  end.

Section Main.
  Variable dir : string.


  (* one-step unfoldings of the five mutually recursive functions *)
  Lemma process_blocks_S f bs st :
    process_blocks dir (S f) bs st =
    match bs with
    | [] => Ok st
    | _ =>
        let st := set_insert st true in
        let '(pre, rest) := span_pre bs in
        do st <- fold_left (fun acc b => do s <- acc; block dir f b s) pre (Ok st);
        match rest with
        | [] => Ok st
        | h :: _ => match header_level h with
                    | None => Ok st
                    | Some L => process_sections dir f L rest st
                    end
        end
    end.
  Proof. reflexivity. Qed.

  Lemma process_sections_S f L bs st :
    process_sections dir (S f) L bs st =
    match bs with
    | [] => Ok st
    | h :: r =>
        let '(body, rest) := span_section L r in
        do st <- process_section dir f (h :: body) st;
        process_sections dir f L rest st
    end.
  Proof. reflexivity. Qed.

  Lemma process_section_S f bs st :
    process_section dir (S f) bs st =
    match bs with
    | [] => Ok st
    | h :: body =>
        if starts_with_header bs then
          do st <- section_block dir f h st;
          let id := b_cur st in
          do st <- process_blocks dir f body st;
          Ok (set_id st id)
        else
          do st <- add_node st (KSection []);
          let id := b_cur st in
          do st <- process_blocks dir f bs st;
          Ok (set_id st id)
    end.
  Proof. reflexivity. Qed.

  Lemma section_block_S f b st :
    section_block dir (S f) b st =
    match b with
    | DPara lr l => do st <- add_node st (KSection (to_ginlines dir l)); Ok (set_lines_range st lr)
    | DHeader lr _ l => do st <- add_node st (KSection (to_ginlines dir l)); Ok (set_lines_range st lr)
    | DBList items | DOList items =>
        fold_left (fun acc it => do s <- acc; process_section dir f it s) items (Ok st)
    | _ => Panic "section block panic"   (* not reachable from process_section any more *)
    end.
  Proof. reflexivity. Qed.

  Lemma block_S f b st :
    block dir (S f) b st =
    match b with
    | DCode lr lang text => do st <- add_node st (KRaw lang text); Ok (set_lines_range st lr)
    | DPara lr l =>
        if para_is_ref l then
          match l with
          | [Link url _ lt ils] =>
              do st <- add_node st (KRef (from_rel_link_url url dir) (inlines_plain_text ils) lt);
              Ok (set_lines_range st lr)
          | _ => Panic "unreachable"
          end
        else do st <- add_node st (KLeaf (to_ginlines dir l)); Ok (set_lines_range st lr)
    | DBList items =>
        do st <- add_node st KBList;
        let st := set_insert st true in
        let id := b_cur st in
        do st <- fold_left (fun acc it => do s <- acc; process_section dir f it s) items (Ok st);
        Ok (set_insert (set_id st id) false)
    | DOList items =>
        do st <- add_node st KOList;
        let st := set_insert st true in
        let id := b_cur st in
        do st <- fold_left (fun acc it => do s <- acc; process_section dir f it s) items (Ok st);
        Ok (set_insert (set_id st id) false)
    | DQuote lr bs =>
        do st <- add_node st KQuote;
        let st := set_lines_range st lr in
        do inner <- process_blocks dir f bs (B (b_arena st) (b_cur st) true []);
        Ok (B (b_arena inner) (b_cur st) (b_insert st) (b_map st ++ b_map inner))
    | DRule lr => do st <- add_node st KRule; Ok (set_lines_range st lr)
    | DHeader _ _ _ => Panic "Unexpected block type, headers should be process outside of this block"
    | DTable lr h al rows =>
        do st <- add_node st (KTable (map (to_ginlines dir) h) al (map (map (to_ginlines dir)) rows));
        Ok (set_lines_range st lr)
    end.
  Proof. reflexivity. Qed.

  Definition block_total n :=
    forall f b st, dblock_size b <= n -> 4 * n + 1 <= f -> is_header b = false ->
      J st -> exists st', block dir f b st = Ok st' /\ ext (b_arena st) (b_arena st') /\ J st'.

  Definition sblock_total n :=
    forall f h st, dblock_size h <= n -> 4 * n + 1 <= f ->
      (text_lead h = true \/ list_lead h = true) -> pre_item [h] st ->
      exists st', section_block dir f h st = Ok st' /\ ext (b_arena st) (b_arena st') /\ Q st'.

  (* a section that starts with text (a heading, or the text of an item) *)
  Definition hsection_total n :=
    forall f h body st, dblocks_size (h :: body) <= n -> 4 * n + 2 <= f -> text_lead h = true -> J st ->
      exists st', process_section dir f (h :: body) st = Ok st' /\ ext (b_arena st) (b_arena st') /\ Q st'.

  (* any list item *)
  Definition section_total n :=
    forall f it st, dblocks_size it <= n -> 4 * n + 5 <= f -> pre_item it st ->
      exists st', process_section dir f it st = Ok st' /\ ext (b_arena st) (b_arena st') /\
                  (it = [] -> st' = st) /\ (it <> [] -> Q st').

  Definition sections_total n :=
    forall f L bs st, dblocks_size bs <= n -> 4 * n + 3 <= f -> headed bs -> J st ->
      exists st', process_sections dir f L bs st = Ok st' /\ ext (b_arena st) (b_arena st').

  Definition blocks_total n :=
    forall f bs st, dblocks_size bs <= n -> 4 * n + 4 <= f -> Qb st ->
      exists st', process_blocks dir f bs st = Ok st' /\ ext (b_arena st) (b_arena st').

  (* items of a list, processed one after the other from a container state *)
  Lemma items_fold n f its st :
    section_total n -> (forall it, In it its -> dblocks_size it <= n) -> (its <> [] -> 4 * n + 5 <= f) ->
    Q st ->
    exists st', fold_left (fun acc it => do s <- acc; process_section dir f it s) its (Ok st) = Ok st' /\
                ext (b_arena st) (b_arena st') /\ Q st'.
  Proof.
    intros HS Hsz Hf HQ.
    apply (fold_steps (fun s it => process_section dir f it s) Q its st HQ).
    intros it Hin s Hs.
    assert (Hne : its <> []) by (intros ->; contradiction).
    assert (Hpre : pre_item it s).
    { destruct it as [|h r]; [exact I|]. cbn [pre_item]. destruct (text_lead h); [now apply Q_J | exact Hs]. }
    destruct (HS f it s (Hsz it Hin) (Hf Hne) Hpre) as (s' & H1 & E1 & Hnil & Hcons).
    exists s'. split; [exact H1|]. split; [exact E1|].
    destruct it as [|h r]; [rewrite (Hnil eq_refl); exact Hs | apply Hcons; discriminate].
  Qed.

  Lemma step_block n : (forall m, m < n -> section_total m /\ blocks_total m) -> block_total n.
  Proof.
    intros IH f b st Hsz Hf Hnh HJ.
    destruct f as [|f]; [lia|]. rewrite block_S.
    destruct b as [lr l|lr lang text|lr bs|its|its|lr lv l|lr|lr h al rows]; try discriminate.
    - (* paragraph: reference or leaf *)
      destruct (para_is_ref l) eqn:Er.
      + destruct l as [|[| | | | | |url title lt ils|] [|? ?]]; try discriminate.
        destruct (add_node_J st (KRef (from_rel_link_url url dir) (inlines_plain_text ils) lt) HJ eq_refl eq_refl)
          as (st' & H & E & Hc & Hi & Hk & _).
        rewrite H. cbn [bind]. eexists. split; [reflexivity|]. split; [exact E|].
        apply J_set_lines. eapply J_of_new; eauto.
      + destruct (add_node_J st (KLeaf (to_ginlines dir l)) HJ eq_refl eq_refl) as (st' & H & E & Hc & Hi & Hk & _).
        rewrite H. cbn [bind]. eexists. split; [reflexivity|]. split; [exact E|].
        apply J_set_lines. eapply J_of_new; eauto.
    - (* code *)
      destruct (add_node_J st (KRaw lang text) HJ eq_refl eq_refl) as (st' & H & E & Hc & Hi & Hk & _).
      rewrite H. cbn [bind]. eexists. split; [reflexivity|]. split; [exact E|].
      apply J_set_lines. eapply J_of_new; eauto.
    - (* quote: a nested run below the quote node *)
      destruct (add_node_J st KQuote HJ eq_refl eq_refl) as (st1 & H & E & Hc & Hi & Hk & _).
      rewrite H. cbn [bind]. cbv zeta. cbn [set_lines_range b_arena b_cur b_insert b_map].
      rewrite size_quote in Hsz.
      destruct (IH (dblocks_size bs) ltac:(lia)) as [_ HB].
      assert (HQ : Qb (B (b_arena st1) (b_cur st1) true [])).
      { exists KQuote. auto. }
      destruct (HB f bs _ (le_n _) ltac:(lia) HQ) as (inner & H2 & E2).
      rewrite H2. cbn [bind]. eexists. split; [reflexivity|]. cbn [b_arena] in *.
      split; [eapply ext_trans; eauto|].
      exists KQuote. cbn [b_arena b_cur b_insert].
      assert (Hk2 : kind_at (b_arena inner) (b_cur st1) = Some KQuote)
        by (destruct E2 as [_ K2]; rewrite K2; [exact Hk | now apply kind_at_lt in Hk]).
      split; [exact Hk2|]. split; [reflexivity|]. split; intros _; reflexivity.
    - (* ordered list *)
      destruct (add_node_J st KOList HJ eq_refl eq_refl) as (st1 & H & E & Hc & Hi & Hk & _).
      rewrite H. cbn [bind]. cbv zeta. rewrite size_olist in Hsz.
      set (n' := items_size its - 1).
      destruct (IH n' ltac:(destruct its; cbn [items_size] in *; lia)) as [HS _].
      assert (HQ : Q (set_insert st1 true)).
      { unfold set_insert. apply (Q_at _ _ _ _ KOList); auto. }
      destruct (items_fold n' f its (set_insert st1 true) HS) as (st2 & H2 & E2 & Q2); auto.
      { intros it Hin. pose proof (items_size_in it its Hin). unfold n'. lia. }
      { unfold n'. destruct its; [congruence | cbn [items_size] in *; lia]. }
      rewrite H2. cbn [bind]. eexists. split; [reflexivity|].
      cbn [set_insert set_id b_arena b_cur b_insert b_map] in *.
      split; [eapply ext_trans; eauto|].
      exists KOList. cbn [b_arena b_cur b_insert].
      assert (Hk2 : kind_at (b_arena st2) (b_cur st1) = Some KOList)
        by (destruct E2 as [_ K2]; cbn [set_insert b_arena] in K2; rewrite K2; [exact Hk | now apply kind_at_lt in Hk]).
      split; [exact Hk2|]. split; [reflexivity|]. split; intros _; reflexivity.
    - (* bullet list *)
      destruct (add_node_J st KBList HJ eq_refl eq_refl) as (st1 & H & E & Hc & Hi & Hk & _).
      rewrite H. cbn [bind]. cbv zeta. rewrite size_blist in Hsz.
      set (n' := items_size its - 1).
      destruct (IH n' ltac:(destruct its; cbn [items_size] in *; lia)) as [HS _].
      assert (HQ : Q (set_insert st1 true)).
      { unfold set_insert. apply (Q_at _ _ _ _ KBList); auto. }
      destruct (items_fold n' f its (set_insert st1 true) HS) as (st2 & H2 & E2 & Q2); auto.
      { intros it Hin. pose proof (items_size_in it its Hin). unfold n'. lia. }
      { unfold n'. destruct its; [congruence | cbn [items_size] in *; lia]. }
      rewrite H2. cbn [bind]. eexists. split; [reflexivity|].
      cbn [set_insert set_id b_arena b_cur b_insert b_map] in *.
      split; [eapply ext_trans; eauto|].
      exists KBList. cbn [b_arena b_cur b_insert].
      assert (Hk2 : kind_at (b_arena st2) (b_cur st1) = Some KBList)
        by (destruct E2 as [_ K2]; cbn [set_insert b_arena] in K2; rewrite K2; [exact Hk | now apply kind_at_lt in Hk]).
      split; [exact Hk2|]. split; [reflexivity|]. split; intros _; reflexivity.
    - (* rule *)
      destruct (add_node_J st KRule HJ eq_refl eq_refl) as (st' & H & E & Hc & Hi & Hk & _).
      rewrite H. cbn [bind]. eexists. split; [reflexivity|]. split; [exact E|].
      apply J_set_lines. eapply J_of_new; eauto.
    - (* table *)
      destruct (add_node_J st (KTable (map (to_ginlines dir) h) al (map (map (to_ginlines dir)) rows)) HJ eq_refl eq_refl)
        as (st' & H & E & Hc & Hi & Hk & _).
      rewrite H. cbn [bind]. eexists. split; [reflexivity|]. split; [exact E|].
      apply J_set_lines. eapply J_of_new; eauto.
  Qed.

  Lemma step_sblock n : (forall m, m < n -> section_total m) -> sblock_total n.
  Proof.
    intros IH f h st Hsz Hf Hlead Hpre.
    destruct f as [|f]; [lia|]. rewrite section_block_S.
    destruct h as [lr l|lr lang text|lr bs|its|its|lr lv l|lr|lr hh al rows];
      try (destruct Hlead as [Hx|Hx]; discriminate).
    - cbn [pre_item text_lead] in Hpre.
      destruct (add_node_J st (KSection (to_ginlines dir l)) Hpre eq_refl eq_refl) as (st' & H & E & Hc & Hi & Hk & _).
      rewrite H. cbn [bind]. eexists. split; [reflexivity|]. split; [exact E|].
      unfold set_lines_range. destruct st' as [a' c' i' m']. cbn in *. apply (Q_at _ _ _ _ (KSection (to_ginlines dir l))); auto.
    - cbn [pre_item text_lead] in Hpre. rewrite size_olist in Hsz.
      set (n' := items_size its - 1).
      assert (HS : section_total n') by (apply IH; destruct its; cbn [items_size] in *; lia).
      destruct (items_fold n' f its st HS) as (st2 & H2 & E2 & Q2); auto.
      { intros it Hin. pose proof (items_size_in it its Hin). unfold n'. lia. }
      { unfold n'. destruct its; [congruence | cbn [items_size] in *; lia]. }
      exists st2. auto.
    - cbn [pre_item text_lead] in Hpre. rewrite size_blist in Hsz.
      set (n' := items_size its - 1).
      assert (HS : section_total n') by (apply IH; destruct its; cbn [items_size] in *; lia).
      destruct (items_fold n' f its st HS) as (st2 & H2 & E2 & Q2); auto.
      { intros it Hin. pose proof (items_size_in it its Hin). unfold n'. lia. }
      { unfold n'. destruct its; [congruence | cbn [items_size] in *; lia]. }
      exists st2. auto.
    - cbn [pre_item text_lead] in Hpre.
      destruct (add_node_J st (KSection (to_ginlines dir l)) Hpre eq_refl eq_refl) as (st' & H & E & Hc & Hi & Hk & _).
      rewrite H. cbn [bind]. eexists. split; [reflexivity|]. split; [exact E|].
      unfold set_lines_range. destruct st' as [a' c' i' m']. cbn in *. apply (Q_at _ _ _ _ (KSection (to_ginlines dir l))); auto.
  Qed.

  Lemma text_lead_starts h body : text_lead h = true -> starts_with_header (h :: body) = true.
  Proof. destruct h; cbn; congruence. Qed.

  Lemma step_hsection n : sblock_total n -> (forall m, m < n -> blocks_total m) -> hsection_total n.
  Proof.
    intros HSB IH f h body st Hsz Hf Htl HJ.
    destruct f as [|f]; [lia|]. rewrite process_section_S, (text_lead_starts h body Htl).
    rewrite dblocks_size_cons in Hsz.
    pose proof (dblock_size_pos h) as Hpos.
    destruct (HSB f h st ltac:(lia) ltac:(lia) (or_introl Htl)) as (st1 & H1 & E1 & Q1).
    { cbn [pre_item]. now rewrite Htl. }
    rewrite H1. cbn [bind].
    destruct (IH (dblocks_size body) ltac:(lia) f body st1 (le_n _) ltac:(lia) (Q_Qb _ Q1)) as (st2 & H2 & E2).
    rewrite H2. cbn [bind]. eexists. split; [reflexivity|]. cbn [set_id b_arena].
    split; [eapply ext_trans; eauto|].
    destruct Q1 as (k & Hk & Hins & Hdk).
    (* the cursor goes back to the section node: its kind is unchanged in the extended arena *)
    assert (Hk2 : kind_at (b_arena st2) (b_cur st1) = Some k).
    { destruct E2 as [_ K2]. rewrite K2; [exact Hk | now apply kind_at_lt in Hk]. }
    unfold set_id. now apply (Q_at _ _ _ _ k).
  Qed.

  (* an item that consists of one list: merged into the enclosing list *)
  Lemma section_list_alone n f h st :
    sblock_total n -> list_lead h = true -> dblock_size h <= n -> 4 * n + 5 <= f -> Q st ->
    exists st', process_section dir f [h] st = Ok st' /\ ext (b_arena st) (b_arena st') /\ Q st'.
  Proof.
    intros HSB Hl Hsz Hf HQ.
    destruct f as [|f]; [lia|]. rewrite process_section_S.
    assert (Hs : starts_with_header [h] = true) by (destruct h; cbn in *; congruence).
    rewrite Hs.
    destruct (HSB f h st Hsz ltac:(lia) (or_intror Hl)) as (st1 & H1 & E1 & Q1).
    { cbn [pre_item]. destruct h; try discriminate; exact HQ. }
    rewrite H1. cbn [bind].
    destruct f as [|f]; [lia|]. rewrite process_blocks_S. cbn [bind].
    eexists. split; [reflexivity|]. split; [exact E1|].
    destruct Q1 as (k & Hk & Hins & Hdk). unfold set_id. now apply (Q_at _ _ _ _ k).
  Qed.

  (* an item without text: a section without text over all its blocks *)
  Lemma section_no_text n f it st :
    blocks_total n -> it <> [] -> starts_with_header it = false -> dblocks_size it <= n -> 4 * n + 5 <= f -> J st ->
    exists st', process_section dir f it st = Ok st' /\ ext (b_arena st) (b_arena st') /\ Q st'.
  Proof.
    intros HB Hne Hs Hsz Hf HJ.
    destruct f as [|f]; [lia|]. rewrite process_section_S.
    destruct it as [|h body]; [congruence|]. rewrite Hs.
    destruct (add_node_J st (KSection []) HJ eq_refl eq_refl) as (st1 & H1 & E1 & Hc & Hi & Hk & _).
    rewrite H1. cbn [bind].
    assert (Q1 : Q st1) by (destruct st1 as [a1 c1 i1 m1]; cbn in *; apply (Q_at _ _ _ _ (KSection [])); auto).
    destruct (HB f (h :: body) st1 Hsz ltac:(lia) (Q_Qb _ Q1)) as (st2 & H2 & E2).
    rewrite H2. cbn [bind]. eexists. split; [reflexivity|]. cbn [set_id b_arena].
    split; [eapply ext_trans; eauto|].
    assert (Hk2 : kind_at (b_arena st2) (b_cur st1) = Some (KSection [])).
    { destruct E2 as [_ K2]. rewrite K2; [exact Hk | now apply kind_at_lt in Hk]. }
    unfold set_id. now apply (Q_at _ _ _ _ (KSection [])).
  Qed.

  Lemma step_section n : sblock_total n -> hsection_total n -> blocks_total n -> section_total n.
  Proof.
    intros HSB HH HB f it st Hsz Hf Hpre.
    destruct it as [|h body].
    - destruct f as [|f]; [lia|]. rewrite process_section_S.
      exists st. repeat split; auto using ext_refl. intros H; now elim H.
    - cbn [pre_item] in Hpre.
      assert (Hgoal : exists st', process_section dir f (h :: body) st = Ok st' /\ ext (b_arena st) (b_arena st') /\ Q st').
      { destruct (text_lead h) eqn:Htl.
        - apply (HH f h body st Hsz ltac:(lia) Htl Hpre).
        - destruct (starts_with_header (h :: body)) eqn:Hs.
          + (* one list and nothing else *)
            assert (body = [] /\ list_lead h = true) as [-> Hl].
            { destruct h; cbn in Htl, Hs; try discriminate; destruct body; try discriminate; auto. }
            apply (section_list_alone n f h st HSB Hl); auto.
            rewrite dblocks_size_cons in Hsz. cbn [dblocks_size fold_right] in Hsz. lia.
          + apply (section_no_text n f (h :: body) st HB); auto; [discriminate | now apply Q_J]. }
      destruct Hgoal as (st' & H1 & E1 & Q1). exists st'.
      split; [exact H1|]. split; [exact E1|]. split; [discriminate | intros _; exact Q1].
  Qed.

  Lemma step_sections n :
    hsection_total n -> (forall m, m < n -> sections_total m) -> sections_total n.
  Proof.
    intros HS IH f L bs st Hsz Hf Hhd HJ.
    destruct f as [|f]; [lia|]. rewrite process_sections_S.
    destruct bs as [|h r]; [exists st; split; [reflexivity | apply ext_refl]|].
    cbv zeta.
    destruct (span_section L r) as [body rest] eqn:Es.
    destruct (span_section_spec L r body rest Es) as [Hr Hrest]. subst r.
    rewrite dblocks_size_cons, dblocks_size_app in Hsz.
    pose proof (dblock_size_pos h) as Hpos.
    cbn [headed] in Hhd.
    assert (Htl : text_lead h = true) by (destruct h; try discriminate; reflexivity).
    destruct (HS f h body st) as (st1 & H1 & E1 & Q1); auto.
    { rewrite dblocks_size_cons. lia. }
    { lia. }
    rewrite H1. cbn [bind].
    destruct (IH (dblocks_size rest) ltac:(lia) f L rest st1 (le_n _) ltac:(lia) Hrest) as (st2 & H2 & E2).
    { apply Q_J. exact Q1. }
    exists st2. split; [exact H2 | eapply ext_trans; eauto].
  Qed.

  Lemma step_blocks n : block_total n -> sections_total n -> blocks_total n.
  Proof.
    intros HB HSs f bs st Hsz Hf HQ.
    destruct f as [|f]; [lia|]. rewrite process_blocks_S.
    destruct bs as [|b0 bs0]; [exists st; split; [reflexivity | apply ext_refl]|].
    cbv zeta.
    destruct (span_pre (b0 :: bs0)) as [pre rest] eqn:Es.
    destruct (span_pre_spec _ pre rest Es) as (Hbs & Hpre & Hrest).
    rewrite Hbs in Hsz. rewrite dblocks_size_app in Hsz.
    destruct (fold_steps (fun s b => block dir f b s) J pre (set_insert st true) (Qb_J_true st HQ)) as (st1 & H1 & E1 & J1).
    { intros b Hin s Hs. rewrite Forall_forall in Hpre.
      apply (HB f b s); auto.
      - assert (dblock_size b <= dblocks_size pre).
        { clear - Hin. induction pre as [|x l IHl]; [contradiction|]. rewrite dblocks_size_cons.
          destruct Hin as [->|Hin]; [lia | specialize (IHl Hin); lia]. }
        lia.
      - lia. }
    rewrite H1. cbn [bind].
    destruct rest as [|h r]; [exists st1; split; [reflexivity | exact E1]|].
    cbn [headed] in Hrest.
    destruct (header_level h) as [L|] eqn:EL; [|exists st1; split; [reflexivity | exact E1]].
    destruct (HSs f L (h :: r) st1 ltac:(lia) ltac:(lia) Hrest J1) as (st2 & H2 & E2).
    exists st2. split; [exact H2 | eapply ext_trans; eauto].
  Qed.

  (* all six, for every size *)
  Theorem builder_total n :
    block_total n /\ sblock_total n /\ hsection_total n /\ sections_total n /\ blocks_total n /\ section_total n.
  Proof.
    induction n as [n IH] using lt_wf_ind.
    assert (HB : block_total n)
      by (apply step_block; intros m Hm; destruct (IH m Hm) as (_ & _ & _ & _ & ? & ?); auto).
    assert (HSB : sblock_total n)
      by (apply step_sblock; intros m Hm; now destruct (IH m Hm) as (_ & _ & _ & _ & _ & ?)).
    assert (HH : hsection_total n)
      by (apply step_hsection; [exact HSB | intros m Hm; now destruct (IH m Hm) as (_ & _ & _ & _ & ? & _)]).
    assert (HSs : sections_total n)
      by (apply step_sections; [exact HH | intros m Hm; now destruct (IH m Hm) as (_ & _ & _ & ? & _)]).
    assert (HBs : blocks_total n) by now apply step_blocks.
    repeat split; auto. now apply step_section.
  Qed.
End Main.

(* Graph::build_key + SectionsBuilder::new on any arena and ANY block list: no panic, enough fuel *)
Theorem build_document_total (a : arena) (key : string) (bs : list dblock) :
  exists st, build_document a key bs = Ok st /\ ext (a ++ [GN (KDocument key) None None None]) (b_arena st).
Proof.
  unfold build_document, fuel_for.
  destruct (builder_total (key_parent key) (dblocks_size bs)) as (_ & _ & _ & _ & HB & _).
  apply HB; auto; [lia|].
  exists (KDocument key). cbn [build_key b_arena b_cur]. split; [|reflexivity].
  unfold kind_at. now rewrite get_app_new.
Qed.

(* ---------- lifted to the library operations ------------------------------------------------- *)
From IweV Require Import Text Project Library.

Theorem from_blocks_total (g : graph) key meta bs : exists g', from_blocks g key meta bs = Ok g'.
Proof.
  unfold from_blocks, build_note.
  destruct (build_document_total (gr_arena g) key bs) as (st & H & _).
  rewrite H. cbn [bind]. eexists. reflexivity.
Qed.

(* Graph::import: every note of the library is built, whatever the library *)
Theorem import_total (notes : list (string * option string * list dblock)) : exists g, import notes = Ok g.
Proof.
  unfold import.
  assert (H : forall g0, exists g1,
            fold_left (fun acc n => do g <- acc; let '(name, meta, bs) := n in
                                    build_note g (key_name name) meta bs) notes (Ok g0) = Ok g1).
  { induction notes as [|[[name meta] bs] l IH]; intros g0; cbn [fold_left].
    - eexists. reflexivity.
    - cbn [bind]. unfold build_note at 2.
      destruct (build_document_total (gr_arena g0) (key_name name) bs) as (st & H & _).
      rewrite H. cbn [bind]. apply IH. }
  destruct (H empty_graph) as (g1 & H1). rewrite H1. cbn [bind]. eexists. reflexivity.
Qed.

(* the class the hypothesis used to exclude is built like any other: an item that starts with a
   quote becomes a section without text over the quote *)
Example build_document_lead_quote :
  option_map (fun st => map g_kind (b_arena st))
    (match build_document [] "n" [DBList [[DQuote (0, 1) [DPara (0, 1) [Str "q"]]]]] with Ok st => Some st | Panic _ => None end)
  = Some [KDocument "n"; KBList; KSection []; KQuote; KLeaf [Str "q"]].
Proof. vm_compute. reflexivity. Qed.
