(* Harness.v — what a case file evaluates: every case yields a [verdict]
   (which correspondence stages disagree with the implementation's observation, which
   property predicates fail on the implementation's observation, which known-finding
   classes the input falls in), and [report] folds them into one printable term. *)
From IweV Require Import Str.
Local Open Scope string_scope.
Local Open Scope list_scope.
Local Open Scope N_scope.

Record verdict := V {
  v_corr : list N;      (* correspondence stages whose model value <> observed value *)
  v_prop : list N;      (* sub-properties whose predicate fails on the observation *)
  v_cls : list N;       (* known classes the input belongs to *)
  v_nontriv : bool      (* non-trivial by the property's stated rule *)
}.

Inductive report_t :=
  Report (total nontrivial : N)
         (corr_fail : list (N * list N))
         (prop_fail : list (N * (list N * list N)))
         (class_hits : list (N * N)).

Definition flag (id : N) (ok : bool) : list N := if ok then [] else [id].

Fixpoint count_in (c : N) (l : list N) : N :=
  match l with [] => 0 | x :: r => (if N.eqb x c then 1 else 0) + count_in c r end.

Definition class_ids : list N := [1;2;3;4;5;6;7;8;9;10;11;12;13;14;15;16;17;18;19;20].

Definition report {C} (run : C -> verdict) (cases : list (N * C)) : report_t :=
  let vs := map (fun ic => (fst ic, run (snd ic))) cases in
  let total := N.of_nat (length vs) in
  let nontriv := N.of_nat (length (filter (fun iv => v_nontriv (snd iv)) vs)) in
  let cf := flat_map (fun iv => match v_corr (snd iv) with [] => [] | l => [(fst iv, l)] end) vs in
  let pf := flat_map (fun iv => match v_prop (snd iv) with [] => [] | l => [(fst iv, (l, v_cls (snd iv)))] end) vs in
  let allcls := flat_map (fun iv => v_cls (snd iv)) vs in
  let hits := flat_map (fun c => match count_in c allcls with 0 => [] | n => [(c, n)] end) class_ids in
  Report total nontriv cf pf hits.
