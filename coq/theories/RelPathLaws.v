(* RelPathLaws.v — C15: the algebraic laws of `from_rel_link_url` / `to_rel_link_url` /
   `key_parent` beyond the round trip of RelPathFacts.v.

   Everything is stated on the model RelPath.v.  The laws are proved for ARBITRARY strings
   (url text and linking directory), not only for canonical segment lists, wherever that is
   true; the canonical forms are corollaries.

   Part 1  components are well-formed, normal forms of the traversal buffer
   Part 2  resolved keys are normal forms (C15_resolve_idempotent, C15_resolve_components)
   Part 3  the rewrite law (C15_rewrite, C15_rewrite_url; sub-property 2)
   Part 4  key_parent on canonical keys (C15_parent) and a note's own directory (C15_own_dir,
           sub-property 3)
   Part 5  the shape of written urls (C15_to_rel_shape)
   Part 6  `.md` suffixes (C15_md and variants)
   Part 7  the repaired resolver is `normalize` after the as-found one (C15_fix_is_normalize) *)
From IweV Require Import Str RelPath RelPathFacts.
Local Open Scope string_scope.
Local Open Scope list_scope.

(* ================================================================================== *)
(* Part 1: components, normal forms                                                     *)
(* ================================================================================== *)

(* what `components` can produce: names are good names *)
Definition okc (c : comp) : Prop :=
  match c with Cur => True | Par => True | Norm n => good_name n end.
(* what a normal form can hold: no `.` *)
Definition okn (c : comp) : Prop :=
  match c with Cur => False | Par => True | Norm n => good_name n end.

Lemma split_on_aux_nosep c s cur :
  contains_char c cur = false ->
  Forall (fun x => contains_char c x = false) (split_on_aux c s cur).
Proof.
  revert cur; induction s as [|a s IH]; intros cur Hc; cbn [split_on_aux].
  - constructor; [now rewrite contains_char_srev | constructor].
  - destruct (Ascii.eqb a c) eqn:E.
    + constructor; [now rewrite contains_char_srev | now apply IH].
    + apply IH. cbn [contains_char]. now rewrite E.
Qed.

Lemma split_on_nosep c s : Forall (fun x => contains_char c x = false) (split_on c s).
Proof. apply split_on_aux_nosep. reflexivity. Qed.

Lemma components_okc s : Forall okc (components s).
Proof.
  unfold components. apply Forall_forall. intros c Hc.
  apply in_map_iff in Hc as (x & <- & Hx). apply filter_In in Hx as [Hx Hne].
  pose proof (split_on_nosep SEP s) as HF. rewrite Forall_forall in HF. specialize (HF x Hx).
  unfold classify.
  destruct (String.eqb_spec x ".") as [|N1]; [exact I|].
  destruct (String.eqb_spec x "..") as [|N2]; [exact I|].
  cbn [okc]. repeat split; try assumption. now apply negb_true_iff in Hne.
Qed.

Lemma rev_repeat {A} (x : A) n : rev (repeat x n) = repeat x n.
Proof.
  induction n as [|n IH]; [reflexivity|]. cbn [repeat rev]. rewrite IH.
  clear IH. induction n as [|n IH]; [reflexivity|]. cbn [repeat app]. now rewrite IH.
Qed.

(* the buffer (reversed): names on top of a block of `..` *)
Lemma traverse_nfb cs : forall rns j,
  Forall okc cs -> Forall good_name rns ->
  exists rns' j', traverse (map Norm rns ++ repeat Par j) cs = map Norm rns' ++ repeat Par j' /\
                  Forall good_name rns' /\ j <= j'.
Proof.
  induction cs as [|c cs IH]; intros rns j Hcs Hr.
  - exists rns, j. repeat split; [assumption | lia].
  - inversion Hcs as [|? ? Hc Hcs']; subst. destruct c as [| |n].
    + cbn [traverse]. now apply IH.
    + destruct rns as [|n rns].
      * destruct j as [|j].
        -- cbn [map app repeat traverse].
           destruct (IH [] 1 Hcs' Hr) as (r' & j' & E & Hr' & Hj).
           exists r', j'. repeat split; [exact E | exact Hr' | lia].
        -- cbn [map app repeat traverse].
           destruct (IH [] (S (S j)) Hcs' Hr) as (r' & j' & E & Hr' & Hj).
           exists r', j'. repeat split; [exact E | exact Hr' | lia].
      * cbn [map app traverse]. inversion Hr; subst. now apply IH.
    + cbn [traverse].
      change (Norm n :: map Norm rns ++ repeat Par j) with (map Norm (n :: rns) ++ repeat Par j).
      apply IH; [assumption | constructor; assumption].
Qed.

Lemma traverse_pars i j rest :
  traverse (repeat Par i) (repeat Par j ++ rest) = traverse (repeat Par (j + i)) rest.
Proof.
  revert i; induction j as [|j IH]; intros i; [reflexivity|].
  cbn [repeat app traverse]. destruct i as [|i].
  - cbn [repeat]. change [Par] with (repeat Par 1). rewrite IH. f_equal. f_equal. lia.
  - cbn [repeat]. change (Par :: Par :: repeat Par i) with (repeat Par (S (S i))).
    rewrite IH. f_equal. f_equal. lia.
Qed.

Lemma rev_buffer rns j : rev (map Norm rns ++ repeat Par j) = repeat Par j ++ map Norm (rev rns).
Proof. now rewrite rev_app_distr, rev_repeat, map_rev. Qed.

Lemma okn_forward j ns : Forall good_name ns -> Forall okn (repeat Par j ++ map Norm ns).
Proof.
  intros H. apply Forall_app; split.
  - induction j; cbn; constructor; auto. exact I.
  - induction H; cbn [map]; constructor; auto.
Qed.

Lemma okn_pars j : Forall okn (repeat Par j).
Proof. induction j; cbn; constructor; auto. exact I. Qed.

Lemma okn_as_str c : okn c -> wf_piece (as_str c) /\ classify (as_str c) = c.
Proof.
  destruct c as [| |n]; cbn [okn as_str].
  - intros [].
  - intros _. repeat split.
  - intros H. split; [now apply good_wf | now apply classify_good].
Qed.

(* rendering a normal form and reading it back *)
Lemma components_render_comps l : Forall okn l -> components (render_comps l) = l.
Proof.
  intros H. unfold render_comps. rewrite comps_join.
  - induction H as [|c l Hc _ IH]; [reflexivity|]. cbn [map]. rewrite IH.
    now destruct (okn_as_str c Hc) as [_ ->].
  - induction H as [|c l Hc _ IH]; cbn [map]; constructor; [|exact IH].
    now destruct (okn_as_str c Hc).
Qed.

(* a normal form is its own normalization *)
Lemma traverse_forward_nf j ns :
  traverse [] (repeat Par j ++ map Norm ns) = rev (repeat Par j ++ map Norm ns).
Proof.
  change (@nil comp) with (repeat Par 0). rewrite traverse_pars, traverse_norms.
  rewrite rev_app_distr, rev_repeat. f_equal. f_equal. lia.
Qed.

Lemma good_rev ns : Forall good_name ns -> Forall good_name (rev ns).
Proof. intros H. apply Forall_forall. intros x Hx. rewrite Forall_forall in H. apply H. now apply in_rev. Qed.

(* ================================================================================== *)
(* Part 2: resolved keys are normal forms                                              *)
(* ================================================================================== *)

(* the buffer after resolving url text [u] from directory text [D] *)
Definition dir_buf (D : string) : list comp := traverse [] (components D).
Definition res_buf (u D : string) : list comp :=
  traverse (dir_buf D) (components (strip_md u)).

Lemma from_rel_res_buf u D : from_rel_link_url u D = render (res_buf u D).
Proof. reflexivity. Qed.

Lemma dir_buf_nf D :
  exists rd jd, dir_buf D = map Norm rd ++ repeat Par jd /\ Forall good_name rd.
Proof.
  destruct (traverse_nfb (components D) [] 0 (components_okc D) (Forall_nil _)) as (r & j & E & Hr & _).
  exists r, j. split; [exact E | exact Hr].
Qed.

Lemma res_buf_nf u D rd jd :
  dir_buf D = map Norm rd ++ repeat Par jd -> Forall good_name rd ->
  exists rk jk, res_buf u D = map Norm rk ++ repeat Par jk /\ Forall good_name rk /\ jd <= jk.
Proof.
  intros E Hr. unfold res_buf. rewrite E. apply traverse_nfb; [apply components_okc | exact Hr].
Qed.

Lemma normalize_render rns j :
  Forall good_name rns -> normalize (render (map Norm rns ++ repeat Par j)) = render (map Norm rns ++ repeat Par j).
Proof.
  intros H. unfold normalize, render. rewrite rev_buffer.
  rewrite components_render_comps by (apply okn_forward, good_rev, H).
  rewrite traverse_forward_nf. now rewrite rev_involutive.
Qed.

(* every output of [normalize] / [join_normalized] is a fixpoint of [normalize] *)
Theorem join_normalized_normal a b : normalize (join_normalized a b) = join_normalized a b.
Proof.
  unfold join_normalized.
  destruct (traverse_nfb (components a) [] 0 (components_okc a) (Forall_nil _)) as (r & j & E & Hr & _).
  cbn [map app repeat] in E. rewrite E.
  destruct (traverse_nfb (components b) r j (components_okc b) Hr) as (r' & j' & E' & Hr' & _).
  rewrite E'. now apply normalize_render.
Qed.

Theorem normalize_idempotent s : normalize (normalize s) = normalize s.
Proof.
  unfold normalize at 2 3.
  destruct (traverse_nfb (components s) [] 0 (components_okc s) (Forall_nil _)) as (r & j & E & Hr & _).
  cbn [map app repeat] in E. rewrite E. now apply normalize_render.
Qed.

(* C15_resolve_idempotent: resolved keys are normal forms — for every url text and every
   directory text *)
Theorem C15_resolve_idempotent u D :
  normalize (from_rel_link_url u D) = from_rel_link_url u D.
Proof. apply join_normalized_normal. Qed.
Print Assumptions C15_resolve_idempotent.

(* a resolved key, segment by segment: some `..` (escaping above the root) then good names *)
Theorem C15_resolve_shape u D :
  exists j ns, Forall good_name ns /\ from_rel_link_url u D = join SEPS (repeat ".." j ++ ns).
Proof.
  destruct (dir_buf_nf D) as (rd & jd & Ed & Hd).
  destruct (res_buf_nf u D rd jd Ed Hd) as (rk & jk & Ek & Hk & _).
  exists jk, (rev rk). split; [now apply good_rev|].
  rewrite from_rel_res_buf, Ek. unfold render. rewrite rev_buffer. apply render_comps_pars_norms.
Qed.
Print Assumptions C15_resolve_shape.

(* the result depends on the url only through the components of the url with its `.md` taken off,
   and on the directory only through its components *)
Theorem C15_resolve_components u1 u2 D1 D2 :
  components (strip_md u1) = components (strip_md u2) ->
  components D1 = components D2 ->
  from_rel_link_url u1 D1 = from_rel_link_url u2 D2.
Proof. intros Eu Ed. unfold from_rel_link_url, join_normalized. now rewrite Eu, Ed. Qed.
Print Assumptions C15_resolve_components.

(* on the components of the untrimmed url: true when neither ends in `.md` ... *)
Corollary C15_resolve_components_nomd u1 u2 D :
  ends_with MD u1 = false -> ends_with MD u2 = false ->
  components u1 = components u2 ->
  from_rel_link_url u1 D = from_rel_link_url u2 D.
Proof.
  intros H1 H2 E. apply C15_resolve_components; [|reflexivity].
  now rewrite !strip_md_none.
Qed.

(* ... and false in general: `a.md` and `a.md/` have the same components, only the first is
   trimmed *)
Theorem C15_resolve_components_refuted :
  exists u1 u2 D, components u1 = components u2 /\ from_rel_link_url u1 D <> from_rel_link_url u2 D.
Proof. exists "a.md", "a.md/", "d". split; [reflexivity|]. vm_compute. discriminate. Qed.
Print Assumptions C15_resolve_components_refuted.

(* ================================================================================== *)
(* Part 3: the rewrite law                                                             *)
(* ================================================================================== *)

Lemma strip_common_pars j x y :
  strip_common (repeat Par j ++ x) (repeat Par j ++ y) = strip_common x y.
Proof. induction j as [|j IH]; [reflexivity|]. cbn [repeat app strip_common comp_eqb]. exact IH. Qed.

Lemma good_app_r (p t : list string) : Forall good_name (p ++ t) -> Forall good_name t.
Proof. intros H. now apply Forall_app in H as [_ ?]. Qed.

(* the `relative` loop on two normal forms, the second with at least as many leading `..` *)
Lemma strip_nf jd nd jk nk :
  jd <= jk -> Forall good_name nk ->
  exists hs tail pre,
    strip_common (repeat Par jd ++ map Norm nd) (repeat Par jk ++ map Norm nk) = (map Norm hs, tail) /\
    repeat Par jd ++ map Norm nd = pre ++ map Norm hs /\
    repeat Par jk ++ map Norm nk = pre ++ tail /\
    traverse (rev pre) tail = rev tail ++ rev pre /\
    Forall okn tail.
Proof.
  intros Hj Hk.
  assert (Ejk : jk = jd + (jk - jd)) by lia. set (k := jk - jd) in *. clearbody k. subst jk.
  rewrite repeat_app, <- app_assoc, strip_common_pars.
  destruct k as [|k].
  - cbn [repeat app]. rewrite strip_common_norm.
    destruct (strip_common_s_spec nd nk) as (p & E1 & E2).
    exists (fst (strip_common_s nd nk)), (map Norm (snd (strip_common_s nd nk))), (repeat Par jd ++ map Norm p).
    repeat split.
    + rewrite <- app_assoc, <- map_app, <- E1. reflexivity.
    + rewrite <- app_assoc, <- map_app, <- E2. reflexivity.
    + apply traverse_norms.
    + rewrite E2 in Hk. apply good_app_r in Hk. apply (okn_forward 0 _ Hk).
  - exists nd, (repeat Par (S k) ++ map Norm nk), (repeat Par jd). repeat split.
    + destruct nd; reflexivity.
    + rewrite rev_repeat, traverse_pars, traverse_norms, rev_app_distr, rev_repeat, <- app_assoc.
      now rewrite repeat_app.
    + now apply okn_forward.
Qed.

Lemma relative_spec D K hs tail :
  strip_common (rev (traverse [] (components D))) (rev (traverse [] (components K))) = (map Norm hs, tail) ->
  relative D K = render_comps (repeat Par (length hs) ++ tail).
Proof.
  intros E. unfold relative. rewrite E. destruct hs as [|h hs]; [reflexivity|].
  cbn [map]. f_equal. f_equal.
  change (Par :: map (fun _ : comp => Par) (map Norm hs)) with (map (fun _ : comp => Par) (map Norm (h :: hs))).
  now rewrite map_const_repeat, map_length.
Qed.

(* the structure behind the rewrite law: K and the url written for it share their tail, and
   everything with the url's components resolves to K *)
Lemma rewrite_structure u D :
  exists pre (hs : list string) tail,
    Forall okn tail /\
    from_rel_link_url u D = render_comps (pre ++ tail) /\
    to_rel_link_url (from_rel_link_url u D) D = render_comps (repeat Par (length hs) ++ tail) /\
    (forall v, components v = repeat Par (length hs) ++ tail ->
               join_normalized D v = from_rel_link_url u D).
Proof.
  destruct (dir_buf_nf D) as (rd & jd & Ed & Hd).
  destruct (res_buf_nf u D rd jd Ed Hd) as (rk & jk & Ek & Hk & Hj).
  destruct (strip_nf jd (rev rd) jk (rev rk) Hj (good_rev _ Hk)) as (hs & tail & pre & Es & Ea & Eb & Et & Hok).
  exists pre, hs, tail.
  assert (EK : from_rel_link_url u D = render_comps (pre ++ tail)).
  { rewrite from_rel_res_buf, Ek. unfold render. now rewrite rev_buffer, Eb. }
  split; [exact Hok|]. split; [exact EK|]. split.
  - unfold to_rel_link_url. apply relative_spec.
    fold (dir_buf D). rewrite Ed, rev_buffer.
    rewrite EK, <- Eb.
    rewrite components_render_comps by (apply okn_forward, good_rev, Hk).
    rewrite traverse_forward_nf, rev_involutive. exact Es.
  - intros v Ev. unfold join_normalized. fold (dir_buf D). rewrite Ev.
    rewrite EK. unfold render. f_equal.
    assert (Edir : dir_buf D = map Norm (rev hs) ++ rev pre).
    { rewrite <- (rev_involutive (dir_buf D)), Ed, rev_buffer, Ea, rev_app_distr, map_rev. reflexivity. }
    rewrite Edir. rewrite <- (rev_length hs), traverse_pops, Et.
    now rewrite rev_app_distr, !rev_involutive.
Qed.

(* C15_rewrite, strongest form: for EVERY directory text D and EVERY url text u, if the url
   iwe writes for the resolved key K does not end in `.md`, it resolves to K again.
   No hypothesis that K lies inside the library is needed: keys escaping above the root
   (`../x`) are rewritten correctly too. *)
Theorem C15_rewrite_url u D :
  let K := from_rel_link_url u D in
  ends_with MD (to_rel_link_url K D) = false ->
  from_rel_link_url (to_rel_link_url K D) D = K.
Proof.
  intros K Hmd. subst K.
  destruct (rewrite_structure u D) as (pre & hs & tail & Hok & EK & EU & Hres).
  unfold from_rel_link_url at 1. rewrite strip_md_none by exact Hmd.
  apply Hres. rewrite EU. apply components_render_comps.
  apply Forall_app; split; [|exact Hok]. apply okn_pars.
Qed.
Print Assumptions C15_rewrite_url.

(* the url written for a resolved key, taken as a path (no extension added, none taken off), leads
   from D to the key: every directory text, every url text *)
Theorem C15_rewrite_key u D :
  let K := from_rel_link_url u D in
  join_normalized D (to_rel_link_url K D) = K.
Proof.
  intros K. subst K.
  destruct (rewrite_structure u D) as (pre & hs & tail & Hok & EK & EU & Hres).
  apply Hres. rewrite EU. apply components_render_comps.
  apply Forall_app; split; [|exact Hok]. apply okn_pars.
Qed.
Print Assumptions C15_rewrite_key.

(* C15_rewrite_written: the law on the url as iwe WRITES it (`ref_url`: the configured extension,
   and `.md` where the url itself ends in `.md`) - no hypothesis on the key: for EVERY directory
   text, EVERY url text and both extensions the written url resolves to K again *)
Theorem C15_rewrite_written u D ext :
  ext = MD \/ ext = "" ->
  let K := from_rel_link_url u D in
  from_rel_link_url (ref_url (to_rel_link_url K D) ext) D = K.
Proof.
  intros He K. subst K.
  unfold from_rel_link_url at 1. rewrite strip_md_ref_url by exact He. apply C15_rewrite_key.
Qed.
Print Assumptions C15_rewrite_written.

Lemma okn_nosep c : okn c -> contains_char SEP (as_str c) = false.
Proof. intros H. now destruct (okn_as_str c H) as [[_ ?] _]. Qed.

Lemma ends_md_render_snoc l c :
  okn c -> ends_with MD (render_comps (l ++ [c])) = ends_with MD (as_str c).
Proof.
  intros H. unfold render_comps. rewrite map_app. cbn [map]. apply ends_md_join. now apply okn_nosep.
Qed.

Lemma as_str_pars n : map as_str (repeat Par n) = repeat ".." n.
Proof. induction n as [|n IH]; cbn; [reflexivity | now rewrite IH]. Qed.

(* C15_rewrite: the same under the hypothesis on the key: K does not end in `.md` *)
Theorem C15_rewrite u D :
  let K := from_rel_link_url u D in
  ends_with MD K = false ->
  from_rel_link_url (to_rel_link_url K D) D = K.
Proof.
  intros K Hmd. apply C15_rewrite_url. fold K. subst K.
  destruct (rewrite_structure u D) as (pre & hs & tail & Hok & EK & EU & _).
  rewrite EU. rewrite EK in Hmd.
  destruct tail as [|t tail'] using rev_ind.
  - rewrite app_nil_r. unfold render_comps. rewrite as_str_pars. apply ends_md_pars.
  - clear IHtail'. apply Forall_app in Hok as [_ Hc]. inversion Hc as [|? ? Hc' _]; subst.
    rewrite app_assoc in Hmd |- *. rewrite ends_md_render_snoc in Hmd |- * by exact Hc'. exact Hmd.
Qed.
Print Assumptions C15_rewrite.

(* the task's form: D given by a canonical segment list *)
Corollary C15_rewrite_canonical_dir ds u :
  Forall good_name ds ->
  let D := join SEPS ds in let K := from_rel_link_url u D in
  ends_with MD K = false ->
  from_rel_link_url (to_rel_link_url K D) D = K.
Proof. intros _ D K. apply C15_rewrite. Qed.

(* the `.md` hypothesis is needed for the url WITHOUT extension: `a.md/.` resolves to a key ending
   in `.md`, whose bare url `a.md` names the note `a` when read back (which is why `ref_url` writes
   `a.md.md`: C15_rewrite_written) *)
Theorem C15_rewrite_md_refuted :
  exists u D, let K := from_rel_link_url u D in
    ends_with MD K = true /\ from_rel_link_url (to_rel_link_url K D) D <> K.
Proof. exists "a.md/.", "d". split; [reflexivity|]. vm_compute. discriminate. Qed.
Print Assumptions C15_rewrite_md_refuted.

(* non-vacuity: an escaping url, a non-canonical directory, doubled separators, `.` *)
Example C15_rewrite_nonvacuous :
  from_rel_link_url "../../../x/./y//z.md" "d//e/" = "../x/y/z" /\
  ends_with MD (from_rel_link_url "../../../x/./y//z.md" "d//e/") = false /\
  to_rel_link_url "../x/y/z" "d//e/" = "../../../x/y/z" /\
  from_rel_link_url "../q/n" "a/b" = "a/q/n" /\ to_rel_link_url "a/q/n" "a/b" = "../q/n".
Proof. repeat split. Qed.

(* ================================================================================== *)
(* Part 4: key_parent on canonical keys, a note's own directory                        *)
(* ================================================================================== *)

Lemma drop_seps_head x r :
  sempty x = false -> contains_char SEP x = false -> drop_seps (x +++ r) = x +++ r.
Proof.
  destruct x as [|a x]; [discriminate|]. intros _ H. cbn [contains_char] in H.
  cbn [String.append drop_seps]. destruct (Ascii.eqb a SEP); [discriminate | reflexivity].
Qed.

Lemma take_piece_nosep x acc :
  contains_char SEP x = false -> take_piece x acc = (srev_app x acc, "").
Proof.
  revert acc; induction x as [|a x IH]; intros acc H; [reflexivity|].
  cbn [contains_char] in H. cbn [take_piece srev_app].
  destruct (Ascii.eqb a SEP); [discriminate|]. now apply IH.
Qed.

Lemma take_piece_sep x r acc :
  contains_char SEP x = false ->
  take_piece (x +++ String SEP r) acc = (srev_app x acc, drop_seps r).
Proof.
  revert acc; induction x as [|a x IH]; intros acc H.
  - cbn [String.append take_piece srev_app]. now rewrite Ascii.eqb_refl.
  - cbn [contains_char] in H. cbn [String.append take_piece srev_app].
    destruct (Ascii.eqb a SEP); [discriminate|]. now apply IH.
Qed.

Lemma sempty_srev s : sempty (srev s) = sempty s.
Proof.
  destruct s as [|a s]; [reflexivity|]. rewrite srev_cons.
  destruct (srev s); reflexivity.
Qed.

Lemma sempty_app_r a b : sempty b = false -> sempty (a +++ b) = false.
Proof. destruct a; [auto | reflexivity]. Qed.

Lemma wf_srev s : wf_piece s -> wf_piece (srev s).
Proof. intros [H1 H2]. split; [now rewrite sempty_srev | now rewrite contains_char_srev]. Qed.

(* the reversed text of a non-empty join starts with the reversed last segment *)
Lemma srev_join_snoc xs l :
  srev (join SEPS (xs ++ [l])) =
  match xs with [] => srev l | _ => srev l +++ String SEP (srev (join SEPS xs)) end.
Proof.
  rewrite join_snoc. destruct xs as [|x xs]; [reflexivity|].
  rewrite !srev_append, sapp_assoc. reflexivity.
Qed.

Lemma drop_seps_srev_join segs :
  Forall wf_piece segs -> drop_seps (srev (join SEPS segs)) = srev (join SEPS segs).
Proof.
  intros H. destruct segs as [|x xs] using rev_ind; [reflexivity|]. clear IHxs.
  apply Forall_app in H as [_ Hx]. inversion Hx as [|? ? Hx' _]; subst.
  apply wf_srev in Hx' as [E1 E2].
  rewrite srev_join_snoc. destruct xs as [|y ys].
  - rewrite <- (append_nil_r (srev x)). now apply drop_seps_head.
  - now apply drop_seps_head.
Qed.

(* C15_parent: the parent of a canonical key is the key without its last segment.  The last
   segment has to be a piece (non-empty, no `/`) other than `.`; the segments before it only
   have to be pieces. *)
Theorem C15_parent segs s :
  Forall wf_piece segs -> wf_piece s -> s <> "." ->
  key_parent (join SEPS (segs ++ [s])) = join SEPS segs.
Proof.
  intros Hsegs Hs Hdot. unfold key_parent, parent.
  assert (Hne : sempty (join SEPS (segs ++ [s])) = false).
  { rewrite join_snoc. destruct Hs as [Hs _]. destruct segs as [|x xs]; [exact Hs|].
    apply sempty_app_r. reflexivity. }
  rewrite Hne. cbn [parent_loop]. unfold next_back.
  pose proof (wf_srev s Hs) as [R1 R2].
  apply String.eqb_neq in Hdot.
  rewrite srev_join_snoc. destruct segs as [|x xs].
  - rewrite <- (append_nil_r (srev s)), drop_seps_head by assumption. rewrite append_nil_r.
    rewrite take_piece_nosep by exact R2. rewrite srev_app_spec, append_nil_r, srev_involutive, Hdot.
    reflexivity.
  - rewrite drop_seps_head by assumption. rewrite take_piece_sep by exact R2.
    rewrite srev_app_spec, append_nil_r, srev_involutive, Hdot.
    rewrite drop_seps_srev_join by exact Hsegs. now rewrite srev_involutive.
Qed.
Print Assumptions C15_parent.

Corollary C15_parent_canonical segs s :
  Forall good_name segs -> good_name s -> key_parent (join SEPS (segs ++ [s])) = join SEPS segs.
Proof.
  intros H Hs. apply C15_parent.
  - eapply Forall_impl; [|exact H]. intros a; apply good_wf.
  - now apply good_wf.
  - now destruct Hs as (_ & ? & _).
Qed.

(* without the hypothesis on the last segment: `a/.` has parent "" (the model follows the
   crate: trailing `.` components are skipped) *)
Theorem C15_parent_dot_refuted :
  exists segs s, Forall wf_piece segs /\ wf_piece s /\ key_parent (join SEPS (segs ++ [s])) <> join SEPS segs.
Proof.
  exists ["a"], ".". repeat split; try (repeat constructor; fail). vm_compute. discriminate.
Qed.

(* C15_own_dir (sub-property 3): the link to a canonical key written from the key's own
   directory resolves to the key.  The empty key (no segments) is included. *)
Theorem C15_own_dir ks :
  Forall good_name ks -> ends_with MD (join SEPS ks) = false ->
  let K := join SEPS ks in
  from_rel_link_url (to_rel_link_url K (key_parent K)) (key_parent K) = K.
Proof.
  intros Hk Hmd K. subst K. destruct ks as [|s segs] using rev_ind; [reflexivity|]. clear IHsegs.
  pose proof Hk as Hk'. apply Forall_app in Hk' as [Hsegs Hs]. inversion Hs as [|? ? Hs' _]; subst.
  rewrite C15_parent_canonical by assumption.
  now apply roundtrip_canonical.
Qed.
Print Assumptions C15_own_dir.

(* the same for the url as it is written: every canonical key, also one ending in `.md` *)
Theorem C15_own_dir_written ks ext :
  Forall good_name ks -> ext = MD \/ ext = "" ->
  let K := join SEPS ks in
  from_rel_link_url (ref_url (to_rel_link_url K (key_parent K)) ext) (key_parent K) = K.
Proof.
  intros Hk He K. subst K. destruct ks as [|s segs] using rev_ind.
  { destruct He as [-> | ->]; reflexivity. }
  clear IHsegs.
  pose proof Hk as Hk'. apply Forall_app in Hk' as [Hsegs Hs]. inversion Hs as [|? ? Hs' _]; subst.
  rewrite C15_parent_canonical by assumption.
  now apply roundtrip_written.
Qed.
Print Assumptions C15_own_dir_written.

Example C15_own_dir_nonvacuous :
  key_parent "d/e/note" = "d/e" /\ to_rel_link_url "d/e/note" "d/e" = "note" /\
  from_rel_link_url "note" "d/e" = "d/e/note" /\ Forall good_name ["d"; "e"; "note"].
Proof. repeat split; repeat constructor; discriminate. Qed.

(* ================================================================================== *)
(* Part 5: the shape of the url written for a canonical key from a canonical directory  *)
(* ================================================================================== *)

(* the two lists part ways at their heads (or one of them is exhausted) *)
Definition diverge (a b : list string) : Prop :=
  match a, b with x :: _, y :: _ => x <> y | _, _ => True end.

Lemma strip_common_s_prefix p a b : strip_common_s (p ++ a) (p ++ b) = strip_common_s a b.
Proof. induction p as [|x p IH]; [reflexivity|]. cbn [app strip_common_s]. now rewrite String.eqb_refl. Qed.

Lemma strip_common_s_diverge a b : diverge a b -> strip_common_s a b = (a, b).
Proof.
  destruct a as [|x a], b as [|y b]; try reflexivity. cbn [diverge strip_common_s].
  intros H. apply String.eqb_neq in H. now rewrite H.
Qed.

Lemma strip_common_s_diverges a b : diverge (fst (strip_common_s a b)) (snd (strip_common_s a b)).
Proof.
  revert b; induction a as [|x a IH]; intros [|y b]; cbn [strip_common_s]; try exact I.
  destruct (String.eqb_spec x y) as [->|N]; [apply IH | exact N].
Qed.

(* C15_to_rel_shape: with p the longest common prefix of the two segment lists, the url is one
   `..` per remaining directory segment followed by the remaining key segments *)
Theorem C15_to_rel_shape p ds' ks' :
  Forall good_name (p ++ ds') -> Forall good_name (p ++ ks') -> diverge ds' ks' ->
  to_rel_link_url (join SEPS (p ++ ks')) (join SEPS (p ++ ds')) =
  join SEPS (repeat ".." (length ds') ++ ks').
Proof.
  intros Hd Hk Hdiv. unfold to_rel_link_url. rewrite relative_canonical by assumption.
  now rewrite strip_common_s_prefix, strip_common_s_diverge.
Qed.
Print Assumptions C15_to_rel_shape.

(* ... and every pair of canonical key and directory decomposes that way *)
Theorem C15_to_rel_shape_total ks ds :
  Forall good_name ks -> Forall good_name ds ->
  exists p ds' ks', ds = p ++ ds' /\ ks = p ++ ks' /\ diverge ds' ks' /\
    to_rel_link_url (join SEPS ks) (join SEPS ds) = join SEPS (repeat ".." (length ds') ++ ks').
Proof.
  intros Hk Hd. destruct (strip_common_s_spec ds ks) as (p & E1 & E2).
  exists p, (fst (strip_common_s ds ks)), (snd (strip_common_s ds ks)).
  repeat split; [exact E1 | exact E2 | apply strip_common_s_diverges |].
  unfold to_rel_link_url. now apply relative_canonical.
Qed.
Print Assumptions C15_to_rel_shape_total.

Example C15_to_rel_shape_nonvacuous :
  diverge ["e"; "f"] ["g"; "note"] /\
  to_rel_link_url "d/g/note" "d/e/f" = join SEPS (repeat ".." 2 ++ ["g"; "note"]).
Proof. split; [discriminate | reflexivity]. Qed.

(* ================================================================================== *)
(* Part 6: `.md`                                                                        *)
(* ================================================================================== *)

Lemma slen_app a b : String.length (a +++ b) = String.length a + String.length b.
Proof. induction a as [|c a IH]; cbn; [reflexivity | now rewrite IH]. Qed.

Lemma trim_fuel_step f p s :
  trim_start_matches_fuel (S f) p s =
  match strip_prefix p s with
  | Some r => if sempty p then s else trim_start_matches_fuel f p r
  | None => s
  end.
Proof. reflexivity. Qed.

(* any fuel above the length gives the same result *)
Lemma trim_fuel_enough p : sempty p = false ->
  forall f1 f2 s, String.length s < f1 -> String.length s < f2 ->
  trim_start_matches_fuel f1 p s = trim_start_matches_fuel f2 p s.
Proof.
  intros Hp. induction f1 as [|f1 IH]; intros f2 s H1 H2; [lia|].
  destruct f2 as [|f2]; [lia|]. rewrite !trim_fuel_step.
  destruct (strip_prefix p s) as [r|] eqn:E; [|reflexivity]. rewrite Hp.
  apply strip_prefix_some in E. subst s. rewrite slen_app in H1, H2.
  assert (0 < String.length p) by (destruct p; [discriminate | cbn; lia]).
  apply IH; lia.
Qed.

Lemma trim_start_matches_app p r :
  sempty p = false -> trim_start_matches p (p +++ r) = trim_start_matches p r.
Proof.
  intros Hp. unfold trim_start_matches. rewrite trim_fuel_step, strip_prefix_app, Hp.
  assert (0 < String.length p) by (destruct p; [discriminate | cbn; lia]).
  apply trim_fuel_enough; [exact Hp | rewrite slen_app; lia | lia].
Qed.

Lemma trim_start_matches_clean p : sempty p = false ->
  forall f s, String.length s < f -> starts_with p (trim_start_matches_fuel f p s) = false.
Proof.
  intros Hp. induction f as [|f IH]; intros s Hf; [lia|]. rewrite trim_fuel_step.
  destruct (strip_prefix p s) as [r|] eqn:E.
  - rewrite Hp. apply strip_prefix_some in E. subst s. rewrite slen_app in Hf.
    assert (0 < String.length p) by (destruct p; [discriminate | cbn; lia]). apply IH. lia.
  - rewrite starts_with_strip, E. reflexivity.
Qed.

(* C15_md: the exact law — one extension is taken off, whatever is in front of it: a url with the
   extension resolves like the bare path, also when the path itself ends in `.md` *)
Theorem C15_md u D : from_rel_link_url (u +++ MD) D = join_normalized D u.
Proof. unfold from_rel_link_url. now rewrite strip_md_app. Qed.
Print Assumptions C15_md.

(* ... which is how the url without the extension resolves, unless that one ends in `.md` *)
Theorem C15_md_once u D :
  ends_with MD u = false -> from_rel_link_url (u +++ MD) D = from_rel_link_url u D.
Proof. intros H. rewrite C15_md. unfold from_rel_link_url. now rewrite strip_md_none. Qed.
Print Assumptions C15_md_once.

(* the hypothesis is needed (it was not in the pinned tree, where the extension was stripped as often
   as it repeats and `x.md.md`, `x.md`, `x` were one note): `x.md.md` is the note `x.md` *)
Theorem C15_md_once_refuted :
  exists u D, ends_with MD u = true /\ from_rel_link_url (u +++ MD) D <> from_rel_link_url u D.
Proof. exists "x.md", "d". split; [reflexivity|]. vm_compute. discriminate. Qed.
Print Assumptions C15_md_once_refuted.

(* file name <-> key: every key, also one that ends in `.md` *)
Theorem C15_file_name_of_path k : key_from_file_name (to_path k) = k.
Proof. unfold key_from_file_name, to_path. apply strip_md_app. Qed.
Print Assumptions C15_file_name_of_path.

(* a file name without the extension is its own key *)
Theorem C15_file_name_plain n : ends_with MD n = false -> key_from_file_name n = n.
Proof. apply strip_md_none. Qed.

(* the composite law used by formatting with refs_extension = ".md": a url with extension, resolved
   and written back with the extension *)
Corollary C15_rewrite_md u D :
  let K := from_rel_link_url (u +++ MD) D in
  from_rel_link_url (to_rel_link_url K D +++ MD) D = K.
Proof. intros K. apply (C15_rewrite_written (u +++ MD) D MD). now left. Qed.
Print Assumptions C15_rewrite_md.

(* ================================================================================== *)
(* Part 7: the repair (R4) is `normalize` after the as-found resolver                  *)
(* ================================================================================== *)

Lemma split_on_aux_app_sep c a b cur :
  split_on_aux c (a +++ String c b) cur = split_on_aux c a cur ++ split_on_aux c b "".
Proof.
  revert cur; induction a as [|x a IH]; intros cur; cbn [String.append split_on_aux].
  - now rewrite Ascii.eqb_refl.
  - destruct (Ascii.eqb x c); [cbn [app]; f_equal|]; apply IH.
Qed.

Lemma components_app_sep a b : components (a +++ String SEP b) = components a ++ components b.
Proof.
  unfold components, split_on. rewrite split_on_aux_app_sep, filter_app, map_app. reflexivity.
Qed.

Lemma components_lead_sep b : components (String SEP b) = components b.
Proof. apply (components_app_sep "" b). Qed.

Lemma ends_with_sep a : ends_with SEPS a = true -> exists a', a = a' +++ SEPS.
Proof.
  unfold ends_with. change (srev SEPS) with SEPS. intros H.
  destruct (srev a) as [|c r] eqn:E; [discriminate|]. cbn [SEPS starts_with] in H.
  destruct (Ascii.eqb_spec "/"%char c) as [<-|]; [|discriminate].
  exists (srev r). rewrite <- (srev_involutive a), E, srev_cons. reflexivity.
Qed.

(* `push` concatenates the component sequences *)
Theorem components_push a b : components (push a b) = components a ++ components b.
Proof.
  unfold push.
  set (b' := match b with String c r => if Ascii.eqb c SEP then r else b | _ => b end).
  assert (Eb : components b' = components b).
  { subst b'. destruct b as [|c r]; [reflexivity|].
    destruct (Ascii.eqb_spec c SEP) as [->|]; [|reflexivity]. symmetry. apply components_lead_sep. }
  destruct (sempty a) eqn:Ea.
  - destruct a; [|discriminate]. cbn [orb String.append app components]. exact Eb.
  - cbn [orb]. destruct (ends_with SEPS a) eqn:Es.
    + apply ends_with_sep in Es as (a' & ->). unfold SEPS. rewrite sapp_assoc.
      cbn [String.append]. rewrite !components_app_sep, Eb. cbn [components]. now rewrite app_nil_r.
    + unfold SEPS. rewrite sapp_assoc. cbn [String.append]. now rewrite components_app_sep, Eb.
Qed.

(* the repaired resolver = the crate's `normalize` applied to what the as-found one returns;
   in particular the two agree exactly on urls whose as-found result is already normal *)
Theorem C15_fix_is_normalize u D :
  from_rel_link_url u D = normalize (from_rel_link_url_as_found u D).
Proof.
  unfold from_rel_link_url, from_rel_link_url_as_found, join_normalized, normalize, rjoin.
  now rewrite components_push, traverse_app.
Qed.
Print Assumptions C15_fix_is_normalize.
