(* Fs.v — layer F: the file system as far as `iwe normalize` is concerned.

   * directory tree of the library, the loader `liwe::fs::new_for_path_rec` / `read_file` /
     `to_file_name` (crates/liwe/src/fs.rs:55-88,97-122): which files are read and under which key;
   * the file system as an association list path -> bytes, the operations a write is made of
     (open-truncate / append* / close / rename / unlink) and their effect;
   * `std::fs::write p b` = OpenTrunc p; Append p c1; ...; Close p for any chunking of b;
   * `normalize_ops`: the write sequence of `write_store_at_path (export ..)` (fs.rs:11-43,90-95,
     crates/iwe/src/main.rs:166-194) over the loaded keys in any key order, in two variants:
     as found (`fs::write` on the note itself) and repaired (create a temporary sibling that does
     not exist yet — the first free name among `<note>.tmp`, `<note>.1.tmp`, `<note>.2.tmp`, … —
     write it, then rename it over the note).  The repaired sequence depends on the content of
     the directory: it is a function of the file system it starts from.
   The content written for a key is an abstract function `export : key -> bytes` (the export is
   modelled in Library.v/Project.v; here only *where* and *how* it is written matters).
   No proofs in this file (FsFacts.v). *)
From IweV Require Import Str Text RelPath.
Local Open Scope string_scope.
Local Open Scope list_scope.

Definition bytes := string.
Definition path := string.          (* `/`-separated, relative to the library root *)

(* ---------- the directory tree under the library root ------------------------------------ *)

Inductive node :=
| File (name : string) (content : bytes)
| Dir (name : string) (children : list node).

(* Rust `str::from_utf8(..).is_ok()` (RFC 3629: no overlong forms, no surrogates, <= U+10FFFF);
   `fs::read_to_string(path).ok()` drops a file whose bytes are not UTF-8 (fs.rs:109,113). *)
Definition byte_in (lo hi : N) (a : ascii) : bool :=
  let n := N_of_ascii a in andb (N.leb lo n) (N.leb n hi).
Definition cont (a : ascii) : bool := byte_in 128 191 a.

Fixpoint utf8_valid (s : string) : bool :=
  match s with
  | EmptyString => true
  | String b0 r =>
      if byte_in 0 127 b0 then utf8_valid r
      else if byte_in 194 223 b0 then
        match r with String b1 r1 => cont b1 && utf8_valid r1 | _ => false end
      else if byte_in 224 239 b0 then
        match r with
        | String b1 (String b2 r2) =>
            (if byte_in 224 224 b0 then byte_in 160 191 b1
             else if byte_in 237 237 b0 then byte_in 128 159 b1 else cont b1)
            && cont b2 && utf8_valid r2
        | _ => false
        end
      else if byte_in 240 244 b0 then
        match r with
        | String b1 (String b2 (String b3 r3)) =>
            (if byte_in 240 240 b0 then byte_in 144 191 b1
             else if byte_in 244 244 b0 then byte_in 128 143 b1 else cont b1)
            && cont b2 && cont b3 && utf8_valid r3
        | _ => false
        end
      else false
  end.

(* `path.extension().map_or(false, |ex| ex.eq("md"))` (fs.rs:65).  `Path::extension` is the
   text after the last `.` of the file name provided the text before it is not empty: so the
   name ends in `.md` and is not exactly `.md`. *)
Definition has_md_ext (name : string) : bool :=
  ends_with MD name && negb (String.eqb name MD).

(* `to_file_name` (fs.rs:119-122): `strip_md(&name)` — ONE trailing `.md` (the pinned tree took
   every trailing `.md` off: finding F14-double-md, repaired) *)
Definition stem (name : string) : string := strip_md name.

(* `read_file` (fs.rs:97-117): `sub.join("/")`, then `stem` or `sub/stem` *)
Definition key_of (sub : list string) (name : string) : string :=
  let sp := join SEPS sub in
  if sempty sp then stem name else sp +++ SEPS +++ stem name.

(* the path (relative to the root) of entry `name` in the directory reached through `sub` *)
Definition path_of (sub : list string) (name : string) : path := join SEPS (sub ++ [name]).

Record loaded := Loaded { l_key : string; l_path : path; l_content : bytes }.

(* `new_for_path_rec` (fs.rs:55-88): in every directory, the regular files with extension `md`
   whose content is UTF-8, then every sub-directory (hidden ones included: the only filter is
   `is_dir`) with its name pushed on `sub_path`.  The result is collected into a HashMap, so
   only the set of (key, content) pairs is observable; two files never have the same key
   (FsFacts.load_keys_inj: `x.md` is the note `x`, `x.md.md` the note `x.md`). *)
Fixpoint load_node (sub : list string) (n : node) : list loaded :=
  match n with
  | File name c =>
      if has_md_ext name && utf8_valid c then [Loaded (key_of sub name) (path_of sub name) c] else []
  | Dir name ch => flat_map (load_node (sub ++ [name])) ch
  end.
Definition load (t : list node) : list loaded := flat_map (load_node []) t.

(* all regular files of the tree: the initial file system *)
Fixpoint files_node (sub : list string) (n : node) : list (path * bytes) :=
  match n with
  | File name c => [(path_of sub name, c)]
  | Dir name ch => flat_map (files_node (sub ++ [name])) ch
  end.
Definition files_of (t : list node) : list (path * bytes) := flat_map (files_node []) t.

(* directory names the loader can push on `sub_path` without changing meaning: not empty *)
Fixpoint names_ok_node (n : node) : bool :=
  match n with
  | File name _ => negb (sempty name)
  | Dir name ch => negb (sempty name) && forallb names_ok_node ch
  end.
Definition names_ok (t : list node) : bool := forallb names_ok_node t.

(* ---------- the file system -------------------------------------------------------------- *)

Definition fs := list (path * bytes).

Fixpoint lookup (p : path) (s : fs) : option bytes :=
  match s with
  | [] => None
  | (q, b) :: r => if String.eqb q p then Some b else lookup p r
  end.

Fixpoint remove (p : path) (s : fs) : fs :=
  match s with
  | [] => []
  | (q, b) :: r => if String.eqb q p then remove p r else (q, b) :: remove p r
  end.

Definition set (p : path) (b : bytes) (s : fs) : fs := (p, b) :: remove p s.

Inductive op :=
| OpenTrunc (p : path)            (* open(p, O_WRONLY|O_CREAT|O_TRUNC) *)
| OpenNew (p : path)              (* open(p, O_WRONLY|O_CREAT|O_EXCL): creates p empty; when p exists
                                     the call returns EEXIST and nothing changes *)
| Append (p : path) (c : bytes)   (* one successful write(2) of c on the descriptor opened on p *)
| Sync (p : path)                 (* fsync: no effect on the contents *)
| Close (p : path)
| Rename (p q : path)             (* rename(p, q): atomic replacement of q *)
| Unlink (p : path)
| Other (what : string).          (* anything else touching the library: never produced by the model *)

(* Path-based semantics: exact as long as a file is not renamed or unlinked while it is open,
   which holds for every sequence [normalize_ops] produces. *)
Definition apply_op (s : fs) (o : op) : fs :=
  match o with
  | OpenTrunc p => set p "" s
  | OpenNew p => match lookup p s with None => set p "" s | Some _ => s end
  | Append p c => match lookup p s with Some b => set p (b +++ c) s | None => s end
  | Sync _ | Close _ | Other _ => s
  | Rename p q => match lookup p s with Some b => set q b (remove p s) | None => s end
  | Unlink p => remove p s
  end.

Definition run_ops (ops : list op) (s : fs) : fs := fold_left apply_op ops s.

Fixpoint sconcat (l : list bytes) : bytes :=
  match l with [] => "" | c :: r => c +++ sconcat r end.

(* `std::fs::write(p, b)`: open-truncate, write_all in any number of successful write(2) calls, close *)
Definition write_ops (p : path) (chunks : list bytes) : list op :=
  OpenTrunc p :: map (Append p) chunks ++ [Close p].

(* `to.join(format!("{}.md", key))` relative to `to` (fs.rs:12) *)
Definition note_path (k : string) : path := to_path k.

(* the temporary sibling of the repaired `write_file`: `create_temp_file` (fs.rs:30-43) tries
   `<key>.md.tmp`, then `<key>.md.1.tmp`, `<key>.md.2.tmp`, … (`format!("{}.md.{}.tmp", key, n)`,
   n in decimal) with `OpenOptions::new().write(true).create_new(true)`, and takes the first name
   for which the open does not answer `AlreadyExists`.  (The counter is a u64 in the code and a
   nat here: a directory with 2^64 entries is outside the model.) *)
Definition TMP : string := ".tmp".
Definition tmp_cand (p : path) (i : nat) : path :=
  match i with
  | O => p +++ TMP
  | S _ => p +++ "." +++ dec i +++ TMP
  end.

(* the loop of `create_temp_file`: the index of the first candidate that does not exist.  The
   loop has no bound in the code; here the fuel is the number of files, which always suffices
   (FsFacts.tmp_index_spec: the result is free and every smaller candidate exists). *)
Fixpoint first_free (p : path) (s : fs) (fuel i : nat) : nat :=
  match fuel with
  | O => i
  | S f => match lookup (tmp_cand p i) s with None => i | Some _ => first_free p s f (S i) end
  end.
Definition tmp_index (s : fs) (p : path) : nat := first_free p s (length s) 0.
Definition tmp_of (s : fs) (p : path) : path := tmp_cand p (tmp_index s p).

(* the opens `create_temp_file` makes for target p in state s: one per existing candidate
   (each answers EEXIST), then the one that creates the temporary file *)
Definition create_ops (s : fs) (p : path) : list op :=
  map (fun i => OpenNew (tmp_cand p i)) (seq 0 (S (tmp_index s p))).

Inductive variant := AsFound | Repaired.

Section Normalize.
  (* how `write_all` happens to split the bytes `Graph::export` holds for a key *)
  Variable chunks : string -> list bytes.

  (* `write_file` (fs.rs:11-24) for key k when the file system is s.  Repaired: create the
     temporary file, `write_all`, close (`drop(file)`), rename over the note. *)
  Definition file_ops (v : variant) (s : fs) (k : string) : list op :=
    match v with
    | AsFound => write_ops (note_path k) (chunks k)
    | Repaired =>
        let t := tmp_of s (note_path k) in
        create_ops s (note_path k) ++ map (Append t) (chunks k) ++ [Close t; Rename t (note_path k)]
    end.

  (* `write_store_at_path` (fs.rs:90-95): one `write_file` per entry of the exported HashMap,
     in the map's iteration order [order] (any order of the distinct keys), each on the file
     system the previous ones left *)
  Fixpoint normalize_ops (v : variant) (order : list string) (s : fs) : list op :=
    match order with
    | [] => []
    | k :: r => let g := file_ops v s k in g ++ normalize_ops v r (run_ops g s)
    end.
End Normalize.

(* `Graph::import` takes each state key as it is (`Key::name`, graph.rs:316) and `export`
   yields one entry per key: the keys written are the distinct loaded keys *)
Fixpoint dedup (l : list string) : list string :=
  match l with
  | [] => []
  | x :: r => if existsb (String.eqb x) r then dedup r else x :: dedup r
  end.
Definition written_keys (t : list node) : list string :=
  dedup (map (fun l => key_name (l_key l)) (load t)).
