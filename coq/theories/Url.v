(* Url.v — C14: file, URI and key name the same note.
   Byte-level model of
   (a) the percent codec of the `url` crate 2.5.4 (`percent_encode` with the encode sets of
       url/src/parser.rs:20-46, `percent_decode`), `Url::from_file_path` (lib.rs:2541,
       path_to_file_url_segments lib.rs:2918) and `Url::to_file_path` (lib.rs:2715,
       file_url_segments_to_pathbuf lib.rs:3034) on Unix;
   (b) the part of the WHATWG parser of the crate that iwe reaches through
       `Url::parse("file://<base>/")` and `.join("<key>.md")`: input trimming, scheme
       detection, parse_file with a file base, parse_path (parser.rs:1179-1310) with its
       `.`/`..`/drive-letter handling, query and fragment;
   (c) `BasePath::{key_to_url,url_to_key,name_to_url,relative_to_full_path}`
       (crates/iwes/src/router/server.rs:50-80) as found, and the repaired variant;
   (d) the key derivation of the disk loader (crates/liwe/src/fs.rs:24-91).
   No proofs here. *)
From IweV Require Import Str RelPath Arena.
Local Open Scope string_scope.
Local Open Scope list_scope.

(* ---------- (a) percent codec ------------------------------------------------------ *)

Definition hex_of_nibble (b3 b2 b1 b0 : bool) : ascii :=
  match b3, b2, b1, b0 with
  | false, false, false, false => "0" | false, false, false, true => "1"
  | false, false, true, false => "2"  | false, false, true, true => "3"
  | false, true, false, false => "4"  | false, true, false, true => "5"
  | false, true, true, false => "6"   | false, true, true, true => "7"
  | true, false, false, false => "8"  | true, false, false, true => "9"
  | true, false, true, false => "A"   | true, false, true, true => "B"
  | true, true, false, false => "C"   | true, true, false, true => "D"
  | true, true, true, false => "E"    | true, true, true, true => "F"
  end%char.

(* `char::to_digit(16)` as used by percent_decode: both cases of a-f *)
Definition nibble_of_hex (a : ascii) : option (bool * bool * bool * bool) :=
  match a with
  | "0" => Some (false, false, false, false) | "1" => Some (false, false, false, true)
  | "2" => Some (false, false, true, false)  | "3" => Some (false, false, true, true)
  | "4" => Some (false, true, false, false)  | "5" => Some (false, true, false, true)
  | "6" => Some (false, true, true, false)   | "7" => Some (false, true, true, true)
  | "8" => Some (true, false, false, false)  | "9" => Some (true, false, false, true)
  | "A" | "a" => Some (true, false, true, false)   | "B" | "b" => Some (true, false, true, true)
  | "C" | "c" => Some (true, true, false, false)   | "D" | "d" => Some (true, true, false, true)
  | "E" | "e" => Some (true, true, true, false)    | "F" | "f" => Some (true, true, true, true)
  | _ => None
  end%char.

Definition PCT : ascii := "%"%char.

(* percent_encoding::percent_encode_byte: `%XX`, upper-case hex *)
Definition pct_byte (a : ascii) : string :=
  match a with
  | Ascii b0 b1 b2 b3 b4 b5 b6 b7 =>
      String PCT (String (hex_of_nibble b7 b6 b5 b4) (String (hex_of_nibble b3 b2 b1 b0) EmptyString))
  end.

Definition byte_of_nibbles (h l : bool * bool * bool * bool) : ascii :=
  let '(b7, b6, b5, b4) := h in let '(b3, b2, b1, b0) := l in Ascii b0 b1 b2 b3 b4 b5 b6 b7.

Fixpoint pct_encode_with (set : ascii -> bool) (s : string) : string :=
  match s with
  | EmptyString => EmptyString
  | String a r => if set a then pct_byte a +++ pct_encode_with set r else String a (pct_encode_with set r)
  end.

(* percent_encoding::percent_decode: `%` followed by two hex digits is one byte, any other
   `%` stays *)
Fixpoint pct_decode (s : string) : string :=
  match s with
  | EmptyString => EmptyString
  | String c r =>
      if Ascii.eqb c PCT then
        match r with
        | String h (String l r') =>
            match nibble_of_hex h, nibble_of_hex l with
            | Some x, Some y => String (byte_of_nibbles x y) (pct_decode r')
            | _, _ => String c (pct_decode r)
            end
        | _ => String c (pct_decode r)
        end
      else String c (pct_decode r)
  end.

Definition code (a : ascii) : N := N_of_ascii a.
Definition is_any (l : list ascii) (a : ascii) : bool := existsb (Ascii.eqb a) l.

(* encode sets (parser.rs:20-46); every AsciiSet also encodes all non-ASCII bytes *)
Definition in_controls (a : ascii) : bool := N.ltb (code a) 32 || N.leb 127 (code a).
Definition in_fragment (a : ascii) : bool := in_controls a || is_any [" "; """"; "<"; ">"; "`"]%char a.
Definition in_path (a : ascii) : bool := in_fragment a || is_any ["#"; "?"; "{"; "}"]%char a.
Definition in_path_segment (a : ascii) : bool := in_path a || is_any ["/"; "%"]%char a.
Definition in_special_path_segment (a : ascii) : bool := in_path_segment a || is_any ["\"]%char a.
Definition in_special_query (a : ascii) : bool := in_controls a || is_any [" "; """"; "#"; "<"; ">"; "'"]%char a.

(* what `Url::from_file_path` applies to every path component on Unix *)
Definition pct_encode_segment : string -> string := pct_encode_with in_special_path_segment.

(* ---------- std::path on Unix ------------------------------------------------------- *)

(* `Path::components()` of an absolute path, without the root: empty pieces and `.` vanish *)
Definition path_components (p : string) : list string :=
  filter (fun x => negb (sempty x) && negb (String.eqb x ".")) (split_on SEP p).

(* `PathBuf::from(base).join(d1)…join(name)` for relative pieces, as text (a doubled
   separator after a base with a trailing slash is immaterial to `components`) *)
Definition md_name (comps : list string) : list string :=
  match rev comps with
  | [] => []
  | stem :: rdirs => rev rdirs ++ [stem +++ MD]
  end.
Definition note_path (base : string) (comps : list string) : string :=
  base +++ SEPS +++ join SEPS (md_name comps).

Fixpoint concat_segments (enc : string -> string) (cs : list string) : string :=
  match cs with
  | [] => EmptyString
  | c :: r => SEPS +++ enc c +++ concat_segments enc r
  end.

(* `Url::from_file_path(p).map(|u| u.to_string())`; Err(()) for a relative path *)
Definition file_uri (p : string) : option string :=
  if starts_with SEPS p then
    match path_components p with
    | [] => Some "file:///"
    | cs => Some ("file://" +++ concat_segments pct_encode_segment cs)
    end
  else None.

(* cut a string at the first `?` or `#` *)
Fixpoint until_query (s : string) : string :=
  match s with
  | EmptyString => EmptyString
  | String c r => if is_any ["?"; "#"]%char c then EmptyString else String c (until_query r)
  end.

Definition is_alpha (a : ascii) : bool :=
  (N.leb 65 (code a) && N.leb (code a) 90) || (N.leb 97 (code a) && N.leb (code a) 122).

(* `Url::to_file_path` for a serialized URL: only `file:` URLs without a host have one;
   the path is cut at the query / fragment, every segment percent-decoded; a trailing
   drive-letter-like segment gets a slash (lib.rs:3063) *)
Definition drive_tail (bytes : string) : bool :=
  match srev bytes with
  | String l (String a (String _ _)) => is_alpha a && is_any [":"; "|"]%char l
  | _ => false
  end.
Definition to_file_path (u : string) : option string :=
  match strip_prefix "file://" u with
  | Some r =>
      match until_query r with
      | String c segs =>
          if Ascii.eqb c SEP then
            let bytes := concat_segments pct_decode (split_on SEP segs) in
            Some (if drive_tail bytes then bytes +++ SEPS else bytes)
          else None
      | EmptyString => None
      end
  | None => None
  end.

(* ---------- (b) the parser of the `url` crate, file URLs without host --------------- *)

Inductive url := FileUrl (path : string) (query frag : option string).
(* parse results: a file URL we model, a ParseError, or a URL outside the modelled part of the
   crate (another scheme, a host, a drive letter in the base) *)
Inductive pres := POk (u : url) | PErr | POther.

Definition serialize (u : url) : string :=
  match u with
  | FileUrl p q f =>
      "file://" +++ p +++ (match q with Some q => "?" +++ q | None => "" end)
                +++ (match f with Some f => "#" +++ f | None => "" end)
  end.

Fixpoint drop_while (f : ascii -> bool) (s : string) : string :=
  match s with
  | String c r => if f c then drop_while f r else s
  | EmptyString => s
  end.
Fixpoint sfilter (f : ascii -> bool) (s : string) : string :=
  match s with
  | String c r => if f c then String c (sfilter f r) else sfilter f r
  | EmptyString => EmptyString
  end.
Definition c0_or_space (a : ascii) : bool := N.leb (code a) 32.
Definition tab_or_nl (a : ascii) : bool := is_any ["009"; "010"; "013"]%char a.
(* Input::new_trim_c0_control_and_space, then the iterator that skips tab / LF / CR *)
Definition url_input (s : string) : string :=
  sfilter (fun a => negb (tab_or_nl a)) (srev (drop_while c0_or_space (srev (drop_while c0_or_space s)))).

Definition is_digit (a : ascii) : bool := N.leb 48 (code a) && N.leb (code a) 57.
Definition scheme_char (a : ascii) : bool := is_alpha a || is_digit a || is_any ["+"; "-"; "."]%char a.
Fixpoint scheme_scan (s acc : string) : option (string * string) :=
  match s with
  | EmptyString => None
  | String c r =>
      if scheme_char c then scheme_scan r (String (lower_ascii c) acc)
      else if Ascii.eqb c ":" then Some (srev acc, r) else None
  end.
(* Parser::parse_scheme (parser.rs:396) *)
Definition parse_scheme (s : string) : option (string * string) :=
  match s with
  | String c _ => if is_alpha c then scheme_scan s EmptyString else None
  | EmptyString => None
  end.

Definition is_slash (a : ascii) : bool := is_any ["/"; "\"]%char a.
Definition drive_letter (seg : string) : bool :=      (* is_windows_drive_letter *)
  match seg with
  | String a (String b EmptyString) => is_alpha a && is_any [":"; "|"]%char b
  | _ => false
  end.
Definition norm_drive_letter (seg : string) : bool :=  (* is_normalized_windows_drive_letter *)
  match seg with
  | String a (String b EmptyString) => is_alpha a && Ascii.eqb b ":"
  | _ => false
  end.
(* starts_with_windows_drive_letter_segment *)
Definition drive_letter_segment (inp : string) : bool :=
  match inp with
  | String a (String b r) =>
      is_alpha a && is_any [":"; "|"]%char b &&
      match r with EmptyString => true | String c _ => is_any ["/"; "\"; "?"; "#"]%char c end
  | _ => false
  end.

(* split at the last `/`: (text up to and including it, text after it) *)
Fixpoint rsplit_aux (rs acc : string) : option (string * string) :=
  match rs with
  | EmptyString => None
  | String c r => if Ascii.eqb c SEP then Some (srev rs, acc) else rsplit_aux r (String c acc)
  end.
Definition rsplit (s : string) : option (string * string) := rsplit_aux (srev s) EmptyString.

Definition pop_last_char (s : string) : string :=
  match srev s with String _ r => srev r | EmptyString => EmptyString end.

(* Parser::pop_path / shorten_path (parser.rs:1325-1353) on the path text; the path always
   starts with `/` here, so the `rfind('/').unwrap()` of the crate cannot fail *)
Definition shorten_path (ser : string) : string :=
  if sempty ser then ser else
  match rsplit ser with
  | Some (pre, last) => if norm_drive_letter last then ser else pre
  | None => ser
  end.
(* Parser::last_slash_can_be_removed (parser.rs:1312) *)
Definition last_slash_can_be_removed (ser : string) : bool :=
  match rsplit (pop_last_char ser) with
  | Some (_, last) => negb (drive_letter last)
  | None => false
  end.

Definition double_dot (seg : string) : bool :=
  existsb (String.eqb seg) [".."; "%2e%2e"; "%2e%2E"; "%2E%2e"; "%2E%2E"; "%2e."; "%2E."; ".%2e"; ".%2E"].
Definition single_dot (seg : string) : bool := existsb (String.eqb seg) ["."; "%2e"; "%2E"].

(* what parse_path does with one finished segment (parser.rs:1240-1294);
   [ser] is the path before the segment, [ews] = the segment was ended by a slash *)
Definition path_step (ser seg : string) (ews : bool) : string :=
  if double_dot seg then
    let s1 := if ends_with SEPS ser && last_slash_can_be_removed ser then pop_last_char ser else ser in
    let s2 := shorten_path s1 in
    if ews && negb (ends_with SEPS s2) then s2 +++ SEPS else s2
  else if single_dot seg then
    if ends_with SEPS ser then ser else ser +++ SEPS
  else
    let seg' := if String.eqb ser SEPS && drive_letter seg
                then match seg with String a _ => String a ":" | _ => seg end else seg in
    ser +++ seg' +++ (if ews then SEPS else "").

(* the loop of parse_path over the input characters; [seg] is the current segment,
   reversed.  Returns the path text and the unread input (starting at `?` / `#`).
   When a character follows a path that so far is exactly `/X:`, the crate first inserts a
   slash (parser.rs:1217-1225). *)
Definition whole_is_drive (ser seg : string) : bool :=
  match ser +++ srev seg with
  | String _ (String a (String b EmptyString)) => is_alpha a && Ascii.eqb b ":"
  | _ => false
  end.
Fixpoint parse_path_chars (ser seg inp : string) : string * string :=
  match inp with
  | EmptyString => (path_step ser (srev seg) false, EmptyString)
  | String c r =>
      if is_slash c then parse_path_chars (path_step ser (srev seg) true) EmptyString r
      else if is_any ["?"; "#"]%char c then (path_step ser (srev seg) false, inp)
      else
        let enc := pct_encode_with in_path (String c EmptyString) in
        if whole_is_drive ser seg
        then parse_path_chars (ser +++ srev seg +++ SEPS) (srev_app enc EmptyString) r
        else parse_path_chars ser (srev_app enc seg) r
  end.
(* … and the final `file:` clean-up: leading empty segments are dropped *)
Definition parse_path (ser inp : string) : string * string :=
  let '(p, rest) := parse_path_chars ser EmptyString inp in
  (SEPS +++ drop_seps p, rest).

Fixpoint until_hash (s : string) : string * option string :=
  match s with
  | EmptyString => (EmptyString, None)
  | String c r =>
      if Ascii.eqb c "#" then (EmptyString, Some r)
      else let '(a, b) := until_hash r in (String c a, b)
  end.
(* parse_query_and_fragment (parser.rs:1443) for a special scheme *)
Definition query_and_fragment (rest : string) : option string * option string :=
  match rest with
  | EmptyString => (None, None)
  | String c r =>
      if Ascii.eqb c "?" then
        let '(q, f) := until_hash r in
        (Some (pct_encode_with in_special_query q), option_map (pct_encode_with in_fragment) f)
      else (None, Some (pct_encode_with in_fragment r))
  end.

Definition finish (path_rest : string * string) : pres :=
  let '(p, rest) := path_rest in
  let '(q, f) := query_and_fragment rest in POk (FileUrl p q f).

(* file host state (parser.rs:520-557) with an empty host only *)
Definition file_host_state (after_slashes : string) : pres :=
  match after_slashes with
  | String c _ =>
      if is_any ["/"; "\"; "?"; "#"]%char c then finish (parse_path SEPS after_slashes) else POther
  | EmptyString => finish (parse_path SEPS after_slashes)
  end.

(* Parser::parse_file (parser.rs:504) *)
Definition parse_file (inp : string) (base : option url) : pres :=
  match inp with
  | String c1 r1 =>
      if is_slash c1 then
        match r1 with
        | String c2 r2 =>
            if is_slash c2 then file_host_state r2
            else
              (* one slash: path from the root (a drive letter in the base is not modelled) *)
              match base with
              | Some (FileUrl bp _ _) =>
                  if drive_letter_segment r1 then finish (parse_path EmptyString inp)
                  else match split_on SEP bp with
                       | _ :: first :: _ => if norm_drive_letter first then POther else finish (parse_path EmptyString inp)
                       | _ => finish (parse_path EmptyString inp)
                       end
              | None => finish (parse_path EmptyString inp)
              end
        | EmptyString => finish (parse_path EmptyString inp)
        end
      else
        match base with
        | Some (FileUrl bp bq bf) =>
            if Ascii.eqb c1 "?" then
              let '(q, f) := query_and_fragment inp in POk (FileUrl bp q f)
            else if Ascii.eqb c1 "#" then
              POk (FileUrl bp bq (Some (pct_encode_with in_fragment r1)))
            else if drive_letter_segment inp then finish (parse_path SEPS inp)
            else finish (parse_path (shorten_path bp) inp)
        | None => finish (parse_path SEPS inp)
        end
  | EmptyString =>
      match base with
      | Some (FileUrl bp bq _) => POk (FileUrl bp bq None)
      | None => finish (parse_path SEPS inp)
      end
  end.

(* `Url::parse(s)` *)
Definition url_parse (s : string) : pres :=
  let inp := url_input s in
  match parse_scheme inp with
  | Some (sch, rest) => if String.eqb sch "file" then parse_file rest None else POther
  | None => PErr       (* RelativeUrlWithoutBase *)
  end.

(* `base.join(s)` for a file base *)
Definition url_join (b : url) (s : string) : pres :=
  let inp := url_input s in
  match parse_scheme inp with
  | Some (sch, rest) => if String.eqb sch "file" then parse_file rest (Some b) else POther
  | None => parse_file inp (Some b)
  end.

(* ---------- (c) BasePath (server.rs:50-80) ----------------------------------------- *)

(* `Server::new`: base_path: format!("file://{}/", config.base_path) *)
Definition server_prefix (base : string) : string := "file://" +++ base +++ SEPS.

(* result of a URL-producing function: [Ok (Some text)], [Ok None] = a URL outside the modelled
   part of the crate (its text is then taken from the observation), or a panic of iwe's
   `unwrap` / `expect` *)
Definition join_result (site : string) (r : pres) : res (option string) :=
  match r with
  | POk u => Ok (Some (serialize u))
  | POther => Ok None
  | PErr => Panic site
  end.

Definition key_to_url_as_found (S key : string) : res (option string) :=
  match url_parse S with
  | POk b => join_result "key_to_url: to work" (url_join b (to_path key))
  | POther => Ok None
  | PErr => Panic "key_to_url: unwrap"
  end.

Definition relative_to_full_path_as_found (S url : string) : res (option string) :=
  key_to_url_as_found S (strip_md url).      (* server.rs:61-66 `format!("{}.md", strip_md(url))` *)

Definition name_to_url_as_found (S key : string) : res (option string) :=
  join_result "name_to_url: unwrap" (url_parse (S +++ strip_md key +++ MD)).

Definition url_to_key_as_found (S u : string) : string :=
  key_from_file_name (trim_start_matches S u).

(* repaired (fix-c14-uri-key.patch): the library directory is kept as a path; URIs are made by
   `Url::from_file_path(base.join(key.to_path()))` and read by
   `url.to_file_path()` + `Path::strip_prefix(base)`; anything that is not a file under the
   library falls back to the old text surgery *)
Fixpoint strip_list_prefix (p l : list string) : option (list string) :=
  match p with
  | [] => Some l
  | x :: p' => match l with
               | y :: l' => if String.eqb x y then strip_list_prefix p' l' else None
               | [] => None
               end
  end.

Definition key_to_url_fixed (base key : string) : res (option string) :=
  match file_uri (base +++ SEPS +++ to_path key) with
  | Some u => Ok (Some u)
  | None => Panic "key_to_url: to work"
  end.

Definition url_to_key_fixed (base u : string) : string :=
  match to_file_path u with
  | Some p =>
      match strip_list_prefix (path_components base) (path_components p) with
      | Some rel => key_from_file_name (join SEPS rel)
      | None => url_to_key_as_found (server_prefix base) u
      end
  | None => url_to_key_as_found (server_prefix base) u
  end.

(* ---------- (d) the disk loader (fs.rs:24-91) -------------------------------------- *)

(* `path.extension() == "md"` for a file name *)
Definition has_md_extension (name : string) : bool :=
  ends_with MD name && negb (String.eqb name MD).

(* key of the file <dirs>/<name>: directory names joined by `/`, then the file name without
   its `.md` (`to_file_name`, fs.rs:119-122: `strip_md`, one extension) *)
Definition loader_key (dirs : list string) (name : string) : string :=
  join SEPS (dirs ++ [strip_md name]).

(* a note given as dirs ++ [stem], stored as <dirs>/<stem>.md *)
Definition disk_key (comps : list string) : string :=
  match rev comps with
  | [] => EmptyString
  | stem :: rdirs => loader_key (rev rdirs) (stem +++ MD)
  end.

Definition loaded (comps : list string) : bool :=
  match rev comps with
  | [] => false
  | stem :: _ => has_md_extension (stem +++ MD)
  end.

(* ---------- classifiers of the known-finding classes ------------------------------- *)

Definition legal_component (c : string) : bool :=
  negb (sempty c) && negb (contains_char SEP c) && negb (String.eqb c ".") && negb (String.eqb c "..")
  && negb (contains_char "000"%char c).

Fixpoint sexists (f : ascii -> bool) (s : string) : bool :=
  match s with EmptyString => false | String c r => f c || sexists f r end.

(* K1: a byte that `from_file_path` percent-encodes (space, non-ASCII, control, `%`, `?`, `#`,
   `\`, quotes, angle brackets, back-tick, braces) *)
Definition needs_encoding (c : string) : bool := sexists in_special_path_segment c.

(* K2: a key that `Url::join` does not take as a plain relative path: `%`, `?`, `#`, `\`, tab /
   LF / CR anywhere, a leading control character or space, a scheme-like start (`a:b`), a
   drive-letter first segment (`C|/x`) *)
Definition join_special_char (a : ascii) : bool := is_any ["%"; "?"; "#"; "\"]%char a || tab_or_nl a.
Definition scheme_like (c : string) : bool :=
  match parse_scheme c with Some _ => true | None => false end.
Definition join_reinterprets_key (key : string) : bool :=
  sexists join_special_char key
  || (match key with String a _ => c0_or_space a | EmptyString => false end)
  || scheme_like key || drive_letter_segment (to_path key).
Definition join_reinterprets (comps : list string) : bool := join_reinterprets_key (join SEPS comps).

(* K3: the library path as text is not its own URL form: a byte that needs encoding, or it is
   not `/` + legal components joined by `/` (+ an optional trailing slash, which is K4) *)
Definition base_comps (base : string) : option (list string) :=
  match split_on SEP base with
  | EmptyString :: r =>
      let r' := match rev r with EmptyString :: x => rev x | _ => r end in
      if forallb legal_component r' && negb (match r' with [] => true | _ => false end) then Some r' else None
  | _ => None
  end.
Definition base_unsafe (base : string) : bool :=
  sexists (fun a => (in_special_path_segment a && negb (Ascii.eqb a SEP))) base
  || match base_comps base with Some _ => false | None => true end.
Definition base_trailing_slash (base : string) : bool := ends_with SEPS base.
Definition base_drive (base : string) : bool :=
  match path_components base with
  | String a (String b _) :: _ => is_alpha a && is_any [":"; "|"]%char b
  | _ => false
  end.

(* (K5, a stem that itself ends with `.md` - x.md.md shared the key of x.md - is repaired: finding F-C14-5) *)

(* K6: a URI whose text repeats the server prefix (`trim_start_matches` strips every copy) *)
Definition prefix_repeats (S u : string) : bool :=
  match strip_prefix S u with Some r => starts_with S r | None => false end.

(* K7: a URI that spells a byte as a percent escape (clients may escape more than the url
   crate does; the as-found url_to_key compares URI text) *)
Definition uri_has_escape (u : string) : bool := negb (String.eqb (pct_decode u) u).

(* K8: a URI with a query or a fragment (still the same file; the as-found url_to_key keeps
   them in the key) *)
Definition uri_has_query (u : string) : bool := negb (String.eqb (until_query u) u).
