(* ReparseFacts.v — theorems on the re-parse specification [rr] of Reparse.v composed with the
   specification of the builder (SectionsSpec.spec_tree), the title refresh and the projector. *)
From IweV Require Import Str Text Ast RelPath Arena Project SectionsSpec Check_Norm NormFacts BuilderFacts
  SectionsFacts HistoryText Reparse.
From Coq Require Import Lia.
Local Open Scope string_scope.
Local Open Scope list_scope.

(* ---------- induction on written blocks ----------------------------------------------------------- *)

Section GInd.
  Variable P : gblock -> Prop.
  Hypothesis HPlain : forall l, P (GPlain l).
  Hypothesis HPara : forall l, P (GPara l).
  Hypothesis HCode : forall la tx, P (GCode la tx).
  Hypothesis HQuote : forall bs, Forall P bs -> P (GQuote bs).
  Hypothesis HOList : forall its, Forall (Forall P) its -> P (GOList its).
  Hypothesis HBList : forall its, Forall (Forall P) its -> P (GBList its).
  Hypothesis HHeader : forall n l, P (GHeader n l).
  Hypothesis HRule : P GRule.
  Hypothesis HTable : forall h al rows, P (GTable h al rows).

  Fixpoint gblock_ind' (b : gblock) : P b :=
    let fix go (l : list gblock) : Forall P l :=
      match l with
      | [] => Forall_nil P
      | x :: r => Forall_cons x (gblock_ind' x) (go r)
      end in
    let fix goi (its : list (list gblock)) : Forall (Forall P) its :=
      match its with
      | [] => Forall_nil (Forall P)
      | it :: r => Forall_cons it (go it) (goi r)
      end in
    match b with
    | GPlain l => HPlain l
    | GPara l => HPara l
    | GCode la tx => HCode la tx
    | GQuote bs => HQuote bs (go bs)
    | GOList its => HOList its (goi its)
    | GBList its => HBList its (goi its)
    | GHeader n l => HHeader n l
    | GRule => HRule
    | GTable h al rows => HTable h al rows
    end.
End GInd.

(* ---------- [rr_block] unfolded: sequences and items as top-level functions -------------------------- *)

Fixpoint rr_seq (o : opts) (sep k : nat) (l : list gblock) {struct l} : list dblock :=
  match l with
  | [] => []
  | x :: r => rr_block o k x :: rr_seq o sep (k + height x + sep) r
  end.
Fixpoint rr_items (o : opts) (sp k : nat) (its : list (list gblock)) {struct its} : list (list dblock) :=
  match its with
  | [] => []
  | it :: r => rr_seq o sp k (item_body it) :: rr_items o sp (k + heights sp (item_body it) + sp) r
  end.

Lemma rr_go_eq o sep l : forall k,
  (fix go (sep k : nat) (l : list gblock) {struct l} : list dblock :=
     match l with
     | [] => []
     | x :: r => rr_block o k x :: go sep (k + height x + sep) r
     end) sep k l = rr_seq o sep k l.
Proof. induction l as [|x l IH]; intros k; [reflexivity|]. cbn [rr_seq]. rewrite <- IH. reflexivity. Qed.

Lemma rr_goi_eq o sp its : forall k,
  (fix goi (sp k : nat) (its : list (list gblock)) {struct its} : list (list dblock) :=
     match its with
     | [] => []
     | it :: r =>
         (fix go (sep k : nat) (l : list gblock) {struct l} : list dblock :=
            match l with
            | [] => []
            | x :: r => rr_block o k x :: go sep (k + height x + sep) r
            end) sp k (item_body it) :: goi sp (k + heights sp (item_body it) + sp) r
     end) sp k its = rr_items o sp k its.
Proof.
  induction its as [|it its IH]; intros k; [reflexivity|]. cbn [rr_items]. rewrite <- IH, <- rr_go_eq. reflexivity.
Qed.

Lemma rr_quote o k bs : rr_block o k (GQuote bs) = DQuote (k, k + height (GQuote bs)) (rr_seq o 1 k bs).
Proof. rewrite <- rr_go_eq. reflexivity. Qed.
Lemma rr_blist o k its : rr_block o k (GBList its) = DBList (rr_items o (sep_of (is_sparse its)) k its).
Proof. rewrite <- rr_goi_eq. reflexivity. Qed.
Lemma rr_olist o k its : rr_block o k (GOList its) = DOList (rr_items o (sep_of (is_sparse its)) k its).
Proof. rewrite <- rr_goi_eq. reflexivity. Qed.

Lemma rr_at_seq o g : forall k, rr_at o k g = rr_seq o 1 k g.
Proof. induction g as [|x g IH]; intros k; [reflexivity|]. cbn [rr_at rr_seq]. now rewrite IH. Qed.

Lemma rr_seq_length o sep l : forall k, length (rr_seq o sep k l) = length l.
Proof. induction l as [|x l IH]; intros k; cbn [rr_seq length]; [reflexivity | now rewrite IH]. Qed.

(* ---------- C07: written heading levels are re-read as they are ------------------------------------- *)

Lemma hlv_cons b l : hlv (b :: l) = match b with DHeader _ n _ => [n] | _ => [] end ++ hlv l.
Proof. reflexivity. Qed.
Lemma glevels_cons b l : glevels (b :: l) = match b with GHeader n _ => [n] | _ => [] end ++ glevels l.
Proof. reflexivity. Qed.

Lemma rr_block_level o k b :
  match rr_block o k b with DHeader _ n _ => [n] | _ => [] end = match b with GHeader n _ => [n] | _ => [] end.
Proof. destruct b; reflexivity. Qed.

Lemma hlv_rr_seq o sep l : forall k, hlv (rr_seq o sep k l) = glevels l.
Proof.
  induction l as [|x l IH]; intros k; [reflexivity|].
  cbn [rr_seq]. now rewrite hlv_cons, glevels_cons, rr_block_level, IH.
Qed.

(* the level lists of every nesting context below a block (quote bodies, item bodies), outside in *)
Fixpoint gctx (b : gblock) {struct b} : list (list nat) :=
  match b with
  | GQuote bs => glevels bs :: flat_map gctx bs
  | GOList its | GBList its => flat_map (fun it => glevels it :: flat_map gctx it) its
  | _ => []
  end.
Fixpoint dctx (b : dblock) {struct b} : list (list nat) :=
  match b with
  | DQuote _ bs => hlv bs :: flat_map dctx bs
  | DOList its | DBList its => flat_map (fun it => hlv it :: flat_map dctx it) its
  | _ => []
  end.

(* the line without text of an item carries no heading and no inner context *)
Lemma glevels_body it : glevels (item_body it) = glevels it.
Proof. destruct it as [|[[|]|[|]| | | | | | |] ?]; reflexivity. Qed.
Lemma gctx_body it : flat_map gctx (item_body it) = flat_map gctx it.
Proof. destruct it as [|[[|]|[|]| | | | | | |] ?]; reflexivity. Qed.
Lemma Forall_body (P : gblock -> Prop) it : Forall P it -> Forall P (item_body it).
Proof. intros H. destruct it as [|[[|]|[|]| | | | | | |] ?]; try exact H; now inversion H. Qed.

Lemma dctx_rr_block o : forall b k, dctx (rr_block o k b) = gctx b.
Proof.
  intros b. induction b as [l|l|la tx|bs IH|its IH|its IH|n l| |h al rows] using gblock_ind'; intros k; try reflexivity.
  - rewrite rr_quote. cbn [dctx gctx]. rewrite hlv_rr_seq. f_equal.
    generalize 1 as sep. revert k. induction IH as [|x r Hx _ IHr]; intros k sep; [reflexivity|].
    cbn [rr_seq flat_map]. now rewrite Hx, IHr.
  - rewrite rr_olist. cbn [dctx gctx]. generalize (sep_of (is_sparse its)) as sp. intros sp. revert k.
    induction IH as [|it r Hit _ IHr]; intros k; [reflexivity|].
    cbn [rr_items flat_map]. rewrite IHr, hlv_rr_seq, glevels_body. do 2 f_equal.
    rewrite <- (gctx_body it). apply Forall_body in Hit. revert Hit. generalize (item_body it) as bd.
    intros bd Hit. clear - Hit. revert k. induction Hit as [|x r Hx _ IHx]; intros k; [reflexivity|].
    cbn [rr_seq flat_map]. now rewrite Hx, IHx.
  - rewrite rr_blist. cbn [dctx gctx]. generalize (sep_of (is_sparse its)) as sp. intros sp. revert k.
    induction IH as [|it r Hit _ IHr]; intros k; [reflexivity|].
    cbn [rr_items flat_map]. rewrite IHr, hlv_rr_seq, glevels_body. do 2 f_equal.
    rewrite <- (gctx_body it). apply Forall_body in Hit. revert Hit. generalize (item_body it) as bd.
    intros bd Hit. clear - Hit. revert k. induction Hit as [|x r Hx _ IHx]; intros k; [reflexivity|].
    cbn [rr_seq flat_map]. now rewrite Hx, IHx.
Qed.

Theorem reparse_levels o g : hlv (rr o g) = glevels g.
Proof. unfold rr. rewrite rr_at_seq. apply hlv_rr_seq. Qed.

Lemma dctx_rr_seq o sep l : forall k, flat_map dctx (rr_seq o sep k l) = flat_map gctx l.
Proof.
  induction l as [|x l IH]; intros k; [reflexivity|]. cbn [rr_seq flat_map]. now rewrite dctx_rr_block, IH.
Qed.

Theorem reparse_levels_nested o g : flat_map dctx (rr o g) = flat_map gctx g.
Proof. unfold rr. rewrite rr_at_seq. apply dctx_rr_seq. Qed.

(* ---------- the structure every written block list has ------------------------------------------------- *)

Definition is_nil {A} (l : list A) : bool := match l with [] => true | _ => false end.

(* quotes and lists are not empty; every item starts with its text, or with a line without text and then a
   code block, a quote, a rule, or a list that more blocks follow; no table *)
Definition led (it : list gblock) : bool :=
  match it with
  | (GPlain [] | GPara []) :: x :: rest => headless_start x rest
  | (GPlain (_ :: _) | GPara (_ :: _)) :: _ => true
  | _ => false
  end.
Fixpoint gstruct (b : gblock) {struct b} : bool :=
  match b with
  | GQuote bs => negb (is_nil bs) && forallb gstruct bs
  | GOList its | GBList its => negb (is_nil its) && forallb (fun it => led it && forallb gstruct it) its
  | GTable _ _ _ => false
  | _ => true
  end.

Lemma safe_go_eq o l :
  (fix go (l : list gblock) {struct l} : bool := match l with [] => true | x :: r => safe_block o x && go r end) l
  = forallb (safe_block o) l.
Proof. induction l as [|x l IH]; [reflexivity|]. cbn [forallb]. now rewrite <- IH. Qed.

Definition item_safe (it : list gblock) : bool :=
  match it with
  | (GPlain [] | GPara []) :: x :: rest => headless_start x rest && no_adjacent_lists (x :: rest)
  | (GPlain (_ :: _) | GPara (_ :: _)) :: _ => no_adjacent_lists it
  | _ => false
  end.

Lemma safe_goi_eq o its :
  (fix goi (its : list (list gblock)) {struct its} : bool :=
     match its with
     | [] => true
     | it :: r =>
         match it with
         | (GPlain [] | GPara []) :: x :: rest =>
             headless_start x rest && no_adjacent_lists (x :: rest) &&
             (fix go (l : list gblock) {struct l} : bool := match l with [] => true | x :: r => safe_block o x && go r end)
               (x :: rest)
         | (GPlain (_ :: _) | GPara (_ :: _)) :: _ =>
             no_adjacent_lists it &&
             (fix go (l : list gblock) {struct l} : bool := match l with [] => true | x :: r => safe_block o x && go r end) it
         | _ => false
         end &&
         goi r
     end) its
  = forallb (fun it => item_safe it && forallb (safe_block o) (item_body it)) its.
Proof.
  induction its as [|it its IH]; [reflexivity|]. cbn [forallb]. rewrite <- IH. lazy beta match fix.
  destruct it as [|h rest]; [reflexivity|].
  destruct h as [l|l| | | | | | |]; try reflexivity;
    (destruct l; [destruct rest as [|x rest]; [reflexivity|]|]; cbn [item_safe item_body];
     rewrite <- safe_go_eq; reflexivity).
Qed.

Lemma safe_quote o bs :
  safe_block o (GQuote bs) = match bs with [] => false | _ => forallb (safe_block o) bs && no_adjacent_lists bs end.
Proof. cbn [safe_block]. destruct bs; [reflexivity|]. now rewrite safe_go_eq. Qed.
Lemma safe_blist o its :
  safe_block o (GBList its) =
  match its with [] => false | _ => forallb (fun it => item_safe it && forallb (safe_block o) (item_body it)) its end.
Proof. destruct its as [|i0 its]; [reflexivity|]. rewrite <- safe_goi_eq. reflexivity. Qed.
Lemma safe_olist o its :
  safe_block o (GOList its) =
  match its with [] => false | _ => forallb (fun it => item_safe it && forallb (safe_block o) (item_body it)) its end.
Proof. destruct its as [|i0 its]; [reflexivity|]. rewrite <- safe_goi_eq. reflexivity. Qed.

Lemma item_safe_led it : item_safe it = true -> led it = true.
Proof.
  destruct it as [|[[|]|[|]| | | | | | |] [|x rest]]; cbn [item_safe led]; try congruence;
    intros H; repeat (apply andb_prop in H as [H _]); exact H.
Qed.

Lemma gstruct_body it : forallb gstruct it = forallb gstruct (item_body it).
Proof. destruct it as [|[[|]|[|]| | | | | | |] ?]; reflexivity. Qed.

Lemma safe_gstruct o : forall b, safe_block o b = true -> gstruct b = true.
Proof.
  intros b. induction b as [l|l|la tx|bs IH|its IH|its IH|n l| |h al rows] using gblock_ind'; intros H; try reflexivity.
  - rewrite safe_quote in H. destruct bs as [|b0 bs]; [discriminate|]. apply andb_prop in H as [H _].
    cbn [gstruct is_nil negb andb]. apply forallb_forall. intros x Hx.
    rewrite Forall_forall in IH. apply IH; auto. rewrite forallb_forall in H. now apply H.
  - rewrite safe_olist in H. destruct its as [|i0 its]; [discriminate|].
    cbn [gstruct is_nil negb andb]. apply forallb_forall. intros it Hit.
    rewrite forallb_forall in H. specialize (H it Hit). apply andb_prop in H as [Hl Hs].
    rewrite (item_safe_led _ Hl). cbn [andb]. rewrite gstruct_body. apply forallb_forall. intros x Hx.
    rewrite Forall_forall in IH. specialize (IH it Hit). apply Forall_body in IH. rewrite Forall_forall in IH. apply IH; auto.
    rewrite forallb_forall in Hs. now apply Hs.
  - rewrite safe_blist in H. destruct its as [|i0 its]; [discriminate|].
    cbn [gstruct is_nil negb andb]. apply forallb_forall. intros it Hit.
    rewrite forallb_forall in H. specialize (H it Hit). apply andb_prop in H as [Hl Hs].
    rewrite (item_safe_led _ Hl). cbn [andb]. rewrite gstruct_body. apply forallb_forall. intros x Hx.
    rewrite Forall_forall in IH. specialize (IH it Hit). apply Forall_body in IH. rewrite Forall_forall in IH. apply IH; auto.
    rewrite forallb_forall in Hs. now apply Hs.
  - discriminate.
Qed.

Lemma reparse_safe_gstruct o g : reparse_safe o g = true -> forallb gstruct g = true.
Proof.
  unfold reparse_safe. intros H. apply andb_prop in H as [H _]. apply forallb_forall. intros x Hx.
  apply (safe_gstruct o). rewrite forallb_forall in H. now apply H.
Qed.

(* ---------- C01: every written content item is re-read as one item, in order ------------------------------ *)

Section Conserve.
  Variable dir : string.
  Variable o : opts.

  (* what a written paragraph in block position becomes: the re-read line, or the reference it is *)
  Definition para_content (l : list inline) : list citem :=
    tcontent dir (T None (leaf_node dir (DPara (0, 0) (rr_inlines o l))) []).

  (* [c] written, [c'] re-read *)
  Definition reread_item (c c' : citem) : Prop :=
    match c, c' with
    | CI l, CI l' => l' = rel_inlines dir (to_ginlines dir (rr_inlines o l)) \/ [CI l'] = para_content l
    | CC la tx, CC la' tx' => la' = rr_lang la /\ tx' = trim_lf tx +++ LFS
    | CR, CR => True
    | _, _ => False
    end.

  Lemma para_content_shape l : exists l', para_content l = [CI l'].
  Proof.
    unfold para_content. cbn [leaf_node]. destruct (rr_inlines o l) as [|i [|j r]]; try (eexists; reflexivity).
    - destruct i; try (eexists; reflexivity). destruct (is_ref_url url); eexists; reflexivity.
    - destruct i; eexists; reflexivity.
  Qed.

  Lemma Forall2_flat {A B} (R : A -> B -> Prop) (la : list (list A)) (lb : list (list B)) :
    Forall2 (Forall2 R) la lb -> Forall2 R (concat la) (concat lb).
  Proof. induction 1; cbn [concat]; [constructor | now apply Forall2_app]. Qed.

  Definition CB (b : gblock) : Prop :=
    gstruct b = true -> forall k, Forall2 reread_item (gcontent b) (bcontent dir (rr_block o k b)).

  Lemma conserve_seq l : Forall CB l -> forallb gstruct l = true ->
    forall sep k, Forall2 reread_item (flat_map gcontent l) (bscontent dir (rr_seq o sep k l)).
  Proof.
    induction 1 as [|x r Hx _ IH]; intros Hs sep k; [constructor|].
    cbn [forallb] in Hs. apply andb_prop in Hs as [Hs1 Hs2].
    cbn [rr_seq flat_map]. unfold bscontent. cbn [flat_map]. apply Forall2_app; [now apply Hx | now apply IH].
  Qed.

  Lemma conserve_item it : Forall CB it -> led it = true -> forallb gstruct it = true ->
    forall sp k, Forall2 reread_item (flat_map gcontent it) (item_content dir (rr_seq o sp k (item_body it))).
  Proof.
    intros HF Hl Hs sp k. destruct it as [|h rest]; [discriminate|].
    inversion HF as [|? ? _ HFr]; subst. cbn [forallb] in Hs. apply andb_prop in Hs as [_ Hs].
    assert (Hfull : forall l, Forall2 reread_item (CI l :: flat_map gcontent rest)
                                (CI (rel_inlines dir (to_ginlines dir (rr_inlines o l))) :: bscontent dir (rr_seq o sp (k + 1 + sp) rest)))
      by (intros l; constructor; [now left | now apply conserve_seq]).
    assert (Hnone : forall x r, rest = x :: r -> headless_start x r = true ->
              Forall2 reread_item (CI [] :: flat_map gcontent rest) (item_content dir (rr_seq o sp k rest))).
    { intros x r -> Hh. pose proof (conserve_seq (x :: r) HFr Hs sp k) as E.
      assert (Ei : item_content dir (rr_seq o sp k (x :: r)) = CI [] :: bscontent dir (rr_seq o sp k (x :: r))).
      { destruct x; try discriminate Hh; try reflexivity; (destruct r as [|y r']; [discriminate Hh | reflexivity]). }
      rewrite Ei. exact (Forall2_cons (CI []) (CI []) (or_introl eq_refl) E). }
    destruct h as [l|l| | | | | | |]; try discriminate Hl;
      (destruct l as [|i l]; [destruct rest as [|x r]; [discriminate Hl | exact (Hnone x r eq_refl Hl)] | exact (Hfull (i :: l))]).
  Qed.

  Lemma conserve_items its : Forall (Forall CB) its -> forallb (fun it => led it && forallb gstruct it) its = true ->
    forall sp k, Forall2 reread_item
      ((fix goi (l : list (list gblock)) : list citem :=
          match l with
          | [] => []
          | x :: r => (fix go (l : list gblock) : list citem := match l with [] => [] | x :: r => gcontent x ++ go r end) x ++ goi r
          end) its)
      (flat_map (item_content dir) (rr_items o sp k its)).
  Proof.
    induction 1 as [|it r Hit _ IH]; intros Hs sp k; [constructor|].
    cbn [forallb] in Hs. apply andb_prop in Hs as [Hs1 Hs2]. apply andb_prop in Hs1 as [Hl Hg].
    cbn [rr_items flat_map]. apply Forall2_app; [|now apply IH].
    rewrite gcontent_go. now apply conserve_item.
  Qed.

  Lemma conserve_block : forall b, CB b.
  Proof.
    intros b. induction b as [l|l|la tx|bs IH|its IH|its IH|n l| |h al rows] using gblock_ind'; intros Hs k.
    - (* plain *) change (bcontent dir (rr_block o k (GPlain l))) with (para_content l). cbn [gcontent].
      destruct (para_content_shape l) as [l' E]. rewrite E. constructor; [|constructor]. right. now rewrite E.
    - change (bcontent dir (rr_block o k (GPara l))) with (para_content l). cbn [gcontent].
      destruct (para_content_shape l) as [l' E]. rewrite E. constructor; [|constructor]. right. now rewrite E.
    - cbn [rr_block gcontent bcontent leaf_node tcontent]. constructor; [|constructor]. split; reflexivity.
    - rewrite rr_quote, bcontent_quote. cbn [gcontent]. rewrite gcontent_go.
      cbn [gstruct] in Hs. apply andb_prop in Hs as [_ Hs]. now apply conserve_seq.
    - rewrite rr_olist, (proj2 (bcontent_list dir _)). cbn [gcontent].
      cbn [gstruct] in Hs. apply andb_prop in Hs as [_ Hs]. now apply conserve_items.
    - rewrite rr_blist, (proj1 (bcontent_list dir _)). cbn [gcontent].
      cbn [gstruct] in Hs. apply andb_prop in Hs as [_ Hs]. now apply conserve_items.
    - cbn [rr_block gcontent bcontent]. constructor; [|constructor]. now left.
    - cbn [rr_block gcontent bcontent leaf_node tcontent]. constructor; [|constructor]. exact I.
    - discriminate.
  Qed.

  Theorem reparse_conserves g : reparse_safe o g = true ->
    Forall2 reread_item (flat_map gcontent g) (bscontent dir (rr o g)).
  Proof.
    intros H. unfold rr. rewrite rr_at_seq. apply conserve_seq.
    - apply Forall_forall. intros x _. apply conserve_block.
    - now apply (reparse_safe_gstruct o).
  Qed.
End Conserve.

(* ---------- the second pass on re-read blocks, computed directly --------------------------------------- *)

Lemma wn_pos : forall l p, well_nested_from p l = true -> Forall (fun n => 0 < n) l.
Proof.
  induction l as [|n l IH]; intros p H; [constructor|]. cbn [well_nested_from] in H.
  apply Bool.andb_true_iff in H as [H H2]. apply Bool.andb_true_iff in H as [H0 _]. apply Nat.leb_le in H0.
  constructor; [lia | eapply IH; eauto].
Qed.

Section Again.
  Variable ctx : titles.
  Variable dir : string.

  Definition nmap (ts : list tree) : list tree := map (tmap (norm_node ctx)) ts.
  (* projection, at heading depth [d], of trees after the title refresh *)
  Definition P (d : nat) (ts : list tree) : list gblock := flat_map (project_node dir d) (nmap ts).

  Lemma P_app d a b : P d (a ++ b) = P d a ++ P d b.
  Proof. unfold P, nmap. now rewrite map_app, flat_map_app. Qed.
  Lemma P_cons d t ts : P d (t :: ts) = project_node dir d (tmap (norm_node ctx) t) ++ P d ts.
  Proof. reflexivity. Qed.

  Definition line0 (l : list inline) : list inline := rel_inlines dir (normalize_inlines ctx (to_ginlines dir l)).
  Definition dleaf (b : dblock) : list gblock := project_node dir 0 (T None (norm_node ctx (leaf_node dir b)) []).
  Definition lead_flag (body : list dblock) : bool :=
    match body with DPara _ l :: _ => negb (para_is_ref l) | _ => false end.
  Definition lead_line (h : dblock) : list inline :=
    match h with DPara _ l | DHeader _ _ l => line0 l | _ => [] end.

  (* what the projector writes for the tree of re-read blocks, without building the tree: valid when
     the heading levels are well nested in every context and every item starts with its text *)
  Fixpoint D (b : dblock) {struct b} : list gblock :=
    match b with
    | DHeader _ n l => [GHeader n (line0 l)]
    | DQuote _ bs => match flat_map D bs with [] => [] | q => [GQuote q] end
    | DBList its =>
        match its with
        | [] => []
        | _ => [GBList (map (fun it => match it with
                                       | [] => []
                                       | (DPara _ _ | DHeader _ _ _) as h :: body =>
                                           (if lead_flag body then GPara (lead_line h) else GPlain (lead_line h))
                                           :: flat_map D body
                                       | _ => GPlain [] :: flat_map D it
                                       end) its)]
        end
    | DOList its =>
        match its with
        | [] => []
        | _ => [GOList (map (fun it => match it with
                                       | [] => []
                                       | (DPara _ _ | DHeader _ _ _) as h :: body =>
                                           (if lead_flag body then GPara (lead_line h) else GPlain (lead_line h))
                                           :: flat_map D body
                                       | _ => GPlain [] :: flat_map D it
                                       end) its)]
        end
    | _ => dleaf b
    end.
  Definition Ditem (it : list dblock) : list gblock :=
    match it with
    | [] => []
    | (DPara _ _ | DHeader _ _ _) as h :: body =>
        (if lead_flag body then GPara (lead_line h) else GPlain (lead_line h)) :: flat_map D body
    | _ => GPlain [] :: flat_map D it
    end.

  (* the class: every item starts with a paragraph, or with a code block, a quote or a rule, or with a list
     that more blocks follow (an item without text); levels well nested in every inner context *)
  Fixpoint okb (b : dblock) {struct b} : bool :=
    match b with
    | DQuote _ bs => forallb okb bs && well_nested (hlv bs)
    | DOList its | DBList its =>
        forallb (fun it => match it with
                           | DPara _ _ :: body => forallb okb body && well_nested (hlv body)
                           | (DCode _ _ _ | DQuote _ _ | DRule _) :: _ => forallb okb it && well_nested (hlv it)
                           | (DBList _ | DOList _) :: _ :: _ => forallb okb it && well_nested (hlv it)
                           | _ => false
                           end) its
    | _ => true
    end.
  Definition okit (it : list dblock) : bool :=
    match it with
    | DPara _ _ :: body => forallb okb body && well_nested (hlv body)
    | (DCode _ _ _ | DQuote _ _ | DRule _) :: _ => forallb okb it && well_nested (hlv it)
    | (DBList _ | DOList _) :: _ :: _ => forallb okb it && well_nested (hlv it)
    | _ => false
    end.

  Lemma dleaf_depth b d :
    match b with DPara _ _ | DCode _ _ _ | DRule _ | DTable _ _ _ _ => True | _ => False end ->
    project_node dir d (T None (norm_node ctx (leaf_node dir b)) []) = dleaf b.
  Proof.
    unfold dleaf. destruct b; try contradiction; intros _; try reflexivity.
    cbn [leaf_node]. destruct l as [|i [|j r]]; try reflexivity.
    - destruct i; try reflexivity. destruct (is_ref_url url); reflexivity.
    - destruct i; reflexivity.
  Qed.

  (* the lead of an item is written as a paragraph exactly when a plain paragraph follows it *)
  Lemma first_leaf_nmap ts : first_is_leaf (nmap ts) = first_is_leaf ts.
  Proof. destruct ts as [|[i n c] r]; [reflexivity|]. destruct n; reflexivity. Qed.

  Lemma first_leaf_blocks f body :
    first_is_leaf (blocks_tree dir (S (S (S f))) body) = lead_flag body.
  Proof.
    rewrite blocks_tree_S. destruct body as [|b r]; [reflexivity|].
    cbn [span_pre]. destruct (is_header b) eqn:Eh.
    - destruct b; try discriminate. cbn [app flat_map header_level]. rewrite sections_tree_S.
      destruct (span_section level r). reflexivity.
    - destruct (span_pre r) as [x y]. cbn [flat_map]. rewrite block_tree_S.
      destruct b; try discriminate; try reflexivity.
      cbn [app first_is_leaf leaf_node lead_flag para_is_ref].
      destruct l as [|i [|j r']]; try reflexivity.
      + destruct i; try reflexivity. cbn [para_is_ref]. destruct (is_ref_url url); reflexivity.
      + destruct i; reflexivity.
  Qed.

  Definition bk_ok n :=
    forall f b d, dblock_size b <= n -> 4 * n + 1 <= f -> okb b = true -> is_header b = false ->
      P d (block_tree dir f b) = D b.
  Definition it_ok n :=
    forall f it, dblocks_size it <= n -> 4 * n + 5 <= f -> okit it = true ->
      map (item_of dir) (nmap (item_tree dir f it)) = [Ditem it].
  Definition sec_ok n :=
    forall f bs d, dblocks_size bs <= n -> 4 * n + 3 <= f -> forallb okb bs = true -> headed bs ->
      Forall (fun m => d < m) (hlv bs) -> well_nested_from d (hlv bs) = true ->
      P d (sections_tree dir f (S d) bs) = flat_map D bs.
  Definition bl_ok n :=
    forall f bs d, dblocks_size bs <= n -> 4 * n + 4 <= f -> forallb okb bs = true ->
      Forall (fun m => d < m) (hlv bs) -> well_nested_from d (hlv bs) = true ->
      P d (blocks_tree dir f bs) = flat_map D bs.

  Lemma items_fold n f its :
    it_ok n -> forallb okit its = true -> (forall it, In it its -> dblocks_size it <= n) -> 4 * n + 5 <= f ->
    map (item_of dir) (nmap (flat_map (item_tree dir f) its)) = map Ditem its.
  Proof.
    intros HI Hok Hsz Hf. induction its as [|it r IH]; [reflexivity|].
    cbn [forallb] in Hok. apply andb_prop in Hok as [Ho1 Ho2].
    cbn [flat_map]. unfold nmap. rewrite map_app, map_app. fold (nmap (item_tree dir f it)).
    rewrite (HI f it (Hsz it (or_introl eq_refl)) Hf Ho1). cbn [app map]. f_equal.
    apply IH; auto. intros x Hx. apply Hsz. now right.
  Qed.

  Lemma okb_list_okit its :
    forallb (fun it => match it with
                       | DPara _ _ :: body => forallb okb body && well_nested (hlv body)
                       | (DCode _ _ _ | DQuote _ _ | DRule _) :: _ => forallb okb it && well_nested (hlv it)
                       | (DBList _ | DOList _) :: _ :: _ => forallb okb it && well_nested (hlv it)
                       | _ => false
                       end) its = forallb okit its.
  Proof. reflexivity. Qed.

  Lemma nmap_nil_iff ts : nmap ts = [] <-> ts = [].
  Proof. destruct ts; split; intros H; try reflexivity; discriminate. Qed.

  Lemma step_bk n : (forall m, m < n -> it_ok m /\ bl_ok m) -> bk_ok n.
  Proof.
    intros IH f b d Hsz Hf Hok Hnh. destruct f as [|f]; [lia|]. rewrite block_tree_S.
    destruct b as [lr l|lr lang text|lr bs|its|its|lr lv l|lr|lr h al rows]; try discriminate;
      try (unfold P; cbn [nmap map flat_map tmap]; rewrite app_nil_r; now apply dleaf_depth).
    - (* quote *)
      rewrite size_quote in Hsz. destruct (IH (dblocks_size bs) ltac:(lia)) as [_ HB].
      cbn [okb] in Hok. apply andb_prop in Hok as [Hob Hwn].
      unfold P. cbn [nmap map flat_map tmap norm_node project_node]. rewrite app_nil_r.
      fold (nmap (blocks_tree dir f bs)). fold (P 0 (blocks_tree dir f bs)).
      rewrite (HB f bs 0 (le_n _) ltac:(lia) Hob (wn_pos _ _ Hwn) Hwn). reflexivity.
    - (* ordered list *)
      rewrite size_olist in Hsz. set (n' := items_size its - 1).
      destruct (IH n' ltac:(destruct its; cbn [items_size] in *; lia)) as [HI _].
      cbn [okb] in Hok. rewrite okb_list_okit in Hok.
      unfold P. cbn [nmap map flat_map tmap norm_node]. rewrite app_nil_r.
      fold (nmap (flat_map (item_tree dir f) its)).
      assert (E : map (item_of dir) (nmap (flat_map (item_tree dir f) its)) = map Ditem its).
      { destruct its as [|i0 its']; [reflexivity|]. apply (items_fold n' f _ HI Hok).
        - intros it Hin. pose proof (items_size_in it _ Hin). unfold n'. lia.
        - unfold n'. cbn [items_size] in *. lia. }
      cbn [project_node]. fold (item_of dir).
      destruct its as [|i0 its']; [reflexivity|].
      destruct (nmap (flat_map (item_tree dir f) (i0 :: its'))) as [|k0 ks] eqn:Ek; [discriminate E|].
      rewrite E. reflexivity.
    - (* bullet list *)
      rewrite size_blist in Hsz. set (n' := items_size its - 1).
      destruct (IH n' ltac:(destruct its; cbn [items_size] in *; lia)) as [HI _].
      cbn [okb] in Hok. rewrite okb_list_okit in Hok.
      unfold P. cbn [nmap map flat_map tmap norm_node]. rewrite app_nil_r.
      fold (nmap (flat_map (item_tree dir f) its)).
      assert (E : map (item_of dir) (nmap (flat_map (item_tree dir f) its)) = map Ditem its).
      { destruct its as [|i0 its']; [reflexivity|]. apply (items_fold n' f _ HI Hok).
        - intros it Hin. pose proof (items_size_in it _ Hin). unfold n'. lia.
        - unfold n'. cbn [items_size] in *. lia. }
      cbn [project_node]. fold (item_of dir).
      destruct its as [|i0 its']; [reflexivity|].
      destruct (nmap (flat_map (item_tree dir f) (i0 :: its'))) as [|k0 ks] eqn:Ek; [discriminate E|].
      rewrite E. reflexivity.
  Qed.

  Lemma step_it n : (forall m, m < n -> it_ok m /\ bl_ok m) -> bl_ok n -> it_ok n.
  Proof.
    intros IH HBn f it Hsz Hf Hok. destruct f as [|f]; [lia|]. rewrite item_tree_S.
    destruct it as [|h body]; [discriminate|]. pose proof Hsz as Hsz0. rewrite dblocks_size_cons in Hsz.
    pose proof (dblock_size_pos h) as Hpos.
    (* an item without text: a section node without text over all its blocks *)
    assert (Hnone : okit (h :: body) = (forallb okb (h :: body) && well_nested (hlv (h :: body))) ->
                    lead_flag (h :: body) = false ->
                    map (item_of dir) (nmap [T None (NSection []) (blocks_tree dir f (h :: body))]) = [Ditem (h :: body)] ->
                    map (item_of dir) (nmap [T None (NSection []) (blocks_tree dir f (h :: body))]) = [Ditem (h :: body)])
      by auto.
    assert (Hgen : lead_flag (h :: body) = false -> Ditem (h :: body) = GPlain [] :: flat_map D (h :: body) ->
                   forallb okb (h :: body) && well_nested (hlv (h :: body)) = true ->
                   map (item_of dir) (nmap [T None (NSection []) (blocks_tree dir f (h :: body))]) = [Ditem (h :: body)]).
    { intros Hlf HD Hok'. apply andb_prop in Hok' as [Hob Hwn].
      cbn [nmap map tmap norm_node item_of first_is_leaf]. fold (nmap (blocks_tree dir f (h :: body))).
      rewrite first_leaf_nmap.
      destruct f as [|[|[|f]]]; try lia. rewrite first_leaf_blocks, Hlf.
      fold (P 0 (blocks_tree dir (S (S (S f))) (h :: body))).
      rewrite (HBn (S (S (S f))) (h :: body) 0 Hsz0 ltac:(lia) Hob (wn_pos _ _ Hwn) Hwn).
      rewrite HD. reflexivity. }
    clear Hnone.
    destruct h as [lr l|lr la tx|lr bs|its|its|lr lv l|lr|lr hd al rows]; try discriminate.
    - (* text first *)
      cbn [okit] in Hok. apply andb_prop in Hok as [Hob Hwn].
      destruct (IH (dblocks_size body) ltac:(lia)) as [_ HB].
      cbn [nmap map tmap norm_node item_of first_is_leaf]. fold (nmap (blocks_tree dir f body)).
      rewrite first_leaf_nmap.
      destruct f as [|[|[|f]]]; try lia. rewrite first_leaf_blocks.
      fold (P 0 (blocks_tree dir (S (S (S f))) body)).
      rewrite (HB (S (S (S f))) body 0 (le_n _) ltac:(lia) Hob (wn_pos _ _ Hwn) Hwn).
      cbn [Ditem lead_line lead_inlines node_inlines]. unfold line0, normalize_inlines. reflexivity.
    - now apply Hgen.
    - now apply Hgen.
    - destruct body as [|b1 body]; [discriminate|]. now apply Hgen.
    - destruct body as [|b1 body]; [discriminate|]. now apply Hgen.
    - now apply Hgen.
  Qed.

  Lemma hlv_header lr lv l r : hlv (DHeader lr lv l :: r) = lv :: hlv r.
  Proof. reflexivity. Qed.

  Lemma first_level d lv rest :
    Forall (fun m => d < m) (lv :: rest) -> well_nested_from d (lv :: rest) = true -> lv = S d.
  Proof.
    intros HF Hw. inversion HF; subst. cbn [well_nested_from] in Hw.
    apply Bool.andb_true_iff in Hw as [Hw _]. apply Bool.andb_true_iff in Hw as [_ Hw]. apply Nat.leb_le in Hw. lia.
  Qed.

  Lemma step_sec n : (forall m, m < n -> bl_ok m /\ sec_ok m) -> sec_ok n.
  Proof.
    intros IH f bs d Hsz Hf Hok Hhd Hgt Hwn. destruct f as [|f]; [lia|]. rewrite sections_tree_S.
    destruct bs as [|h r]; [reflexivity|].
    cbn [headed] in Hhd. destruct h as [| | | | |lr lv l| |]; try discriminate.
    destruct (span_section (S d) r) as [body rest] eqn:Es.
    destruct (span_section_spec (S d) r body rest Es) as [_ Hrest].
    destruct (span_section_levels (S d) r body rest Es) as (-> & Fb & Mr).
    rewrite hlv_header, hlv_app in Hgt, Hwn.
    pose proof (first_level _ _ _ Hgt Hwn) as ->.
    inversion Hgt as [|? ? _ Hgt']; subst. apply Forall_app in Hgt' as [Gb Gr].
    cbn [well_nested_from] in Hwn. apply Bool.andb_true_iff in Hwn as [_ Hw2].
    destruct (wn_from_app _ _ _ Hw2) as (Wb & q & Wr & Hq & _).
    cbn [forallb] in Hok. apply andb_prop in Hok as [_ Hok]. rewrite forallb_app in Hok.
    apply andb_prop in Hok as [Hokb Hokr].
    rewrite dblocks_size_cons, dblocks_size_app in Hsz. cbn [dblock_size] in Hsz.
    destruct (IH (dblocks_size body) ltac:(lia)) as [HB _].
    destruct (IH (dblocks_size rest) ltac:(lia)) as [_ HS].
    rewrite P_cons. cbn [tmap norm_node project_node lead_inlines].
    fold (nmap (blocks_tree dir f body)). fold (P (d + 1) (blocks_tree dir f body)).
    replace (d + 1) with (S d) by lia.
    rewrite (HB f body (S d) (le_n _) ltac:(lia) Hokb Fb Wb).
    rewrite (HS f rest d (le_n _) ltac:(lia) Hokr Hrest Gr).
    - cbn [flat_map D app]. rewrite flat_map_app. reflexivity.
    - apply (wn_from_weaken q); [exact Wr|].
      destruct rest as [|[] ?]; try exact I; try contradiction. rewrite hlv_header. exact Mr.
  Qed.

  Lemma step_bl n : bk_ok n -> sec_ok n -> bl_ok n.
  Proof.
    intros HBk HSs f bs d Hsz Hf Hok Hgt Hwn. destruct f as [|f]; [lia|]. rewrite blocks_tree_S.
    destruct (span_pre bs) as [pre rest] eqn:Es.
    destruct (span_pre_spec bs pre rest Es) as (-> & Hpre & Hrest).
    rewrite forallb_app in Hok. apply andb_prop in Hok as [Hokp Hokr]. rewrite dblocks_size_app in Hsz.
    rewrite hlv_app, (hlv_no_headers pre Hpre) in Hgt, Hwn. cbn [app] in Hgt, Hwn.
    rewrite P_app, flat_map_app. f_equal.
    - clear - HBk Hokp Hpre Hsz Hf. induction pre as [|b l IHl]; [reflexivity|].
      cbn [forallb] in Hokp. apply andb_prop in Hokp as [Hb Hl]. inversion Hpre; subst.
      rewrite dblocks_size_cons in Hsz. cbn [flat_map]. rewrite P_app. f_equal.
      + apply HBk; auto; lia.
      + apply IHl; auto. lia.
    - destruct rest as [|h r]; [reflexivity|].
      cbn [headed] in Hrest. destruct h as [| | | | |lr lv l| |]; try discriminate. cbn [header_level].
      rewrite hlv_header in Hgt, Hwn. pose proof (first_level _ _ _ Hgt Hwn) as ->.
      apply HSs; auto; lia.
  Qed.

  Theorem again_total n : bk_ok n /\ it_ok n /\ sec_ok n /\ bl_ok n.
  Proof.
    induction n as [n IH] using lt_wf_ind.
    assert (HBk : bk_ok n) by (apply step_bk; intros m Hm; destruct (IH m Hm) as (_ & ? & _ & ?); auto).
    assert (HSs : sec_ok n) by (apply step_sec; intros m Hm; destruct (IH m Hm) as (_ & _ & ? & ?); auto).
    assert (HBl : bl_ok n) by now apply step_bl.
    assert (HI : it_ok n) by (apply step_it; [intros m Hm; destruct (IH m Hm) as (_ & ? & _ & ?); auto | exact HBl]).
    repeat split; auto.
  Qed.

  (* the second pass over a note: project after title refresh of the specified tree *)
  Theorem second_pass_direct key bs :
    dir = key_parent key -> forallb okb bs = true -> well_nested (hlv bs) = true ->
    project dir (tmap (norm_node ctx) (spec_tree key bs)) = flat_map D bs.
  Proof.
    intros Hd Hok Hwn. unfold project, spec_tree, note_tree. rewrite <- Hd. cbn [tmap norm_node project_node].
    destruct (again_total (dblocks_size bs)) as (_ & _ & _ & HB).
    apply (HB (fuel_for bs) bs 0); auto.
    - unfold fuel_for. lia.
    - apply (wn_pos _ _ Hwn).
  Qed.

  (* ---------- ... composed with the re-parse: one more pass, on written blocks ---------------------------- *)

  Variable o : opts.

  (* a paragraph in block position: a lone note link is a block reference, re-written from its key *)
  Definition para_line (l' : list inline) : list inline :=
    match l' with
    | [Link url _ lt ils] =>
        if is_ref_url url then
          let key := from_rel_link_url url dir in
          let text := inlines_plain_text ils in
          let text' := match lt with
                       | Regular => match ctx key with Some t => t | None => text end
                       | WikiLink => ""
                       | WikiLinkPiped => text
                       end in
          [Link (to_rel_link_url key dir) "" lt
             match lt with Regular => [Str text'] | WikiLink => [] | WikiLinkPiped => [Str text'] end]
        else line0 l'
    | _ => line0 l'
    end.

  Lemma dleaf_para lr l' : dleaf (DPara lr l') = [GPara (para_line l')].
  Proof.
    unfold dleaf, para_line. cbn [leaf_node]. destruct l' as [|i [|j r]]; try reflexivity.
    - destruct i; try reflexivity. destruct (is_ref_url url); [|reflexivity]. destruct lt; reflexivity.
    - destruct i; reflexivity.
  Qed.

  Definition gline (h : gblock) : list inline := match h with GPlain l | GPara l => l | _ => [] end.
  Definition gflag (rest : list gblock) : bool :=
    match rest with (GPlain l | GPara l) :: _ => negb (para_is_ref (rr_inlines o l)) | _ => false end.
  Definition lead_again (h : gblock) (rest : list gblock) : gblock :=
    if gflag rest then GPara (line0 (rr_inlines o (gline h))) else GPlain (line0 (rr_inlines o (gline h))).

  (* one written block after reading it back and formatting again *)
  Fixpoint gagain (b : gblock) {struct b} : gblock :=
    match b with
    | GPlain l | GPara l => GPara (para_line (rr_inlines o l))
    | GHeader n l => GHeader n (line0 (rr_inlines o l))
    | GCode la tx => GCode (rr_lang la) (trim_lf tx +++ LFS)
    | GRule => GRule
    | GQuote bs => GQuote (map gagain bs)
    | GBList its =>
        GBList (map (fun it => match it with [] => [] | h :: rest => lead_again h rest :: map gagain rest end) its)
    | GOList its =>
        GOList (map (fun it => match it with [] => [] | h :: rest => lead_again h rest :: map gagain rest end) its)
    | GTable h al rows => GTable h al rows
    end.
  Definition item_again (it : list gblock) : list gblock :=
    match it with [] => [] | h :: rest => lead_again h rest :: map gagain rest end.

  Definition DB (b : gblock) : Prop := gstruct b = true -> forall k, D (rr_block o k b) = [gagain b].

  Lemma D_rr_seq l : Forall DB l -> forallb gstruct l = true ->
    forall sep k, flat_map D (rr_seq o sep k l) = map gagain l.
  Proof.
    induction 1 as [|x r Hx _ IH]; intros Hs sep k; [reflexivity|].
    cbn [forallb] in Hs. apply andb_prop in Hs as [Hs1 Hs2].
    cbn [rr_seq flat_map map]. rewrite (Hx Hs1), IH by assumption. reflexivity.
  Qed.

  Lemma lead_flag_rr rest sep k : lead_flag (rr_seq o sep k rest) = gflag rest.
  Proof. destruct rest as [|b r]; [reflexivity|]. destruct b; reflexivity. Qed.

  Lemma D_rr_item it : Forall DB it -> led it = true -> forallb gstruct it = true ->
    forall sp k, Ditem (rr_seq o sp k (item_body it)) = item_again it.
  Proof.
    intros HF Hl Hs sp k. destruct it as [|h rest]; [discriminate|].
    inversion HF as [|? ? _ HFr]; subst. cbn [forallb] in Hs. apply andb_prop in Hs as [_ Hs].
    assert (Hnone : forall x r, rest = x :: r -> headless_start x r = true -> gline h = [] ->
                    Ditem (rr_seq o sp k rest) = item_again (h :: rest)).
    { intros x r -> Hh Hg. cbn [item_again]. rewrite <- (D_rr_seq (x :: r) HFr Hs sp k).
      unfold lead_again. rewrite Hg.
      destruct x; try discriminate Hh; try reflexivity; (destruct r as [|y r']; [discriminate Hh | reflexivity]). }
    destruct h as [l|l| | | | | | |]; try discriminate Hl;
      (destruct l as [|i l]; [destruct rest as [|x r]; [discriminate Hl | exact (Hnone x r eq_refl Hl eq_refl)]|]);
      cbn [item_body rr_seq rr_block Ditem item_again]; rewrite lead_flag_rr, (D_rr_seq rest HFr Hs);
      unfold lead_again; cbn [gline lead_line]; reflexivity.
  Qed.

  Lemma D_rr_items its : Forall (Forall DB) its -> forallb (fun it => led it && forallb gstruct it) its = true ->
    forall sp k, map Ditem (rr_items o sp k its) = map item_again its.
  Proof.
    induction 1 as [|it r Hit _ IH]; intros Hs sp k; [reflexivity|].
    cbn [forallb] in Hs. apply andb_prop in Hs as [Hs1 Hs2]. apply andb_prop in Hs1 as [Hl Hg].
    cbn [rr_items map]. rewrite (D_rr_item it Hit Hl Hg), IH by assumption. reflexivity.
  Qed.

  Lemma D_rr_block : forall b, DB b.
  Proof.
    intros b. induction b as [l|l|la tx|bs IH|its IH|its IH|n l| |h al rows] using gblock_ind'; intros Hs k.
    - cbn [rr_block D gagain]. apply dleaf_para.
    - cbn [rr_block D gagain]. apply dleaf_para.
    - reflexivity.
    - rewrite rr_quote. cbn [D gagain]. cbn [gstruct] in Hs. apply andb_prop in Hs as [Hn Hs].
      rewrite (D_rr_seq bs IH Hs). destruct bs; [discriminate|]. reflexivity.
    - rewrite rr_olist. cbn [gstruct] in Hs. apply andb_prop in Hs as [Hn Hs].
      cbn [D gagain]. fold Ditem. fold item_again.
      rewrite (D_rr_items its IH Hs). destruct its; [discriminate|]. reflexivity.
    - rewrite rr_blist. cbn [gstruct] in Hs. apply andb_prop in Hs as [Hn Hs].
      cbn [D gagain]. fold Ditem. fold item_again.
      rewrite (D_rr_items its IH Hs). destruct its; [discriminate|]. reflexivity.
    - reflexivity.
    - reflexivity.
    - discriminate.
  Qed.

  (* the re-read blocks are in the class of the direct computation *)
  Lemma gwn_goi_eq its :
    (fix goi (l : list (list gblock)) {struct l} : bool :=
       match l with
       | [] => true
       | it :: r => well_nested (glevels it) &&
                    (fix go (l : list gblock) {struct l} : bool := match l with [] => true | x :: r => gwn x && go r end) it && goi r
       end) its = forallb (fun it => well_nested (glevels it) && forallb gwn it) its.
  Proof.
    induction its as [|it its IH]; [reflexivity|]. cbn [forallb]. rewrite <- IH. rewrite <- (gwn_go_forallb it). reflexivity.
  Qed.

  Definition OB (b : gblock) : Prop := gstruct b = true -> gwn b = true -> forall k, okb (rr_block o k b) = true.

  Lemma okb_rr_seq l : Forall OB l -> forallb gstruct l = true -> forallb gwn l = true ->
    forall sep k, forallb okb (rr_seq o sep k l) = true.
  Proof.
    induction 1 as [|x r Hx _ IH]; intros Hs Hw sep k; [reflexivity|].
    cbn [forallb] in Hs, Hw. apply andb_prop in Hs as [Hs1 Hs2]. apply andb_prop in Hw as [Hw1 Hw2].
    cbn [rr_seq forallb]. rewrite (Hx Hs1 Hw1), IH by assumption. reflexivity.
  Qed.

  Lemma okb_rr_items its : Forall (Forall OB) its -> forallb (fun it => led it && forallb gstruct it) its = true ->
    forallb (fun it => well_nested (glevels it) && forallb gwn it) its = true ->
    forall sp k, forallb okit (rr_items o sp k its) = true.
  Proof.
    induction 1 as [|it r Hit _ IH]; intros Hs Hw sp k; [reflexivity|].
    cbn [forallb] in Hs, Hw. apply andb_prop in Hs as [Hs1 Hs2]. apply andb_prop in Hs1 as [Hl Hg].
    apply andb_prop in Hw as [Hw1 Hw2]. apply andb_prop in Hw1 as [Hwl Hwg].
    cbn [rr_items forallb]. rewrite IH by assumption. rewrite andb_true_r.
    destruct it as [|h rest]; [discriminate|]. inversion Hit as [|? ? _ Hr]; subst.
    cbn [forallb] in Hg, Hwg. apply andb_prop in Hg as [_ Hg]. apply andb_prop in Hwg as [_ Hwg].
    rewrite glevels_cons in Hwl.
    assert (Hnone : forall x q, rest = x :: q -> headless_start x q = true -> well_nested (glevels rest) = true ->
                    okit (rr_seq o sp k rest) = true).
    { intros x q -> Hh Hw.
      assert (E : okit (rr_seq o sp k (x :: q)) = forallb okb (rr_seq o sp k (x :: q)) && well_nested (hlv (rr_seq o sp k (x :: q))))
        by (destruct x; try discriminate Hh; try reflexivity; (destruct q as [|y q']; [discriminate Hh | reflexivity])).
      rewrite E, (okb_rr_seq (x :: q) Hr Hg Hwg), hlv_rr_seq. exact Hw. }
    destruct h as [l|l| | | | | | |]; try discriminate Hl;
      (destruct l as [|i l]; [destruct rest as [|x q]; [discriminate Hl | exact (Hnone x q eq_refl Hl Hwl)]|]);
      cbn [item_body rr_seq rr_block okit]; rewrite (okb_rr_seq rest Hr Hg Hwg), hlv_rr_seq; exact Hwl.
  Qed.

  Lemma okb_rr_block : forall b, OB b.
  Proof.
    intros b. induction b as [l|l|la tx|bs IH|its IH|its IH|n l| |h al rows] using gblock_ind'; intros Hs Hw k;
      try reflexivity.
    - rewrite rr_quote. cbn [okb]. cbn [gstruct] in Hs. apply andb_prop in Hs as [_ Hs].
      cbn [gwn] in Hw. rewrite gwn_go_forallb in Hw. apply andb_prop in Hw as [Hw1 Hw2].
      rewrite (okb_rr_seq bs IH Hs Hw2), hlv_rr_seq. exact Hw1.
    - rewrite rr_olist. cbn [okb]. rewrite okb_list_okit. cbn [gstruct] in Hs. apply andb_prop in Hs as [_ Hs].
      cbn [gwn] in Hw. rewrite gwn_goi_eq in Hw. now apply okb_rr_items.
    - rewrite rr_blist. cbn [okb]. rewrite okb_list_okit. cbn [gstruct] in Hs. apply andb_prop in Hs as [_ Hs].
      cbn [gwn] in Hw. rewrite gwn_goi_eq in Hw. now apply okb_rr_items.
  Qed.

  (* ONE MORE PASS, for every written block list with the structure of written lists (any content of
     the lines): reading the text back and formatting again gives [gagain] of every block *)
  Theorem second_pass key g k :
    dir = key_parent key -> forallb gstruct g = true -> gwn_all g = true ->
    project dir (tmap (norm_node ctx) (spec_tree key (rr_at o k g))) = map gagain g.
  Proof.
    intros Hd Hs Hw. unfold gwn_all in Hw. apply andb_prop in Hw as [Hw1 Hw2].
    rewrite rr_at_seq. rewrite (second_pass_direct key _ Hd).
    - apply D_rr_seq; [|exact Hs]. apply Forall_forall. intros x _. apply D_rr_block.
    - apply okb_rr_seq; auto. apply Forall_forall. intros x _. apply okb_rr_block.
    - now rewrite hlv_rr_seq.
  Qed.
End Again.

(* ---------- boolean equality of written blocks is equality ---------------------------------------------- *)

Lemma list_eqb_eq_local {A} (eq : A -> A -> bool) a :
  Forall (fun x => forall y, eq x y = true -> x = y) a -> forall b, list_eqb eq a b = true -> a = b.
Proof.
  induction 1 as [|x a Hx _ IH]; intros [|y b]; cbn [list_eqb]; try discriminate; [reflexivity|].
  intros E. apply andb_prop in E as [E1 E2]. f_equal; auto.
Qed.

Lemma inline_eqb_go l m :
  (fix go (x y : list inline) {struct x} : bool :=
     match x, y with
     | [], [] => true
     | i :: x', j :: y' => inline_eqb i j && go x' y'
     | _, _ => false
     end) l m = list_eqb inline_eqb l m.
Proof. revert m; induction l as [|i l IH]; intros [|j m]; try reflexivity. cbn [list_eqb]. now rewrite <- IH. Qed.

Lemma link_type_eqb_eq a b : link_type_eqb a b = true -> a = b.
Proof. destruct a, b; cbn; congruence. Qed.

Lemma inline_eqb_eq : forall a b, inline_eqb a b = true -> a = b.
Proof.
  apply (inline_ind' (fun a => forall b, inline_eqb a b = true -> a = b)).
  - intros s [] H; try discriminate. cbn in H. apply String.eqb_eq in H. now subst.
  - intros s [] H; try discriminate. cbn in H. apply String.eqb_eq in H. now subst.
  - intros s [] H; try discriminate. cbn in H. apply String.eqb_eq in H. now subst.
  - intros l IH [] H; try discriminate. cbn [inline_eqb] in H. rewrite inline_eqb_go in H.
    f_equal. now apply (list_eqb_eq_local inline_eqb l IH).
  - intros l IH [] H; try discriminate. cbn [inline_eqb] in H. rewrite inline_eqb_go in H.
    f_equal. now apply (list_eqb_eq_local inline_eqb l IH).
  - intros l IH [] H; try discriminate. cbn [inline_eqb] in H. rewrite inline_eqb_go in H.
    f_equal. now apply (list_eqb_eq_local inline_eqb l IH).
  - intros u t lt l IH [] H; try discriminate. cbn [inline_eqb] in H. rewrite inline_eqb_go in H.
    apply andb_prop in H as [H H4]. apply andb_prop in H as [H H3]. apply andb_prop in H as [H1 H2].
    apply String.eqb_eq in H1, H2. apply link_type_eqb_eq in H3. subst.
    f_equal. now apply (list_eqb_eq_local inline_eqb l IH).
  - intros u t l IH [] H; try discriminate. cbn [inline_eqb] in H. rewrite inline_eqb_go in H.
    apply andb_prop in H as [H H3]. apply andb_prop in H as [H1 H2].
    apply String.eqb_eq in H1, H2. subst.
    f_equal. now apply (list_eqb_eq_local inline_eqb l IH).
Qed.

Lemma inlines_eqb_eq a b : inlines_eqb a b = true -> a = b.
Proof. apply list_eqb_eq. exact inline_eqb_eq. Qed.

Lemma ostring_eqb_eq a b : ostring_eqb a b = true -> a = b.
Proof.
  destruct a, b; cbn; try discriminate; [|reflexivity]. intros H. apply String.eqb_eq in H. now subst.
Qed.

Lemma align_eqb_eq a b : align_eqb a b = true -> a = b.
Proof. destruct a, b; cbn; congruence. Qed.

Lemma gblock_eqb_go l m :
  (fix go (x y : list gblock) {struct x} : bool :=
     match x, y with
     | [], [] => true
     | i :: x', j :: y' => gblock_eqb i j && go x' y'
     | _, _ => false
     end) l m = list_eqb gblock_eqb l m.
Proof. revert m; induction l as [|i l IH]; intros [|j m]; try reflexivity. cbn [list_eqb]. now rewrite <- IH. Qed.

Lemma gblock_eqb_goi l m :
  (fix goi (x y : list (list gblock)) {struct x} : bool :=
     match x, y with
     | [], [] => true
     | i :: x', j :: y' =>
         (fix go (x y : list gblock) {struct x} : bool :=
            match x, y with
            | [], [] => true
            | i :: x', j :: y' => gblock_eqb i j && go x' y'
            | _, _ => false
            end) i j && goi x' y'
     | _, _ => false
     end) l m = list_eqb (list_eqb gblock_eqb) l m.
Proof.
  revert m; induction l as [|i l IH]; intros [|j m]; try reflexivity. cbn [list_eqb]. now rewrite <- IH, <- gblock_eqb_go.
Qed.

Lemma gblock_eqb_eq : forall a b, gblock_eqb a b = true -> a = b.
Proof.
  intros a. induction a as [l|l|la tx|bs IH|its IH|its IH|n l| |h al rows] using gblock_ind'; intros [] H; try discriminate.
  - cbn in H. f_equal. now apply inlines_eqb_eq.
  - cbn in H. f_equal. now apply inlines_eqb_eq.
  - cbn in H. apply andb_prop in H as [H1 H2]. apply ostring_eqb_eq in H1. apply String.eqb_eq in H2. now subst.
  - cbn [gblock_eqb] in H. rewrite gblock_eqb_go in H. f_equal. now apply (list_eqb_eq_local gblock_eqb bs IH).
  - cbn [gblock_eqb] in H. rewrite gblock_eqb_goi in H. f_equal.
    apply (list_eqb_eq_local (list_eqb gblock_eqb) its); [|exact H].
    eapply Forall_impl; [|exact IH]. intros it Hit y. now apply list_eqb_eq_local.
  - cbn [gblock_eqb] in H. rewrite gblock_eqb_goi in H. f_equal.
    apply (list_eqb_eq_local (list_eqb gblock_eqb) its); [|exact H].
    eapply Forall_impl; [|exact IH]. intros it Hit y. now apply list_eqb_eq_local.
  - cbn in H. apply andb_prop in H as [H1 H2]. apply Nat.eqb_eq in H1. apply inlines_eqb_eq in H2. now subst.
  - reflexivity.
  - cbn in H. apply andb_prop in H as [H H3]. apply andb_prop in H as [H1 H2].
    f_equal.
    + apply (list_eqb_eq inlines_eqb inlines_eqb_eq). exact H1.
    + apply (list_eqb_eq align_eqb align_eqb_eq). exact H2.
    + apply (list_eqb_eq cells_eqb (list_eqb_eq inlines_eqb inlines_eqb_eq)). exact H3.
Qed.

(* ---------- C02: the block-level fixpoint ------------------------------------------------------------------ *)

(* written blocks on which one more pass changes nothing, line by line: decidable *)
Definition settled (ctx : titles) (dir : string) (o : opts) (g : list gblock) : bool :=
  forallb (fun b => gblock_eqb (gagain ctx dir o b) b) g.

Lemma settled_fixed ctx dir o g : settled ctx dir o g = true -> map (gagain ctx dir o) g = g.
Proof.
  unfold settled. induction g as [|b g IH]; [reflexivity|]. cbn [forallb map]. intros H.
  apply andb_prop in H as [H1 H2]. f_equal; [now apply gblock_eqb_eq | now apply IH].
Qed.

(* one more pass over what was written for ANY tree: [gagain] of every written block *)
Theorem second_pass_tree ctx o key t k :
  reparse_safe o (project (key_parent key) t) = true ->
  project (key_parent key) (tmap (norm_node ctx) (spec_tree key (rr_at o k (project (key_parent key) t))))
  = map (gagain ctx (key_parent key) o) (project (key_parent key) t).
Proof.
  intros Hs. apply second_pass; [reflexivity | now apply (reparse_safe_gstruct o) | apply project_well_nested].
Qed.

Theorem fixpoint_blocks ctx o key t :
  reparse_safe o (project (key_parent key) t) = true ->
  settled ctx (key_parent key) o (project (key_parent key) t) = true ->
  project (key_parent key) (tmap (norm_node ctx) (spec_tree key (rr o (project (key_parent key) t))))
  = project (key_parent key) t.
Proof.
  intros Hs Hf. unfold rr. rewrite (second_pass_tree ctx o key t 0 Hs). now apply settled_fixed.
Qed.

Theorem fixpoint_text ctx o key t tables :
  reparse_safe o (project (key_parent key) t) = true ->
  settled ctx (key_parent key) o (project (key_parent key) t) = true ->
  tree_to_markdown o tables (key_parent key) (tmap (norm_node ctx) (spec_tree key (rr o (project (key_parent key) t))))
  = tree_to_markdown o tables (key_parent key) t.
Proof. intros Hs Hf. unfold tree_to_markdown. now rewrite (fixpoint_blocks ctx o key t Hs Hf). Qed.

(* ---------- non-vacuity: a note with nested lists, a quote, code, references ------------------------------ *)

Definition ex_ctx : titles := fun k => if String.eqb k "d/a" then Some "Title A" else None.
Definition ex_opts : opts := Opts ".md".
Definition ex_key : string := "d/n".
(* reader blocks of a source text (line ranges are irrelevant here) *)
Definition ex_blocks : list dblock :=
  [DHeader (0, 1) 1 [Str "Top"];
   DPara (2, 3) [Str "alpha "; Emph [Str "beta"]; Str " "; Link "a.md" "" Regular [Str "old title"]; Str " "; Code "c"];
   DPara (4, 5) [Link "a" "" Regular [Str "old"]];
   DPara (6, 7) [Link "../x" "" WikiLink [Str "../x"]];
   DBList [[DPara (8, 9) [Str "one"];
            DOList [[DPara (9, 10) [Str "sub"]];
                    [DPara (10, 11) [Str "sub two"]; DPara (12, 13) [Str "more"]; DRule (14, 15)]]];
           [DPara (16, 17) [Str "two "; Strong [Str "bold"]]; DCode (17, 20) None "x
y
"]];
   DQuote (21, 26) [DHeader (21, 22) 1 [Str "Q"]; DPara (23, 24) [Str "quoted"]; DBList [[DPara (25, 26) [Str "in quote"]]]];
   DHeader (27, 28) 2 [Str "Sec"];
   DCode (29, 32) (Some "rust") "fn
";
   DRule (33, 34)].
Definition ex_tree : tree := tmap (norm_node ex_ctx) (spec_tree ex_key ex_blocks).
Definition ex_written : list gblock := project (key_parent ex_key) ex_tree.

Example ex_written_text :
  tree_to_markdown ex_opts [] (key_parent ex_key) ex_tree =
"# Top

alpha *beta* [Title A](a.md) `c`

[Title A](a.md)

[[../x]]

- one
  1.  sub

  2.  sub two

      more

      ------------------------------------------------------------------------
- two **bold**
  ```
  x
  y
  ```

> # Q
>
> quoted
>
> - in quote

## Sec

``` rust
fn
```

------------------------------------------------------------------------
".
Proof. vm_compute. reflexivity. Qed.

Example ex_in_class :
  reparse_safe ex_opts ex_written = true /\ settled ex_ctx (key_parent ex_key) ex_opts ex_written = true.
Proof. split; vm_compute; reflexivity. Qed.

(* the specification's answer for the example: blocks with the line ranges of the text above *)
Example ex_rr :
  rr ex_opts ex_written =
  [DHeader (0, 1) 1 [Str "Top"];
   DPara (2, 3) [Str "alpha "; Emph [Str "beta"]; Str " "; Link "a.md" "" Regular [Str "Title A"]; Str " "; Code "c"];
   DPara (4, 5) [Link "a.md" "" Regular [Str "Title A"]];
   DPara (6, 7) [Link "../x" "" WikiLink [Str "../x"]];
   DBList [[DPara (8, 9) [Str "one"];
            DOList [[DPara (9, 10) [Str "sub"]];
                    [DPara (11, 12) [Str "sub two"]; DPara (13, 14) [Str "more"]; DRule (15, 16)]]];
           [DPara (16, 17) [Str "two "; Strong [Str "bold"]]; DCode (17, 20) None "x
y
"]];
   DQuote (22, 27) [DHeader (22, 23) 1 [Str "Q"]; DPara (24, 25) [Str "quoted"]; DBList [[DPara (26, 27) [Str "in quote"]]]];
   DHeader (28, 29) 2 [Str "Sec"];
   DCode (30, 32) (Some "rust") "fn
";
   DRule (34, 35)].
Proof. vm_compute. reflexivity. Qed.

Example ex_fixpoint :
  project (key_parent ex_key) (tmap (norm_node ex_ctx) (spec_tree ex_key (rr ex_opts ex_written))) = ex_written.
Proof. apply fixpoint_blocks; apply ex_in_class. Qed.

Example ex_levels : hlv (rr ex_opts ex_written) = [1; 2] /\ flat_map dctx (rr ex_opts ex_written) <> [].
Proof. split; vm_compute; [reflexivity | discriminate]. Qed.

(* items without text: a quote, a rule (written in asterisks), a code block, a list that more blocks follow,
   each right after the marker; the line without text of these items is not written *)
Definition ex2_blocks : list dblock :=
  [DHeader (0, 1) 1 [Str "T"];
   DBList [[DQuote (2, 3) [DPara (2, 3) [Str "q"]]];
           [DRule (3, 4)];
           [DCode (4, 6) None "c
"];
           [DBList [[DPara (7, 8) [Str "x"]]]; DCode (8, 10) None "d
"]]].
Definition ex2_tree : tree := tmap (norm_node ex_ctx) (spec_tree ex_key ex2_blocks).
Definition ex2_written : list gblock := project (key_parent ex_key) ex2_tree.

Example ex2_written_blocks :
  ex2_written =
  [GHeader 1 [Str "T"];
   GBList [[GPlain []; GQuote [GPara [Str "q"]]];
           [GPlain []; GRule];
           [GPlain []; GCode None "c
"];
           [GPlain []; GBList [[GPlain [Str "x"]]]; GCode None "d
"]]].
Proof. vm_compute. reflexivity. Qed.

Example ex2_written_text :
  tree_to_markdown ex_opts [] (key_parent ex_key) ex2_tree =
"# T

- > q
- ************************************************************************
- ```
  c
  ```
- - x
  ```
  d
  ```
".
Proof. vm_compute. reflexivity. Qed.

Example ex2_in_class :
  reparse_safe ex_opts ex2_written = true /\ settled ex_ctx (key_parent ex_key) ex_opts ex2_written = true.
Proof. split; vm_compute; reflexivity. Qed.

Example ex2_rr : rr ex_opts ex2_written = ex2_blocks.
Proof. vm_compute. reflexivity. Qed.

Example ex2_fixpoint :
  project (key_parent ex_key) (tmap (norm_node ex_ctx) (spec_tree ex_key (rr ex_opts ex2_written))) = ex2_written.
Proof. apply fixpoint_blocks; apply ex2_in_class. Qed.

(* not every first-pass output is settled: text left in two pieces by a soft break is re-read in one
   piece (the written text is the same, the blocks are not) *)
Example ex_unsettled :
  let g := [GPara [Str "a"; Str " "; Str "b"]] in
  reparse_safe ex_opts g = true /\ settled ex_ctx "" ex_opts g = false /\
  map (gagain ex_ctx "" ex_opts) g = [GPara [Str "a b"]].
Proof. repeat split; vm_compute; reflexivity. Qed.

(* ---------- two clauses of [reparse_safe] are needed: what the REAL reader returned (observed with the
   harness on the text the model writes for [g]; the inputs are in harness/corpus/NORM.jsonl) ------------- *)

(* heading depth 7 (reachable after list -> sections): `####### x` is a paragraph to pulldown *)
Definition depth7_written : list gblock := [GHeader 7 [Str "x"]].
Definition depth7_observed : list dblock := [DPara (0, 1) [Str "####### x"]].
Theorem reparse_depth7_refuted :
  fst (blocks_md ex_opts LFS [] depth7_written) = "####### x" +++ LFS /\
  reparse_safe ex_opts depth7_written = false /\
  reparse_safe ex_opts [GHeader 6 [Str "x"]] = true /\
  rr ex_opts depth7_written <> depth7_observed.
Proof. repeat split; try (vm_compute; reflexivity). vm_compute. discriminate. Qed.

(* ---------- what a list written tight cannot hold (Project.is_sparse, GraphBlock::is_sparce_list since the
   repair of F-TIGHTTAIL): the clauses that [reparse_safe] used to carry for tight items, as theorems ------------- *)

Lemma tight_item its it : is_sparse its = false -> In it its ->
  length (filter is_paragraph it) <= 1 /\ has_absorbed it = false.
Proof.
  unfold is_sparse. intros H Hin.
  assert (E : (Nat.ltb 1 (length (filter is_paragraph it)) || has_absorbed it) = false).
  { destruct (Nat.ltb 1 (length (filter is_paragraph it)) || has_absorbed it) eqn:E; [|reflexivity].
    assert (X : existsb (fun item => Nat.ltb 1 (length (filter is_paragraph item)) || has_absorbed item) its = true)
      by (apply existsb_exists; exists it; auto).
    congruence. }
  apply Bool.orb_false_iff in E as [E1 E2]. apply Nat.ltb_ge in E1. auto.
Qed.

Definition is_gquote (b : gblock) : bool := match b with GQuote _ => true | _ => false end.
Definition is_grule_or_table (b : gblock) : bool := match b with GRule | GTable _ _ _ => true | _ => false end.
Definition has_text (b : gblock) : bool := match b with GPlain (_ :: _) | GPara (_ :: _) => true | _ => false end.
(* two blocks in a row somewhere in [l] that satisfy [p] and [q] *)
Fixpoint in_a_row (p q : gblock -> bool) (l : list gblock) : bool :=
  match l with
  | a :: ((b :: _) as r) => (p a && q b) || in_a_row p q r
  | _ => false
  end.

Lemma absorbed_in_a_row p q l :
  (forall a b, p a = true -> q b = true -> absorbs a b = true) -> has_absorbed l = false -> in_a_row p q l = false.
Proof.
  intros Hpq. induction l as [|a [|b r] IH]; intros H; try reflexivity.
  change (has_absorbed (a :: b :: r)) with (absorbs a b || has_absorbed (b :: r)) in H.
  apply Bool.orb_false_iff in H as [H1 H2].
  change (in_a_row p q (a :: b :: r)) with ((p a && q b) || in_a_row p q (b :: r)).
  rewrite (IH H2), Bool.orb_false_r. destruct (p a) eqn:Ea; [|reflexivity]. destruct (q b) eqn:Eb; [|reflexivity].
  now rewrite (Hpq a b Ea Eb) in H1.
Qed.

(* in a list written tight no item holds a rule or a table right under text, nor two quotes in a row, and the
   text of an item is its only paragraph *)
Theorem tight_list_calm its it : is_sparse its = false -> In it its ->
  in_a_row has_text is_grule_or_table it = false /\ in_a_row is_gquote is_gquote it = false /\
  length (filter is_paragraph it) <= 1.
Proof.
  intros H Hin. destruct (tight_item its it H Hin) as [Hp Ha]. repeat split; [| |exact Hp].
  - apply absorbed_in_a_row; [|exact Ha]. intros a b Ea Eb.
    destruct a as [[|? ?]|[|? ?]| | | | | | |]; try discriminate Ea; destruct b; try discriminate Eb; reflexivity.
  - apply absorbed_in_a_row; [|exact Ha]. intros a b Ea Eb.
    destruct a; try discriminate Ea; destruct b; try discriminate Eb; reflexivity.
Qed.

(* the witness of F-TIGHTTAIL.  As found the list was written tight, `- a` with the rule on the next line, which is
   a setext underline to pulldown: the reader returned [DBList [[DHeader (0, 2) 2 [Str "a"]]]], the rule was gone
   and the clause "no rule under the text of a tight item" kept the shape out of [reparse_safe].  Now the list is
   written sparse, is in the class, and is re-read as what it is (observed: harness/corpus/NORM.jsonl) *)
Definition tightrule_written : list gblock := [GBList [[GPlain [Str "a"]; GRule]]].
Definition tightrule_observed : list dblock := [DBList [[DPara (0, 1) [Str "a"]; DRule (2, 3)]]].
Theorem reparse_tight_rule_repaired :
  fst (blocks_md ex_opts LFS [] tightrule_written) = "- a" +++ LFS +++ LFS +++ "  " +++ srepeat "-" 72 +++ LFS /\
  reparse_safe ex_opts tightrule_written = true /\
  rr ex_opts tightrule_written = tightrule_observed /\
  project "" (tmap (norm_node ex_ctx) (spec_tree "a" (rr ex_opts tightrule_written))) = tightrule_written.
Proof. repeat split; vm_compute; reflexivity. Qed.

(* two quotes in a row in an item: written with a blank line between them, re-read as two quotes *)
Definition tightquotes_written : list gblock :=
  [GBList [[GPlain [Str "a"]; GQuote [GPara [Str "b"]]; GQuote [GPara [Str "c"]]]]].
Theorem reparse_tight_quotes_repaired :
  fst (blocks_md ex_opts LFS [] tightquotes_written) =
    "- a" +++ LFS +++ LFS +++ "  > b" +++ LFS +++ LFS +++ "  > c" +++ LFS /\
  reparse_safe ex_opts tightquotes_written = true /\
  rr ex_opts tightquotes_written =
    [DBList [[DPara (0, 1) [Str "a"]; DQuote (2, 3) [DPara (2, 3) [Str "b"]]; DQuote (4, 5) [DPara (4, 5) [Str "c"]]]]].
Proof. repeat split; vm_compute; reflexivity. Qed.

Print Assumptions reparse_levels.
Print Assumptions reparse_levels_nested.
Print Assumptions reparse_conserves.
Print Assumptions second_pass_tree.
Print Assumptions fixpoint_blocks.
Print Assumptions fixpoint_text.
Print Assumptions tight_list_calm.
Print Assumptions reparse_tight_rule_repaired.
