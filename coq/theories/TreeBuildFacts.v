(* TreeBuildFacts.v — the tree -> arena -> tree round trip (C17 / C20 / C08: patch graphs built
   from trees).  About the transliteration TreeBuild.v of `GraphBuilder::insert_from_iter` driven
   by a `TreeIter`:

   collect_build        for every tree in the class [buildable] (decidable; exactly the trees on
                        which the builder does not panic, see build_panics), every key and every
                        well-formed arena: build_key_from_iter returns normally, the arena is again
                        well formed, every older slot is untouched, the arena grew by exactly the
                        nodes of [built_tree key t], and `collect_raw` of the new root returns
                        [label (built_tree key t) (length a)].
   built_tree           = Document key over [normf [t]]: ids forgotten; a Document node is replaced
                        by what its children become and the siblings that FOLLOW a Document node are
                        dropped; everything else (also empty lists / quotes / sections) kept as is.
                        built_tree_doc_free: for a tree Document _ kids without further Document
                        nodes, built_tree key t = Document key (kids without ids).
   build_panics         outside the class the builder panics ("cant set child").
   build_collect_build  idempotence.
   squash_cli_roundtrip the text exported from the built graph is the rendering of the tree.

   Method: the iterator position denotes the forest "node here and its following siblings"
   ([den]); child() / next() are children-of-head / tail on it.  On that forest the builder
   *appends* [normf forest] at the cursor in the sense of SectionsRefine.AppT (nodes laid in
   pre-order) and relates the arenas by BuilderWF.Grow (well formed, frame, only live
   non-document nodes added): one induction on the size of the forest for both. *)
From IweV Require Import Str Text Ast RelPath Arena ArenaWF ArenaFacts Project Library SectionsSpec BuilderFacts
  Check_Norm NormFacts SectionsFacts SectionsRefine ForestFacts BuilderWF Determinism2 HistoryText Squash Rename TreeBuild.
From Coq Require Import Lia.
Local Open Scope string_scope.
Local Open Scope list_scope.

(* ---------- the forest an iterator position denotes ------------------------------------------ *)

(* in the forest [ts]: go to tree i, then down the path r; the result is the tree there and its
   following siblings *)
Fixpoint fat (ts : list tree) (i : nat) (r : list nat) {struct r} : list tree :=
  match r with
  | [] => skipn i ts
  | j :: r' => match nth_error ts i with Some c => fat (t_children c) j r' | None => [] end
  end.

Definition den (it : titer) : list tree := fat [ti_tree it] 0 (ti_path it).

Lemma skipn_nth {A} (l : list A) : forall i,
  skipn i l = match nth_error l i with Some c => c :: skipn (S i) l | None => [] end.
Proof.
  induction l as [|x l IH]; intros [|i]; try reflexivity. cbn [nth_error]. rewrite <- IH. reflexivity.
Qed.

Lemma tl_skipn {A} (l : list A) : forall i, tl (skipn i l) = skipn (S i) l.
Proof. intros i. rewrite (skipn_nth l i). destruct (nth_error l i) eqn:E; [reflexivity|].
  symmetry. apply skipn_all2. apply nth_error_None in E. lia. Qed.

Lemma fat_head ts : forall r i,
  hd_error (fat ts i r) = match nth_error ts i with Some c => tree_at c r | None => None end.
Proof.
  intros r; revert ts. induction r as [|j r IH]; intros ts i.
  - cbn [fat tree_at]. rewrite (skipn_nth ts i). destruct (nth_error ts i); reflexivity.
  - cbn [fat tree_at]. destruct (nth_error ts i) as [c|]; [|reflexivity]. apply IH.
Qed.

Lemma fat_child ts : forall r i,
  fat ts i (r ++ [0]) = match fat ts i r with c :: _ => t_children c | [] => [] end.
Proof.
  intros r; revert ts. induction r as [|j r IH]; intros ts i.
  - cbn [app fat]. rewrite (skipn_nth ts i). destruct (nth_error ts i); reflexivity.
  - cbn [app fat]. destruct (nth_error ts i) as [c|]; [|reflexivity]. apply IH.
Qed.

Lemma fat_next ts : forall r i j, fat ts i (r ++ [S j]) = tl (fat ts i (r ++ [j])).
Proof.
  intros r; revert ts. induction r as [|k r IH]; intros ts i j.
  - cbn [app fat]. destruct (nth_error ts i) as [c|]; [|reflexivity]. now rewrite tl_skipn.
  - cbn [app fat]. destruct (nth_error ts i) as [c|]; [|reflexivity]. apply IH.
Qed.

Lemma ti_node_den it : ti_node it = match den it with c :: _ => Some (t_node c) | [] => None end.
Proof.
  unfold ti_node, den. pose proof (fat_head [ti_tree it] (ti_path it) 0) as H. cbn [nth_error] in H.
  destruct (fat [ti_tree it] 0 (ti_path it)) as [|c l]; cbn [hd_error] in H; now rewrite <- H.
Qed.

Lemma ti_child_den it c l : den it = c :: l -> exists ch, ti_child it = Some ch /\ den ch = t_children c.
Proof.
  intros E. unfold ti_child. rewrite ti_node_den, E. eexists. split; [reflexivity|].
  unfold den in *. cbn [ti_tree ti_path]. now rewrite fat_child, E.
Qed.

Lemma ti_next_den it c l : den it = c :: l ->
  match ti_next it with Some nx => den nx = l | None => l = [] end.
Proof.
  intros E. unfold ti_next. rewrite ti_node_den, E.
  destruct (ti_path it) as [|x p] eqn:Ep using rev_ind.
  - cbn [rev]. unfold den in E. rewrite Ep in E. cbn in E. now inversion E.
  - clear IHp. rewrite rev_unit. unfold den in *. cbn [ti_tree ti_path]. rewrite Ep in E.
    rewrite removelast_last, fat_next, E. reflexivity.
Qed.

Lemma ti_is_document_den it :
  ti_is_document it = match den it with T _ (NDocument _) _ :: _ => true | _ => false end.
Proof.
  unfold ti_is_document. rewrite ti_node_den. destruct (den it) as [|[i nd ts] l]; [reflexivity|].
  cbn [t_node]. destruct nd; reflexivity.
Qed.

(* ---------- the normal form -------------------------------------------------------------------- *)

Lemma norm_cons_T i nd ts rest :
  norm_cons (T i nd ts) rest =
  match nd with NDocument _ => normf ts | _ => T None nd (normf ts) :: rest end.
Proof.
  cbn [norm_cons].
  assert (E : (fix go (l : list tree) : list tree :=
                 match l with [] => [] | c :: r => norm_cons c (go r) end) ts = normf ts)
    by (induction ts as [|c r IH]; [reflexivity | cbn [normf]; now rewrite IH]).
  rewrite E. reflexivity.
Qed.

Lemma normf_cons i nd ts rest :
  normf (T i nd ts :: rest) =
  match nd with NDocument _ => normf ts | _ => T None nd (normf ts) :: normf rest end.
Proof. cbn [normf]. apply norm_cons_T. Qed.

Lemma shape_ok_T i nd ts :
  shape_ok (T i nd ts) = (node_insertable nd || match ts with [] => true | _ => false end) && forallb shape_ok ts.
Proof.
  cbn [shape_ok]. reflexivity.
Qed.

Lemma tree_nodes_tsz t : tree_nodes t = tsz t.
Proof.
  induction t as [i nd ts IH] using tree_ind'. cbn [tree_nodes]. rewrite tsz_T. f_equal.
Qed.

(* ---------- one step --------------------------------------------------------------------------- *)

Lemma from_iter_S f first st it :
  from_iter (S f) first st it =
  let st := set_insert st first in
  if ti_is_document it then
    match ti_child it with
    | None => Panic "called `Option::unwrap()` on a `None` value"
    | Some c => from_iter f first st c
    end
  else
    match ti_node it with
    | None => Ok st
    | Some nd =>
        add_new_node_and st nd (fun b =>
          do b <- (match ti_child it with Some c => from_iter f true b c | None => Ok b end);
          match ti_next it with Some n => from_iter f false b n | None => Ok b end)
    end.
Proof. reflexivity. Qed.

(* add_node_and2 is add_node with the cursor left where it was and the closure run on the new node *)
Lemma add_node_and2_eq st k f s1 :
  add_node st k = Ok s1 ->
  add_node_and2 st k f =
  do inner <- f (B (b_arena s1) (b_cur s1) (insertable k) (b_map st));
  Ok (B (b_arena inner) (b_cur st) false (b_map st)).
Proof.
  unfold add_node, add_node_and2.
  destruct (if b_insert st then set_child_id (b_arena st) (b_cur st) (length (b_arena st))
            else set_next_id (b_arena st) (b_cur st) (length (b_arena st))) as [a'|s]; cbn [bind]; [|discriminate].
  intros H. inversion H; subst s1. reflexivity.
Qed.

Lemma add_new_node_and_eq st nd f :
  match nd with NDocument _ => False | _ => True end ->
  add_new_node_and st nd f = add_node_and2 st (node_gkind nd) f.
Proof. destruct nd; [contradiction | reflexivity ..]. Qed.

Lemma node_gkind_facts nd :
  match nd with NDocument _ => False | _ => True end ->
  is_emptyk (node_gkind nd) = false /\ is_dock (node_gkind nd) = false /\ kind_node (node_gkind nd) = Some nd.
Proof. destruct nd; [contradiction | cbn; auto ..]. Qed.

Lemma disciplined_J st : disciplined (b_arena st) (b_cur st) (b_insert st) -> J st.
Proof.
  intros (n & Hg & He & Hm). exists (g_kind n). unfold kind_at. rewrite Hg. split; [reflexivity|]. split; [exact He|].
  destruct (b_insert st); split; intros; try discriminate; tauto.
Qed.

Lemma tsz_fsz_cons i nd cs rest : fsz (T i nd cs :: rest) = S (fsz cs) + fsz rest.
Proof. cbn [fsz]. now rewrite tsz_T. Qed.

Lemma fsz_zero ts : fsz ts = 0 -> ts = [].
Proof. destruct ts as [|x r]; [reflexivity|]. cbn [fsz]. pose proof (tsz_pos x). lia. Qed.

(* ---------- the main induction ------------------------------------------------------------------ *)

(* what a run from cursor (cur, first) over the forest [ts] does to the arena *)
Definition Built (a : arena) (cur : nat) (first : bool) (ts : list tree) (a' : arena) : Prop :=
  (exists c' i', AppT a cur first (normf ts) a' c' i') /\ Grow a cur first a'.

Lemma from_iter_spec : forall n it fuel first st,
  fsz (den it) <= n -> fsz (den it) < fuel ->
  forallb shape_ok (normf (den it)) = true ->
  arena_ok (b_arena st) = true ->
  b_cur st < length (b_arena st) ->
  (normf (den it) <> [] -> disciplined (b_arena st) (b_cur st) first) ->
  exists st', from_iter fuel first st it = Ok st' /\
     b_cur st' = b_cur st /\ b_map st' = b_map st /\
     Built (b_arena st) (b_cur st) first (den it) (b_arena st').
Proof.
  induction n as [|n IH]; intros it fuel first st Hn Hfuel Hshape Hok Hcur Hdisc.
  - assert (E : den it = []) by (apply fsz_zero; lia).
    destruct fuel as [|f]; [lia|]. rewrite from_iter_S. cbv zeta.
    rewrite ti_is_document_den, ti_node_den, E. eexists. split; [reflexivity|].
    cbn [set_insert b_cur b_map b_arena normf]. split; [reflexivity|]. split; [reflexivity|]. split.
    + exists (b_cur st), first. apply AppT_nil.
    + now apply Grow_refl.
  - destruct fuel as [|f]; [lia|]. rewrite from_iter_S. cbv zeta.
    rewrite ti_is_document_den, ti_node_den.
    destruct (den it) as [|[i nd cs] rest] eqn:E.
    + eexists. split; [reflexivity|]. cbn [set_insert b_cur b_map b_arena normf].
      split; [reflexivity|]. split; [reflexivity|]. split.
      * exists (b_cur st), first. apply AppT_nil.
      * now apply Grow_refl.
    + destruct (ti_child_den it _ _ E) as (ch & Hch & Dch). cbn [t_children] in Dch.
      rewrite tsz_fsz_cons in Hn, Hfuel.
      rewrite normf_cons in Hshape, Hdisc. unfold Built. rewrite normf_cons.
      assert (Hnd : (exists k, nd = NDocument k) \/ match nd with NDocument _ => False | _ => True end)
        by (destruct nd; eauto).
      destruct Hnd as [[k ->]|Hnd].
      * (* a Document node: its children in its place, its following siblings never looked at *)
        rewrite Hch.
        destruct (IH ch f first (set_insert st first)) as (st' & H & Hc & Hm & HB);
          cbn [set_insert b_arena b_cur]; rewrite ?Dch; auto; try lia.
        exists st'. cbn [set_insert b_arena b_cur b_map] in Hc, Hm, HB. rewrite Dch in HB.
        split; [exact H|]. split; [exact Hc|]. split; [exact Hm | exact HB].
      * assert (Hnorm : match nd with NDocument _ => normf cs | _ => T None nd (normf cs) :: normf rest end
                        = T None nd (normf cs) :: normf rest) by (destruct nd; [contradiction | reflexivity ..]).
        rewrite Hnorm in *. clear Hnorm.
        replace (match nd with NDocument _ => true | _ => false end) with false by (destruct nd; [contradiction | reflexivity ..]).
        cbn [t_node]. rewrite (add_new_node_and_eq _ nd _ Hnd).
        destruct (node_gkind_facts nd Hnd) as (Hke & Hkd & Hkn).
        set (k := node_gkind nd) in *. set (st0 := set_insert st first).
        specialize (Hdisc ltac:(discriminate)).
        cbn [forallb] in Hshape. rewrite shape_ok_T in Hshape.
        apply Bool.andb_true_iff in Hshape as [Hs1 Hsrest]. apply Bool.andb_true_iff in Hs1 as [Hins Hscs].
        assert (HP : Pre st0) by (split; [exact Hok | exact Hdisc]).
        destruct (add_node_Moved st0 k HP Hke Hkd) as (s1 & Hadd & HM & Hnew & Hc1).
        destruct (add_node_App st0 k nd (disciplined_J st0 Hdisc) Hke Hkd Hkn) as (s1' & Hadd' & HA & _ & Hi1 & _).
        rewrite Hadd in Hadd'. inversion Hadd'; subst s1'. clear Hadd'.
        rewrite (add_node_and2_eq st0 k _ s1 Hadd). cbn [st0 set_insert b_map b_cur b_arena] in *.
        set (a := b_arena st) in *. set (cur := b_cur st) in *. set (a1 := b_arena s1) in *.
        set (new := b_cur s1) in *.
        destruct HM as (((Ok1 & Fr1 & Nw1) & _ & _) & _ & _). cbn [b_arena b_cur b_insert] in Ok1, Fr1, Nw1.
        fold a cur a1 in Ok1, Fr1, Nw1.
        assert (Hnewlt : new < length a1) by (eapply get_lt; exact Hnew).
        (* the children, below the new node *)
        rewrite Hch.
        destruct (IH ch f true (B a1 new (insertable k) (b_map st))) as (s2 & H2 & Hc2 & _ & (c2 & i2 & A2) & G2);
          cbn [b_arena b_cur]; rewrite ?Dch; auto; try lia.
        { intros Hne. exists (GN k (Some cur) None None). split; [exact Hnew|]. cbn [g_kind g_child]. split; [exact Hke|].
          split; [|reflexivity]. unfold node_insertable in Hins. fold k in Hins.
          destruct (insertable k); [reflexivity|]. cbn [orb] in Hins. destruct (normf cs); [congruence | discriminate]. }
        rewrite Dch in A2. rewrite H2. cbn [bind b_arena b_cur] in *. set (a2 := b_arena s2) in *.
        destruct G2 as (Ok2 & Fr2 & Nw2).
        assert (Hlen2 : length a1 <= length a2) by (destruct Fr2 as [L _]; exact L).
        (* the following siblings, after the new node *)
        assert (Hnext : exists s3,
                  (match ti_next it with Some nx => from_iter f false s2 nx | None => Ok s2 end) = Ok s3 /\
                  Built a2 new false rest (b_arena s3)).
        { pose proof (ti_next_den it _ _ E) as Hnx. destruct (ti_next it) as [nx|].
          - destruct (IH nx f false s2) as (s3 & H3 & _ & _ & HB3); rewrite ?Hnx, ?Hc2; fold a2; auto; try lia.
            { intros Hne. destruct Fr2 as [_ F2]. destruct (F2 new _ Hnew) as (n' & Gn' & Kn' & _ & _ & Sn').
              exists n'. split; [exact Gn'|]. rewrite Kn', Sn'. cbn [g_kind g_next]. auto. }
            exists s3. rewrite ?Hnx, ?Hc2 in HB3. split; [exact H3 | exact HB3].
          - subst rest. exists s2. split; [reflexivity|]. split.
            + exists new, false. apply AppT_nil.
            + now apply Grow_refl. }
        destruct Hnext as (s3 & H3 & (c3 & i3 & A3) & G3). rewrite H3. cbn [bind].
        eexists. split; [reflexivity|]. cbn [b_cur b_map b_arena]. split; [reflexivity|]. split; [reflexivity|].
        unfold App in HA. cbn [b_arena b_cur b_insert] in HA. fold a cur a1 new in HA. rewrite Hi1 in HA.
        split.
        -- exists c3, i3. change (T None nd (normf cs) :: normf rest) with ([T None nd (normf cs)] ++ normf rest).
           eapply AppT_trans; [exact Hcur | | exact A3].
           eapply AppT_wrap; [exact Hcur | exact HA | exact A2].
        -- eapply Grow_trans; [eapply Grow_trans; [split; [exact Ok1 | split; [exact Fr1 | exact Nw1]] | split; [exact Ok2 | split; [exact Fr2 | exact Nw2]] |] | exact G3 |].
           ++ left. rewrite Hc1. apply le_n.
           ++ left. rewrite Hc1. apply le_n.
Qed.

(* ---------- from a fresh root -------------------------------------------------------------------- *)

(* a forest appended below a fresh document root: the document tree is laid at the root *)
Lemma root_laid a key ts a' c i :
  AppT (a ++ [GN (KDocument key) None None None]) (length a) true ts a' c i ->
  laid a' (T None (NDocument key) ts) (length a) None /\ length a' = length a + S (fsz ts).
Proof.
  intros A. set (doc := GN (KDocument key) None None None) in *.
  rewrite laid_T. destruct ts as [|x r].
  - destruct A as (-> & _). split; [|rewrite app_length; cbn; lia].
    exists doc. rewrite get_app_new. cbn. auto.
  - remember (x :: r) as ts eqn:E. assert (N : ts <> []) by (subst; discriminate).
    apply (AppT_ne _ _ _ _ _ _ _ N) in A. destruct A as (L & F & Sl & D & _).
    rewrite app_length in *. cbn [length] in *. split; [|lia].
    exists (slot_set doc true (length a + 1)). split; [apply Sl, get_app_new|].
    cbn [slot_set doc g_kind g_next g_child kind_node].
    repeat split.
    + destruct ts; [congruence|]. f_equal. lia.
    + now replace (S (length a)) with (length a + 1) by lia.
Qed.

Lemma den_root t : den (TI t []) = [t].
Proof. reflexivity. Qed.

(* the run of build_key_from_iter in terms of Built *)
Lemma build_key_from_iter_built (a : arena) (key : string) (t : tree) :
  arena_ok a = true -> buildable t = true ->
  exists st, build_key_from_iter a key t = Ok st /\
    Built (a ++ [GN (KDocument key) None None None]) (length a) true [t] (b_arena st).
Proof.
  intros Hok Hb. unfold build_key_from_iter, insert_from_iter, iter_fuel.
  destruct (build_key_wf a key Hok) as [O D].
  destruct (from_iter_spec (fsz [t]) (TI t []) (S (tree_nodes t)) true (build_key a key)) as (st & H & _ & _ & HB).
  - apply le_n.
  - change (den (TI t [])) with [t]. cbn [fsz]. pose proof (tree_nodes_tsz t). lia.
  - exact Hb.
  - exact O.
  - cbn [build_key b_arena b_cur]. rewrite app_length. cbn. lia.
  - intros _. exact D.
  - exists st. split; [exact H | exact HB].
Qed.

(* the tree laid in the arena (kept separate: title, descendants and any node function can be read off it) *)
Lemma build_tree_laid (a : arena) (key : string) (t : tree) :
  arena_ok a = true -> buildable t = true ->
  exists st, build_key_from_iter a key t = Ok st /\
    laid (b_arena st) (built_tree key t) (length a) None /\
    length (b_arena st) = length a + tsz (built_tree key t).
Proof.
  intros Hok Hb. destruct (build_key_from_iter_built a key t Hok Hb) as (st & H & (c & i & A) & _).
  exists st. split; [exact H|]. unfold built_tree. rewrite tsz_T. now apply (root_laid a key _ _ c i).
Qed.

(* HEADLINE 1 *)
Theorem collect_build (a : arena) (key : string) (t : tree) :
  arena_ok a = true -> buildable t = true ->
  exists st, build_key_from_iter a key t = Ok st /\
    arena_ok (b_arena st) = true /\
    firstn (length a) (b_arena st) = a /\
    length (b_arena st) = length a + tsz (built_tree key t) /\
    (exists n, get (b_arena st) (length a) = Some n /\ g_kind n = KDocument key /\ g_prev n = None /\ g_next n = None) /\
    (forall id n, length a < id -> get (b_arena st) id = Some n ->
         is_emptyk (g_kind n) = false /\ is_dock (g_kind n) = false) /\
    collect_raw (b_arena st) (length a) = Ok (Some (label (built_tree key t) (length a))).
Proof.
  intros Hok Hb. destruct (build_key_from_iter_built a key t Hok Hb) as (st & H & (c & i & A) & O & [L F] & N).
  destruct (root_laid a key _ _ c i A) as [Hl Hlen].
  exists st. split; [exact H|]. split; [exact O|]. split; [|split; [|split; [|split]]].
  - apply firstn_of_get. intros id n Hg. pose proof (get_lt _ _ _ Hg) as Hlt.
    destruct (F id n) as (n' & G' & _ & _ & E & _); [now rewrite get_app_l|].
    rewrite G'. f_equal. apply E. lia.
  - unfold built_tree. rewrite tsz_T. exact Hlen.
  - destruct (F (length a) _ (get_app_new a _)) as (n' & G' & K' & P' & _ & S').
    exists n'. cbn [g_kind g_prev g_next] in *. auto.
  - intros id n Hlt Hg. apply (N id n); [|exact Hg]. rewrite app_length. cbn. lia.
  - unfold collect_raw. apply (collect_read _ _ _ _ _ Hl). lia.
Qed.
Print Assumptions collect_build.

Corollary tree_read_back_label (a : arena) (key : string) (t : tree) :
  arena_ok a = true -> buildable t = true ->
  tree_read_back a key t = Ok (Some (label (built_tree key t) (length a))).
Proof.
  intros Hok Hb. destruct (collect_build a key t Hok Hb) as (st & H & _ & _ & _ & _ & _ & C).
  unfold tree_read_back. rewrite H. exact C.
Qed.

(* ---------- facts about the normal form ---------------------------------------------------------- *)

Lemma norm_cons_label t : forall k rest, norm_cons (label t k) rest = norm_cons t rest.
Proof.
  induction t as [i nd ts IH] using tree_ind'. intros k rest. rewrite label_T, !norm_cons_T.
  assert (E : forall j, normf (labelf ts j) = normf ts).
  { induction IH as [|x r Hx _ IHr]; intros j; cbn [labelf normf]; [reflexivity|]. now rewrite Hx, IHr. }
  now rewrite E.
Qed.

Lemma normf_labelf ts : forall k, normf (labelf ts k) = normf ts.
Proof. induction ts as [|x r IH]; intros k; cbn [labelf normf]; [reflexivity|]. now rewrite norm_cons_label, IH. Qed.

Lemma norm_cons_norm t : forall rest, normf (norm_cons t rest) = norm_cons t (normf rest).
Proof.
  induction t as [i nd ts IH] using tree_ind'. intros rest. rewrite !norm_cons_T.
  assert (E : normf (normf ts) = normf ts).
  { induction IH as [|x r Hx _ IHr]; cbn [normf]; [reflexivity|]. now rewrite Hx, IHr. }
  destruct nd; try exact E; rewrite normf_cons, E; reflexivity.
Qed.

(* what the builder produces, it reproduces *)
Lemma normf_idem ts : normf (normf ts) = normf ts.
Proof. induction ts as [|x r IH]; cbn [normf]; [reflexivity|]. now rewrite norm_cons_norm, IH. Qed.

Lemma doc_free_T i nd ts :
  doc_free (T i nd ts) = match nd with NDocument _ => false | _ => true end && forallb doc_free ts.
Proof. reflexivity. Qed.

Lemma norm_cons_doc_free t : doc_free t = true -> forall rest, norm_cons t rest = erase t :: rest.
Proof.
  induction t as [i nd ts IH] using tree_ind'. intros H rest. rewrite doc_free_T in H.
  apply Bool.andb_true_iff in H as [Hnd Hts]. rewrite norm_cons_T. cbn [erase].
  assert (E : normf ts = map erase ts).
  { induction IH as [|x r Hx _ IHr]; cbn [normf map forallb] in *; [reflexivity|].
    apply Bool.andb_true_iff in Hts as [H1 H2]. now rewrite (Hx H1), (IHr H2). }
  rewrite E. destruct nd; try reflexivity. discriminate.
Qed.

(* without Document nodes nothing is dropped or spliced: only the ids go *)
Lemma normf_doc_free ts : forallb doc_free ts = true -> normf ts = map erase ts.
Proof.
  induction ts as [|x r IH]; cbn [forallb normf map]; [reflexivity|]. intros H.
  apply Bool.andb_true_iff in H as [H1 H2]. now rewrite (norm_cons_doc_free x H1), (IH H2).
Qed.

Definition inner_doc_free (t : tree) : bool :=
  forallb doc_free (match t with T _ (NDocument _) kids => kids | _ => [t] end).

(* the documented normalisation on the trees `collect` / `squash` return (a Document root over
   Document-free children): the root takes the new key, the ids are renumbered, nothing else *)
Theorem built_tree_doc_free key i k kids :
  forallb doc_free kids = true ->
  built_tree key (T i (NDocument k) kids) = T None (NDocument key) (map erase kids).
Proof. intros H. unfold built_tree. rewrite normf_cons. now rewrite (normf_doc_free kids H). Qed.

Theorem built_tree_doc_free_any key t :
  doc_free t = true -> built_tree key t = T None (NDocument key) [erase t].
Proof. intros H. unfold built_tree. cbn [normf]. now rewrite (norm_cons_doc_free t H). Qed.

(* an inner Document node: its siblings after it are lost *)
Theorem built_tree_drops_after_document :
  exists t, buildable t = true /\
    t = T None (NSection [Str "s"]) [T None (NDocument "d") [T None (NLeaf [Str "kept"]) []]; T None (NLeaf [Str "lost"]) []] /\
    tree_read_back [] "k" t =
      Ok (Some (T (Some 0) (NDocument "k") [T (Some 1) (NSection [Str "s"]) [T (Some 2) (NLeaf [Str "kept"]) []]])).
Proof. eexists. split; [|split; [reflexivity|]]; vm_compute; reflexivity. Qed.

(* ---------- labels and erasure -------------------------------------------------------------------- *)

Lemma tsz_erase t : tsz (erase t) = tsz t.
Proof.
  induction t as [i nd ts IH] using tree_ind'. cbn [erase]. rewrite !tsz_T. f_equal.
  induction IH as [|x r Hx _ IHr]; cbn [map fsz]; [reflexivity | now rewrite Hx, IHr].
Qed.

Lemma label_erase t : forall k, label (erase t) k = label t k.
Proof.
  induction t as [i nd ts IH] using tree_ind'. intros k. cbn [erase]. rewrite !label_T. f_equal.
  generalize (S k) as j. induction IH as [|x r Hx _ IHr]; intros j; cbn [map labelf]; [reflexivity|].
  now rewrite Hx, tsz_erase, IHr.
Qed.

Lemma label_label t i j : label (label t i) j = label t j.
Proof. now rewrite <- (label_erase (label t i)), erase_label, label_erase. Qed.

Lemma erase_normf ts : map erase (normf ts) = normf ts.
Proof.
  assert (P : forall t rest, map erase rest = rest -> map erase (norm_cons t rest) = norm_cons t rest).
  { induction t as [i nd us IH] using tree_ind'. intros rest Hr. rewrite norm_cons_T.
    assert (E : map erase (normf us) = normf us).
    { induction IH as [|x r Hx _ IHr]; cbn [normf]; [reflexivity|]. now apply Hx. }
    destruct nd; try exact E; cbn [map erase]; now rewrite E, Hr. }
  induction ts as [|x r IH]; cbn [normf]; [reflexivity|]. now apply P.
Qed.

(* ---------- HEADLINE 2: idempotence ---------------------------------------------------------------- *)

Lemma built_tree_label key key' t n : built_tree key' (label (built_tree key t) n) = built_tree key' t.
Proof.
  unfold built_tree. rewrite label_T, normf_cons, normf_labelf. now rewrite normf_idem.
Qed.

Lemma buildable_label key t n : buildable t = true -> buildable (label (built_tree key t) n) = true.
Proof.
  unfold buildable. intros H. change (normf [label (built_tree key t) n]) with (t_children (built_tree key (label (built_tree key t) n))).
  rewrite built_tree_label. exact H.
Qed.

(* collect (build (collect (build t))) = collect (build t): the tree read back from a built arena is
   in the class again, and building it anew (in any well-formed arena [b], under any key) reads
   back as the same tree renumbered from the new root; in an arena of the same length, under the
   same key, as the very same tree *)
Theorem build_collect_build (a b : arena) (key key' : string) (t t1 : tree) :
  arena_ok a = true -> arena_ok b = true -> buildable t = true ->
  tree_read_back a key t = Ok (Some t1) ->
  buildable t1 = true /\
  tree_read_back b key' t1 = Ok (Some (label (built_tree key' t) (length b))) /\
  (key' = key -> tree_read_back b key' t1 = Ok (Some (label t1 (length b)))) /\
  (key' = key -> length b = length a -> tree_read_back b key' t1 = Ok (Some t1)).
Proof.
  intros Ha Hb Ht H1. rewrite (tree_read_back_label a key t Ha Ht) in H1.
  assert (E : t1 = label (built_tree key t) (length a)) by congruence. subst t1. clear H1.
  pose proof (buildable_label key t (length a) Ht) as Ht1.
  split; [exact Ht1|].
  rewrite (tree_read_back_label b key' _ Hb Ht1), built_tree_label.
  split; [reflexivity|]. split.
  - intros ->. now rewrite label_label.
  - intros -> ->. reflexivity.
Qed.
Print Assumptions build_collect_build.

(* ---------- reading the built tree with a title table; exporting it ------------------------------- *)

(* Graph::collect (GraphNodePointer::node refreshes link texts from the title table [ctx]) *)
Theorem collect_built (ctx : titles) (a : arena) (key : string) (t : tree) :
  arena_ok a = true -> buildable t = true ->
  exists st, build_key_from_iter a key t = Ok st /\
    collect ctx (b_arena st) (length a) = Ok (label (tmap (norm_node ctx) (built_tree key t)) (length a)).
Proof.
  intros Hok Hb. destruct (build_tree_laid a key t Hok Hb) as (st & H & Hl & Hlen).
  exists st. split; [exact H|]. unfold collect.
  rewrite (collect_fuel_ext _ (fun _ k0 => option_map (norm_node ctx) (kind_node k0)))
    by (intros _ k0; apply pointer_node_norm).
  rewrite (collect_laid _ _ _ _ _ _ Hl) by lia. cbn [bind]. now rewrite label_tmap.
Qed.

Lemma project_erase dir t hl : project_node dir hl (erase t) = project_node dir hl t.
Proof.
  rewrite <- (proj1 (project_label dir (erase t)) hl 0), label_erase. apply (proj1 (project_label dir t)).
Qed.

Lemma tmap_erase f t : tmap f (erase t) = erase (tmap f t).
Proof.
  induction t as [i nd ts IH] using tree_ind'. cbn [erase tmap]. f_equal. rewrite !map_map.
  induction IH as [|x r Hx _ IHr]; cbn [map]; [reflexivity | now rewrite Hx, IHr].
Qed.

(* node functions that keep Document nodes (every title refresh does) *)
Definition keeps_doc (f : node -> node) : Prop := forall k, f (NDocument k) = NDocument k.

Lemma norm_node_keeps_doc ctx : keeps_doc (norm_node ctx).
Proof. intros k. reflexivity. Qed.

(* for a tree without inner Document nodes, the blocks projected from the built tree are those of the tree *)
Lemma project_built dir f key t :
  keeps_doc f -> inner_doc_free t = true ->
  project dir (tmap f (built_tree key t)) = project dir (tmap f t).
Proof.
  intros Hf Hd. unfold project, inner_doc_free in *.
  assert (K : forall kids hl, flat_map (project_node dir hl) (map (tmap f) (map erase kids)) =
                              flat_map (project_node dir hl) (map (tmap f) kids)).
  { intros kids hl. induction kids as [|x r IH]; cbn [map flat_map]; [reflexivity|].
    now rewrite tmap_erase, project_erase, IH. }
  destruct t as [i nd kids].
  assert (Hnd : (exists k, nd = NDocument k) \/ match nd with NDocument _ => False | _ => True end)
    by (destruct nd; eauto).
  destruct Hnd as [[k ->]|Hnd].
  - rewrite (built_tree_doc_free key i k kids Hd). cbn [tmap]. rewrite !Hf. cbn [project_node]. apply K.
  - assert (Hd' : doc_free (T i nd kids) = true).
    { destruct nd; try contradiction; cbn [forallb] in Hd; now rewrite Bool.andb_true_r in Hd. }
    rewrite (built_tree_doc_free_any key _ Hd'). cbn [tmap map]. rewrite Hf. cbn [project_node flat_map].
    rewrite app_nil_r, tmap_erase. apply project_erase.
Qed.

(* Graph::to_markdown / export_key of the key just built, in any graph holding the built arena:
   the text of the built tree with the graph's titles written in, under the graph's front matter *)
Theorem export_built (o : opts) (tables : list string) (a : arena) (key : string) (t : tree) :
  arena_ok a = true -> buildable t = true ->
  exists st, build_key_from_iter a key t = Ok st /\
    forall g, gr_arena g = b_arena st -> alookup key (gr_keys g) = Some (length a) ->
      to_markdown o tables g key =
      Ok (wrap_metadata (alookup key (gr_meta g))
            (tree_to_markdown o tables (key_parent key) (tmap (norm_node (get_key_title g)) (built_tree key t)))) /\
      (inner_doc_free t = true ->
       to_markdown o tables g key =
       Ok (wrap_metadata (alookup key (gr_meta g))
             (tree_to_markdown o tables (key_parent key) (tmap (norm_node (get_key_title g)) t)))).
Proof.
  intros Hok Hb. destruct (build_tree_laid a key t Hok Hb) as (st & H & Hl & Hlen).
  exists st. split; [exact H|]. intros g Ha Hk.
  assert (E : to_markdown o tables g key =
      Ok (wrap_metadata (alookup key (gr_meta g))
            (tree_to_markdown o tables (key_parent key) (tmap (norm_node (get_key_title g)) (built_tree key t))))).
  { unfold to_markdown. rewrite Hk, Ha.
    destruct (collect_built (get_key_title g) a key t Hok Hb) as (st' & H' & C). rewrite H in H'. inversion H'; subst st'.
    rewrite C. cbn [bind]. do 2 f_equal. unfold tree_to_markdown, project.
    now rewrite (proj1 (project_label (key_parent key) _)). }
  split; [exact E|]. intros Hd. rewrite E. do 2 f_equal. unfold tree_to_markdown.
  now rewrite (project_built _ _ key t (norm_node_keeps_doc _) Hd).
Qed.
Print Assumptions export_built.

(* ---------- C08: the patch graph of rename / formatting ------------------------------------------- *)

Lemma renorm_node_norm nd : renorm_node nd = norm_node no_titles nd.
Proof. destruct nd; reflexivity. Qed.

Lemma renorm_tree_tmap t : renorm_tree t = tmap (norm_node no_titles) t.
Proof.
  induction t as [i nd ts IH] using tree_ind'. cbn [renorm_tree tmap]. rewrite renorm_node_norm. f_equal.
  induction IH as [|x r Hx _ IHr]; cbn [map]; [reflexivity | now rewrite Hx, IHr].
Qed.

(* Rename.v models `patch.build_key(k).insert_from_iter(tree.iter()); patch.export_key(k)` as
   [export_tree]: renormalisation of the tree, no arena.  That is what the transliterated builder
   + Graph::to_markdown compute, for every buildable tree without inner Document nodes, in a
   patch graph without titles ([meta]: the front matter the patch graph holds for the key) *)
Theorem patch_export_is_export_tree (o : opts) (tables : list string) (a : arena) (key : string) (t : tree) :
  arena_ok a = true -> buildable t = true -> inner_doc_free t = true ->
  exists st, build_key_from_iter a key t = Ok st /\
    forall g, gr_arena g = b_arena st -> alookup key (gr_keys g) = Some (length a) -> gr_titles g = [] ->
      to_markdown o tables g key = Ok (export_tree o (alookup key (gr_meta g)) tables key t).
Proof.
  intros Hok Hb Hd. destruct (export_built o tables a key t Hok Hb) as (st & H & E).
  exists st. split; [exact H|]. intros g Ha Hk Ht. destruct (E g Ha Hk) as [_ E2]. rewrite (E2 Hd).
  unfold export_tree. rewrite renorm_tree_tmap. do 3 f_equal. apply tmap_ext. apply norm_node_ext.
  intros k. unfold get_key_title. now rewrite Ht.
Qed.
Print Assumptions patch_export_is_export_tree.

(* ---------- HEADLINE 3: the CLI path of squash ------------------------------------------------------ *)

(* main.rs:171-180: `Graph::new()`, `build_key_from_iter(key, TreeIter::new(&squashed))`,
   `export_key(key)`: a graph with nothing but the built arena and the key *)
Definition cli_patch (st : bst) (key : string) : graph := G (b_arena st) [(key, 0)] [] [] [].

Theorem squash_cli_roundtrip (o : opts) (tables : list string) (key : string) (t : tree) :
  buildable t = true -> inner_doc_free t = true -> renorm_tree t = t ->
  exists st, build_key_from_iter [] key t = Ok st /\
    to_markdown o tables (cli_patch st key) key = Ok (tree_to_markdown o tables (key_parent key) t) /\
    to_markdown (Opts "") [] (cli_patch st key) key = squash_cli_text key t.
Proof.
  intros Hb Hd Hn. destruct (patch_export_is_export_tree o tables [] key t eq_refl Hb Hd) as (st & H & E).
  exists st. split; [exact H|].
  assert (E' : forall o' tb', to_markdown o' tb' (cli_patch st key) key = Ok (tree_to_markdown o' tb' (key_parent key) t)).
  { intros o' tb'. destruct (patch_export_is_export_tree o' tb' [] key t eq_refl Hb Hd) as (st' & H' & E2).
    rewrite H in H'. inversion H'; subst st'.
    rewrite (E2 (cli_patch st key) eq_refl); [|cbn; now rewrite String.eqb_refl | reflexivity].
    unfold export_tree. cbn [cli_patch gr_meta alookup wrap_metadata]. now rewrite Hn. }
  split; [apply E'|]. unfold squash_cli_text. apply E'.
Qed.
Print Assumptions squash_cli_roundtrip.

(* ---------- non-vacuity, and the hypotheses are needed ------------------------------------------------ *)

Definition ex_leaf (s : string) : tree := T (Some 7) (NLeaf [Str s]) [].
Definition ex_sec (s : string) (k : list tree) : tree := T None (NSection [Str s]) k.

(* nested lists, quotes (one empty), a table, references of both kinds, rule, code, an empty list *)
Definition ex_tree : tree := T (Some 3) (NDocument "x")
  [ex_sec "A" [ex_leaf "a";
               T None NBList [ex_sec "i1" [T None NOList [ex_sec "n1" []; ex_sec "n2" [ex_leaf "p"]]]; ex_sec "i2" []];
               T None NQuote [ex_leaf "q"; ex_sec "qs" [ex_leaf "z"]]; T None NQuote [];
               T None (NTable [[Str "h"]] [ANone] [[[Str "c"]]]) [];
               T None (NRef "k" "" WikiLink) []; T None (NRef "d/k2" "t2" Regular) [];
               T None NRule []; T None (NRaw (Some "rs") "code") []];
   ex_sec "B" [ex_leaf "with a [[w]] link"]; T None NBList []].

Definition ex_arena : arena := [GN (KDocument "o") None None (Some 1); GN (KLeaf []) (Some 0) None None].

Example collect_build_nonvacuous :
  arena_ok ex_arena = true /\ buildable ex_tree = true /\ inner_doc_free ex_tree = true /\
  renorm_tree ex_tree = ex_tree /\ tsz (built_tree "k" ex_tree) = 23 /\
  tree_read_back ex_arena "k" ex_tree = Ok (Some (label (built_tree "k" ex_tree) 2)) /\
  (exists st, build_key_from_iter ex_arena "k" ex_tree = Ok st /\ arena_ok (b_arena st) = true /\
              length (b_arena st) = 25 /\ firstn 2 (b_arena st) = ex_arena) /\
  (exists st, build_key_from_iter [] "k" ex_tree = Ok st /\
     to_markdown (Opts "") ["|h|"] (cli_patch st "k") "k" = Ok (tree_to_markdown (Opts "") ["|h|"] "" ex_tree)).
Proof.
  do 6 (split; [vm_compute; reflexivity|]). split.
  - eexists. split; [vm_compute; reflexivity|]. split; [|split]; vm_compute; reflexivity.
  - eexists. split; vm_compute; reflexivity.
Qed.

(* outside [buildable]: a leaf with a child *)
Theorem collect_build_refuted :
  exists t, buildable t = false /\ t = T None (NLeaf [Str "l"]) [T None (NLeaf [Str "c"]) []] /\
            build_key_from_iter [] "k" t = Panic "cant set child".
Proof. eexists. split; [|split; [reflexivity|]]; vm_compute; reflexivity. Qed.

(* outside [renorm_tree t = t]: a wiki-link reference node carrying a text, as a list item: the
   tree renders its text, the graph built from it does not (GraphNodePointer::node blanks it) *)
Theorem squash_cli_roundtrip_refuted :
  exists t st, buildable t = true /\ inner_doc_free t = true /\ renorm_tree t <> t /\
    t = T None (NDocument "k") [T None NBList [T None (NRef "r" "text" WikiLink) []]] /\
    build_key_from_iter [] "k" t = Ok st /\
    to_markdown (Opts "") [] (cli_patch st "k") "k" <> Ok (tree_to_markdown (Opts "") [] "" t).
Proof.
  exists (T None (NDocument "k") [T None NBList [T None (NRef "r" "text" WikiLink) []]]).
  eexists. split; [vm_compute; reflexivity|]. split; [vm_compute; reflexivity|].
  split; [vm_compute; discriminate|]. split; [reflexivity|]. split; [vm_compute; reflexivity|].
  vm_compute. discriminate.
Qed.

(* ---------- the class is exact: outside it the builder panics ------------------------------------------ *)

(* asked to insert something below a node that cannot have children *)
Lemma undisc_panics : forall n it fuel st,
  fsz (den it) <= n -> fsz (den it) < fuel -> normf (den it) <> [] ->
  (exists nn, get (b_arena st) (b_cur st) = Some nn /\ insertable (g_kind nn) = false /\ is_emptyk (g_kind nn) = false) ->
  from_iter fuel true st it = Panic "cant set child".
Proof.
  induction n as [|n IH]; intros it fuel st Hn Hfuel Hne Hcur.
  - assert (E : den it = []) by (apply fsz_zero; lia). rewrite E in Hne. now elim Hne.
  - destruct fuel as [|f]; [lia|]. rewrite from_iter_S. cbv zeta.
    rewrite ti_is_document_den, ti_node_den.
    destruct (den it) as [|[i nd cs] rest] eqn:E; [now elim Hne|].
    destruct (ti_child_den it _ _ E) as (ch & Hch & Dch). cbn [t_children] in Dch.
    rewrite tsz_fsz_cons in Hn, Hfuel. rewrite normf_cons in Hne.
    assert (Hnd : (exists k, nd = NDocument k) \/ match nd with NDocument _ => False | _ => True end)
      by (destruct nd; eauto).
    destruct Hnd as [[k ->]|Hnd].
    + rewrite Hch. apply (IH ch f (set_insert st true)); rewrite ?Dch; auto; lia.
    + replace (match nd with NDocument _ => true | _ => false end) with false by (destruct nd; [contradiction | reflexivity ..]).
      cbn [t_node]. rewrite (add_new_node_and_eq _ nd _ Hnd). unfold add_node_and2.
      cbn [set_insert b_insert b_arena b_cur]. destruct Hcur as (nn & Hg & Hi & He).
      unfold set_child_id. rewrite Hg. destruct (g_kind nn); try discriminate; reflexivity.
Qed.

Lemma from_iter_panics : forall n it fuel first st,
  fsz (den it) <= n -> fsz (den it) < fuel ->
  forallb shape_ok (normf (den it)) = false ->
  arena_ok (b_arena st) = true ->
  b_cur st < length (b_arena st) ->
  (normf (den it) <> [] -> disciplined (b_arena st) (b_cur st) first) ->
  from_iter fuel first st it = Panic "cant set child".
Proof.
  induction n as [|n IH]; intros it fuel first st Hn Hfuel Hshape Hok Hcur Hdisc.
  - assert (E : den it = []) by (apply fsz_zero; lia). rewrite E in Hshape. discriminate.
  - destruct fuel as [|f]; [lia|]. rewrite from_iter_S. cbv zeta.
    rewrite ti_is_document_den, ti_node_den.
    destruct (den it) as [|[i nd cs] rest] eqn:E; [discriminate|].
    destruct (ti_child_den it _ _ E) as (ch & Hch & Dch). cbn [t_children] in Dch.
    rewrite tsz_fsz_cons in Hn, Hfuel.
    rewrite normf_cons in Hshape, Hdisc.
    assert (Hnd : (exists k, nd = NDocument k) \/ match nd with NDocument _ => False | _ => True end)
      by (destruct nd; eauto).
    destruct Hnd as [[k ->]|Hnd].
    + rewrite Hch. apply (IH ch f first (set_insert st first)); cbn [set_insert b_arena b_cur]; rewrite ?Dch; auto; lia.
    + assert (Hnorm : match nd with NDocument _ => normf cs | _ => T None nd (normf cs) :: normf rest end
                      = T None nd (normf cs) :: normf rest) by (destruct nd; [contradiction | reflexivity ..]).
      rewrite Hnorm in *. clear Hnorm.
      replace (match nd with NDocument _ => true | _ => false end) with false by (destruct nd; [contradiction | reflexivity ..]).
      cbn [t_node]. rewrite (add_new_node_and_eq _ nd _ Hnd).
      destruct (node_gkind_facts nd Hnd) as (Hke & Hkd & Hkn).
      set (k := node_gkind nd) in *. set (st0 := set_insert st first).
      specialize (Hdisc ltac:(discriminate)).
      cbn [forallb] in Hshape. rewrite shape_ok_T in Hshape. unfold node_insertable in Hshape. fold k in Hshape.
      assert (HP : Pre st0) by (split; [exact Hok | exact Hdisc]).
      destruct (add_node_Moved st0 k HP Hke Hkd) as (s1 & Hadd & HM & Hnew & Hc1).
      rewrite (add_node_and2_eq st0 k _ s1 Hadd). cbn [st0 set_insert b_map b_cur b_arena] in *.
      set (a := b_arena st) in *. set (cur := b_cur st) in *. set (a1 := b_arena s1) in *.
      set (new := b_cur s1) in *.
      destruct HM as (((Ok1 & Fr1 & Nw1) & _ & _) & _ & _). cbn [b_arena b_cur b_insert] in Ok1, Fr1, Nw1.
      fold a cur a1 in Ok1, Fr1, Nw1.
      assert (Hnewlt : new < length a1) by (eapply get_lt; exact Hnew).
      rewrite Hch.
      (* a node that cannot have children, with something to put below it *)
      destruct (insertable k) eqn:Hins; cbn [orb] in Hshape.
      2:{ destruct (normf cs) as [|y ys] eqn:Ecs.
          2:{ rewrite (undisc_panics (fsz cs) ch f (B a1 new false (b_map st))); [reflexivity | | | |];
                rewrite ?Dch, ?Ecs; try lia; [discriminate|].
              cbn [b_arena b_cur]. exists (GN k (Some cur) None None). cbn [g_kind]. auto. }
          (* nothing below it: the failure is among the following siblings *)
          cbn [forallb andb] in Hshape.
          destruct (from_iter_spec (fsz cs) ch f true (B a1 new false (b_map st))) as (s2 & H2 & Hc2 & _ & _ & G2);
            cbn [b_arena b_cur]; rewrite ?Dch, ?Ecs; auto; try lia; [congruence|].
          rewrite H2. cbn [bind b_arena b_cur] in *. set (a2 := b_arena s2) in *.
          destruct G2 as (Ok2 & Fr2 & Nw2).
          assert (Hlen2 : length a1 <= length a2) by (destruct Fr2 as [L _]; exact L).
          pose proof (ti_next_den it _ _ E) as Hnx. destruct (ti_next it) as [nx|]; [|subst rest; discriminate].
          rewrite (IH nx f false s2); rewrite ?Hnx, ?Hc2; fold a2; auto; try lia.
          intros Hne. destruct Fr2 as [_ F2]. destruct (F2 new _ Hnew) as (n' & Gn' & Kn' & _ & _ & Sn').
          exists n'. split; [exact Gn'|]. rewrite Kn', Sn'. cbn [g_kind g_next]. auto. }
      (* a container *)
      assert (Hd1 : normf cs <> [] -> disciplined a1 new true).
      { intros _. exists (GN k (Some cur) None None). split; [exact Hnew|]. cbn [g_kind g_child]. auto. }
      destruct (forallb shape_ok (normf cs)) eqn:Hscs.
      2:{ rewrite (IH ch f true (B a1 new true (b_map st))); cbn [b_arena b_cur]; rewrite ?Dch; auto; lia. }
      cbn [andb] in Hshape.
      destruct (from_iter_spec (fsz cs) ch f true (B a1 new true (b_map st))) as (s2 & H2 & Hc2 & _ & _ & G2);
        cbn [b_arena b_cur]; rewrite ?Dch; auto; try lia.
      rewrite H2. cbn [bind b_arena b_cur] in *. set (a2 := b_arena s2) in *.
      destruct G2 as (Ok2 & Fr2 & Nw2).
      assert (Hlen2 : length a1 <= length a2) by (destruct Fr2 as [L _]; exact L).
      pose proof (ti_next_den it _ _ E) as Hnx. destruct (ti_next it) as [nx|]; [|subst rest; discriminate].
      rewrite (IH nx f false s2); rewrite ?Hnx, ?Hc2; fold a2; auto; try lia.
      intros Hne. destruct Fr2 as [_ F2]. destruct (F2 new _ Hnew) as (n' & Gn' & Kn' & _ & _ & Sn').
      exists n'. split; [exact Gn'|]. rewrite Kn', Sn'. cbn [g_kind g_next]. auto.
Qed.

(* the builder returns exactly on [buildable] trees; otherwise it dies in `set_child_id` *)
Theorem build_panics (a : arena) (key : string) (t : tree) :
  arena_ok a = true -> buildable t = false ->
  build_key_from_iter a key t = Panic "cant set child".
Proof.
  intros Hok Hb. unfold build_key_from_iter, insert_from_iter, iter_fuel.
  destruct (build_key_wf a key Hok) as [O D].
  apply (from_iter_panics (fsz [t])).
  - apply le_n.
  - change (den (TI t [])) with [t]. cbn [fsz]. pose proof (tree_nodes_tsz t). lia.
  - exact Hb.
  - exact O.
  - cbn [build_key b_arena b_cur]. rewrite app_length. cbn. lia.
  - intros _. exact D.
Qed.
Print Assumptions build_panics.

Corollary build_returns_iff (a : arena) (key : string) (t : tree) :
  arena_ok a = true ->
  ((exists st, build_key_from_iter a key t = Ok st) <-> buildable t = true).
Proof.
  intros Hok. split.
  - intros (st & H). destruct (buildable t) eqn:Hb; [reflexivity|].
    rewrite (build_panics a key t Hok Hb) in H. discriminate.
  - intros Hb. destruct (collect_build a key t Hok Hb) as (st & H & _). now exists st.
Qed.

(* GraphPatch::add_key (no caller in the pinned tree) unwraps the document position itself and then
   runs the same builder call: same arena on the example *)
Example add_key_same :
  match add_key ex_arena "k" ex_tree, build_key_from_iter ex_arena "k" ex_tree with
  | Ok s1, Ok s2 => b_arena s1 = b_arena s2
  | _, _ => False
  end.
Proof. vm_compute. reflexivity. Qed.
