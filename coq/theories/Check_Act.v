(* Check_Act.v — the code-action case (shared by C09 and C10): what the harness observed
   when it drove a real `iwes::router::server::Server` over a library (offers at every line,
   resolved WorkspaceEdits, re-read edited notes, the second (inverse) step after didChange),
   the model run on the same inputs, and the correspondence of the two. *)
From IweV Require Export Check_Norm TreeOps Actions.
Local Open Scope string_scope.
Local Open Scope list_scope.

(* one operation of a WorkspaceEdit, keys recovered from the uris *)
Inductive och := OCreate (k : string) | OUpdate (k text : string) | ORemove (k : string).

Record reread := RR {
  rr_key : string;
  rr_doc : res (option string * list dblock);     (* real reader on the new text *)
  rr_tables : list string                         (* table oracle of the re-imported note *)
}.

Record step := ST {
  st_kind : nat;
  st_key : string; st_line : nat;                 (* where the action was requested *)
  st_offer : res (option (string * nat));         (* handle_code_action: title, data (node id) *)
  st_changes : res (list och);                    (* handle_code_action_resolve *)
  st_after : list reread                          (* every updated note, re-read *)
}.

(* [ao_hist]: the same request sent to a server that REACHED the library's texts through edits
   (started on other texts for the same keys, one didChange per note): its own resolved edits and
   their re-read; the offer recorded in it is the fresh server's (node ids differ between arenas) *)
Record act_obs := AO { ao_first : step; ao_second : option step; ao_hist : option step }.

(* the observation to evaluate the predicates on for the server with a history; where the new
   keys are drawn at random (extraction outside sequential-key mode) the two servers draw
   different keys and the inverse step recorded for the fresh one says nothing about the other *)
Definition hist_comparable (seq : bool) (a : act_obs) : bool := seq || Nat.leb 3 (st_kind (ao_first a)).
Definition hist_variants (seq : bool) (a : act_obs) : list act_obs :=
  match ao_hist a with
  | Some h => if hist_comparable seq a then [AO h (ao_second a) None] else []
  | None => []
  end.

Record line_obs := LO {
  ln_key : string; ln_line : nat;
  ln_offers : list (res (option (string * nat)))  (* kinds 1..7 *)
}.

Record actcase := AC {
  ac_lib : libcase;
  ac_seq : bool;
  (* oracle: (note, (directory, text of the note's tables written in that directory)) for the other
     directories of the library: note links in table cells are written relative to the note *)
  ac_xtables : list (string * (string * list string));
  ac_lines : list line_obs;
  ac_acts : list act_obs
}.

(* ---------- equalities ------------------------------------------------------------------ *)

Definition offer_eqb (a b : res (option (string * nat))) : bool :=
  res_eqb (option_eqb (fun x y => String.eqb (fst x) (fst y) && Nat.eqb (snd x) (snd y))) a b.

Definition och_eqb (a b : och) : bool :=
  match a, b with
  | OCreate k, OCreate k' => String.eqb k k'
  | OUpdate k t, OUpdate k' t' => String.eqb k k' && String.eqb t t'
  | ORemove k, ORemove k' => String.eqb k k'
  | _, _ => false
  end.

(* ---------- table oracle by node id ----------------------------------------------------- *)

(* ids of the table nodes of a tree in rendering (= document) order *)
Fixpoint table_ids (t : tree) {struct t} : list (option nat) :=
  match t with
  | T i n c => (match n with NTable _ _ _ => [i] | _ => [] end) ++ flat_map table_ids c
  end.

Definition tenv := list (nat * string).

Fixpoint zip_tables (ids : list (option nat)) (texts : list string) : tenv :=
  match ids, texts with
  | Some i :: r, t :: r' => (i, t) :: zip_tables r r'
  | None :: r, _ :: r' => zip_tables r r'
  | _, _ => []
  end.

Definition env_of (g : graph) (notes : list (string * list string)) : tenv :=
  flat_map (fun kt => match collect_key g (fst kt) with
                      | Ok t => zip_tables (table_ids t) (snd kt)
                      | Panic _ => []
                      end) notes.

Definition tables_of_tree (env : tenv) (t : tree) : list string :=
  flat_map (fun o => match o with
                     | Some i => match alookup_nat i env with Some s => [s] | None => ["<missing table oracle>"] end
                     | None => ["<missing table oracle>"]
                     end) (table_ids t).

(* the same tables written into another directory: (table node id, directory, text) *)
Definition xenv := list (nat * string * string).
Definition xenv_of (g : graph) (x : list (string * (string * list string))) : xenv :=
  flat_map (fun kt => match collect_key g (fst kt) with
                      | Ok t => map (fun it => (fst it, fst (snd kt), snd it)) (zip_tables (table_ids t) (snd (snd kt)))
                      | Panic _ => []
                      end) x.
Definition xlookup (xe : xenv) (i : nat) (dir : string) : option string :=
  match find (fun e => Nat.eqb (fst (fst e)) i && String.eqb (snd (fst e)) dir) xe with
  | Some e => Some (snd e)
  | None => None
  end.
Definition tables_of_tree_at (xe : xenv) (env : tenv) (dir : string) (t : tree) : list string :=
  flat_map (fun o => match o with
                     | Some i => match xlookup xe i dir with
                                 | Some s => [s]
                                 | None => match alookup_nat i env with Some s => [s] | None => ["<missing table oracle>"] end
                                 end
                     | None => ["<missing table oracle>"]
                     end) (table_ids t).

(* ---------- the model side of one step -------------------------------------------------- *)

Definition created_keys (l : list och) : list string :=
  flat_map (fun c => match c with OCreate k => [k] | _ => [] end) l.
Definition updated (l : list och) : list (string * string) :=
  flat_map (fun c => match c with OUpdate k t => [(k, t)] | _ => [] end) l.
Definition removed_keys (l : list och) : list string :=
  flat_map (fun c => match c with ORemove k => [k] | _ => [] end) l.

Definition kg_of (seq : bool) (obs : res (list och)) : keygen :=
  if seq then KSeq else KRand (match obs with Ok l => created_keys l | Panic _ => [] end).

(* handle_code_action_resolve puts the front matter of the updated note back in front of the text *)
Definition render_change (o : opts) (metas : list (string * string)) (xe : xenv) (env : tenv) (c : change) : och :=
  match c with
  | Create k => OCreate k
  | Update k parent t =>
      OUpdate k (wrap_metadata (alookup k metas) (tree_to_markdown o (tables_of_tree_at xe env parent t) parent t))
  | Remove k => ORemove k
  end.

(* graph_ctx with the collected trees of the library's notes computed once (the same values) *)
Definition cached_ctx (g : graph) : actx :=
  let trees := map (fun kv => (fst kv, collect_key g (fst kv))) (gr_keys g) in
  ACtx (key_of g)
       (fun k => match alookup k trees with Some r => r | None => collect_key g k end)
       (fun k => match alookup k (gr_keys g) with Some _ => true | None => false end)
       (length (gr_keys g)).

Definition model_offer (g : graph) (cx : actx) (s : step) : res (option (string * nat)) :=
  match kind_of_nat (st_kind s) with
  | Some k => offer_at cx (get_node_id_at g (st_key s) (st_line s)) k
  | None => Panic "kind"
  end.

(* the node the resolve is sent for: the `data` of the observed offer *)
Definition step_target (s : step) : option nat :=
  match st_offer s with Ok (Some (_, id)) => Some id | _ => None end.

Definition model_tree_changes (cx : actx) (seq : bool) (s : step) : res (list change) :=
  match kind_of_nat (st_kind s), step_target s with
  | Some k, Some id => handle_resolve cx k (kg_of seq (st_changes s)) id
  | _, _ => Panic "not offered"
  end.

Definition model_changes (o : opts) (metas : list (string * string)) (cx : actx) (xe : xenv) (env : tenv) (seq : bool) (s : step) : res (list och) :=
  do l <- model_tree_changes cx seq s; Ok (map (render_change o metas xe env) l).

(* the library after the editor applied the step's updates and sent didChange for each *)
Definition graph_after (g : graph) (s : step) : res graph :=
  fold_left (fun acc r => do g <- acc; do d <- rr_doc r; update_key g (rr_key r) (fst d) (snd d))
            (st_after s) (Ok g).

Definition env_after (g2 : graph) (env : tenv) (s : step) : tenv :=
  env ++ env_of g2 (map (fun r => (rr_key r, rr_tables r)) (st_after s)).

Definition step_corr (o : opts) (g : graph) (cx : actx) (xe : xenv) (env : tenv) (seq : bool) (s : step) : bool * bool :=
  (offer_eqb (model_offer g cx s) (st_offer s),
   match step_target s with
   | Some _ => res_eqb (list_eqb och_eqb) (model_changes o (gr_meta g) cx xe env seq s) (st_changes s)
   | None => true
   end).

Definition lib_env (c : libcase) (g : graph) : tenv :=
  env_of g (map (fun n => (key_name (ni_name n), ni_tables n)) (lc_notes c)).

(* correspondence stages:
   1 library import (collected trees and formatted text of every note)
   2 offers: for every line and kind, offered-or-not, title and node id
   3 first step: the offer at the recorded line
   4 first step: resolved changes (keys and full texts)
   5 second step: model library after didChange gives the same offer
   6 second step: resolved changes
   7 a server that reached the same texts through edits resolves the same action to the same edit
     (keys and full texts; not compared where the new keys are drawn at random) *)
Definition act_corr (c : actcase) (kinds : list nat) : list N :=
  let lc := ac_lib c in
  match model_graph lc with
  | Panic _ => flag 1 (negb (is_ok (lo_arena lc)))
  | Ok g =>
      let o := o_of lc in
      let env := lib_env lc g in
      let cx := cached_ctx g in
      let xe := xenv_of g (ac_xtables c) in
      flag 1 (forallb (fun ob => res_eqb tree_eqb (collect_key g (no_key ob)) (no_tree ob)) (lo_notes lc) &&
              forallb (fun ob => res_eqb String.eqb (to_markdown o (tables_for lc (no_key ob)) g (no_key ob)) (no_text ob)) (lo_notes lc)) ++
      flag 2 (forallb (fun l =>
                list_eqb offer_eqb
                  (let at_line := get_node_id_at g (ln_key l) (ln_line l) in
                   map (fun k => match kind_of_nat k with
                                 | Some ak => offer_at cx at_line ak
                                 | None => Panic "kind" end) (seq 1 7))
                  (ln_offers l)) (ac_lines c)) ++
      let firsts := map (fun a => step_corr o g cx xe env (ac_seq c) (ao_first a))
                        (filter (fun a => existsb (Nat.eqb (st_kind (ao_first a))) kinds) (ac_acts c)) in
      flag 3 (forallb fst firsts) ++ flag 4 (forallb snd firsts) ++
      let title_unstable := existsb title_has_link (lc_notes lc) in
      let seconds := flat_map (fun a =>
                        if existsb (Nat.eqb (st_kind (ao_first a))) kinds then
                          match ao_second a with
                          | None => []
                          | Some s2 =>
                              match graph_after g (ao_first a) with
                              | Ok g2 =>
                                  let r := step_corr o g2 (cached_ctx g2) xe (env_after g2 env (ao_first a)) (ac_seq c) s2 in
                                  (* the text of a table is an ORACLE taken from the implementation's rendering at one
                                     state; it embeds the refreshed titles of that state.  In a library of the open
                                     finding F-TITLELINK (a title that changes with every formatting) the oracle text of
                                     the state after the first step is a title generation behind what the second step
                                     renders: the resolved texts of the second step are not compared there (its offer,
                                     the first step and every predicate still are) *)
                                  if title_unstable then [(fst r, true)] else [r]
                              | Panic _ => [(false, false)]
                              end
                          end
                        else []) (ac_acts c) in
      flag 5 (forallb fst seconds) ++ flag 6 (forallb snd seconds) ++
      flag 7 (forallb (fun a =>
                match ao_hist a with
                | Some h =>
                    if existsb (Nat.eqb (st_kind (ao_first a))) kinds && hist_comparable (ac_seq c) a
                    then res_eqb (list_eqb och_eqb) (st_changes h) (st_changes (ao_first a))
                    else true
                | None => true
                end) (ac_acts c))
  end.

(* ---------- helpers for the predicates ---------------------------------------------------- *)

Definition note_in_of (c : libcase) (key : string) : option note_in :=
  find (fun n => String.eqb (key_name (ni_name n)) key) (lc_notes c).

Definition lib_keys (c : libcase) : list string := map (fun n => key_name (ni_name n)) (lc_notes c).

Definition formatted_original (c : libcase) (key : string) : res string :=
  match find (fun o => String.eqb (no_key o) key) (lo_notes c) with
  | Some o => no_text o
  | None => Panic "no such note"
  end.

Definition after_doc (s : step) (key : string) : option (option string * list dblock) :=
  match find (fun r => String.eqb (rr_key r) key) (rev (st_after s)) with
  | Some r => match rr_doc r with Ok d => Some d | Panic _ => None end
  | None => None
  end.

Definition note_atoms (key : string) (bs : list dblock) : list string := atoms (key_parent key) bs.

Definition mem_str (x : string) (l : list string) : bool := existsb (String.eqb x) l.

Fixpoint nodup_str (l : list string) : bool :=
  match l with [] => true | x :: r => negb (mem_str x r) && nodup_str r end.

Definition strs_eqb := list_eqb String.eqb.

Fixpoint common_prefix (a b : list string) : nat :=
  match a, b with
  | x :: a', y :: b' => if String.eqb x y then S (common_prefix a' b') else 0
  | _, _ => 0
  end.

(* [big] is [small] with [piece] inserted at some position *)
Definition splice_at (k : nat) (small piece : list string) : list string :=
  firstn k small ++ piece ++ skipn k small.
Definition splice_rel (big small piece : list string) : bool :=
  Nat.eqb (length big) (length small + length piece) &&
  existsb (fun k => strs_eqb big (splice_at k small piece)) (seq 0 (S (length small))).

(* all ways of deleting one occurrence of the sub-list [x] *)
Fixpoint starts_with_l (x l : list string) : bool :=
  match x, l with
  | [], _ => true
  | a :: x', b :: l' => String.eqb a b && starts_with_l x' l'
  | _ :: _, [] => false
  end.
Fixpoint delete_one (x l : list string) : list (list string) :=
  match l with
  | [] => []
  | a :: r => (if starts_with_l x l then [skipn (length x) l] else []) ++ map (cons a) (delete_one x r)
  end.

(* the reparse-safe domain of the text-level predicates (the classes of Check_Norm: inert
   text; item leads are no restriction any more since the builder repair of F-LEADPANIC /
   F-ITEMLEAD, tables with code spans none since the repair of F-TABLECODE, rules, tables and
   quotes in tight items none since the repair of F-TIGHTTAIL) *)
(* as Check_Norm.inert_inline, except that the text of a bare wiki link (which iwe never writes:
   it is regenerated from the url) is not looked at *)
Fixpoint a_inert_inline (i : inline) : bool :=
  let fix go (l : list inline) : bool := match l with [] => true | x :: r => a_inert_inline x && go r end in
  match i with
  | Str s => inert_str s
  | Code s => inert_str s && negb (sempty (trim s)) && String.eqb (trim s) s
  | Math _ => false
  | Emph l | Strong l | Strike l => go l && negb (sempty (inlines_plain_text l))
  | Link url title lt l => inert_url url && sempty title && match lt with WikiLink => true | _ => go l end
  | Image url title l => inert_url url && sempty title && go l
  end.
Definition a_inert_inlines (l : list inline) : bool := forallb a_inert_inline l.
Fixpoint a_inert_block (b : dblock) {struct b} : bool :=
  let fix go (l : list dblock) : bool := match l with [] => true | x :: r => a_inert_block x && go r end in
  let fix goi (l : list (list dblock)) : bool := match l with [] => true | x :: r => go x && goi r end in
  match b with
  | DPara _ l => a_inert_inlines l
  | DHeader _ _ l => a_inert_inlines l
  | DCode _ lang text => match lang with Some la => inert_str la | None => true end
                         && all_bytes (fun a => safe_byte a || Ascii.eqb a LF) text
  | DQuote _ bs => go bs
  | DOList its | DBList its => goi its
  | DRule _ => true
  | DTable _ h _ rows => forallb a_inert_inlines h && forallb (forallb a_inert_inlines) rows
  end.

Definition blocks_dom (bs : list dblock) : bool :=
  forallb a_inert_block bs.

(* also outside the domain: a library in which some note's title holds a refreshable link
   (F-TITLELINK of C02: formatting is not a fixpoint there, so "restores the formatted original"
   cannot be evaluated) *)
Definition lib_dom (c : libcase) : bool :=
  forallb (fun n => match ni_blocks n with Ok bs => blocks_dom bs | Panic _ => false end) (lc_notes c) &&
  negb (existsb title_has_link (lc_notes c)).

Definition step_dom (s : step) : bool :=
  forallb (fun r => match rr_doc r with Ok d => blocks_dom (snd d) | Panic _ => false end) (st_after s).

(* ---------- classifiers on the blocks the model predicts for the result ---------------------- *)

(* class 3 "adjacent lists": the blocks written for the result contain two lists of the same
   type next to each other in one context (top level, quote body, item body): any Markdown
   reader takes them for one list *)
Definition same_list (a b : gblock) : bool :=
  match a, b with
  | GBList _, GBList _ | GOList _, GOList _ => true
  | _, _ => false
  end.
Fixpoint adjacent_in (l : list gblock) : bool :=
  match l with
  | a :: ((b :: _) as r) => same_list a b || adjacent_in r
  | _ => false
  end.
Fixpoint g_adjacent (b : gblock) {struct b} : bool :=
  let fix go (l : list gblock) : bool := match l with [] => false | x :: r => g_adjacent x || go r end in
  let fix goi (l : list (list gblock)) : bool := match l with [] => false | x :: r => adjacent_in x || go x || goi r end in
  match b with
  | GQuote bs => adjacent_in bs || go bs
  | GOList its | GBList its => goi its
  | _ => false
  end.
Definition adjacent_lists (bs : list gblock) : bool := adjacent_in bs || existsb g_adjacent bs.

Fixpoint max_level (b : gblock) : nat :=
  let fix go (l : list gblock) : nat := match l with [] => 0 | x :: r => Nat.max (max_level x) (go r) end in
  let fix goi (l : list (list gblock)) : nat := match l with [] => 0 | x :: r => Nat.max (go x) (goi r) end in
  match b with
  | GHeader n _ => n
  | GQuote bs => go bs
  | GOList its | GBList its => goi its
  | _ => 0
  end.
Definition max_levels (bs : list gblock) : nat := fold_right (fun b n => Nat.max (max_level b) n) 0 bs.

(* (the former class "tight item holding a rule or table, or two quotes in a row" - C10 class 5, C09 class 19,
   F-C10-tight-rule / F-C09-inline-tight-rule - is repaired in the writer: such a list is written sparse,
   GraphBlock::is_sparce_list / Project.is_sparse) *)

(* per-action results are folded like per-note results: an action failing outside every class
   is reported without classes (so it can never hide behind another action's class) *)
Definition combine_acts := combine_notes.

Definition mem_N (x : N) (l : list N) : bool := existsb (N.eqb x) l.

(* a failing sub-property is classified only by a class that can explain it *)
Definition explain_fails (explain : N -> list N) (fails cls : list N) : list N * list N :=
  let per := map (fun p => (p, filter (fun k => mem_N k cls) (explain p))) fails in
  match filter (fun x => match snd x with [] => true | _ => false end) per with
  | [] => (fails, match fails with [] => cls | _ => dedup_N (flat_map snd per) end)
  | bad => (map fst bad, [])
  end.
