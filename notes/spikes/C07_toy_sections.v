From Coq Require Import List Arith Lia Bool.
Import ListNotations.

Inductive blk := P (n:nat) | H (l:nat) (n:nat).
Inductive tree := TLeaf (n:nat) | TSec (n:nat) (ch:list tree).

Fixpoint take_body (L:nat) (bs:list blk) : list blk * list blk :=
  match bs with
  | [] => ([],[])
  | H l n :: r => if l <=? L then ([], bs) else let '(a,b) := take_body L r in (H l n :: a, b)
  | P n :: r => let '(a,b) := take_body L r in (P n :: a, b)
  end.

Fixpoint pb (fuel:nat) (bs:list blk) {struct fuel} : list tree :=
  match fuel with 0 => [] | S f =>
    match bs with
    | [] => []
    | P n :: r => TLeaf n :: pb f r
    | H l n :: r => secs f l bs
    end end
with secs (fuel:nat) (L:nat) (bs:list blk) {struct fuel} : list tree :=
  match fuel with 0 => [] | S f =>
    match bs with
    | H l n :: r => let '(body, rest) := take_body L r in TSec n (pb f body) :: secs f L rest
    | _ => []
    end end.

Fixpoint levels (d:nat) (t:tree) : list nat :=
  match t with TLeaf _ => [] | TSec _ ch => S d :: flat_map (levels (S d)) ch end.
Definition out_levels d ts := flat_map (levels d) ts.

Fixpoint hl (bs:list blk) : list nat := match bs with [] => [] | P _ :: r => hl r | H l _ :: r => l :: hl r end.

(* tests *)
Definition norm bs := out_levels 0 (pb (S (S (length bs) * 2)) bs).
Eval vm_compute in norm [H 1 0; P 1; H 3 2; H 2 3].
Eval vm_compute in norm [H 2 0; H 1 1].
Eval vm_compute in norm [P 9; H 1 0; H 2 1; H 3 2; H 2 3; H 1 4; H 2 5].

(* well nested from previous level p *)
Fixpoint wn (p:nat) (ls:list nat) : Prop := match ls with [] => True | l :: r => 1 <= l /\ l <= S p /\ wn l r end.

(* exhaustive test up to length 5 over levels 1..6: a test, not the theorem *)
Fixpoint seqs (n:nat) : list (list nat) := match n with 0 => [[]] | S k => [] :: flat_map (fun s => map (fun l => l :: s) [1;2;3;4;5;6]) (seqs k) end.
Fixpoint wnb (p:nat) (ls:list nat) : bool := match ls with [] => true | l :: r => (1 <=? l) && (l <=? S p) && wnb l r end.
Definition ok (ls:list nat) : bool :=
  let bs := map (fun l => H l 0) ls in
  let o := norm bs in
  wnb 0 o && (length o =? length ls) && (if wnb 0 ls then forallb (fun p => fst p =? snd p) (combine o ls) else true).
Time Eval vm_compute in forallb ok (seqs 5).

(* ---- proof of the identity theorem on the toy ---- *)
Lemma take_body_spec L bs : let '(a,b) := take_body L bs in
  bs = a ++ b /\ Forall (fun l => L < l) (hl a) /\ (match b with H l _ :: _ => l <= L | [] => True | _ => False end).
Proof.
  induction bs as [|x r IH]; cbn [take_body]; [repeat split; constructor|].
  destruct x as [n|l n].
  - destruct (take_body L r) as [a b]. destruct IH as (E & F & M). subst r. repeat split; auto.
  - destruct (l <=? L) eqn:C.
    + apply Nat.leb_le in C. repeat split; [constructor|exact C].
    + apply Nat.leb_gt in C. destruct (take_body L r) as [a b]. destruct IH as (E & F & M). subst r.
      repeat split; auto. cbn [hl]. constructor; auto.
Qed.

Lemma hl_app a b : hl (a ++ b) = hl a ++ hl b.
Proof. induction a as [|[n|l n] a IH]; cbn; auto. now rewrite IH. Qed.

Lemma wn_weaken p q ls : wn p ls -> (match ls with l :: _ => l <= S q | [] => True end) -> wn q ls.
Proof. destruct ls as [|l t]; cbn; auto. intros (a & b & c) h; auto. Qed.

Lemma wn_app p a b : wn p (a ++ b) -> wn p a /\ (match b with l :: _ => True | [] => True end) /\ exists q, wn q b.
Proof.
  revert p; induction a as [|x a IH]; intros p; cbn [app wn].
  - intros h; repeat split; auto. destruct b; auto. now exists p.
  - intros (h1 & h2 & h3). destruct (IH _ h3) as (i1 & i2 & i3). repeat split; auto.
Qed.

Lemma take_body_len L bs : length (fst (take_body L bs)) <= length bs /\ length (snd (take_body L bs)) <= length bs.
Proof.
  induction bs as [|[n|l n] r IH]; cbn [take_body]; cbn; auto.
  - destruct (take_body L r); cbn in *; lia.
  - destruct (l <=? L); cbn; [lia|]. destruct (take_body L r); cbn in *; lia.
Qed.

Lemma out_levels_cons d t ts : out_levels d (t :: ts) = levels d t ++ out_levels d ts.
Proof. reflexivity. Qed.

Lemma identity_gen : forall fuel,
  (forall bs d, 2 * length bs + 2 <= fuel -> Forall (fun l => d < l) (hl bs) -> wn d (hl bs) ->
      out_levels d (pb fuel bs) = hl bs) /\
  (forall bs d, 2 * length bs + 1 <= fuel -> Forall (fun l => d < l) (hl bs) -> wn d (hl bs) ->
      (match bs with P _ :: _ => False | _ => True end) ->
      out_levels d (secs fuel (S d) bs) = hl bs).
Proof.
  induction fuel as [|f [IHA IHB]]; [split; intros; lia|].
  split.
  - intros bs d Hf Hgt Hwn. destruct bs as [|[n|l n] r]; [reflexivity| |].
    + cbn [pb]. rewrite out_levels_cons. cbn [levels app hl] in *. apply IHA; auto. cbn [length] in Hf. lia.
    + assert (l = S d) as ->.
      { cbn [hl] in *. inversion Hgt; subst. destruct Hwn as (_ & h & _). lia. }
      cbn [pb]. apply IHB; auto. lia.
  - intros bs d Hf Hgt Hwn Hhd. destruct bs as [|[n|l n] r]; [reflexivity|contradiction|].
    cbn [secs]. pose proof (take_body_spec (S d) r) as Hs. pose proof (take_body_len (S d) r) as Hl.
    destruct (take_body (S d) r) as [body rest]. cbn [fst snd] in Hl. destruct Hs as (E & Fb & Mr).
    cbn [hl] in Hgt, Hwn. subst r. rewrite hl_app in *.
    inversion Hgt as [|? ? Hl0 Hgt']; subst. destruct Hwn as (h1 & h2 & h3).
    assert (l = S d) as -> by lia.
    apply Forall_app in Hgt'. destruct Hgt' as (Gb & Gr).
    destruct (wn_app _ _ _ h3) as (Wb & _ & (q & Wr)).
    rewrite out_levels_cons. cbn [levels hl]. fold (out_levels (S d) (pb f body)).
    cbn [length] in Hf.
    rewrite IHA; [| lia | exact Fb | exact Wb].
    rewrite IHB; [cbn [hl app]; rewrite ?hl_app; reflexivity | lia | exact Gr | | ].
    + apply (wn_weaken q); auto. destruct rest as [|[n'|l' n'] rest']; cbn [hl]; auto. contradiction.
    + destruct rest as [|[n'|l' n'] rest']; auto.
Qed.

Theorem C07_identity_toy bs : wn 0 (hl bs) -> out_levels 0 (pb (2 * length bs + 2) bs) = hl bs.
Proof.
  intros Hwn. apply (proj1 (identity_gen _)); auto.
  clear Hwn. induction bs as [|[n|l n] r IH]; cbn [hl]; auto. constructor; [|exact IH].
Abort.
Theorem C07_identity_toy bs : Forall (fun l => 0 < l) (hl bs) -> wn 0 (hl bs) -> out_levels 0 (pb (2 * length bs + 2) bs) = hl bs.
Proof. intros Hp Hwn. apply (proj1 (identity_gen _)); auto. Qed.
Print Assumptions C07_identity_toy.
