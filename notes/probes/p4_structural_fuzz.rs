// quick structural fuzz: generate clean markdown, check fixpoint + panic
use liwe::graph::Graph;
use liwe::markdown::MarkdownReader;
use std::collections::BTreeMap;

struct Rng(u64);
impl Rng { fn next(&mut self) -> u64 { self.0 ^= self.0 << 13; self.0 ^= self.0 >> 7; self.0 ^= self.0 << 17; self.0 } fn below(&mut self, n: u64) -> u64 { self.next() % n } }

fn words(r: &mut Rng) -> String { let n = 1 + r.below(3); (0..n).map(|_| ["alpha","beta","gamma","delta","eps"][r.below(5) as usize].to_string()).collect::<Vec<_>>().join(" ") }
fn inline(r: &mut Rng) -> String {
    match r.below(8) { 0 => format!("*{}*", words(r)), 1 => format!("**{}**", words(r)), 2 => format!("`{}`", words(r)), 3 => format!("[{}](k{})", words(r), r.below(3)), 4 => format!("[[k{}]]", r.below(3)), _ => words(r) }
}
fn para(r: &mut Rng) -> String { let n = 1 + r.below(3); (0..n).map(|_| inline(r)).collect::<Vec<_>>().join(" ") }
fn indent(s: &str, first: &str, rest: &str) -> String { s.lines().enumerate().map(|(i,l)| if l.is_empty() { String::new() } else if i==0 { format!("{}{}", first, l) } else { format!("{}{}", rest, l) }).collect::<Vec<_>>().join("\n") + "\n" }
fn block(r: &mut Rng, depth: u32, allow_header: bool) -> String {
    let k = r.below(if depth > 2 { 6 } else { 12 });
    match k {
        0|1|2 => para(r) + "\n",
        3 => format!("```\n{}\n```\n", words(r)),
        4 => "---\n".to_string(),
        5 => if allow_header { format!("{} {}\n", "#".repeat(1 + r.below(4) as usize), words(r)) } else { para(r) + "\n" },
        6|7 => { let n = 1 + r.below(3); let tight = r.below(2)==0; (0..n).map(|_| { let nb = 1 + r.below(if tight {1} else {3}); let mut body = para(r) + "\n"; for _ in 1..nb { body += "\n"; body += &block(r, depth+1, false); } if r.below(3)==0 { body += &if tight {String::new()} else {"\n".to_string()}; body += &blocks_list(r, depth+1); } indent(&body, "- ", "  ") }).collect::<Vec<_>>().join(if tight {""} else {"\n"}) }
        8 => { let n = 1 + r.below(3); (0..n).enumerate().map(|(i,_)| { let body = para(r) + "\n"; indent(&body, &format!("{}. ", i+1), "   ") }).collect::<Vec<_>>().join("") }
        9 => { let nn = 1 + r.below(2); let inner = blocks(r, depth+1, nn, true); indent(&inner, "> ", "> ").replace("\n\n", "\n>\n") }
        10 => format!("| {} | {} |\n|---|---|\n| {} | {} |\n", words(r), words(r), words(r), words(r)),
        _ => format!("[{}](k{})\n", words(r), r.below(3)),
    }
}
fn blocks_list(r: &mut Rng, depth: u32) -> String { let n = 1 + r.below(2); (0..n).map(|_| indent(&(para(r)+"\n"), "- ", "  ")).collect::<Vec<_>>().join("") }
fn blocks(r: &mut Rng, depth: u32, n: u64, hdr: bool) -> String { (0..n).map(|_| block(r, depth, hdr)).collect::<Vec<_>>().join("\n") }

fn norm(s: &str) -> String { let mut g = Graph::new(); g.from_markdown("key".into(), s, MarkdownReader::new()); g.to_markdown(&"key".into()) }
fn main() {
    std::panic::set_hook(Box::new(|i| { if std::thread::current().name()==Some("main") { let s=i.to_string(); if s.contains("p4.rs") { eprintln!("{}", s); } } }));
    let n: u64 = std::env::args().nth(1).map(|s| s.parse().unwrap()).unwrap_or(2000);
    let mut stats: BTreeMap<&str, u64> = BTreeMap::new();
    let mut shown = 0;
    for seed in 1..=n {
        let mut r = Rng(seed.wrapping_mul(0x9E3779B97F4A7C15) | 1);
        let nb = 1 + r.below(5);
        let doc = blocks(&mut r, 0, nb, true);
        let res = std::panic::catch_unwind(|| { let a = norm(&doc); let b = norm(&a); (a,b) });
        match res {
            Err(_) => { *stats.entry("panic").or_default() += 1; if shown < 3 { shown+=1; println!("PANIC on:\n{}\n-----", doc); } }
            Ok((a,b)) => if a != b { *stats.entry("nonfix").or_default() += 1; if shown < 12 { shown += 1; println!("NONFIX input:\n{}\n--out1:\n{}\n--out2:\n{}\n------", doc, a, b); } } else { *stats.entry("ok").or_default() += 1; }
        }
    }
    println!("{:?}", stats);
}
