use relative_path::RelativePath;
fn from_rel(url: &str, rel: &str) -> String { let key = url.trim_end_matches(".md").to_string(); RelativePath::new(rel).join_normalized(key).to_string() }
fn to_rel(key: &str, rel: &str) -> String { RelativePath::new(rel).relative(key).to_string() }
fn parent(key: &str) -> String { RelativePath::new(key).parent().map(|p| p.to_string()).unwrap_or_default() }
fn main() {
    let names = ["a","b","c"];
    let mut paths: Vec<String> = vec![];
    for d in 1..=3 { let mut idx = vec![0usize; d]; loop { paths.push(idx.iter().map(|i| names[*i]).collect::<Vec<_>>().join("/")); let mut k = 0; loop { if k==d { break; } idx[k]+=1; if idx[k]<3 { break; } idx[k]=0; k+=1; } if k==d { break; } } }
    let mut dirs = paths.clone(); dirs.push(String::new());
    let (mut n, mut bad) = (0, 0);
    for k in &paths { for d in &dirs { n+=1; let u = to_rel(k, d); let back = from_rel(&u, d); if &back != k { bad+=1; if bad < 10 { println!("K={k} D={d:?} url={u} back={back}"); } } } }
    println!("pairs={n} bad={bad}");
    // note in its own dir: parent(K)
    for k in &paths { let d = parent(k); let u = to_rel(k,&d); assert_eq!(&from_rel(&u,&d), k); }
    // K == D edge (note named like its directory), K prefix of D
    for (k,d) in [("a","a"),("a","a/b"),("a/b","a/b/c")] { let u = to_rel(k,d); println!("K={k} D={d} url={u:?} back={:?}", from_rel(&u,d)); }
    // non canonical urls
    for (u,d) in [("./x","d"),("../x","d"),("../../x","d"),("x/../y","d"),("/x","d"),("x//y","d"),("x.md","d"),("x.md.md",""),(".md","d"),("",  "d"),("..","d")] { let k = from_rel(u,d); let u2 = to_rel(&k,d); println!("u={u:?} D={d:?} key={k:?} rewritten={u2:?} key2={:?}", from_rel(&u2,d)); }
}
