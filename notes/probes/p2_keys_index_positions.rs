use liwe::graph::{Graph, GraphContext};
use liwe::model::Key;
use liwe::model::config::MarkdownOptions;
use liwe::database::Database;
use liwe::parser::Parser;
use liwe::markdown::MarkdownReader;
use std::collections::HashMap;

fn st(v: &[(&str,&str)]) -> HashMap<String,String> { v.iter().map(|(a,b)|(a.to_string(),b.to_string())).collect() }

fn main() {
    // C15
    for (k, d) in [("x","d"), ("d/x","d"), ("d/x",""), ("a/b/x","a/c"), ("x",""), ("x","a/b")] {
        let key = Key::from_file_name(k);
        let url = key.to_rel_link_url(d);
        let back = Key::from_rel_link_url(&url, d);
        println!("K={k:?} D={d:?} url={url:?} back={:?} ok={}", back.to_string(), back==key);
    }
    println!("parent of 'd/n' = {:?}; parent of 'n' = {:?}", Key::from_file_name("d/n").parent(), Key::from_file_name("n").parent());
    println!("trim: {:?}", Key::from_file_name("a.md.md").to_string());
    // C04 stale title + index after table
    let mut db = Database::new(st(&[("1","# one\n\n[x](2)\n"),("2","# two\n")]), true, MarkdownOptions::default());
    println!("title(2)={:?}", db.graph().get_key_title(&"2".into()));
    db.update_document("2".into(), "no heading now\n".to_string());
    println!("after edit title(2)={:?}  export1={:?}", db.graph().get_key_title(&"2".into()), db.graph().to_markdown(&"1".into()));
    let fresh = Database::new(st(&[("1","# one\n\n[x](2)\n"),("2","no heading now\n")]), true, MarkdownOptions::default());
    println!("fresh title(2)={:?} export1={:?}", fresh.graph().get_key_title(&"2".into()), fresh.graph().to_markdown(&"1".into()));
    // index after table
    let t = "# one\n\n| a |\n|---|\n| b |\n\n[two](2)\n\npara [l](2)\n";
    let mut db = Database::new(st(&[("1",t),("2","# two\n")]), true, MarkdownOptions::default());
    println!("import: block refs to 2: {:?} inline: {:?}", db.graph().get_block_references_to(&"2".into()), db.graph().get_inline_references_to(&"2".into()));
    db.update_document("1".into(), t.to_string());
    println!("after same-text update: block refs to 2: {:?} inline: {:?}", db.graph().get_block_references_to(&"2".into()), db.graph().get_inline_references_to(&"2".into()));
    // table cell link
    let t2 = "| [l](2) |\n|---|\n| [m](2) |\n";
    let db = Database::new(st(&[("1",t2),("2","# two\n")]), true, MarkdownOptions::default());
    println!("table-cell links: inline refs to 2: {:?}  export: {:?}", db.graph().get_inline_references_to(&"2".into()), db.graph().to_markdown(&"1".into()));
    // C13 CRLF
    let p = Parser::new("para\r\n\r\ntext [link](to) text\r\n", MarkdownReader::new());
    for c in 0..22 { if let Some(u) = p.url_at((2,c).into()) { print!("{c}:{u} "); } }
    println!();
    for l in 0..5 { for c in 0..22 { if let Some(u) = p.url_at((l,c).into()) { print!("[{l},{c}:{u}] "); } } }
    println!();
    let p = Parser::new("é [link](to) x\n", MarkdownReader::new());
    for c in 0..22 { if let Some(u) = p.url_at((0,c).into()) { print!("{c}:{u} "); } }
    println!();
    let p = Parser::new("first line\nsecond [link](to) x\n", MarkdownReader::new());
    for l in 0..3 { for c in 0..22 { if let Some(u) = p.url_at((l,c).into()) { print!("[{l},{c}:{u}] "); } } }
    println!();
    let p = Parser::new("- item [link](to) x\n- two [l2](t2)\n", MarkdownReader::new());
    for l in 0..3 { for c in 0..22 { if let Some(u) = p.url_at((l,c).into()) { print!("[{l},{c}:{u}] "); } } }
    println!();
}
