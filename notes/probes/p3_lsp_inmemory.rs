use std::collections::HashMap;
use std::time::Duration;
use lsp_server::{Connection, Message, Notification, Request, RequestId};
use serde_json::{json, Value};
use iwes::{main_loop, ServerParams};
use liwe::model::config::Configuration;

struct Srv { client: Connection, next: i32 }
impl Srv {
    fn new(state: &[(&str,&str)], base: &str) -> Srv {
        let (connection, client) = Connection::memory();
        let state: HashMap<String,String> = state.iter().map(|(a,b)|(a.to_string(),b.to_string())).collect();
        let base = base.to_string();
        std::thread::spawn(move || {
            let _ = main_loop(connection, ServerParams{ state: Some(state), client_name: None, sequential_ids: Some(true), base_path: base, configuration: Configuration::default()});
        });
        Srv{client, next: 1}
    }
    fn req(&mut self, method: &str, params: Value) -> Option<Value> {
        let id = self.next; self.next += 1;
        self.client.sender.send(Message::Request(Request{ id: RequestId::from(id), method: method.to_string(), params })).unwrap();
        loop {
            match self.client.receiver.recv_timeout(Duration::from_millis(1500)) {
                Ok(Message::Response(r)) => { if r.id == RequestId::from(id) { return Some(json!({"result": r.result, "error": r.error.map(|e| e.message)})); } }
                Ok(_) => continue,
                Err(_) => return None,
            }
        }
    }
    fn notify(&mut self, method: &str, params: Value) {
        self.client.sender.send(Message::Notification(Notification{ method: method.to_string(), params })).unwrap();
    }
}
fn td(u: &str) -> Value { json!({"uri": u}) }
fn main() {
    let _ = std::panic::take_hook();
    std::panic::set_hook(Box::new(|i| { eprintln!("PANIC: {}", i.to_string().lines().next().unwrap_or("")); }));
    let mut s = Srv::new(&[("1","# one\n\n[two](2)\n\ntext [two](2)\n\n## sub\n\nbody\n"),("2","# two\n\n- a\n- b\n"),("d/3","# three\n\n[one](../1)\n\n[x](1)\n")], "/base");
    println!("fmt1: {:?}", s.req("textDocument/formatting", json!({"textDocument": td("file:///base/1.md"), "options": {"tabSize":2,"insertSpaces":true}})));
    println!("fmt d/3: {:?}", s.req("textDocument/formatting", json!({"textDocument": td("file:///base/d/3.md"), "options": {"tabSize":2,"insertSpaces":true}})));
    println!("fmt unknown: {:?}", s.req("textDocument/formatting", json!({"textDocument": td("file:///base/zzz.md"), "options": {"tabSize":2,"insertSpaces":true}})));
    println!("alive?: {:?}", s.req("workspace/symbol", json!({"query": ""})).is_some());
    println!("unknown method: {:?}", s.req("textDocument/hover", json!({"textDocument": td("file:///base/1.md"), "position": {"line":0,"character":0}})));
    println!("refs to 1: {:?}", s.req("textDocument/references", json!({"textDocument": td("file:///base/1.md"), "position": {"line":0,"character":0}, "context": {"includeDeclaration": false}})));
    println!("refs to 2: {:?}", s.req("textDocument/references", json!({"textDocument": td("file:///base/2.md"), "position": {"line":0,"character":0}, "context": {"includeDeclaration": false}})));
    println!("codeAction line 6: {:?}", s.req("textDocument/codeAction", json!({"textDocument": td("file:///base/1.md"), "range": {"start":{"line":6,"character":0},"end":{"line":6,"character":0}}, "context": {"diagnostics": []}})));
    println!("codeAction line 99: {:?}", s.req("textDocument/codeAction", json!({"textDocument": td("file:///base/1.md"), "range": {"start":{"line":99,"character":0},"end":{"line":99,"character":0}}, "context": {"diagnostics": []}})));
    println!("resolve extract: {:?}", s.req("codeAction/resolve", json!({"title":"Extract section","kind":"refactor.extract.section","data":5})));
    println!("rename 2->new from 1: {:?}", s.req("textDocument/rename", json!({"textDocument": td("file:///base/1.md"), "position": {"line":2,"character":7}, "newName": "new"})));
    println!("rename 1->q from d/3: {:?}", s.req("textDocument/rename", json!({"textDocument": td("file:///base/d/3.md"), "position": {"line":2,"character":8}, "newName": "q"})));
    println!("def from d/3 line2: {:?}", s.req("textDocument/definition", json!({"textDocument": td("file:///base/d/3.md"), "position": {"line":2,"character":8}})));
    println!("inlay 2: {:?}", s.req("textDocument/inlayHint", json!({"textDocument": td("file:///base/2.md"), "range": {"start":{"line":0,"character":0},"end":{"line":9,"character":0}}})));
    // space in names
    s.notify("textDocument/didChange", json!({"textDocument": {"uri":"file:///base/a%20b.md","version":2}, "contentChanges":[{"text":"# spaced\n"}]}));
    println!("symbols: {:?}", s.req("workspace/symbol", json!({"query": ""})));
    println!("docsym: {:?}", s.req("textDocument/documentSymbol", json!({"textDocument": td("file:///base/1.md")})));
    println!("completion: {:?}", s.req("textDocument/completion", json!({"textDocument": td("file:///base/d/3.md"), "position": {"line":0,"character":0}})).map(|v| v.to_string().chars().take(600).collect::<String>()));
}
