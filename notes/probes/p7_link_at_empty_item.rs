use liwe::parser::Parser;
use liwe::markdown::MarkdownReader;
fn main() {
    let r = std::panic::catch_unwind(|| { let p = Parser::new("-\n- a\n\npara [l](to)\n", MarkdownReader::new()); p.url_at((3,6).into()) });
    println!("empty-first-item list then link_at: {:?}", r.map_err(|_| "PANIC"));
    let r = std::panic::catch_unwind(|| { let p = Parser::new("para [l](to)\n\n-\n- a\n", MarkdownReader::new()); (p.url_at((0,6).into()), p.url_at((9,0).into())) });
    println!("link before such list / past end: {:?}", r.map_err(|_| "PANIC"));
}
