use liwe::graph::{Graph, GraphContext};
use liwe::model::config::MarkdownOptions;
use liwe::database::Database;
use std::collections::HashMap;
fn st(v: &[(&str,&str)]) -> HashMap<String,String> { v.iter().map(|(a,b)|(a.to_string(),b.to_string())).collect() }
fn paths(g: &Graph) -> Vec<String> { g.paths().iter().map(|p| p.ids().iter().map(|id| g.get_text(*id)).collect::<Vec<_>>().join(" > ")).collect() }
fn main() {
    let db = Database::new(st(&[("1","# a\n\n[a](1)\n\n## sub\n"),("2","# b\n\n[c](3)\n"),("3","# c\n\n[b](2)\n"),("4","# d\n")]), true, MarkdownOptions::default());
    println!("paths: {:?}", paths(db.graph()));
    // hidden from search after dropping last reference
    let mut db = Database::new(st(&[("1","# a\n\n[b](2)\n"),("2","# b\n")]), true, MarkdownOptions::default());
    println!("before: {:?}", paths(db.graph()));
    db.update_document("1".into(), "# a\n".to_string());
    println!("after dropping ref: {:?}", paths(db.graph()));
    let fresh = Database::new(st(&[("1","# a\n"),("2","# b\n")]), true, MarkdownOptions::default());
    println!("fresh: {:?}", paths(fresh.graph()));
    // squash order
    let db = Database::new(st(&[("1","# a\n\np1\n\n[b](2)\n\np2\n"),("2","# b\n\nbody\n")]), true, MarkdownOptions::default());
    let t = db.graph().squash(&"1".into(), 2);
    let mut patch = Graph::new();
    patch.build_key_from_iter(&"1".into(), liwe::model::tree::TreeIter::new(&t));
    println!("squash: {:?}", patch.export_key(&"1".into()));
}
