use std::collections::HashMap;
use std::time::Duration;
use lsp_server::{Connection, Message, Notification, Request, RequestId};
use serde_json::{json, Value};
use iwes::{main_loop, ServerParams};
use liwe::model::config::Configuration;
fn main() {
    std::panic::set_hook(Box::new(|_| {}));
    let mut lost = 0; let rounds = 200;
    for round in 0..rounds {
        let (connection, client) = Connection::memory();
        let state: HashMap<String,String> = [("1".to_string(), "# one\n".to_string())].into_iter().collect();
        std::thread::spawn(move || { let _ = main_loop(connection, ServerParams{ state: Some(state), client_name: None, sequential_ids: Some(true), base_path: "/base".into(), configuration: Configuration::default()}); });
        let send_req = |id: i32, m: &str, p: Value| client.sender.send(Message::Request(Request{ id: RequestId::from(id), method: m.into(), params: p })).unwrap();
        // several requests in flight, then an edit, then ask
        for i in 0..8 { send_req(i, "workspace/symbol", json!({"query": ""})); }
        client.sender.send(Message::Notification(Notification{ method: "textDocument/didChange".into(), params: json!({"textDocument": {"uri":"file:///base/1.md","version":2}, "contentChanges":[{"text": format!("# edited {}\n", round)}]}) })).unwrap();
        send_req(100, "textDocument/formatting", json!({"textDocument": {"uri":"file:///base/1.md"}, "options": {"tabSize":2,"insertSpaces":true}}));
        let mut text = None;
        loop { match client.receiver.recv_timeout(Duration::from_millis(2000)) { Ok(Message::Response(r)) => { if r.id == RequestId::from(100) { text = r.result.map(|v| v[0]["newText"].as_str().unwrap_or("").to_string()); break; } } Ok(_) => {}, Err(_) => break } }
        if text != Some(format!("# edited {}\n", round)) { lost += 1; }
    }
    println!("edits lost: {lost}/{rounds}");
}
