use liwe::graph::Graph;
use liwe::markdown::MarkdownReader;
use std::io::Read;

fn norm(s: &str) -> String {
    let mut g = Graph::new();
    g.from_markdown("key".into(), s, MarkdownReader::new());
    g.to_markdown(&"key".into())
}

fn main() {
    let mut input = String::new();
    std::io::stdin().read_to_string(&mut input).unwrap();
    for case in input.split("\n=====\n") {
        println!("---- INPUT:\n{}", case);
        let r = std::panic::catch_unwind(|| {
            let a = norm(case);
            let b = norm(&a);
            (a, b)
        });
        match r {
            Ok((a, b)) => {
                println!("---- OUT1:\n{}", a);
                if a != b { println!("---- OUT2 (DIFFERS):\n{}", b); }
            }
            Err(_) => println!("---- PANIC"),
        }
        println!("==========");
    }
}
