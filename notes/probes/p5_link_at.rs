use liwe::parser::Parser;
use liwe::markdown::MarkdownReader;
use liwe::markdown::reader::MarkdownEventsReader;
fn show(t: &str) {
    let p = Parser::new(t, MarkdownReader::new());
    print!("{:?}: ", t);
    for l in 0..5 { for c in 0..30 { if let Some(u) = p.url_at((l,c).into()) { print!("[{l},{c}:{u}] "); } } }
    println!();
    let mut r = MarkdownEventsReader::new();
    let b = r.read(t);
    println!("   blocks: {:?}", b.iter().map(|b| format!("{:?}", b).chars().take(90).collect::<String>()).collect::<Vec<_>>());
}
fn main() {
    show("first line\nsecond [l](to) x");
    show("first line\nsecond [l](to) x\n");
    show("> quote\n> second [l](to) x\n");
    show("- item\n  second [l](to) x\n- b\n");
    show("- item\n\n  para [l](to) x\n");
    show("| a |\n|---|\n| [l](to) |\n");
    show("# head [l](to)\n");
    show("a [l](to)\n\n\nb [m](tm)\n");
    show("[[wiki]] and [[w|piped]]\n");
    show("*[l](to)*\n");
}
