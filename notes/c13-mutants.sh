#!/bin/bash
# usage: mutants.sh ; applies each mutant to the worktree, runs the suite, runs ./check C13
R=/root/work/c13/repo
V=/root/work/c13/verif
cd $R
run() {
  name=$1
  echo "=== mutant $name" 
  git -C $R diff --stat | tail -1
  (cd $R && CARGO_NET_OFFLINE=true timeout 1500 cargo test --workspace --no-fail-fast --offline 2>&1 | grep "^test result" | awk '{p+=$4; f+=$6} END {print "suite passed", p, "failed", f}')
  (cd $V && timeout 1500 ./check C13 --tier quick > /root/work/c13/mut-$name.log 2>&1; echo "check exit $?")
  grep -m3 "VIOLATION\|failing input\|failing sub" /root/work/c13/mut-$name.log | cut -c1-400
  tail -1 /root/work/c13/mut-$name.log | cut -c1-200
  git -C $R checkout -q .
}
# MA: link range end inclusive
python3 - <<'PY'
p='/root/work/c13/repo/crates/liwe/src/model/document.rs'
s=open(p).read()
old="        if self.inline_range().contains(&position) && self.is_link() {"
new="        if self.inline_range().start <= position && position <= self.inline_range().end && self.is_link() {"
assert old in s
open(p,'w').write(s.replace(old,new))
PY
run MA
# MB: to_line_range end line with strict comparison
python3 - <<'PY'
p='/root/work/c13/repo/crates/liwe/src/markdown/reader.rs'
s=open(p).read()
a=s.index("    fn to_line_range")
old="            if line_start <= range.end {\n                end = line;\n            }"
assert old in s[a:]
s=s[:a]+s[a:].replace(old,"            if line_start < range.end {\n                end = line;\n            }")
open(p,'w').write(s)
PY
run MB
# MC: get_node_id_at inclusive end
python3 - <<'PY'
p='/root/work/c13/repo/crates/liwe/src/graph.rs'
s=open(p).read()
old=".find(|(_, v)| (*v).contains(&line))"
assert old in s
open(p,'w').write(s.replace(old,".find(|(_, v)| v.start <= line && line <= v.end)"))
PY
run MC
#!/bin/bash
R=/root/work/c13/repo
V=/root/work/c13/verif
cd $R
run() {
  name=$1
  echo "=== mutant $name" 
  git -C $R diff --stat | tail -1
  (cd $R && CARGO_NET_OFFLINE=true timeout 1500 cargo test --workspace --no-fail-fast --offline 2>&1 | grep "^test result" | awk '{p+=$4; f+=$6} END {print "suite passed", p, "failed", f}')
  (cd $V && timeout 1500 ./check C13 --tier quick > /root/work/c13/mut-$name.log 2>&1; echo "check exit $?")
  grep -m3 "VIOLATION\|failing input\|failing sub" /root/work/c13/mut-$name.log | cut -c1-400
  tail -1 /root/work/c13/mut-$name.log | cut -c1-200
  cp $V/_work/replay/C13_seed1_case*.json /root/work/c13/ 2>/dev/null
  git -C $R checkout -q .
}
# MD: inline start located with a strict comparison
python3 - <<'PY'
p='/root/work/c13/repo/crates/liwe/src/markdown/reader.rs'
s=open(p).read()
a=s.index("    fn to_inline_range"); b=s.index("    fn to_line_range")
old="            if line_start <= range.start {"
assert old in s[a:b]
s=s[:a]+s[a:b].replace(old,"            if line_start < range.start {")+s[b:]
open(p,'w').write(s)
PY
run MD
# ME: links in headings no longer searched
python3 - <<'PY'
p='/root/work/c13/repo/crates/liwe/src/model/document.rs'
s=open(p).read()
old="            DocumentBlock::Header(header) => header.inlines.clone(),\n            _ => vec![],"
assert old in s
open(p,'w').write(s.replace(old,"            _ => vec![],"))
PY
run ME
# MF: line lengths counted in characters
python3 - <<'PY'
p='/root/work/c13/repo/crates/liwe/src/markdown/reader.rs'
s=open(p).read()
old=".map(|line| line.len() + 1)"
assert old in s
open(p,'w').write(s.replace(old,".map(|line| line.chars().count() + 1)"))
PY
run MF
