#!/bin/sh
# Build the framework offline from files on disk: the Rocq development (full .vo build) and
# the correspondence harness (against /repo's current tree, hooks on).
set -e
cd "$(dirname "$0")"
export CARGO_NET_OFFLINE=true
(cd coq && coq_makefile -f _CoqProject -o Makefile && timeout 3000 make -j16)
(cd harness && cargo build --offline)
