#!/bin/sh
# Build the framework offline from files on disk: the Rocq development (full .vo build) and
# the correspondence harness (against /repo's current tree, hooks on).
set -e
cd "$(dirname "$0")"
export CARGO_NET_OFFLINE=true
(cd coq && coq_makefile -f _CoqProject -o Makefile && timeout 3000 make -j16)
(cd harness && cargo build --offline)
# C19 runs the built `iwe` binary (the harness rebuilds it on every check; this only warms the cache):
# built from the repository the harness' liwe dependency points to, into harness/target/iwe-bin
VERIF_DIR="$(pwd -P)"
REPO_DIR="$(sed -n 's/^liwe *= *{ *path *= *"\(.*\)\/crates\/liwe".*/\1/p' harness/Cargo.toml)"
(cd "${REPO_DIR:-/repo}" && cargo build --offline -p iwe --target-dir "$VERIF_DIR/harness/target/iwe-bin")
