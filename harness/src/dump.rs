//! Rust values of liwe -> Gallina terms of coq/theories/Ast.v and Arena.v.
use crate::gal::*;
use liwe::graph::graph_node::GraphNode;
use liwe::graph::Graph;
use liwe::model::document::{DocumentBlock, DocumentInline, LinkType};
use liwe::model::graph::GraphInline;
use liwe::model::node::{ColumnAlignment, Node, ReferenceType};
use liwe::model::tree::Tree;

pub fn link_type(t: LinkType) -> String {
    match t {
        LinkType::Regular => "Regular".into(),
        LinkType::WikiLink => "WikiLink".into(),
        LinkType::WikiLinkPiped => "WikiLinkPiped".into(),
    }
}

pub fn ref_type(t: ReferenceType) -> String {
    link_type(t.to_link_type())
}

/// marker text for a value outside the modelled constructors (U+E000 private use + constructor name)
pub fn unmodelled(debug: &str) -> String {
    let name: String = debug.chars().take_while(|c| c.is_alphanumeric() || *c == '_').collect();
    format!("\u{e000}unmodelled{}", name)
}

pub fn dinline(i: &DocumentInline) -> String {
    match i {
        DocumentInline::Str(s) => gapp("Str", &[gstr(s)]),
        DocumentInline::Code(c) => gapp("Code", &[gstr(&c.text)]),
        DocumentInline::Math(m) => gapp("Math", &[gstr(&m.content)]),
        DocumentInline::Emph(e) => gapp("Emph", &[dinlines(&e.inlines)]),
        DocumentInline::Strong(e) => gapp("Strong", &[dinlines(&e.inlines)]),
        DocumentInline::Strikeout(e) => gapp("Strike", &[dinlines(&e.inlines)]),
        DocumentInline::Link(l) => gapp("Link", &[gstr(&l.target.url), gstr(&l.target.title), link_type(l.link_type), dinlines(&l.inlines)]),
        DocumentInline::Image(l) => gapp("Image", &[gstr(&l.target.url), gstr(&l.target.title), dinlines(&l.inlines)]),
        // a constructor the model does not have (the pinned reader never produces it): dumped as a
        // marked string, so that the model disagrees with whatever the code does with it and the
        // property predicates still run on the observed texts
        other => gapp("Str", &[gstr(&unmodelled(&format!("{:?}", other)))]),
    }
}

pub fn dinlines(l: &[DocumentInline]) -> String {
    glist(&l.iter().map(dinline).collect::<Vec<_>>())
}

pub fn ginline(i: &GraphInline) -> String {
    match i {
        GraphInline::Str(s) => gapp("Str", &[gstr(s)]),
        GraphInline::Code(_, c) => gapp("Code", &[gstr(c)]),
        GraphInline::Math(m) => gapp("Math", &[gstr(m)]),
        GraphInline::Emph(e) => gapp("Emph", &[ginlines(e)]),
        GraphInline::Strong(e) => gapp("Strong", &[ginlines(e)]),
        GraphInline::Strikeout(e) => gapp("Strike", &[ginlines(e)]),
        GraphInline::Link(url, title, lt, l) => gapp("Link", &[gstr(url), gstr(title), link_type(*lt), ginlines(l)]),
        GraphInline::Image(url, title, l) => gapp("Image", &[gstr(url), gstr(title), ginlines(l)]),
        other => gapp("Str", &[gstr(&unmodelled(&format!("{:?}", other)))]),
    }
}

pub fn ginlines(l: &[GraphInline]) -> String {
    glist(&l.iter().map(ginline).collect::<Vec<_>>())
}

pub fn lrange(r: &std::ops::Range<usize>) -> String {
    format!("({}, {})", r.start, r.end)
}

pub fn align(a: &ColumnAlignment) -> String {
    match a {
        ColumnAlignment::None => "ANone".into(),
        ColumnAlignment::Left => "ALeft".into(),
        ColumnAlignment::Center => "ACenter".into(),
        ColumnAlignment::Right => "ARight".into(),
    }
}

pub fn dblock(b: &DocumentBlock) -> String {
    match b {
        DocumentBlock::Para(p) => gapp("DPara", &[lrange(&p.line_range), dinlines(&p.inlines)]),
        DocumentBlock::CodeBlock(c) => gapp("DCode", &[lrange(&c.line_range), gopt(c.lang.as_ref().map(|l| gstr(l))), gstr(&c.text)]),
        DocumentBlock::BlockQuote(q) => gapp("DQuote", &[lrange(&q.line_range), dblocks(&q.blocks)]),
        DocumentBlock::OrderedList(l) => gapp("DOList", &[glist(&l.items.iter().map(|i| dblocks(i)).collect::<Vec<_>>())]),
        DocumentBlock::BulletList(l) => gapp("DBList", &[glist(&l.items.iter().map(|i| dblocks(i)).collect::<Vec<_>>())]),
        DocumentBlock::Header(h) => gapp("DHeader", &[lrange(&h.line_range), gn(h.level as u64), dinlines(&h.inlines)]),
        DocumentBlock::HorizontalRule(r) => gapp("DRule", &[lrange(&r.line_range)]),
        DocumentBlock::Table(t) => gapp(
            "DTable",
            &[
                lrange(&t.line_range),
                glist(&t.header.iter().map(|c| dinlines(c)).collect::<Vec<_>>()),
                glist(&t.alignment.iter().map(align).collect::<Vec<_>>()),
                glist(&t.rows.iter().map(|r| glist(&r.iter().map(|c| dinlines(c)).collect::<Vec<_>>())).collect::<Vec<_>>()),
            ],
        ),
        other => gapp("DPara", &["(0, 0)".to_string(), glist(&[gapp("Str", &[gstr(&unmodelled(&format!("{:?}", other)))])])]),
    }
}

pub fn dblocks(l: &[DocumentBlock]) -> String {
    glist(&l.iter().map(dblock).collect::<Vec<_>>())
}

pub fn node(n: &Node) -> String {
    match n {
        Node::Document(k) => gapp("NDocument", &[gstr(&k.to_string())]),
        Node::Section(l) => gapp("NSection", &[ginlines(l)]),
        Node::Quote() => "NQuote".into(),
        Node::BulletList() => "NBList".into(),
        Node::OrderedList() => "NOList".into(),
        Node::Leaf(l) => gapp("NLeaf", &[ginlines(l)]),
        Node::Raw(lang, c) => gapp("NRaw", &[gopt(lang.as_ref().map(|l| gstr(l))), gstr(c)]),
        Node::HorizontalRule() => "NRule".into(),
        Node::Reference(r) => gapp("NRef", &[gstr(&r.key.to_string()), gstr(&r.text), ref_type(r.reference_type)]),
        Node::Table(t) => gapp(
            "NTable",
            &[
                glist(&t.header.iter().map(|c| ginlines(c)).collect::<Vec<_>>()),
                glist(&t.alignment.iter().map(align).collect::<Vec<_>>()),
                glist(&t.rows.iter().map(|r| glist(&r.iter().map(|c| ginlines(c)).collect::<Vec<_>>())).collect::<Vec<_>>()),
            ],
        ),
    }
}

pub fn tree(t: &Tree) -> String {
    gapp("T", &[gopt(t.id.map(|i| gn(i))), node(&t.node), glist(&t.children.iter().map(tree).collect::<Vec<_>>())])
}

fn oid(o: Option<u64>) -> String {
    gopt(o.map(gn))
}

/// one arena slot as a `gnode`
pub fn gnode(g: &Graph, n: &GraphNode) -> String {
    let line = |id: usize| ginlines(g.get_line(id).inlines());
    let kind = match n {
        GraphNode::Empty => "KEmpty".to_string(),
        GraphNode::Document(d) => gapp("KDocument", &[gstr(&d.key().to_string())]),
        GraphNode::Section(s) => gapp("KSection", &[line(s.line_id())]),
        GraphNode::Quote(_) => "KQuote".into(),
        GraphNode::BulletList(_) => "KBList".into(),
        GraphNode::OrderedList(_) => "KOList".into(),
        GraphNode::Leaf(l) => gapp("KLeaf", &[line(l.line_id())]),
        GraphNode::Raw(r) => gapp("KRaw", &[gopt(r.lang().map(|l| gstr(&l))), gstr(r.content())]),
        GraphNode::HorizontalRule(_) => "KRule".into(),
        GraphNode::Reference(r) => gapp("KRef", &[gstr(&r.key().to_string()), gstr(r.text()), ref_type(r.reference_type())]),
        GraphNode::Table(t) => gapp(
            "KTable",
            &[
                glist(&t.header().iter().map(|id| line(*id)).collect::<Vec<_>>()),
                glist(&t.alignment().iter().map(align).collect::<Vec<_>>()),
                glist(&t.rows().iter().map(|r| glist(&r.iter().map(|id| line(*id)).collect::<Vec<_>>())).collect::<Vec<_>>()),
            ],
        ),
    };
    let (prev, next, child) = match n {
        GraphNode::Empty => (None, None, None),
        _ => (n.prev_id(), n.next_id(), n.child_id()),
    };
    gapp("GN", &[kind, oid(prev), oid(next), oid(child)])
}

pub fn arena(g: &Graph) -> String {
    glist(&g.nodes().iter().map(|n| gnode(g, n)).collect::<Vec<_>>())
}
