//! Code-action stage shared by C09 (extract / inline) and C10 (list / section conversions):
//! a real `iwes::router::server::Server` is built on a generated library; for every line of
//! every note each of the seven action kinds is requested (`handle_code_action` with
//! `only = [kind]`), every distinct offered (node, kind) is resolved
//! (`handle_code_action_resolve`), the WorkspaceEdit is applied to a copy of the texts, the
//! edited notes are re-read with the real reader and re-imported, and for the actions that
//! have an inverse the edited texts are fed back with didChange and the inverse action is
//! requested at the line of the converted block.  Everything runs under catch_unwind; an
//! action the model of the harness knows to abort the process (stack overflow) is first tried
//! in a child process.
use crate::dump;
use crate::gal::*;
use crate::gen::{self, Ctx, Style, GB, GI};
use crate::lib_stage::{self, gres, line_count, notes_of, panic_msg, state_of, tables_of};
use crate::rng::Rng;
use iwes::router::server::Server;
use iwes::router::{LspClient, ServerConfig};
use liwe::graph::{Graph, GraphContext};
use liwe::markdown::MarkdownReader;
use liwe::graph::Reader;
use liwe::model::config::{Configuration, MarkdownOptions};
use liwe::model::Key;
use lsp_types::*;
use serde_json::{json, Value};
use std::collections::HashSet;
use std::panic::{catch_unwind, AssertUnwindSafe};

pub const KINDS: [&str; 7] = [
    "refactor.extract.section",
    "refactor.extract.subsections",
    "refactor.inline.reference.section",
    "refactor.inline.reference.quote",
    "refactor.rewrite.section.list",
    "refactor.rewrite.list.section",
    "refactor.rewrite.list.type",
];

static SELF_INLINE: std::sync::atomic::AtomicU8 = std::sync::atomic::AtomicU8::new(0);

const BASE: &str = "file:///basepath/";

fn uri_of(key: &str) -> Url {
    Url::parse(&format!("{}{}.md", BASE, key)).unwrap()
}

fn key_of_uri(u: &Url) -> String {
    let s = u.to_string();
    let s = s.strip_prefix(BASE).unwrap_or(&s);
    s.strip_suffix(".md").unwrap_or(s).to_string()
}

fn server(notes: &[(String, String)], ext: &str, seq: bool) -> Server {
    Server::new(ServerConfig {
        base_path: "/basepath".to_string(),
        state: state_of(notes),
        sequential_ids: Some(seq),
        lsp_client: LspClient::Unknown,
        configuration: Configuration { markdown: MarkdownOptions { refs_extension: ext.to_string() }, ..Default::default() },
    })
}

/// a server that REACHED the library's texts through edits: started on other texts for the same keys
/// (other front matter, heading, links, a list), then one didChange per note with the text of the case
fn server_with_history(notes: &[(String, String)], ext: &str, seq: bool) -> Option<Server> {
    let n = notes.len();
    let was: Vec<(String, String)> = notes.iter().enumerate().map(|(i, (name, _))| {
        let other = Key::name(&notes[(i + 1) % n].0).to_string();
        let other = other.rsplit('/').next().unwrap_or("x").to_string();
        let other = if !other.is_empty() && other.chars().all(|c| c.is_ascii_alphanumeric() || c == '-' || c == '_') { other } else { "x".to_string() };
        (name.clone(), format!("---\nwas: {}\n---\n\n# was {}\n\n- old item\n- [[{}]]\n\n## gone\n\n[was]({}) text\n", i, i, other, other))
    }).collect();
    let mut s = catch_unwind(AssertUnwindSafe(|| server(&was, ext, seq))).ok()?;
    let mut order: Vec<&(String, String)> = notes.iter().collect();
    order.sort_by(|a, b| b.0.cmp(&a.0));
    for (name, text) in order {
        did_change(&mut s, &Key::name(name).to_string(), text).ok()?;
    }
    Some(s)
}

fn params(key: &str, line: usize, kind: usize) -> CodeActionParams {
    CodeActionParams {
        text_document: TextDocumentIdentifier { uri: uri_of(key) },
        range: Range::new(Position::new(line as u32, 0), Position::new(line as u32, 0)),
        context: CodeActionContext { diagnostics: vec![], only: Some(vec![CodeActionKind::new(KINDS[kind - 1])]), trigger_kind: None },
        work_done_progress_params: Default::default(),
        partial_result_params: Default::default(),
    }
}

/// handle_code_action for one kind: Ok(Some(action)) when offered
fn offer(s: &Server, key: &str, line: usize, kind: usize) -> Result<Option<CodeAction>, String> {
    catch_unwind(AssertUnwindSafe(|| {
        s.handle_code_action(&params(key, line, kind)).into_iter().find_map(|a| match a {
            CodeActionOrCommand::CodeAction(ca) => Some(ca),
            _ => None,
        })
    }))
    .map_err(panic_msg)
}

fn goffer(o: &Result<Option<CodeAction>, String>) -> String {
    gres(o.clone().map(|x| gopt(x.map(|ca| gpair(&gstr(&ca.title), &gn(ca.data.as_ref().and_then(|d| d.as_u64()).unwrap_or(u64::MAX)))))))
}

#[derive(Clone, Debug)]
pub enum Och {
    Create(String),
    Update(String, String),
    Remove(String),
}

fn goch(c: &Och) -> String {
    match c {
        Och::Create(k) => gapp("OCreate", &[gstr(k)]),
        Och::Update(k, t) => gapp("OUpdate", &[gstr(k), gstr(t)]),
        Och::Remove(k) => gapp("ORemove", &[gstr(k)]),
    }
}

fn resolve(s: &Server, ca: &CodeAction) -> Result<Vec<Och>, String> {
    catch_unwind(AssertUnwindSafe(|| {
        let r = s.handle_code_action_resolve(ca);
        let mut out = vec![];
        if let Some(WorkspaceEdit { document_changes: Some(DocumentChanges::Operations(ops)), .. }) = r.edit {
            for op in ops {
                match op {
                    DocumentChangeOperation::Op(ResourceOp::Create(c)) => out.push(Och::Create(key_of_uri(&c.uri))),
                    DocumentChangeOperation::Op(ResourceOp::Delete(d)) => out.push(Och::Remove(key_of_uri(&d.uri))),
                    DocumentChangeOperation::Op(ResourceOp::Rename(_)) => panic!("harness: unexpected rename op"),
                    DocumentChangeOperation::Edit(e) => {
                        let text = e.edits.iter().map(|x| match x { OneOf::Left(t) => t.new_text.clone(), OneOf::Right(t) => t.text_edit.new_text.clone() }).collect::<Vec<_>>().join("");
                        out.push(Och::Update(key_of_uri(&e.text_document.uri), text));
                    }
                }
            }
        }
        out
    }))
    .map_err(panic_msg)
}

fn did_change(s: &mut Server, key: &str, text: &str) -> Result<(), String> {
    catch_unwind(AssertUnwindSafe(|| {
        s.handle_did_change_text_document(DidChangeTextDocumentParams {
            text_document: VersionedTextDocumentIdentifier { uri: uri_of(key), version: 1 },
            content_changes: vec![TextDocumentContentChangeEvent { range: None, range_length: None, text: text.to_string() }],
        })
    }))
    .map_err(panic_msg)
}

/// re-read of every updated note (last text per key wins, in order of first update), with the
/// table oracle of the note re-imported into a copy of the library graph
fn rereads(graph: &mut Graph, changes: &[Och], options: &MarkdownOptions) -> String {
    let mut out = vec![];
    for c in changes {
        if let Och::Update(k, text) = c {
            let doc = catch_unwind(AssertUnwindSafe(|| MarkdownReader::new().document(text)));
            let d = match doc {
                Ok(d) => Ok(format!("({}, {})", gopt(d.metadata.clone().map(|m| gstr(&m))), dump::dblocks(&d.blocks))),
                Err(e) => Err(panic_msg(e)),
            };
            let key = Key::name(k);
            let tables = match catch_unwind(AssertUnwindSafe(|| { graph.update_key(key.clone(), text); })) {
                Ok(()) => tables_of(graph, &key, options),
                Err(_) => vec![],
            };
            out.push(gapp("RR", &[gstr(k), gres(d), glist(&tables.iter().map(|t| gstr(t)).collect::<Vec<_>>())]));
        }
    }
    glist(&out)
}

fn gstep(kind: usize, key: &str, line: usize, off: &Result<Option<CodeAction>, String>, ch: &Result<Vec<Och>, String>, after: &str) -> String {
    gapp("ST", &[gn(kind as u64), gstr(key), gn(line as u64), goffer(off),
        gres(ch.clone().map(|l| glist(&l.iter().map(goch).collect::<Vec<_>>()))), after.to_string()])
}

fn first_diff_line(a: &str, b: &str) -> usize {
    let la: Vec<&str> = a.split('\n').collect();
    let lb: Vec<&str> = b.split('\n').collect();
    let mut i = 0;
    while i < la.len() && i < lb.len() && la[i] == lb[i] { i += 1; }
    i
}

fn list_ids(t: &liwe::model::tree::Tree, out: &mut Vec<u64>) {
    if t.is_list() { if let Some(i) = t.id { out.push(i); } }
    for c in &t.children { list_ids(c, out); }
}

/// position (in document order, among the lists of the note) of the list that surrounds node `id`
fn list_position(graph: &Graph, key: &str, id: u64) -> Option<usize> {
    catch_unwind(AssertUnwindSafe(|| {
        let t = graph.collect(&Key::name(key));
        let l = t.get_surrounding_list_id(id)?;
        let mut ids = vec![];
        list_ids(&t, &mut ids);
        ids.iter().position(|x| *x == l)
    }))
    .unwrap_or(None)
}

fn same_list_line(before: &Graph, after: &Graph, s2: &Server, key: &str, id: u64, from: usize, lines: usize) -> usize {
    let want = match list_position(before, key, id) { Some(p) => p, None => return from };
    for l in from..lines.min(from + 200) {
        if let Ok(Some(ca)) = offer(s2, key, l, 7) {
            let id2 = ca.data.as_ref().and_then(|d| d.as_u64()).unwrap_or(u64::MAX);
            if list_position(after, key, id2) == Some(want) { return l; }
        }
    }
    from
}

fn is_self_ref(graph: &Graph, key: &str, id: u64) -> bool {
    catch_unwind(AssertUnwindSafe(|| {
        graph.collect(&Key::name(key)).find(id).and_then(|t| t.node.reference_key()).map(|k| k.to_string() == key).unwrap_or(false)
    }))
    .unwrap_or(false)
}

/// does resolving this action abort the process?  (tried in a child process)
fn aborts_in_child(v: &Value, key: &str, line: usize, kind: usize) -> bool {
    let exe = match std::env::current_exe() { Ok(e) => e, Err(_) => return false };
    let dir = std::env::temp_dir().join(format!("iwe-verif-child-{}-{}", std::process::id(), line * 16 + kind));
    let _ = std::fs::create_dir_all(&dir);
    let mut inp = v.clone();
    inp["only"] = json!([key, line, kind]);
    let f = dir.join("in.jsonl");
    if std::fs::write(&f, format!("{}\n", inp)).is_err() { return false; }
    let st = std::process::Command::new(exe)
        .args(["C09", "--inputs", f.to_str().unwrap(), "--out", dir.join("out").to_str().unwrap(), "--shards", "1"])
        .env("IWE_VERIF_CHILD", "1")
        .stdout(std::process::Stdio::null())
        .stderr(std::process::Stdio::null())
        .status();
    let _ = std::fs::remove_dir_all(&dir);
    match st { Ok(s) => !s.success(), Err(_) => false }
}

/// Gallina `actcase` for {"ext":..,"seq":..,"notes":[[name,text],..]}; `kinds`: which action kinds
/// are resolved (C09: 1-4, C10: 5-7)
pub fn execute(v: &Value, kinds: &[usize]) -> String {
    let ext = v["ext"].as_str().unwrap_or("");
    let seq = v["seq"].as_bool().unwrap_or(true);
    let notes = notes_of(v);
    let options = MarkdownOptions { refs_extension: ext.to_string() };
    let child = std::env::var("IWE_VERIF_CHILD").is_ok();
    if std::env::var("IWE_VERIF_TRACE").is_ok() { eprintln!("TRACE {}", v); }

    if child {
        // child mode: resolve exactly one action and leave (the parent looks at the exit status)
        if let Some(o) = v["only"].as_array() {
            let (key, line, kind) = (o[0].as_str().unwrap().to_string(), o[1].as_u64().unwrap() as usize, o[2].as_u64().unwrap() as usize);
            if let Ok(s) = catch_unwind(AssertUnwindSafe(|| server(&notes, ext, seq))) {
                if let Ok(Some(ca)) = offer(&s, &key, line, kind) {
                    let _ = resolve(&s, &ca);
                }
            }
        }
        return "child".to_string();
    }

    let lc = lib_stage::execute(v);
    let mut sorted = notes.clone();
    sorted.sort_by(|a, b| a.0.cmp(&b.0));
    let srv = catch_unwind(AssertUnwindSafe(|| server(&notes, ext, seq)));
    let graph = catch_unwind(AssertUnwindSafe(|| Graph::import(&state_of(&notes), options.clone())));
    let (srv, graph) = match (srv, graph) {
        (Ok(s), Ok(g)) => (s, g),
        _ => return gapp("AC", &[lc, gbool(seq), "[]".into(), "[]".into(), "[]".into()]),
    };

    // every second case is also asked on a server that reached the same texts through edits
    let hist_srv = if v["hist"].as_bool().unwrap_or(false) { server_with_history(&notes, ext, seq) } else { None };

    let mut lines_out = vec![];
    let mut acts_out = vec![];
    let mut seen: HashSet<(u64, usize)> = HashSet::new();
    let mut per_kind = [0usize; 8];
    let cap = v["cap"].as_u64().unwrap_or(4) as usize; // resolved actions per kind and library
    for (name, text) in &sorted {
        let key = Key::name(name).to_string();
        for line in 0..line_count(text) {
            let offers: Vec<_> = (1..=7).map(|k| offer(&srv, &key, line, k)).collect();
            lines_out.push(gapp("LO", &[gstr(&key), gn(line as u64), glist(&offers.iter().map(goffer).collect::<Vec<_>>())]));
            for &kind in kinds {
                let off = &offers[kind - 1];
                let ca = match off { Ok(Some(ca)) => ca.clone(), _ => continue };
                let id = ca.data.as_ref().and_then(|d| d.as_u64()).unwrap_or(u64::MAX);
                if !seen.insert((id, kind)) { continue; }
                if per_kind[kind] >= cap { continue; }
                per_kind[kind] += 1;

                // an inline-section of a reference to the note itself may never return
                let self_ref = kind == 3 && is_self_ref(&graph, &key, id);
                // the child probe is made for the first self-reference of the run; when that one
                // returns (append_pre_header as repaired) the others are resolved in-process
                let probe = self_ref && match SELF_INLINE.load(std::sync::atomic::Ordering::Relaxed) {
                    0 => { let a = aborts_in_child(v, &key, line, kind); SELF_INLINE.store(if a { 2 } else { 1 }, std::sync::atomic::Ordering::Relaxed); a }
                    1 => false,
                    _ => aborts_in_child(v, &key, line, kind),
                };
                let ch = if probe {
                    Err("process aborted (stack overflow)".to_string())
                } else {
                    resolve(&srv, &ca)
                };
                let mut g1 = graph.clone();
                let after = match &ch { Ok(l) => rereads(&mut g1, l, &options), Err(_) => "[]".into() };
                let first = gstep(kind, &key, line, off, &ch, &after);
                // the same request on the server with a history: its own edits, re-read; the offer
                // recorded is the fresh server's (node ids differ between the two arenas)
                let hist = match (&hist_srv, probe) {
                    (Some(hs), false) => {
                        let chh = match offer(hs, &key, line, kind) {
                            Ok(Some(cah)) => resolve(hs, &cah),
                            Ok(None) => Err("not offered by the server with a history".to_string()),
                            Err(e) => Err(e),
                        };
                        let mut gh = graph.clone();
                        let afterh = match &chh { Ok(l) => rereads(&mut gh, l, &options), Err(_) => "[]".into() };
                        format!("(Some {})", gstep(kind, &key, line, off, &chh, &afterh))
                    }
                    _ => "None".to_string(),
                };

                // second step: the inverse action after the editor applied the edit
                let inverse = match kind { 7 => Some(7), 5 => Some(6), 1 => Some(3), _ => None };
                let mut second = "None".to_string();
                if let (Some(k2), Ok(l)) = (inverse, &ch) {
                    let new_text = l.iter().rev().find_map(|c| match c { Och::Update(k, t) if *k == key => Some(t.clone()), _ => None });
                    if let Some(new_text) = new_text {
                        let original = catch_unwind(AssertUnwindSafe(|| graph.to_markdown(&Key::name(&key)))).unwrap_or_default();
                        let line2 = first_diff_line(&original, &new_text);
                        if let Ok(mut s2) = catch_unwind(AssertUnwindSafe(|| server(&notes, ext, seq))) {
                            let mut ok = true;
                            for c in l {
                                if let Och::Update(k, t) = c { ok &= did_change(&mut s2, k, t).is_ok(); }
                            }
                            if ok {
                                // change-list-type twice: the second request has to reach the SAME list.  The first
                                // changed line is the first line of that list, but the node found there may sit in
                                // a quote or nested list that leads the first item; the request is then made at the
                                // first later line whose action targets the list with the same pre-order position
                                let line2 = if k2 == 7 { same_list_line(&graph, &g1, &s2, &key, id, line2, line_count(&new_text)) } else { line2 };
                                let off2 = offer(&s2, &key, line2, k2);
                                // an inline-section that would not terminate is not attempted as a second step
                                if let Ok(Some(ca2)) = &off2 {
                                    let id2 = ca2.data.as_ref().and_then(|d| d.as_u64()).unwrap_or(u64::MAX);
                                    if k2 == 3 && is_self_ref(&g1, &key, id2) {
                                        acts_out.push(gapp("AO", &[first, "None".to_string(), hist]));
                                        continue;
                                    }
                                }
                                let ch2 = match &off2 { Ok(Some(ca2)) => resolve(&s2, ca2), _ => Err("not offered".to_string()) };
                                let mut g2 = g1.clone();
                                let after2 = match &ch2 { Ok(l2) => rereads(&mut g2, l2, &options), Err(_) => "[]".into() };
                                second = format!("(Some {})", gstep(k2, &key, line2, &off2, &ch2, &after2));
                            }
                        }
                    }
                }
                acts_out.push(gapp("AO", &[first, second, hist]));
            }
        }
    }
    // table oracle for a note whose tables are written into ANOTHER directory of the library (inlining a
    // note from another directory): the note links of table cells are written relative to the note
    let mut dirs: Vec<String> = sorted.iter().map(|(n, _)| Key::name(n).parent()).collect();
    dirs.sort();
    dirs.dedup();
    let mut xtables = vec![];
    for (name, _) in &sorted {
        let key = Key::name(name);
        if lib_stage::tables_of(&graph, &key, &options).is_empty() { continue; }
        for d in &dirs {
            if *d == key.parent() { continue; }
            let t = lib_stage::tables_of_at(&graph, &key, d, &options);
            xtables.push(gpair(&gstr(&key.to_string()), &gpair(&gstr(d), &glist(&t.iter().map(|x| gstr(x)).collect::<Vec<_>>()))));
        }
    }
    gapp("AC", &[lc, gbool(seq), glist(&xtables), glist(&lines_out), glist(&acts_out)])
}

// ------------------------------------------------------------------ generators

const W: &[&str] = &["alpha", "beta", "gamma", "delta", "note", "text", "one", "two", "three", "foo", "bar"];

fn ws(rng: &mut Rng, lo: usize, hi: usize) -> Vec<GI> {
    (0..rng.range(lo, hi)).map(|_| GI::Word(rng.pick(W).to_string())).collect()
}

fn ref_para(rng: &mut Rng, ctx: &Ctx) -> GB {
    let t = gen::target(rng, ctx);
    match rng.below(8) {
        0 => GB::Para(vec![GI::Wiki(t)]),
        1 => GB::Para(vec![GI::WikiPiped(t, rng.pick(W).to_string())]),
        _ => GB::Para(vec![GI::Link(ws(rng, 1, 2), t)]),
    }
}

/// inert inlines: words, emphasis, code spans, note links of the three kinds, images
fn inl(rng: &mut Rng, ctx: &Ctx) -> Vec<GI> {
    if ctx.hostile { return gen::inlines(rng, ctx, 0); }
    let n = rng.range(1, 4);
    let mut out = vec![];
    for _ in 0..n {
        out.push(match rng.below(14) {
            0..=6 => GI::Word(rng.pick(W).to_string()),
            7 => GI::Emph(ws(rng, 1, 2)),
            8 => GI::Strong(ws(rng, 1, 2)),
            9 => GI::CodeSpan(rng.pick(W).to_string()),
            10 | 11 => GI::Link(ws(rng, 1, 2), gen::target(rng, ctx)),
            12 => if rng.chance(1, 2) { GI::Wiki(gen::target(rng, ctx)) } else { GI::WikiPiped(gen::target(rng, ctx), rng.pick(W).to_string()) },
            _ => if rng.chance(1, 3) { GI::Image(rng.pick(W).to_string(), "img.png".into()) } else { GI::Word(rng.pick(W).to_string()) },
        });
    }
    // a paragraph that is exactly one note link is a block reference: keep those to ref_para
    if out.len() == 1 && matches!(out[0], GI::Link(_, _) | GI::Wiki(_) | GI::WikiPiped(_, _)) { out.push(GI::Word("x".into())); }
    out
}

fn list_item(rng: &mut Rng, ctx: &Ctx, depth: usize) -> Vec<GB> {
    let mut it = vec![GB::Para(inl(rng, ctx))];
    match rng.below(16) {
        0 | 1 if depth < 2 => it.push(list(rng, ctx, depth + 1)),
        2 => it.push(GB::Para(inl(rng, ctx))),
        3 => it.push(ref_para(rng, ctx)),
        4 => { it.push(GB::Para(inl(rng, ctx))); it.push(GB::Code(None, "code\n".into())); }
        5 if depth < 2 => { it.push(GB::Heading(rng.range(1, 2) as u8, ws(rng, 1, 2))); it.push(GB::Para(inl(rng, ctx))); }
        6 if depth < 2 => { it.push(GB::Para(inl(rng, ctx))); it.push(list(rng, ctx, depth + 1)); it.push(GB::Para(inl(rng, ctx))); if rng.chance(1, 2) { it.push(list(rng, ctx, depth + 1)); } }
        _ => {}
    }
    it
}

fn list(rng: &mut Rng, ctx: &Ctx, depth: usize) -> GB {
    let n = if rng.chance(1, 14) { rng.range(10, 11) } else { rng.range(1, 3) };
    let items = (0..n).map(|_| list_item(rng, ctx, depth)).collect();
    if rng.chance(1, 2) { GB::Bullet(items) } else { GB::Ordered(1, items) }
}

fn body_block(rng: &mut Rng, ctx: &Ctx) -> GB {
    if ctx.hostile {
        return loop {
            let b = gen::block(rng, ctx, 1, true);
            if !matches!(b, GB::Heading(_, _)) { break b; }
        };
    }
    match rng.below(16) {
        0..=3 => GB::Para(inl(rng, ctx)),
        4..=6 => ref_para(rng, ctx),
        7..=10 => list(rng, ctx, 0),
        11 => GB::Code(if rng.chance(1, 2) { Some("rust".to_string()) } else { None }, format!("{}\n", rng.pick(W))),
        12 => GB::Rule,
        13 => GB::Quote(vec![GB::Para(inl(rng, ctx)), if rng.chance(1, 2) { list(rng, ctx, 1) } else { GB::Para(inl(rng, ctx)) }]),
        14 => {
            let cols = rng.range(1, 3);
            GB::Table((0..rng.range(2, 3)).map(|_| (0..cols).map(|_| if rng.chance(1, 4) { vec![GI::Link(ws(rng, 1, 1), gen::target(rng, ctx))] } else { ws(rng, 1, 2) }).collect()).collect())
        }
        _ => GB::Para(inl(rng, ctx)),
    }
}

fn body(rng: &mut Rng, ctx: &Ctx, lo: usize, hi: usize) -> Vec<GB> {
    (0..rng.range(lo, hi)).map(|_| body_block(rng, ctx)).collect()
}

/// an outline: title, body, sub-sections with bodies and sub-sub-sections
fn outline(rng: &mut Rng, ctx: &Ctx) -> Vec<GB> {
    let mut out = vec![];
    if rng.chance(1, 5) { out.extend(body(rng, ctx, 1, 2)); } // content before the first heading
    if !rng.chance(1, 8) { out.push(GB::Heading(1, ws(rng, 1, 3))); }
    out.extend(body(rng, ctx, 0, 2));
    for _ in 0..rng.range(0, 2) {
        out.push(GB::Heading(2, inl(rng, ctx)));
        out.extend(body(rng, ctx, 0, 2));
        for _ in 0..rng.range(0, 2) {
            out.push(GB::Heading(if rng.chance(1, 6) { rng.range(3, 6) as u8 } else { 3 }, ws(rng, 1, 2)));
            out.extend(body(rng, ctx, 0, 2));
        }
    }
    if rng.chance(1, 6) {
        // a second top-level section
        out.push(GB::Heading(1, ws(rng, 1, 2)));
        out.extend(body(rng, ctx, 0, 2));
    }
    out
}

/// a deep outline (heading levels 1..7 in a row) ending in a list: list -> sections gives level > 6
fn deep(rng: &mut Rng, ctx: &Ctx) -> Vec<GB> {
    let mut out = vec![];
    let d = rng.range(4, 6);
    for l in 1..=d { out.push(GB::Heading(l as u8, ws(rng, 1, 1))); }
    out.push(GB::Bullet(vec![vec![GB::Para(ws(rng, 1, 2))], vec![GB::Para(ws(rng, 1, 1)), GB::Bullet(vec![vec![GB::Para(ws(rng, 1, 1))]])]]));
    out.extend(body(rng, ctx, 0, 1));
    out
}

pub fn library(rng: &mut Rng, hostile: bool, nested: bool) -> Vec<(String, String)> {
    let n = if rng.chance(1, 4) { 3 } else { rng.range(1, 2) };
    let pool: Vec<&str> = if nested { vec!["a", "b", "d/a", "d/b", "d/e/c", "e/a", "2", "3"] } else { vec!["a", "b", "c", "n1", "2", "3", "4"] };
    let mut keys: Vec<String> = vec![];
    while keys.len() < n {
        let k = rng.pick(&pool).to_string();
        if !keys.contains(&k) { keys.push(k); }
    }
    let mut notes = vec![];
    for k in &keys {
        let dir = gen::dir_of(k);
        let targets: Vec<String> = keys.iter().map(|t| gen::rel_url(t, &dir)).filter(|u| !u.is_empty()).collect();
        let ctx = Ctx { targets: &targets, hostile, max_depth: 2 };
        let doc = match rng.below(10) {
            0 => gen::document(rng, &ctx),
            1 => deep(rng, &ctx),
            _ => outline(rng, &ctx),
        };
        let st = if rng.chance(2, 3) { Style::plain() } else { Style::random(rng) };
        let fm = if rng.chance(1, 10) { Some("title: t\ntags: [a, b]\n") } else { None };
        notes.push((k.clone(), gen::document_src(&doc, &st, fm)));
    }
    // a note without content (empty file, blank lines, front matter only) that others still refer to
    if notes.len() > 1 && rng.chance(1, 6) {
        let i = rng.below(notes.len());
        notes[i].1 = rng.pick(&["", "\n\n", "---\ntitle: t\n---\n"]).to_string();
    }
    notes
}

pub fn generate(rng: &mut Rng, thorough: bool, n_quick: usize) -> Vec<Value> {
    let n = if thorough { n_quick * 12 } else { n_quick };
    let mut out = vec![];
    for i in 0..n {
        let (hostile, nested, kind) = match i % 8 {
            0 | 1 | 2 => (false, false, "inert-flat"),
            3 | 4 | 5 => (false, true, "inert-nested"),
            6 => (true, false, "hostile-flat"),
            _ => (true, true, "hostile-nested"),
        };
        let notes = library(rng, hostile, nested);
        let ext = if rng.chance(1, 4) { ".md" } else { "" };
        let seq = rng.chance(1, 2);
        out.push(json!({"ext": ext, "seq": seq, "kind": kind, "hist": i % 2 == 0, "notes": notes.iter().map(|n| json!([n.0, n.1])).collect::<Vec<_>>()}));
    }
    out
}

pub fn label(v: &Value) -> String {
    let n = v["notes"].as_array().map(|a| a.len()).unwrap_or(0);
    format!("{}:seq={}:ext={}:notes={}", v["kind"].as_str().unwrap_or("?"), v["seq"].as_bool().unwrap_or(true), v["ext"].as_str().unwrap_or(""), n)
}
