//! iwe-verif-harness: runs the real iwe code on generated inputs and writes the observations
//! as Gallina case files for the Coq side to evaluate (model = observed?  P(observed)?).
//!
//!   harness <property> --seed N --tier quick|thorough --out DIR [--inputs FILE]
//!
//! Every property module exposes
//!   generate(&mut Rng, tier) -> Vec<Value>      inputs as JSON (so they replay exactly)
//!   execute(&Value) -> String                    runs the implementation, returns a Gallina case
//! With `--inputs FILE` (JSON lines) the generator is skipped: replay / corpus.
mod c01;
mod c03;
mod c14;
mod c13;
mod actions;
mod c09;
mod c10;
mod c08;
mod c15;
mod c16;
mod c17;
mod c19;
mod c05;
mod c18;
#[cfg(have_router_hooks)]
mod c11;
#[cfg(have_router_hooks)]
mod c12;
#[cfg(have_router_hooks)]
mod router_drv;
mod dump;
mod gal;
mod gen;
mod hist_stage;
mod lib_stage;
mod libgen;
mod rng;

use serde_json::{json, Value};
use std::collections::HashMap;
use std::fs;
use std::io::Write;
use std::path::PathBuf;

pub struct PropModule {
    pub coq_module: &'static str,
    pub runner: &'static str,
    pub generate: fn(&mut rng::Rng, bool) -> Vec<Value>,
    pub execute: fn(&Value) -> String,
    /// a short label per input for the distribution printed into the evidence
    pub label: fn(&Value) -> String,
}

fn module(prop: &str) -> PropModule {
    match prop {
        "C14" => c14::module(),
        "C15" => c15::module(),
        "C16" => c16::module(),
        "C03" => c03::module(),
        "C17" => c17::module(),
        "C19" => c19::module(),
        "C13" => c13::module(),
        "C05" => c05::module(),
        "C18" => c18::module(),
        "C09" => c09::module(),
        "C10" => c10::module(),
        #[cfg(have_router_hooks)]
        "C11" => c11::module(),
        #[cfg(have_router_hooks)]
        "C12" => c12::module(),
        #[cfg(not(have_router_hooks))]
        "C11" | "C12" => {
            eprintln!("{}: the router scheduling hooks (patches/hook-router.patch) are not in the iwes tree", prop);
            std::process::exit(3);
        }
        "C08" => c08::module(),
        "C01" => c01::module(),
        "C02" => PropModule { coq_module: "Check_RR", runner: "Check_RR.run_C02", generate: |r, t| libgen::generate_mixed(r, t, 320), execute: lib_stage::execute, label: libgen::label },
        "C06" => PropModule { coq_module: "Check_RR", runner: "Check_RR.run_C06", generate: |r, t| libgen::generate_mixed(r, t, 320), execute: lib_stage::execute, label: libgen::label },
        "C07" => PropModule { coq_module: "Check_RR", runner: "Check_RR.run_C07", generate: |r, t| libgen::generate_mixed(r, t, 320), execute: lib_stage::execute, label: libgen::label },
        "NORM" => PropModule { coq_module: "Check_Norm", runner: "Check_Norm.run_norm_explore", generate: |r, t| libgen::generate_mixed(r, t, 400), execute: lib_stage::execute, label: libgen::label },
        "HIST" => PropModule { coq_module: "Check_Hist", runner: "Check_Hist.run_HIST", generate: |r, t| hist_stage::generate(r, t, 120), execute: hist_stage::execute, label: hist_stage::label },
        "C20" => PropModule { coq_module: "Check_Hist", runner: "Check_Hist.run_C20", generate: |r, t| hist_stage::generate(r, t, 120), execute: hist_stage::execute, label: hist_stage::label },
        "C04" => PropModule { coq_module: "Check_Hist", runner: "Check_Hist.run_C04", generate: |r, t| hist_stage::generate(r, t, 120), execute: hist_stage::execute, label: hist_stage::label },
        "LIB" => PropModule { coq_module: "Check_Lib", runner: "Check_Lib.run_corr", generate: |r, t| libgen::generate_mixed(r, t, 200), execute: lib_stage::execute, label: libgen::label },
        _ => {
            eprintln!("unknown property {}", prop);
            std::process::exit(2);
        }
    }
}

fn main() {
    let args: Vec<String> = std::env::args().collect();
    if args.len() < 2 {
        eprintln!("usage: harness <property> --seed N --tier T --out DIR [--inputs FILE]");
        std::process::exit(2);
    }
    let prop = args[1].clone();
    if prop == "C16-child" {
        c16::child_main(&args[2], args[3].parse().unwrap_or(0));
        return;
    }
    if prop == "C03-child" {
        c03::child_main(&args[2]);
        return;
    }
    let mut seed: u64 = 1;
    let mut thorough = false;
    let mut out = PathBuf::from("_work");
    let mut inputs_file: Option<String> = None;
    let mut shards = 16usize;
    let mut i = 2;
    while i < args.len() {
        match args[i].as_str() {
            "--seed" => { seed = args[i + 1].parse().unwrap_or(1); i += 1; }
            "--tier" => { thorough = args[i + 1] == "thorough"; i += 1; }
            "--out" => { out = PathBuf::from(&args[i + 1]); i += 1; }
            "--inputs" => { inputs_file = Some(args[i + 1].clone()); i += 1; }
            "--shards" => { shards = args[i + 1].parse().unwrap_or(16); i += 1; }
            _ => {}
        }
        i += 1;
    }
    let m = module(&prop);
    fs::create_dir_all(&out).unwrap();
    std::env::set_var("VERIF_WORK", &out);

    // corpus first (minimised failures and finding witnesses), then generated inputs
    let mut inputs: Vec<Value> = vec![];
    let mut n_corpus = 0;
    if let Some(f) = &inputs_file {
        for line in fs::read_to_string(f).unwrap().lines() {
            if line.trim().is_empty() { continue; }
            inputs.push(serde_json::from_str(line).unwrap());
        }
    } else {
        let corpus_name = match prop.as_str() { "C01" | "C02" | "C06" | "C07" | "NORM" | "LIB" => "NORM".to_string(), "C04" | "C20" | "HIST" => "HIST".to_string(), p => p.to_string() };
        let corpus = PathBuf::from(env!("CARGO_MANIFEST_DIR")).join("corpus").join(format!("{}.jsonl", corpus_name));
        if let Ok(text) = fs::read_to_string(&corpus) {
            for line in text.lines() {
                if line.trim().is_empty() { continue; }
                inputs.push(serde_json::from_str(line).unwrap());
                n_corpus += 1;
            }
        }
        let mut rng = rng::Rng::new(seed);
        inputs.extend((m.generate)(&mut rng, thorough));
    }

    // distinct inputs only
    let mut seen = std::collections::HashSet::new();
    inputs.retain(|v| seen.insert(v.to_string()));

    // silence panic messages of the code under test: panics are observations
    std::panic::set_hook(Box::new(|_| {}));

    let mut cases = Vec::with_capacity(inputs.len());
    let mut dist: HashMap<String, u64> = HashMap::new();
    let mut inputs_out = fs::File::create(out.join("inputs.jsonl")).unwrap();
    // cases that run in child processes are executed in parallel (order of results is kept)
    let parallel = matches!(prop.as_str(), "C03" | "C16");
    if parallel {
        let n_threads = 14usize;
        let results: Vec<std::sync::Mutex<Option<String>>> = inputs.iter().map(|_| std::sync::Mutex::new(None)).collect();
        let next = std::sync::atomic::AtomicUsize::new(0);
        std::thread::scope(|sc| {
            for _ in 0..n_threads {
                sc.spawn(|| loop {
                    let i = next.fetch_add(1, std::sync::atomic::Ordering::SeqCst);
                    if i >= inputs.len() { break; }
                    let r = (m.execute)(&inputs[i]);
                    *results[i].lock().unwrap() = Some(r);
                });
            }
        });
        for r in results { cases.push(r.into_inner().unwrap().unwrap()); }
    }
    for inp in &inputs {
        if !parallel { cases.push((m.execute)(inp)); }
        *dist.entry((m.label)(inp)).or_insert(0) += 1;
        writeln!(inputs_out, "{}", inp).unwrap();
    }
    let n_shards = gal::write_shards(&out, m.coq_module, m.runner, &cases, shards);
    let mut dist_sorted: Vec<_> = dist.into_iter().collect();
    dist_sorted.sort();
    let meta = json!({
        "property": prop,
        "seed": seed,
        "tier": if thorough { "thorough" } else { "quick" },
        "cases": cases.len(),
        "corpus_cases": n_corpus,
        "shards": n_shards,
        "distribution": dist_sorted.into_iter().map(|(k, v)| (k, json!(v))).collect::<serde_json::Map<String, Value>>(),
    });
    fs::write(out.join("meta.json"), serde_json::to_string_pretty(&meta).unwrap()).unwrap();
    println!("{}", meta);
}
