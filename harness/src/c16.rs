//! C16 — results do not depend on thread count, load order or hash seeds.
//! Every library is loaded in several separate processes (a fresh `RandomState` each), with
//! different rayon pool sizes and with the notes inserted into the state in different orders;
//! each process prints the id-free view of everything the server answers (formatted files,
//! titles, block at each line, backlink sets, outline paths, ordered search results) and the
//! exported state.  Coq compares the dumps with each other and the first one with the model.
//!
//! LARGE libraries (`"big"` inputs, appended after the ordinary cases): `global_search` and
//! `search_paths` work on rayon slices of the path list, and a slice is never shorter than a few
//! hundred entries, so a library of five notes is always ONE slice whatever the pool size.  A big
//! input is a recipe for >= 1100 tiny notes in which many notes carry the same title / the same
//! sub-headings (ties of score, text length and rank that lie thousands of paths apart); the
//! child processes dump only what is cheap to compare: the number of outline paths and the
//! ordered results (key + text of the first 100 hits) of a few queries.  No model run for these.
use crate::gal::*;
use crate::gen;
use crate::hist_stage::idfree;
use crate::lib_stage::{note_in_term, tables_of};
use crate::rng::Rng;
use liwe::database::Database;
use liwe::graph::Graph;
use liwe::model::config::MarkdownOptions;
use liwe::model::Key;
use serde_json::{json, Value};
use std::collections::{BTreeMap, HashMap};

fn notes_of(v: &Value) -> Vec<(String, String)> {
    if v.get("big").is_some() {
        return big_notes(&v["big"]);
    }
    crate::lib_stage::notes_of(v)
}

fn big_name(nested: bool, i: usize) -> String {
    if nested && i % 10 != 0 { format!("d{}/n{:04}", i % 5, i) } else { format!("n{:04}", i) }
}

/// The notes of a big recipe `{"n", "nested", "titles": [[text, period, offset]..], "subs": [[text, period,
/// offset]..], "rare": [word, period, offset], "refs": [[period, offset, target, block]..]}`: note `i` is
/// `# <title>` (the first title whose period/offset matches `i`, else the unique `Note NNNN`), one `## <sub>`
/// per matching sub-heading, `## <rare word>` where that matches, and for every matching ref a sentence with
/// an inline link to note `target`, or (`block`) a block reference to it; both raise the rank of that note, the
/// block reference also puts the target's outline below the referrer's.  Nothing random: the recipe is the input.
pub fn big_notes(b: &Value) -> Vec<(String, String)> {
    let n = b["n"].as_u64().unwrap_or(0) as usize;
    let nested = b["nested"].as_bool().unwrap_or(false);
    let hit = |e: &Value, i: usize| -> bool {
        let p = e[1].as_u64().unwrap_or(1).max(1) as usize;
        i % p == (e[2].as_u64().unwrap_or(0) as usize) % p
    };
    let empty = vec![];
    let titles = b["titles"].as_array().unwrap_or(&empty);
    let subs = b["subs"].as_array().unwrap_or(&empty);
    let refs = b["refs"].as_array().unwrap_or(&empty);
    let mut out = Vec::with_capacity(n);
    for i in 0..n {
        let title = titles.iter().find(|e| hit(e, i)).map(|e| e[0].as_str().unwrap_or("").to_string()).unwrap_or_else(|| format!("Note {:04}", i));
        let mut text = format!("# {}\n", title);
        for e in subs {
            if hit(e, i) {
                text.push_str(&format!("\n## {}\n", e[0].as_str().unwrap_or("")));
            }
        }
        if b["rare"].is_array() && hit(&b["rare"], i) {
            text.push_str(&format!("\n## {}\n", b["rare"][0].as_str().unwrap_or("")));
        }
        for e in refs {
            let p = e[0].as_u64().unwrap_or(1).max(1) as usize;
            let t = e[2].as_u64().unwrap_or(0) as usize % n.max(1);
            if i % p == (e[1].as_u64().unwrap_or(0) as usize) % p && t != i {
                let up = if nested && i % 10 != 0 { "../" } else { "" };
                if e[3].as_bool().unwrap_or(false) {
                    text.push_str(&format!("\n[that]({}{})\n", up, big_name(nested, t)));
                } else {
                    text.push_str(&format!("\nSee [that]({}{}) too.\n", up, big_name(nested, t)));
                }
            }
        }
        out.push((big_name(nested, i), text));
    }
    out
}

fn big_count(raw: &str) -> u64 {
    raw.lines().next().and_then(|l| l.trim().parse().ok()).unwrap_or(0)
}

/// first place where the plain dump of some process differs from the one of the first process
fn big_diag(v: &Value, raw: &[String]) -> Option<String> {
    let first: Vec<&str> = raw.first()?.lines().collect();
    for (k, r) in raw.iter().enumerate().skip(1) {
        let other: Vec<&str> = r.lines().collect();
        let t = |i: usize| v["variants"][i][0].as_u64().unwrap_or(0);
        for i in 0..first.len().max(other.len()) {
            let (a, b) = (first.get(i).copied().unwrap_or("(nothing)"), other.get(i).copied().unwrap_or("(nothing)"));
            if a != b {
                return Some(if i == 0 {
                    format!("number of outline paths: {} with {} worker(s), {} with {}", a, t(0), b, t(k))
                } else {
                    let q = a.split('|').next().unwrap_or("");
                    let nth = first[1..i].iter().filter(|l| l.split('|').next() == Some(q)).count() + 1;
                    format!("query \"{}\", hit {} (query|key|text): `{}` with {} worker(s), `{}` with {} workers", q, nth, a, t(0), b, t(k))
                });
            }
        }
    }
    None
}

fn big_queries(v: &Value) -> Vec<String> {
    v["queries"].as_array().map(|a| a.iter().map(|q| q.as_str().unwrap_or("").to_string()).collect()).unwrap_or_default()
}

/// the cheap dump of a big library: number of outline paths, ordered hits `query|key|text` of every query
fn big_dump(db: &Database, queries: &[String]) -> String {
    let guard = |f: &dyn Fn() -> Vec<String>| -> Vec<String> {
        std::panic::catch_unwind(std::panic::AssertUnwindSafe(f)).unwrap_or_else(|_| vec!["PANIC".to_string()])
    };
    let paths = guard(&|| vec![db.graph().paths().len().to_string()]);
    let mut search = vec![];
    for q in queries {
        search.extend(guard(&|| db.global_search(q).iter().map(|p| format!("{}|{}|{}", q, p.key, p.search_text)).collect()));
    }
    let strs = |v: &[String]| glist(&v.iter().map(|s| gstr(s)).collect::<Vec<_>>());
    gapp("IF", &["[]".to_string(), "[]".to_string(), "[]".to_string(), "[]".to_string(), strs(&paths), strs(&search)])
}

fn permute(notes: &[(String, String)], seed: u64) -> Vec<(String, String)> {
    let mut rng = Rng::new(seed.wrapping_add(77));
    let mut v = notes.to_vec();
    for i in (1..v.len()).rev() {
        let j = rng.below(i + 1);
        v.swap(i, j);
    }
    v
}

/// child mode: `harness C16-child <input.json> <perm seed>` (RAYON_NUM_THREADS set by the parent)
pub fn child_main(path: &str, perm: u64) {
    let v: Value = serde_json::from_str(&std::fs::read_to_string(path).unwrap()).unwrap();
    std::panic::set_hook(Box::new(|_| {}));
    let ext = v["ext"].as_str().unwrap_or("");
    let options = MarkdownOptions { refs_extension: ext.to_string() };
    let notes = permute(&notes_of(&v), perm);
    let mut state: HashMap<String, String> = HashMap::new();
    for (n, t) in &notes {
        state.insert(n.clone(), t.clone());
    }
    let texts: BTreeMap<String, String> = notes.iter().map(|(n, t)| (Key::name(n).to_string(), t.clone())).collect();
    let big = v.get("big").is_some();
    let queries = big_queries(&v);
    let r = std::panic::catch_unwind(std::panic::AssertUnwindSafe(|| {
        // "inserted" variants: the library is not imported at once but built note by note, in the
        // permuted order, by `insert_document` on an empty database (what a server does with notes
        // that are created one after the other); everything it answers must be what the import answers
        let db = if std::env::var("VERIF_C16_INSERT").is_ok() && !big {
            let mut db = Database::new(HashMap::new(), true, options.clone());
            for (n, t) in &notes {
                db.insert_document(Key::name(n), t.clone());
            }
            db
        } else {
            Database::new(state.clone(), true, options.clone())
        };
        if big {
            // plain copy for the parent's diagnostic: `BIG <paths>` then one `BIG query|key|text` per hit
            println!("BIG {}", db.graph().paths().len());
            for q in &queries {
                for p in db.global_search(q) {
                    println!("BIG {}|{}|{}", q, p.key, p.search_text.replace('\n', " "));
                }
            }
            return (big_dump(&db, &queries), "[]".to_string());
        }
        let dump = idfree(&db, &texts);
        let mut exp: Vec<(String, String)> = db.graph().export().into_iter().collect();
        exp.sort();
        let exp_term = glist(&exp.iter().map(|(k, t)| gpair(&gstr(k), &gstr(t))).collect::<Vec<_>>());
        (dump, exp_term)
    }));
    match r {
        Ok((d, e)) => {
            println!("DUMP {}", d.replace('\n', "\u{1}"));
            println!("EXPORT {}", e.replace('\n', "\u{1}"));
        }
        Err(_) => println!("PANIC"),
    }
}

pub fn execute(v: &Value) -> String {
    let dir = std::env::var("VERIF_WORK").map(std::path::PathBuf::from).unwrap_or_else(|_| std::env::temp_dir());
    static COUNTER: std::sync::atomic::AtomicUsize = std::sync::atomic::AtomicUsize::new(0);
    let f = dir.join(format!("c16_{}_{}.json", std::process::id(), COUNTER.fetch_add(1, std::sync::atomic::Ordering::SeqCst)));
    std::fs::write(&f, v.to_string()).unwrap();
    let exe = std::env::current_exe().unwrap();
    let mut dumps = vec![];
    let mut exports = vec![];
    let mut raw: Vec<String> = vec![];
    for var in v["variants"].as_array().unwrap() {
        let threads = var[0].as_u64().unwrap_or(1);
        let perm = var[1].as_u64().unwrap_or(0);
        let mut cmd = std::process::Command::new("timeout");
        cmd.arg("60").arg(&exe).arg("C16-child").arg(&f).arg(perm.to_string()).env("RAYON_NUM_THREADS", threads.to_string());
        if var[2].as_u64().unwrap_or(0) == 1 { cmd.env("VERIF_C16_INSERT", "1"); } else { cmd.env_remove("VERIF_C16_INSERT"); }
        let out = cmd.output();
        let (d, e) = match out {
            Ok(o) => {
                let so = String::from_utf8_lossy(&o.stdout).to_string();
                raw.push(so.lines().filter(|l| l.starts_with("BIG ")).map(|l| &l["BIG ".len()..]).collect::<Vec<_>>().join("\n"));
                let d = so.lines().find(|l| l.starts_with("DUMP ")).map(|l| format!("(Some {})", l["DUMP ".len()..].replace('\u{1}', "\n")));
                let e = so.lines().find(|l| l.starts_with("EXPORT ")).map(|l| l["EXPORT ".len()..].replace('\u{1}', "\n"));
                (d.unwrap_or("None".into()), e.unwrap_or("[]".into()))
            }
            Err(_) => {
                raw.push(String::new());
                ("None".into(), "[]".into())
            }
        };
        dumps.push(d);
        exports.push(e);
    }
    let _ = std::fs::remove_file(&f);
    if v.get("big").is_some() {
        // no model run for a large library; the number of search paths (first process) says how many slices there are
        let npaths = raw.first().map(|r| big_count(r)).unwrap_or(0);
        if let Some(d) = big_diag(v, &raw) {
            use std::io::Write;
            if let Ok(mut fh) = std::fs::OpenOptions::new().create(true).append(true).open(dir.join("diag.jsonl")) {
                let _ = writeln!(fh, "{}", json!({"case_input": v, "diag": d}));
            }
        }
        return gapp("C16C", &[gstr(v["ext"].as_str().unwrap_or("")), "[]".into(), "[]".into(), glist(&dumps), glist(&exports), format!("{}%N", npaths)]);
    }
    // model inputs: reader blocks of every note (import order) and the table oracle
    let ext = v["ext"].as_str().unwrap_or("");
    let options = MarkdownOptions { refs_extension: ext.to_string() };
    let mut sorted = notes_of(v);
    sorted.sort_by(|a, b| a.0.cmp(&b.0));
    let notes_in: Vec<String> = sorted.iter().map(|(n, t)| note_in_term(n, t, None, &options)).collect();
    let state: HashMap<String, String> = sorted.iter().cloned().collect();
    let tables = match std::panic::catch_unwind(std::panic::AssertUnwindSafe(|| Graph::import(&state, options.clone()))) {
        Ok(g) => sorted.iter().map(|(n, _)| {
            let k = Key::name(n);
            gpair(&gstr(&k.to_string()), &glist(&tables_of(&g, &k, &options).iter().map(|t| gstr(t)).collect::<Vec<_>>()))
        }).collect::<Vec<_>>(),
        Err(_) => vec![],
    };
    gapp("C16C", &[gstr(ext), glist(&notes_in), glist(&tables), glist(&dumps), glist(&exports), "0%N".to_string()])
}

pub fn generate(rng: &mut Rng, thorough: bool) -> Vec<Value> {
    let n = if thorough { 400 } else { 40 };
    let mut out = vec![];
    for i in 0..n {
        let lib = gen::library(rng, i % 4 == 3, 5, i % 2 == 1);
        let ext = if rng.chance(1, 4) { ".md" } else { "" };
        let mut variants = vec![json!([1, 0])];
        for t in [2u64, 3, 8, 16] {
            variants.push(json!([t, rng.below(1000)]));
        }
        variants.push(json!([1, rng.below(1000)]));
        // two processes build the library note by note in a permuted order
        variants.push(json!([1, rng.below(1000), 1]));
        variants.push(json!([3, rng.below(1000), 1]));
        out.push(json!({"ext": ext, "kind": if i % 2 == 1 { "nested" } else { "flat" },
                        "notes": lib.iter().map(|n| json!([n.name, n.text])).collect::<Vec<_>>(), "variants": variants}));
    }
    // large libraries, after the ordinary cases (their random choices come after every choice above)
    for b in 0..(if thorough { 5 } else { 1 }) {
        out.push(big_case(rng, b));
    }
    out
}

const BIG_TITLES: [&str; 8] = ["Weekly review", "Inbox", "Meeting notes", "Todo", "Journal", "Project plan", "Reading list", "Ideas"];
const BIG_SUBS: [&str; 6] = ["Tasks", "Log", "Links", "Open questions", "Next steps", "Summary"];
const BIG_RARE: [&str; 4] = ["Zanzibar", "Quokka", "Xylophone", "Mjolnir"];

/// One large library: 1100-1600 tiny notes.  The first shared title is rare (every 53rd..131st note: all its
/// hits are inside the first 100 results and lie in every slice of the path list), the second one is frequent
/// (every 2nd..5th note: far more than 100 tied hits); `Tasks`-like sub-headings sit under (nearly) every note;
/// one rare word under a handful of notes; a few notes are linked from others, so ranks differ as well.
/// The first library of a run (`b == 0`) is the plain shape: flat names, one sub-heading under every note.
fn big_case(rng: &mut Rng, b: usize) -> Value {
    let n = rng.range(1100, 1600);
    let nested = b % 2 == 1;
    let t0 = rng.below(BIG_TITLES.len());
    let t1 = (t0 + 1 + rng.below(BIG_TITLES.len() - 1)) % BIG_TITLES.len();
    let rare_period = *rng.pick(&[53usize, 71, 97, 113, 131]);
    let freq_period = *rng.pick(&[2usize, 3, 5]);
    let mut titles = vec![json!([BIG_TITLES[t0], rare_period, rng.below(rare_period)])];
    if b > 0 || rng.chance(1, 2) {
        titles.push(json!([BIG_TITLES[t1], freq_period, rng.below(freq_period)]));
    }
    let s0 = rng.below(BIG_SUBS.len());
    let mut subs = vec![json!([BIG_SUBS[s0], 1, 0])];
    if b > 0 {
        let s1 = (s0 + 1 + rng.below(BIG_SUBS.len() - 1)) % BIG_SUBS.len();
        let p = *rng.pick(&[2usize, 3, 7]);
        subs.push(json!([BIG_SUBS[s1], p, rng.below(p)]));
    }
    let word = *rng.pick(&BIG_RARE);
    let wp = rng.range(150, 400);
    let rare = json!([word, wp, rng.below(wp)]);
    let mut refs = vec![];
    for _ in 0..(if b == 0 { 1 } else { rng.range(1, 3) }) {
        let p = rng.range(40, 300);
        // in a nested library the link is a block reference (a paragraph of its own): iwe keys an inline link by
        // its raw url, so `../d1/n0007` typed in d2/ would not count for the rank of d1/n0007 (F-C08-rawurl)
        refs.push(json!([p, rng.below(p), rng.below(n), nested || (b > 0 && rng.chance(1, 2))]));
    }
    let title0 = BIG_TITLES[t0];
    let sub0 = BIG_SUBS[s0];
    let queries = vec![
        json!(""),
        json!(title0),
        json!(sub0),
        json!(word.to_lowercase()),
        json!(format!("{} {}", title0, sub0).to_lowercase()),
    ];
    let mut variants = vec![json!([1, 0])];
    for t in [2u64, 3, 4, 8, 16] {
        variants.push(json!([t, rng.below(1000)]));
    }
    json!({"ext": "", "kind": "big",
           "big": {"n": n, "nested": nested, "titles": titles, "subs": subs, "rare": rare, "refs": refs},
           "queries": queries, "variants": variants})
}

pub fn label(v: &Value) -> String {
    if v.get("big").is_some() {
        return format!("big:notes={}:queries={}:variants={}", v["big"]["n"].as_u64().unwrap_or(0), v["queries"].as_array().map(|a| a.len()).unwrap_or(0),
                       v["variants"].as_array().map(|a| a.len()).unwrap_or(0));
    }
    format!("{}:notes={}:variants={}", v["kind"].as_str().unwrap_or("?"), v["notes"].as_array().map(|a| a.len()).unwrap_or(0),
            v["variants"].as_array().map(|a| a.len()).unwrap_or(0))
}

pub fn module() -> crate::PropModule {
    crate::PropModule { coq_module: "Check_C16", runner: "Check_C16.run_C16", generate, execute, label }
}
