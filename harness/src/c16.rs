//! C16 — results do not depend on thread count, load order or hash seeds.
//! Every library is loaded in several separate processes (a fresh `RandomState` each), with
//! different rayon pool sizes and with the notes inserted into the state in different orders;
//! each process prints the id-free view of everything the server answers (formatted files,
//! titles, block at each line, backlink sets, outline paths, ordered search results) and the
//! exported state.  Coq compares the dumps with each other and the first one with the model.
use crate::gal::*;
use crate::gen;
use crate::hist_stage::idfree;
use crate::lib_stage::{note_in_term, tables_of};
use crate::rng::Rng;
use liwe::database::Database;
use liwe::graph::Graph;
use liwe::model::config::MarkdownOptions;
use liwe::model::Key;
use serde_json::{json, Value};
use std::collections::{BTreeMap, HashMap};

fn notes_of(v: &Value) -> Vec<(String, String)> {
    crate::lib_stage::notes_of(v)
}

fn permute(notes: &[(String, String)], seed: u64) -> Vec<(String, String)> {
    let mut rng = Rng::new(seed.wrapping_add(77));
    let mut v = notes.to_vec();
    for i in (1..v.len()).rev() {
        let j = rng.below(i + 1);
        v.swap(i, j);
    }
    v
}

/// child mode: `harness C16-child <input.json> <perm seed>` (RAYON_NUM_THREADS set by the parent)
pub fn child_main(path: &str, perm: u64) {
    let v: Value = serde_json::from_str(&std::fs::read_to_string(path).unwrap()).unwrap();
    std::panic::set_hook(Box::new(|_| {}));
    let ext = v["ext"].as_str().unwrap_or("");
    let options = MarkdownOptions { refs_extension: ext.to_string() };
    let notes = permute(&notes_of(&v), perm);
    let mut state: HashMap<String, String> = HashMap::new();
    for (n, t) in &notes {
        state.insert(n.clone(), t.clone());
    }
    let texts: BTreeMap<String, String> = notes.iter().map(|(n, t)| (Key::name(n).to_string(), t.clone())).collect();
    let r = std::panic::catch_unwind(std::panic::AssertUnwindSafe(|| {
        let db = Database::new(state.clone(), true, options.clone());
        let dump = idfree(&db, &texts);
        let mut exp: Vec<(String, String)> = db.graph().export().into_iter().collect();
        exp.sort();
        let exp_term = glist(&exp.iter().map(|(k, t)| gpair(&gstr(k), &gstr(t))).collect::<Vec<_>>());
        (dump, exp_term)
    }));
    match r {
        Ok((d, e)) => {
            println!("DUMP {}", d.replace('\n', "\u{1}"));
            println!("EXPORT {}", e.replace('\n', "\u{1}"));
        }
        Err(_) => println!("PANIC"),
    }
}

pub fn execute(v: &Value) -> String {
    let dir = std::env::var("VERIF_WORK").map(std::path::PathBuf::from).unwrap_or_else(|_| std::env::temp_dir());
    static COUNTER: std::sync::atomic::AtomicUsize = std::sync::atomic::AtomicUsize::new(0);
    let f = dir.join(format!("c16_{}_{}.json", std::process::id(), COUNTER.fetch_add(1, std::sync::atomic::Ordering::SeqCst)));
    std::fs::write(&f, v.to_string()).unwrap();
    let exe = std::env::current_exe().unwrap();
    let mut dumps = vec![];
    let mut exports = vec![];
    for var in v["variants"].as_array().unwrap() {
        let threads = var[0].as_u64().unwrap_or(1);
        let perm = var[1].as_u64().unwrap_or(0);
        let out = std::process::Command::new("timeout").arg("60").arg(&exe).arg("C16-child").arg(&f).arg(perm.to_string())
            .env("RAYON_NUM_THREADS", threads.to_string()).output();
        let (d, e) = match out {
            Ok(o) => {
                let so = String::from_utf8_lossy(&o.stdout).to_string();
                let d = so.lines().find(|l| l.starts_with("DUMP ")).map(|l| format!("(Some {})", l["DUMP ".len()..].replace('\u{1}', "\n")));
                let e = so.lines().find(|l| l.starts_with("EXPORT ")).map(|l| l["EXPORT ".len()..].replace('\u{1}', "\n"));
                (d.unwrap_or("None".into()), e.unwrap_or("[]".into()))
            }
            Err(_) => ("None".into(), "[]".into()),
        };
        dumps.push(d);
        exports.push(e);
    }
    let _ = std::fs::remove_file(&f);
    // model inputs: reader blocks of every note (import order) and the table oracle
    let ext = v["ext"].as_str().unwrap_or("");
    let options = MarkdownOptions { refs_extension: ext.to_string() };
    let mut sorted = notes_of(v);
    sorted.sort_by(|a, b| a.0.cmp(&b.0));
    let notes_in: Vec<String> = sorted.iter().map(|(n, t)| note_in_term(n, t, None, &options)).collect();
    let state: HashMap<String, String> = sorted.iter().cloned().collect();
    let tables = match std::panic::catch_unwind(std::panic::AssertUnwindSafe(|| Graph::import(&state, options.clone()))) {
        Ok(g) => sorted.iter().map(|(n, _)| {
            let k = Key::name(n);
            gpair(&gstr(&k.to_string()), &glist(&tables_of(&g, &k, &options).iter().map(|t| gstr(t)).collect::<Vec<_>>()))
        }).collect::<Vec<_>>(),
        Err(_) => vec![],
    };
    gapp("C16C", &[gstr(ext), glist(&notes_in), glist(&tables), glist(&dumps), glist(&exports)])
}

pub fn generate(rng: &mut Rng, thorough: bool) -> Vec<Value> {
    let n = if thorough { 400 } else { 40 };
    let mut out = vec![];
    for i in 0..n {
        let lib = gen::library(rng, i % 4 == 3, 5, i % 2 == 1);
        let ext = if rng.chance(1, 4) { ".md" } else { "" };
        let mut variants = vec![json!([1, 0])];
        for t in [2u64, 3, 8, 16] {
            variants.push(json!([t, rng.below(1000)]));
        }
        variants.push(json!([1, rng.below(1000)]));
        out.push(json!({"ext": ext, "kind": if i % 2 == 1 { "nested" } else { "flat" },
                        "notes": lib.iter().map(|n| json!([n.name, n.text])).collect::<Vec<_>>(), "variants": variants}));
    }
    out
}

pub fn label(v: &Value) -> String {
    format!("{}:notes={}:variants={}", v["kind"].as_str().unwrap_or("?"), v["notes"].as_array().map(|a| a.len()).unwrap_or(0),
            v["variants"].as_array().map(|a| a.len()).unwrap_or(0))
}

pub fn module() -> crate::PropModule {
    crate::PropModule { coq_module: "Check_C16", runner: "Check_C16.run_C16", generate, execute, label }
}
