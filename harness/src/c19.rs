//! C19 — on-disk normalize: runs the *built* `iwe normalize` binary on generated directory
//! trees under `strace`, once cleanly and once per fault point (error / SIGKILL injected at
//! every write, rename, writing open (the probing opens of taken temporary names included) and
//! close of the write phase; RLIMIT_FSIZE), and records
//! the system-call trace restricted to the library plus the directory snapshot afterwards.
//! The loader and the export are also run in process (liwe::fs::new_for_path, Graph::import,
//! Graph::export) to give the expected keys and bytes.  Everything is judged on the Coq side.
use crate::gal::*;
use crate::rng::Rng;
use crate::PropModule;
use serde_json::{json, Value};
use std::collections::{BTreeMap, HashMap};
use std::fs;
use std::os::unix::process::ExitStatusExt;
use std::path::{Path, PathBuf};
use std::process::{Command, Stdio};
use std::sync::atomic::{AtomicUsize, Ordering};
use std::sync::OnceLock;

pub fn module() -> PropModule {
    PropModule { coq_module: "Check_C19", runner: "Check_C19.run", generate, execute, label }
}

// ---------------------------------------------------------------- the binary under test

/// The repository the harness is built against: the directory two levels above the `liwe`
/// path dependency of harness/Cargo.toml (default /repo).
fn repo_dir() -> PathBuf {
    let manifest = PathBuf::from(env!("CARGO_MANIFEST_DIR")).join("Cargo.toml");
    let text = fs::read_to_string(&manifest).expect("harness Cargo.toml");
    for line in text.lines() {
        let l = line.trim();
        if l.starts_with("liwe") && l.contains("path") {
            if let Some(i) = l.find("path") {
                let rest = &l[i..];
                if let (Some(a), Some(b)) = (rest.find('"'), rest.rfind('"')) {
                    if b > a {
                        let p = PathBuf::from(&rest[a + 1..b]);
                        if let Some(repo) = p.parent().and_then(|x| x.parent()) {
                            return repo.to_path_buf();
                        }
                    }
                }
            }
        }
    }
    PathBuf::from("/repo")
}

/// `cargo build --offline -p iwe` of that repository's *current working tree*, into a target
/// directory of the harness (nothing is written under the repository).  Run once per harness
/// invocation, i.e. on every check; cargo's fingerprints make it a no-op when nothing changed.
fn iwe_binary() -> &'static PathBuf {
    static BIN: OnceLock<PathBuf> = OnceLock::new();
    BIN.get_or_init(|| {
        let repo = repo_dir();
        let target = PathBuf::from(env!("CARGO_MANIFEST_DIR")).join("target").join("iwe-bin");
        let out = Command::new("cargo")
            .args(["build", "--offline", "-p", "iwe", "--target-dir"])
            .arg(&target)
            .current_dir(&repo)
            .env("CARGO_NET_OFFLINE", "true")
            .env_remove("RUSTFLAGS")
            .output()
            .expect("cargo is runnable");
        if !out.status.success() {
            eprintln!("{}", String::from_utf8_lossy(&out.stderr));
            eprintln!("C19: `cargo build -p iwe` failed in {}", repo.display());
            std::process::exit(3);
        }
        let bin = target.join("debug").join("iwe");
        assert!(bin.is_file(), "iwe binary not found at {}", bin.display());
        bin
    })
}

fn out_dir() -> PathBuf {
    let args: Vec<String> = std::env::args().collect();
    let mut out = PathBuf::from("_work");
    for i in 0..args.len() {
        if args[i] == "--out" && i + 1 < args.len() {
            out = PathBuf::from(&args[i + 1]);
        }
    }
    if out.is_relative() {
        out = std::env::current_dir().unwrap().join(out);
    }
    out
}

// ---------------------------------------------------------------- inputs

fn file_bytes(f: &Value) -> Vec<u8> {
    if let Some(h) = f.get("hex").and_then(|x| x.as_str()) {
        (0..h.len() / 2).map(|i| u8::from_str_radix(&h[2 * i..2 * i + 2], 16).unwrap()).collect()
    } else {
        f["c"].as_str().unwrap_or("").as_bytes().to_vec()
    }
}

const NOTE_NAMES: &[&str] = &["a", "b", "note", "a b", "é", "日本", "x.y", ".hid", "UP", "n-1", "c d e"];
const DIR_NAMES: &[&str] = &["d", "e", "my dir", ".git", "d.md", "ü", "sub"];
const OTHER_FILES: &[(&str, &str)] = &[
    ("notes.txt", "plain text\n"),
    ("README", "no extension"),
    ("upper.MD", "# not a note\n"),
    ("old.md.bak", "# backup\n"),
    ("page.mdx", "* mdx\n"),
    (".md", "only a dot name"),
    ("data.json", "{\"a\": 1}\n"),
    (".iwe/config.toml", "[markdown]\nrefs_extension = \"\"\n"),
    ("img.png", "\u{fffd}PNG"),
];

/// Markdown the reader and the sections builder handle (headings, paragraphs, flat bullet or
/// ordered lists, links); `style` decides how far from the normal form it is written.
fn gen_content(rng: &mut Rng, keys: &[String]) -> String {
    let style = rng.below(8);
    let words = ["alpha", "beta", "gamma", "straße", "naïve", "日本語", "x_y", "1.5", "end"];
    let mut blocks: Vec<String> = vec![];
    let n = rng.range(0, 4);
    for i in 0..n {
        match rng.below(5) {
            0 => blocks.push(format!("{} {}", "#".repeat(rng.range(1, 3)), rng.pick(&words))),
            1 => {
                let k = rng.range(1, 3);
                let marker = *rng.pick(&["-", "*", "+"]);
                blocks.push((0..k).map(|_| format!("{} {}", marker, rng.pick(&words))).collect::<Vec<_>>().join("\n"));
            }
            2 if !keys.is_empty() => {
                let k = rng.pick(keys).clone();
                blocks.push(format!("[{}]({})", rng.pick(&words), k));
            }
            3 => blocks.push(format!("{} [{}]({}) {}", rng.pick(&words), rng.pick(&words), if keys.is_empty() { "zz".to_string() } else { rng.pick(keys).clone() }, rng.pick(&words))),
            _ => blocks.push(format!("{} {}{}", rng.pick(&words), rng.pick(&words), if i % 2 == 0 { "  " } else { "" })),
        }
    }
    let mut text = match style {
        0 => blocks.join("\n\n") + if blocks.is_empty() { "" } else { "\n" },
        1 => blocks.join("\n\n\n") + "\n\n",
        2 => blocks.join("\n\n"),
        3 => blocks.join("\r\n\r\n") + "\r\n",
        4 => String::new(),
        5 => format!("Title {}\n=====\n\n{}\n", rng.pick(&words), blocks.join("\n\n")),
        6 => format!("---\ntitle: {}\n---\n\n{}\n", rng.pick(&words), blocks.join("\n\n")),
        _ => blocks.join("\n\n") + "\n",
    };
    if text.len() > 200 {
        let mut cut = 200;
        while !text.is_char_boundary(cut) { cut -= 1; }
        text.truncate(cut);
    }
    text
}

fn gen_tree(rng: &mut Rng, hostile: bool) -> Value {
    // directories: root plus up to 3 nested ones
    let mut dirs: Vec<String> = vec![String::new()];
    for _ in 0..rng.range(1, 3) {
        let parent = rng.pick(&dirs).clone();
        let name = *rng.pick(DIR_NAMES);
        let d = if parent.is_empty() { name.to_string() } else { format!("{}/{}", parent, name) };
        if !dirs.contains(&d) && d.matches('/').count() < 3 { dirs.push(d); }
    }
    let n_notes = rng.range(1, 4);
    let mut notes: Vec<(String, String)> = vec![]; // (path, key)
    for _ in 0..n_notes * 2 {
        if notes.len() >= n_notes { break; }
        let d = if rng.chance(1, 2) { dirs[0].clone() } else { rng.pick(&dirs).clone() };
        let name = *rng.pick(NOTE_NAMES);
        let key = if d.is_empty() { name.to_string() } else { format!("{}/{}", d, name) };
        let ext = if hostile && rng.chance(1, 4) { ".md.md" } else { ".md" };
        let path = format!("{}{}", key, ext);
        if !notes.iter().any(|(p, k)| *p == path || (*k == key && !hostile)) { notes.push((path, key)); }
    }
    let keys: Vec<String> = notes.iter().map(|(_, k)| k.clone()).collect();
    let mut files: Vec<Value> = vec![];
    for (p, _) in &notes {
        if hostile && rng.chance(1, 6) {
            files.push(json!({"p": p, "hex": "23206162ff0a"})); // not UTF-8: the loader skips it
        } else {
            files.push(json!({"p": p, "c": gen_content(rng, &keys)}));
        }
    }
    for _ in 0..rng.range(1, 2) {
        let (name, c) = *rng.pick(OTHER_FILES);
        let d = if name.contains('/') || rng.chance(1, 2) { String::new() } else { rng.pick(&dirs).clone() };
        let p = if d.is_empty() { name.to_string() } else { format!("{}/{}", d, name) };
        if !files.iter().any(|f| f["p"] == p.as_str()) && files.len() < 6 { files.push(json!({"p": p, "c": c})); }
    }
    if hostile && rng.chance(1, 5) && files.len() < 6 {
        // a stale temporary sibling of a note, sometimes the next candidate name as well
        let p = format!("{}.tmp", notes[0].0);
        files.push(json!({"p": p, "c": "stale"}));
        if rng.chance(1, 2) && files.len() < 6 {
            let p = format!("{}.1.tmp", notes[0].0);
            files.push(json!({"p": p, "c": "stale 1"}));
        }
    }
    let mut empty_dirs: Vec<String> = dirs.iter().filter(|d| !d.is_empty()).cloned().collect();
    if rng.chance(1, 3) { empty_dirs.push("empty dir".to_string()); }
    json!({"files": files, "dirs": empty_dirs, "kind": if hostile { "hostile" } else { "structured" }})
}

pub fn generate(rng: &mut Rng, thorough: bool) -> Vec<Value> {
    let n = if thorough { 160 } else { 12 };
    (0..n).map(|i| gen_tree(rng, i % 4 == 3)).collect()
}

pub fn label(v: &Value) -> String {
    let files = v["files"].as_array().map(|a| a.len()).unwrap_or(0);
    let nested = v["files"].as_array().map(|a| a.iter().any(|f| f["p"].as_str().unwrap_or("").contains('/'))).unwrap_or(false);
    format!("{}:{}files:{}", v["kind"].as_str().unwrap_or("corpus"), files, if nested { "nested" } else { "flat" })
}

// ---------------------------------------------------------------- trees on disk

fn materialise(root: &Path, v: &Value) {
    fs::create_dir_all(root).unwrap();
    for d in v["dirs"].as_array().cloned().unwrap_or_default() {
        fs::create_dir_all(root.join(d.as_str().unwrap())).unwrap();
    }
    for f in v["files"].as_array().cloned().unwrap_or_default() {
        let p = root.join(f["p"].as_str().unwrap());
        fs::create_dir_all(p.parent().unwrap()).unwrap();
        fs::write(&p, file_bytes(&f)).unwrap();
    }
}

/// (files sorted by path with their bytes, directories sorted), paths relative to `root`
fn snapshot(root: &Path) -> (Vec<(String, Vec<u8>)>, Vec<String>) {
    fn walk(root: &Path, dir: &Path, files: &mut Vec<(String, Vec<u8>)>, dirs: &mut Vec<String>) {
        let mut entries: Vec<_> = fs::read_dir(dir).unwrap().flatten().collect();
        entries.sort_by_key(|e| e.file_name());
        for e in entries {
            let p = e.path();
            let rel = p.strip_prefix(root).unwrap().to_string_lossy().to_string();
            let ft = e.file_type().unwrap();
            if ft.is_dir() {
                dirs.push(rel);
                walk(root, &p, files, dirs);
            } else if ft.is_file() {
                files.push((rel, fs::read(&p).unwrap_or_default()));
            } else {
                files.push((rel, b"<not a regular file>".to_vec()));
            }
        }
    }
    let (mut files, mut dirs) = (vec![], vec![]);
    walk(root, root, &mut files, &mut dirs);
    files.sort();
    dirs.sort();
    (files, dirs)
}

fn copy_tree(from: &Path, to: &Path) {
    fs::create_dir_all(to).unwrap();
    for e in fs::read_dir(from).unwrap().flatten() {
        let p = e.path();
        let q = to.join(e.file_name());
        if e.file_type().unwrap().is_dir() { copy_tree(&p, &q); } else { fs::copy(&p, &q).unwrap(); }
    }
}

// ---------------------------------------------------------------- strace

/// Everything is traced (strace only tampers with calls it traces); the parser keeps the calls
/// that can modify a path under the library.
const TRACE_SET: &str = "trace=all";

#[derive(Clone, Debug)]
enum Op {
    OpenTrunc(String),
    /// open(O_WRONLY|O_CREAT|O_EXCL): the exclusive create of the temporary file
    OpenNew(String),
    Append(String, Vec<u8>),
    Sync(String),
    Close(String),
    Rename(String, String),
    Unlink(String),
    Other(String),
}

#[derive(Clone, Debug)]
struct Ev {
    ok: bool,
    op: Op,
    /// main-thread ordinal of this call among the calls of the same name (for injection)
    ordinal: usize,
    /// main-thread ordinal among all its system calls
    all_ordinal: usize,
    name: String,
    injected: bool,
    /// an exclusive create that answered EEXIST (the probing of a taken temporary name)
    busy: bool,
}

struct Traced {
    status: u8, // 0 exit 0, 1 exit != 0, 2 killed by a signal
    events: Vec<Ev>,
    injected_on_library: bool,
    injected_any: bool,
    /// every completed system call of the main thread: (name, ordinal among calls of that name,
    /// ordinal among all its calls)
    main_calls: Vec<(String, usize, usize)>,
}

fn unhex(s: &str) -> Option<Vec<u8>> {
    // "\x2f\x72..."   (strace -xx); a truncated string ends in "..." after the quote
    let s = s.trim();
    let s = s.strip_suffix("...").unwrap_or(s);
    let s = s.strip_prefix('"')?.strip_suffix('"')?;
    let b = s.as_bytes();
    let mut out = Vec::with_capacity(b.len() / 4);
    let mut i = 0;
    while i < b.len() {
        if i + 3 < b.len() && b[i] == b'\\' && b[i + 1] == b'x' {
            out.push(u8::from_str_radix(std::str::from_utf8(&b[i + 2..i + 4]).ok()?, 16).ok()?);
            i += 4;
        } else {
            return None;
        }
    }
    Some(out)
}

fn rel_path(root: &str, abs: &[u8]) -> Option<String> {
    let s = String::from_utf8_lossy(abs).to_string();
    let prefix = format!("{}/", root);
    s.strip_prefix(&prefix).map(|r| r.to_string())
}

fn parse_trace(text: &str, root: &str) -> (Vec<Ev>, bool, bool, Vec<(String, usize, usize)>) {
    let mut main_calls: Vec<(String, usize, usize)> = vec![];
    let mut pending: HashMap<String, String> = HashMap::new();
    let mut fds: HashMap<i64, String> = HashMap::new();
    let mut counts: HashMap<(String, String), usize> = HashMap::new();
    let mut events = vec![];
    let mut main_pid: Option<String> = None;
    let (mut inj_lib, mut inj_any) = (false, false);
    let mut main_all = 0usize;
    for line in text.lines() {
        let (pid, rest) = match line.find(' ') { Some(i) => (&line[..i], line[i..].trim_start()), None => continue };
        if main_pid.is_none() { main_pid = Some(pid.to_string()); }
        let full: String;
        if rest.starts_with("+++") || rest.starts_with("---") { continue; }
        if main_pid.as_deref() == Some(pid) && !rest.starts_with("<... ") { main_all += 1; }
        if rest.ends_with("<unfinished ...>") {
            let head = rest.trim_end_matches("<unfinished ...>").to_string();
            if head.starts_with("close(") {
                // a descriptor is free for reuse as soon as close(2) is entered: account for it
                // now, not when another thread's view of its return is printed
                pending.insert(pid.to_string(), "#handled".to_string());
                full = format!("{}) = 0", head.trim_end());
            } else {
                pending.insert(pid.to_string(), head);
                continue;
            }
        } else if rest.starts_with("<... ") {
            let tail = match rest.find("resumed>") { Some(i) => &rest[i + 8..], None => continue };
            let head = pending.remove(pid).unwrap_or_default();
            if head == "#handled" { continue; }
            full = format!("{}{}", head, tail);
        } else {
            full = rest.to_string();
        }
        let open = match full.find('(') { Some(i) => i, None => continue };
        let name = full[..open].to_string();
        let eq = match full.rfind(" = ") { Some(i) => i, None => continue };
        let close = match full[..eq].rfind(')') { Some(i) if i > open => i, _ => continue };
        let args: Vec<&str> = full[open + 1..close].split(", ").collect();
        let ret_txt = full[eq + 3..].trim();
        let ret: i64 = ret_txt.split_whitespace().next().and_then(|x| x.parse().ok()).unwrap_or(-1);
        let injected = ret_txt.contains("(INJECTED)");
        if injected { inj_any = true; }
        let is_main = main_pid.as_deref() == Some(pid);
        // When the process is killed inside a call of the main thread, strace closes the open
        // call of every other thread with `= ?` and (observed under load with -f) may print the
        // main thread's call text for them: such lines describe no call of their own.
        if ret_txt.starts_with('?') && !is_main { continue; }
        let ordinal = if is_main {
            let c = counts.entry((pid.to_string(), name.clone())).or_insert(0);
            *c += 1;
            main_calls.push((name.clone(), *c, main_all));
            *c
        } else { 0 };
        let ok = ret >= 0;
        let path_arg = |i: usize| -> Option<String> { args.get(i).and_then(|a| unhex(a)).and_then(|b| rel_path(root, &b)) };
        let fd_arg = |i: usize| -> Option<i64> { args.get(i).and_then(|a| a.trim().parse().ok()) };
        let mut push = |op: Op, events: &mut Vec<Ev>| {
            if injected { inj_lib = true; }
            let busy = !ok && !injected && matches!(op, Op::OpenNew(_)) && ret_txt.contains("EEXIST");
            events.push(Ev { ok, op, ordinal, all_ordinal: if is_main { main_all } else { 0 }, name: name.clone(), injected, busy });
        };
        match name.as_str() {
            "open" | "openat" | "creat" => {
                let (pi, fi) = match name.as_str() { "openat" => (1, 2), _ => (0, 1) };
                let flags = if name == "creat" { "O_WRONLY|O_CREAT|O_TRUNC" } else { args.get(fi).copied().unwrap_or("") };
                let writing = flags.contains("O_WRONLY") || flags.contains("O_RDWR");
                if let Some(p) = path_arg(pi) {
                    if writing {
                        let op = if flags.contains("O_TRUNC") && flags.contains("O_CREAT") && !flags.contains("O_EXCL") && !flags.contains("O_APPEND") {
                            Op::OpenTrunc(p.clone())
                        } else if flags.contains("O_WRONLY") && flags.contains("O_CREAT") && flags.contains("O_EXCL") && !flags.contains("O_TRUNC") && !flags.contains("O_APPEND") {
                            Op::OpenNew(p.clone())
                        } else {
                            Op::Other(format!("open {} {}", p, flags))
                        };
                        if ok { fds.insert(ret, p); }
                        push(op, &mut events);
                    } else if ok {
                        fds.remove(&ret);
                    }
                } else if ok {
                    fds.remove(&ret);
                }
            }
            "write" => {
                if let Some(p) = fd_arg(0).and_then(|fd| fds.get(&fd).cloned()) {
                    let mut data = args.get(1).and_then(|a| unhex(a)).unwrap_or_default();
                    if ok { data.truncate(ret as usize); }
                    push(Op::Append(p, data), &mut events);
                }
            }
            "pwrite64" | "writev" | "pwritev" | "ftruncate" | "fchmod" => {
                if let Some(p) = fd_arg(0).and_then(|fd| fds.get(&fd).cloned()) {
                    push(Op::Other(format!("{} {}", name, p)), &mut events);
                }
            }
            "copy_file_range" | "splice" => {
                if let Some(p) = fd_arg(2).and_then(|fd| fds.get(&fd).cloned()) { push(Op::Other(format!("{} {}", name, p)), &mut events); }
            }
            "sendfile" => {
                if let Some(p) = fd_arg(0).and_then(|fd| fds.get(&fd).cloned()) { push(Op::Other(format!("{} {}", name, p)), &mut events); }
            }
            "fsync" | "fdatasync" => {
                if let Some(p) = fd_arg(0).and_then(|fd| fds.get(&fd).cloned()) { push(Op::Sync(p), &mut events); }
            }
            "close" => {
                if let Some(fd) = fd_arg(0) {
                    if let Some(p) = fds.remove(&fd) { push(Op::Close(p), &mut events); }
                }
            }
            "rename" | "renameat" | "renameat2" => {
                let (a, b) = if name == "rename" { (path_arg(0), path_arg(1)) } else { (path_arg(1), path_arg(3)) };
                let plain = name != "renameat2" || args.get(4).map(|f| f.trim() == "0").unwrap_or(false);
                match (a, b) {
                    (Some(a), Some(b)) if plain => push(Op::Rename(a, b), &mut events),
                    (None, None) => {}
                    (a, b) => push(Op::Other(format!("{} {:?} {:?}", name, a, b)), &mut events),
                }
            }
            "unlink" => { if let Some(p) = path_arg(0) { push(Op::Unlink(p), &mut events); } }
            "unlinkat" => {
                if let Some(p) = path_arg(1) {
                    if args.get(2).map(|f| f.trim() == "0").unwrap_or(false) { push(Op::Unlink(p), &mut events); } else { push(Op::Other(format!("unlinkat {} {}", p, args.get(2).copied().unwrap_or(""))), &mut events); }
                }
            }
            "mkdir" | "rmdir" | "truncate" | "chmod" => { if let Some(p) = path_arg(0) { push(Op::Other(format!("{} {}", name, p)), &mut events); } }
            "mkdirat" | "fchmodat" => { if let Some(p) = path_arg(1) { push(Op::Other(format!("{} {}", name, p)), &mut events); } }
            "link" | "symlink" => { if let Some(p) = path_arg(1).or(path_arg(0)) { push(Op::Other(format!("{} {}", name, p)), &mut events); } }
            "linkat" | "symlinkat" => { if let Some(p) = path_arg(3).or(path_arg(2)).or(path_arg(1)) { push(Op::Other(format!("{} {}", name, p)), &mut events); } }
            _ => {}
        }
    }
    (events, inj_lib, inj_any, main_calls)
}

/// One run of `iwe normalize` in `dir` under strace.  `inject`: strace `-e inject=` spec;
/// `fsize`: RLIMIT_FSIZE in bytes for the traced program (through prlimit(1)).
fn traced_run(dir: &Path, trace_file: &Path, inject: Option<&str>, fsize: Option<u64>) -> Traced {
    let mut cmd = Command::new("strace");
    cmd.args(["-f", "-qq", "-xx", "-s", "1000000", "-o"]).arg(trace_file).args(["-e", TRACE_SET]);
    if let Some(spec) = inject { cmd.arg("-e").arg(format!("inject={}", spec)); }
    if let Some(n) = fsize { cmd.arg("prlimit").arg(format!("--fsize={}", n)); }
    cmd.arg(iwe_binary()).arg("normalize");
    cmd.current_dir(dir).stdin(Stdio::null()).stdout(Stdio::null()).stderr(Stdio::null());
    cmd.env_remove("IWE_DEBUG").env_remove("RUST_LOG").env("RUST_BACKTRACE", "0");
    let st = cmd.status().expect("strace is runnable");
    let status = if st.signal().is_some() { 2 } else if st.code() == Some(0) { 0 } else { 1 };
    let text = String::from_utf8_lossy(&fs::read(trace_file).unwrap_or_default()).to_string();
    let root = dir.to_string_lossy().to_string();
    let (events, inj_lib, inj_any, main_calls) = parse_trace(&text, &root);
    Traced { status, events, injected_on_library: inj_lib, injected_any: inj_any, main_calls }
}

// ---------------------------------------------------------------- Gallina

fn gbytes(b: &[u8]) -> String {
    let safe = b.iter().all(|&c| c == b'\n' || c == b'\t' || (0x20..0x7f).contains(&c) || c >= 0x80);
    match std::str::from_utf8(b) {
        Ok(s) if safe => gstr(s),
        _ => format!("(sb [{}]%N)", b.iter().map(|x| x.to_string()).collect::<Vec<_>>().join(";")),
    }
}
fn gs(s: &str) -> String { gbytes(s.as_bytes()) }

fn gop(op: &Op) -> String {
    match op {
        Op::OpenTrunc(p) => gapp("OpenTrunc", &[gstr(p)]),
        Op::OpenNew(p) => gapp("OpenNew", &[gstr(p)]),
        Op::Append(p, d) => gapp("Append", &[gstr(p), gbytes(d)]),
        Op::Sync(p) => gapp("Sync", &[gstr(p)]),
        Op::Close(p) => gapp("Close", &[gstr(p)]),
        Op::Rename(a, b) => gapp("Rename", &[gstr(a), gstr(b)]),
        Op::Unlink(p) => gapp("Unlink", &[gstr(p)]),
        Op::Other(w) => gapp("Other", &[gstr(w)]),
    }
}

fn gfs(files: &[(String, Vec<u8>)]) -> String {
    glist(&files.iter().map(|(p, b)| gpair(&gstr(p), &gbytes(b))).collect::<Vec<_>>())
}

fn gfrun(kind: u64, arg: u64, t: &Traced, snap: &(Vec<(String, Vec<u8>)>, Vec<String>)) -> String {
    let evs: Vec<String> = t.events.iter().map(|e| gapp(if e.ok { "Check_C19.Done" } else if e.busy { "Check_C19.Busy" } else { "Check_C19.Failed" }, &[gop(&e.op)])).collect();
    gapp("Check_C19.FRun", &[gn(kind), gn(arg), gn(t.status as u64), glist(&evs), gfs(&snap.0), glist(&snap.1.iter().map(|d| gstr(d)).collect::<Vec<_>>())])
}

#[derive(Default)]
struct TreeNode { file: Option<Vec<u8>>, children: BTreeMap<String, TreeNode> }

fn gtree(children: &BTreeMap<String, TreeNode>) -> String {
    let items: Vec<String> = children.iter().map(|(name, n)| match &n.file {
        Some(b) => gapp("File", &[gstr(name), gbytes(b)]),
        None => gapp("Dir", &[gstr(name), gtree(&n.children)]),
    }).collect();
    glist(&items)
}

fn tree_of(v: &Value) -> BTreeMap<String, TreeNode> {
    let mut root: BTreeMap<String, TreeNode> = BTreeMap::new();
    fn dir<'a>(root: &'a mut BTreeMap<String, TreeNode>, parts: &[&str]) -> &'a mut BTreeMap<String, TreeNode> {
        let mut cur = root;
        for p in parts { cur = &mut cur.entry(p.to_string()).or_default().children; }
        cur
    }
    for d in v["dirs"].as_array().cloned().unwrap_or_default() {
        let parts: Vec<&str> = d.as_str().unwrap().split('/').collect();
        dir(&mut root, &parts);
    }
    for f in v["files"].as_array().cloned().unwrap_or_default() {
        let p = f["p"].as_str().unwrap().to_string();
        let parts: Vec<&str> = p.split('/').collect();
        let (name, dirs) = parts.split_last().unwrap();
        dir(&mut root, dirs).entry(name.to_string()).or_default().file = Some(file_bytes(&f));
    }
    root
}

// ---------------------------------------------------------------- one case

static CASE_NO: AtomicUsize = AtomicUsize::new(0);

/// Diagnostic only (the verdict is computed in Coq): which note of a fault run holds neither
/// its old nor its exported bytes.
fn damaged(before: &[(String, Vec<u8>)], after: &[(String, Vec<u8>)], export: &HashMap<String, String>) -> Option<String> {
    for (p, old) in before {
        let now = after.iter().find(|(q, _)| q == p).map(|(_, b)| b.clone());
        let key = p.strip_suffix(".md").unwrap_or(p);
        let new = if p.ends_with(".md") { export.get(key).map(|s| s.as_bytes().to_vec()) } else { None };
        if now.as_ref() != Some(old) && (new.is_none() || now != new) {
            return Some(format!("{} holds {:?} (old {:?}, new {:?})", p, now.map(|b| String::from_utf8_lossy(&b).to_string()), String::from_utf8_lossy(old), new.map(|b| String::from_utf8_lossy(&b).to_string())));
        }
    }
    None
}

const KIND_TEXT: &[&str] = &["clean run", "ENOSPC injected at write", "SIGKILL on entering write", "EIO injected at rename", "SIGKILL on entering rename", "RLIMIT_FSIZE bytes", "ENOSPC injected at the writing open", "SIGKILL on entering the writing open", "SIGKILL on entering close of the written file", "SIGKILL on entering main-thread system call"];

pub fn execute(v: &Value) -> String {
    let n = CASE_NO.fetch_add(1, Ordering::SeqCst);
    let work = out_dir().join("c19_trees").join(format!("{:04}", n));
    let _ = fs::remove_dir_all(&work);
    let base = work.join("base");
    materialise(&base, v);
    let before = snapshot(&base);

    // in process: the real loader and the real export on this very tree
    let base2 = base.clone();
    let lib = std::panic::catch_unwind(move || {
        let state = liwe::fs::new_for_path(&base2);
        let graph = liwe::graph::Graph::import(&state, Default::default());
        (state, graph.export())
    });
    let (state, export) = lib.unwrap_or_default();
    let mut loaded: Vec<(String, String)> = state.into_iter().collect();
    loaded.sort();
    let mut exported: Vec<(String, String)> = export.iter().map(|(k, v)| (k.clone(), v.clone())).collect();
    exported.sort();

    // clean run
    let run_dir = |tag: &str| -> PathBuf { let d = work.join(tag).join("lib"); copy_tree(&base, &d); d };
    let d0 = run_dir("clean");
    let clean = traced_run(&d0, &work.join("clean").join("trace"), None, None);
    let clean_snap = snapshot(&d0);

    // fault plan from the clean run's main-thread ordinals
    let mut plan: Vec<(u64, u64, Option<String>, Option<u64>)> = vec![]; // kind, arg, inject spec, fsize
    if v.get("faults").and_then(|x| x.as_str()) != Some("none") {
        for e in &clean.events {
            if e.ordinal == 0 { continue; }
            let k = e.ordinal as u64;
            match (&e.op, e.name.as_str()) {
                (Op::Append(..), "write") => {
                    plan.push((1, k, Some(format!("write:error=ENOSPC:when={}", k)), None));
                    plan.push((2, k, Some(format!("write:signal=SIGKILL:when={}", k)), None));
                }
                (Op::Rename(..), name) => {
                    plan.push((3, k, Some(format!("{}:error=EIO:when={}", name, k)), None));
                }
                (Op::OpenTrunc(..), name) | (Op::OpenNew(..), name) => {
                    plan.push((6, k, Some(format!("{}:error=ENOSPC:when={}", name, k)), None));
                }
                _ => {}
            }
        }
        // the process can die between any two system calls: SIGKILL on entering the k-th call of
        // the main thread, for every k of the write phase (with a margin: the number of calls
        // before the phase varies a little with thread scheduling)
        // (strace counts `when=` per system-call name, so each call of the phase is addressed by
        // its name and its ordinal among the main thread's calls of that name)
        let ords: Vec<usize> = clean.events.iter().filter(|e| e.all_ordinal > 0).map(|e| e.all_ordinal).collect();
        if let (Some(lo), Some(hi)) = (ords.iter().min(), ords.iter().max()) {
            for (name, ord, all) in &clean.main_calls {
                if *all >= *lo && *all <= hi + 2 && name.chars().all(|c| c.is_ascii_alphanumeric() || c == '_') {
                    plan.push((9, *all as u64, Some(format!("{}:signal=SIGKILL:when={}", name, ord)), None));
                }
            }
        }
        let longest = exported.iter().map(|(_, b)| b.len() as u64).max().unwrap_or(0);
        let mut limits = vec![0u64, 1, 7, longest / 2, longest.saturating_sub(1)];
        limits.sort();
        limits.dedup();
        for l in limits { plan.push((5, l, None, Some(l))); }
    }
    let workers = 8usize;
    let results: Vec<Option<(u64, u64, Traced, (Vec<(String, Vec<u8>)>, Vec<String>))>> = {
        let plan_ref = &plan;
        let work_ref = &work;
        let base_ref = &base;
        let mut out: Vec<Option<_>> = (0..plan.len()).map(|_| None).collect();
        let chunks: Vec<Vec<usize>> = (0..workers).map(|w| (0..plan.len()).filter(|i| i % workers == w).collect()).collect();
        let parts: Vec<Vec<(usize, _)>> = std::thread::scope(|s| {
            let hs: Vec<_> = chunks.into_iter().map(|idxs| s.spawn(move || {
                idxs.into_iter().map(|i| {
                    let (kind, arg, spec, fsize) = &plan_ref[i];
                    let d = work_ref.join(format!("f{:03}", i)).join("lib");
                    copy_tree(base_ref, &d);
                    let t = traced_run(&d, &work_ref.join(format!("f{:03}", i)).join("trace"), spec.as_deref(), *fsize);
                    let snap = snapshot(&d);
                    let _ = fs::remove_dir_all(&d);
                    (i, (*kind, *arg, t, snap))
                }).collect::<Vec<_>>()
            })).collect();
            hs.into_iter().map(|h| h.join().unwrap()).collect()
        });
        for part in parts { for (i, r) in part { out[i] = Some(r); } }
        out
    };
    let mut faults = vec![];
    let mut diag: Option<String> = None;
    for r in results.into_iter().flatten() {
        let (kind, arg, t, snap) = r;
        // an injection that did not hit a call on a library path (ordinals moved) says nothing
        if kind != 5 && kind != 9 && t.injected_any && !t.injected_on_library { continue; }
        if diag.is_none() {
            if let Some(d) = damaged(&before.0, &snap.0, &export) {
                diag = Some(format!("crash point: {} #{} -> {}", KIND_TEXT[kind as usize], arg, d));
            }
        }
        faults.push(gfrun(kind, arg, &t, &snap));
    }
    if let Some(d) = diag {
        use std::io::Write;
        if let Ok(mut f) = fs::OpenOptions::new().create(true).append(true).open(out_dir().join("diag.jsonl")) {
            let _ = writeln!(f, "{}", json!({"case_input": v, "diag": d}));
        }
    }
    let _ = fs::remove_dir_all(work.join("clean").join("lib"));

    gapp(
        "Check_C19.Case",
        &[
            gtree(&tree_of(v)),
            gfs(&before.0),
            glist(&before.1.iter().map(|d| gstr(d)).collect::<Vec<_>>()),
            glist(&loaded.iter().map(|(k, c)| gpair(&gs(k), &gs(c))).collect::<Vec<_>>()),
            glist(&exported.iter().map(|(k, c)| gpair(&gs(k), &gs(c))).collect::<Vec<_>>()),
            gfrun(0, 0, &clean, &clean_snap),
            glist(&faults),
        ],
    )
}
