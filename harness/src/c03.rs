//! C03 — no document can crash, hang or kill the server or CLI.
//! Every input text is loaded into a real `Server` together with a second note that links to
//! it; then every operation the property lists is run on it (format, symbols, hints,
//! references, go-to-definition / prepare-rename at a grid of positions incl. past the end,
//! code actions at every line with every offered action resolved, edit notifications), each
//! under `catch_unwind`.  The observation is the outcome (ok / panic + message) per operation
//! group.  Long and deeply nested inputs run in a child process on a 2 MiB thread (the stack a
//! request worker has), so an abort or a hang is an observation too.
use crate::dump;
use crate::gal::*;
use crate::gen;
use crate::lib_stage::{gres, panic_msg};
use crate::rng::Rng;
use iwes::router::server::Server;
use iwes::router::{LspClient, ServerConfig};
use liwe::graph::Reader;
use liwe::markdown::MarkdownReader;
use liwe::model::config::Configuration;
use lsp_types::*;
use serde_json::{json, Value};
use std::collections::HashMap;
use std::panic::{catch_unwind, AssertUnwindSafe};

const BASE: &str = "/basepath";

fn uri(key: &str) -> Url {
    Url::from_file_path(format!("{}/{}.md", BASE, key)).unwrap()
}

fn doc(key: &str) -> TextDocumentIdentifier {
    TextDocumentIdentifier { uri: uri(key) }
}

fn guard<T>(f: impl FnOnce() -> T) -> Result<T, String> {
    catch_unwind(AssertUnwindSafe(f)).map_err(panic_msg)
}

fn first_err(v: Vec<Result<(), String>>) -> Result<(), String> {
    for r in v {
        r?;
    }
    Ok(())
}

fn positions(text: &str) -> Vec<Position> {
    let lines: Vec<&str> = text.split('\n').collect();
    let mut out = vec![];
    let n = lines.len().min(60);
    for l in 0..n {
        let len = lines[l].chars().count();
        let mut cols: Vec<usize> = vec![0, 1, 2, 3, 5, 8, len / 2, len.saturating_sub(1), len, len + 1, len + 7];
        cols.sort();
        cols.dedup();
        for c in cols {
            out.push(Position::new(l as u32, c as u32));
        }
    }
    out.push(Position::new(lines.len() as u32 + 3, 0));
    out.push(Position::new(u32::MAX / 2, 4));
    out
}

/// all operation groups on one text; returns (group name, outcome)
pub fn run_ops(text: &str) -> Vec<(&'static str, Result<(), String>)> {
    let mut out: Vec<(&'static str, Result<(), String>)> = vec![];
    out.push(("reader", guard(|| { MarkdownReader::new().document(text); })));
    let mut state: HashMap<String, String> = HashMap::new();
    state.insert("n".to_string(), text.to_string());
    state.insert("o".to_string(), "# other\n\ninline [n](n) link\n\n[n](n)\n\n[[missing]]\n".to_string());
    let server = guard(|| {
        Server::new(ServerConfig {
            base_path: BASE.to_string(),
            state: state.clone(),
            sequential_ids: Some(true),
            configuration: Configuration::default(),
            lsp_client: LspClient::Unknown,
        })
    });
    let mut server = match server {
        Ok(s) => { out.push(("load", Ok(()))); s }
        Err(e) => { out.push(("load", Err(e))); return out; }
    };
    let fmt_opts = FormattingOptions { tab_size: 2, insert_spaces: true, ..Default::default() };
    out.push(("format", guard(|| {
        for k in ["n", "o"] {
            server.handle_document_formatting(DocumentFormattingParams { text_document: doc(k), options: fmt_opts.clone(), work_done_progress_params: Default::default() });
        }
    })));
    out.push(("symbols", guard(|| {
        for k in ["n", "o"] {
            server.handle_document_symbols(DocumentSymbolParams { text_document: doc(k), work_done_progress_params: Default::default(), partial_result_params: Default::default() });
        }
        for q in ["", "a", "other"] {
            server.handle_workspace_symbols(WorkspaceSymbolParams { query: q.to_string(), work_done_progress_params: Default::default(), partial_result_params: Default::default() });
        }
    })));
    out.push(("hints", guard(|| {
        for k in ["n", "o"] {
            server.handle_inlay_hints(InlayHintParams { text_document: doc(k), range: Range::default(), work_done_progress_params: Default::default() });
        }
    })));
    let pos = positions(text);
    out.push(("references", first_err(pos.iter().step_by(3).map(|p| guard(|| {
        server.handle_references(ReferenceParams {
            text_document_position: TextDocumentPositionParams { text_document: doc("n"), position: *p },
            context: ReferenceContext { include_declaration: false },
            work_done_progress_params: Default::default(), partial_result_params: Default::default() });
    })).collect())));
    out.push(("definition", first_err(pos.iter().map(|p| guard(|| {
        server.handle_goto_definition(GotoDefinitionParams {
            text_document_position_params: TextDocumentPositionParams { text_document: doc("n"), position: *p },
            work_done_progress_params: Default::default(), partial_result_params: Default::default() });
    })).collect())));
    out.push(("prepare_rename", first_err(pos.iter().map(|p| guard(|| {
        server.handle_prepare_rename(TextDocumentPositionParams { text_document: doc("n"), position: *p });
    })).collect())));
    out.push(("completion", first_err(pos.iter().step_by(7).map(|p| guard(|| {
        server.handle_completion(CompletionParams {
            text_document_position: TextDocumentPositionParams { text_document: doc("n"), position: *p },
            context: None, work_done_progress_params: Default::default(), partial_result_params: Default::default() });
    })).collect())));
    // code actions at every line, every offered action resolved
    let n_lines = text.split('\n').count().min(80) + 1;
    let mut offered = vec![];
    out.push(("code_action", first_err((0..n_lines).map(|l| {
        let r = guard(|| server.handle_code_action(&CodeActionParams {
            text_document: doc("n"),
            range: Range::new(Position::new(l as u32, 0), Position::new(l as u32, 0)),
            context: CodeActionContext::default(),
            work_done_progress_params: Default::default(), partial_result_params: Default::default() }));
        match r {
            Ok(actions) => { offered.extend(actions); Ok(()) }
            Err(e) => Err(e),
        }
    }).collect())));
    out.push(("code_action_resolve", first_err(offered.iter().map(|a| {
        match a {
            CodeActionOrCommand::CodeAction(ca) => guard(|| { server.handle_code_action_resolve(ca); }),
            _ => Ok(()),
        }
    }).collect())));
    // edit notifications: same text, grown text, emptied, restored
    let change = |t: String| DidChangeTextDocumentParams {
        text_document: VersionedTextDocumentIdentifier { uri: uri("n"), version: 1 },
        content_changes: vec![TextDocumentContentChangeEvent { range: None, range_length: None, text: t }],
    };
    let mut r = Ok(());
    for t in [text.to_string(), format!("{}\n\nmore [o](o)\n", text), String::new(), text.to_string()] {
        let p = change(t);
        if let Err(e) = catch_unwind(AssertUnwindSafe(|| server.handle_did_change_text_document(p))) {
            r = Err(panic_msg(e));
            break;
        }
    }
    out.push(("did_change", r.clone()));
    if r.is_ok() {
        out.push(("after_change", guard(|| {
            server.handle_document_formatting(DocumentFormattingParams { text_document: doc("n"), options: fmt_opts.clone(), work_done_progress_params: Default::default() });
            server.handle_workspace_symbols(WorkspaceSymbolParams { query: "".to_string(), work_done_progress_params: Default::default(), partial_result_params: Default::default() });
            server.handle_inlay_hints(InlayHintParams { text_document: doc("n"), range: Range::default(), work_done_progress_params: Default::default() });
        })));
    }
    out
}

const GROUPS: &[&str] = &["reader", "load", "format", "symbols", "hints", "references", "definition", "prepare_rename", "completion",
    "code_action", "code_action_resolve", "did_change", "after_change"];

fn outcomes_term(ops: &[(&'static str, Result<(), String>)]) -> String {
    glist(&ops.iter().map(|(g, r)| {
        let idx = GROUPS.iter().position(|x| x == g).unwrap() + 1;
        gpair(&gn(idx as u64), &match r { Ok(()) => "None".to_string(), Err(e) => format!("(Some {})", gstr(&e.chars().take(120).collect::<String>())) })
    }).collect::<Vec<_>>())
}

/// child mode: `harness C03-child <file>`: run all operations on a 2 MiB thread (the stack a
/// request worker has), print the reader blocks and the outcomes
pub fn child_main(path: &str) {
    let text = std::fs::read_to_string(path).unwrap();
    std::panic::set_hook(Box::new(|_| {}));
    if text.len() < 20000 {
        let t2 = text.clone();
        let h = std::thread::Builder::new().stack_size(64 * 1024 * 1024).spawn(move || {
            let doc = catch_unwind(AssertUnwindSafe(|| MarkdownReader::new().document(&t2)));
            match doc { Ok(d) => Ok(dump::dblocks(&d.blocks)), Err(e) => Err(panic_msg(e)) }
        }).unwrap();
        if let Ok(b) = h.join() {
            println!("BLOCKS {}", gres(b).replace('\n', "\u{1}"));
        }
    }
    let h = std::thread::Builder::new().stack_size(2 * 1024 * 1024).spawn(move || run_ops(&text)).unwrap();
    match h.join() {
        Ok(ops) => println!("OUTCOMES {}", outcomes_term(&ops).replace('\n', " ")),
        Err(_) => println!("OUTCOMES [(2, (Some \"worker thread panicked\"))]"),
    }
}

pub fn execute_with(v: &Value, work_dir: &std::path::Path) -> String {
    let text = v["text"].as_str().unwrap_or("");
    static COUNTER: std::sync::atomic::AtomicUsize = std::sync::atomic::AtomicUsize::new(0);
    let f = work_dir.join(format!("c03_child_{}_{}.md", std::process::id(), COUNTER.fetch_add(1, std::sync::atomic::Ordering::SeqCst)));
    std::fs::write(&f, text).unwrap();
    let exe = std::env::current_exe().unwrap();
    let out = std::process::Command::new("timeout").arg("60").arg(exe).arg("C03-child").arg(&f).output();
    let _ = std::fs::remove_file(&f);
    let mut blocks = "(Panic \"not dumped\")".to_string();
    let outcomes = match out {
        Ok(o) => {
            let so = String::from_utf8_lossy(&o.stdout).to_string();
            if let Some(l) = so.lines().find(|l| l.starts_with("BLOCKS ")) {
                blocks = l["BLOCKS ".len()..].replace('\u{1}', "\n");
            }
            match so.lines().find(|l| l.starts_with("OUTCOMES ")) {
                Some(l) => l["OUTCOMES ".len()..].to_string(),
                None => {
                    let why = if o.status.code() == Some(124) { "timeout (hang)".to_string() } else { format!("process died: {:?}", o.status) };
                    format!("[(2, (Some {}))]", gstr(&why))
                }
            }
        }
        Err(e) => format!("[(2, (Some {}))]", gstr(&format!("spawn failed: {}", e))),
    };
    let shape = v["shape"].as_str().unwrap_or("");
    let size = v["size"].as_u64().unwrap_or(0);
    gapp("C3", &[gstr(shape), gn(size), gbool(text.contains('\r')), blocks, outcomes])
}

pub fn execute(v: &Value) -> String {
    let dir = std::env::var("VERIF_WORK").map(std::path::PathBuf::from).unwrap_or_else(|_| std::env::temp_dir());
    execute_with(v, &dir)
}

// ------------------------------------------------------------------ generators

const TOKENS: &[&str] = &["#", "##", "-", "- ", "* ", "+ ", ">", "> ", "`", "```", "~~~", "|", "| a | b |", "|---|---|", "[", "]", "(", ")", "[[", "]]",
    "1.", "1. ", "2) ", "10. ", " ", "  ", "    ", "\t", "\r\n", "\n", "\n\n", "é", "日本", "😀", "a", "word", "***", "---", "===", "<div>", "</div>",
    "<!--", "-->", "![", "](x)", "[x](n)", "[[n]]", "[x](o)", "\\", "&amp;", "$", "$$", "^[", "[^1]", "[^1]:", ":", "- [ ] ", "- [x] ", "\u{a0}", "\u{2028}", "\0"];

fn malformed(rng: &mut Rng) -> String {
    let n = rng.range(1, 40);
    let mut s = String::new();
    for _ in 0..n {
        s.push_str(*rng.pick(TOKENS));
    }
    s
}

fn big(shape: &str, size: usize) -> String {
    match shape {
        "long-paragraphs" => (0..size).map(|i| format!("para {}\n\n", i)).collect(),
        "long-headings" => (0..size).map(|i| format!("# h {}\n\n", i)).collect(),
        "long-list" => (0..size).map(|i| format!("- item {}\n", i)).collect(),
        "long-refs" => (0..size).map(|_| "[o](o)\n\n".to_string()).collect(),
        "deep-quotes" => format!("{} deep\n", ">".repeat(size)),
        "deep-lists" => (0..size).map(|i| format!("{}- l{}\n", "  ".repeat(i), i)).collect(),
        "deep-headings" => (0..size).map(|i| format!("{} h{}\n\n", "#".repeat(1 + i % 6), i)).collect(),
        "long-line" => format!("{}\n", "word [l](o) ".repeat(size)),
        "wide-table" => format!("|{}\n|{}\n|{}\n", " a |".repeat(size), "---|".repeat(size), " [x](o) |".repeat(size)),
        "deep-emphasis" => format!("{}x{}\n", "*_".repeat(size), "_*".repeat(size)),
        _ => String::new(),
    }
}

pub fn generate(rng: &mut Rng, thorough: bool) -> Vec<Value> {
    let mut out = vec![];
    let n = if thorough { 1500 } else { 150 };
    let targets = vec!["n".to_string(), "o".to_string(), "missing".to_string(), "заметки".to_string(), "日本語ノート".to_string(), "notes-éé".to_string()];
    for i in 0..n {
        let (kind, text) = match i % 3 {
            0 => ("structured", {
                let ctx = gen::Ctx { targets: &targets, hostile: false, max_depth: 3 };
                gen::document_src(&gen::document(rng, &ctx), &gen::Style::random(rng), if rng.chance(1, 8) { Some("a: b\n") } else { None })
            }),
            1 => ("hostile", {
                let ctx = gen::Ctx { targets: &targets, hostile: true, max_depth: 4 };
                gen::document_src(&gen::document(rng, &ctx), &gen::Style::random(rng), None)
            }),
            _ => ("malformed", malformed(rng)),
        };
        out.push(json!({"kind": kind, "shape": kind, "size": text.len(), "mode": "inproc", "text": text}));
    }
    let sizes: &[usize] = if thorough { &[50, 300, 1000, 3000, 10000] } else { &[50, 400] };
    for shape in ["long-paragraphs", "long-headings", "long-list", "long-refs", "deep-quotes", "deep-lists", "deep-headings", "long-line", "wide-table", "deep-emphasis"] {
        for &size in sizes {
            let size = if shape.starts_with("deep") { size.min(1000) } else { size };
            out.push(json!({"kind": "big", "shape": shape, "size": size, "mode": "child", "text": big(shape, size)}));
        }
    }
    out
}

pub fn label(v: &Value) -> String {
    let k = v["kind"].as_str().unwrap_or("?");
    if k == "big" { format!("big:{}:{}", v["shape"].as_str().unwrap_or(""), v["size"]) } else { k.to_string() }
}

pub fn module() -> crate::PropModule {
    crate::PropModule { coq_module: "Check_C03", runner: "Check_C03.run_C03", generate, execute, label }
}
